#!/bin/bash
# integrate.sh Cxx : copy a builder's deliverables from /tmp/ag-Cxx/verif into /verif
set -e
P=$1; p=$(echo $P | tr 'C' 'c'); A=/tmp/ag-$P/verif
cd $A
# every file that differs from /verif, restricted to per-property namespaces
for f in $(find lean/JrsVerif/Model lean/JrsVerif/Proofs lean/JrsVerif/Spec lean/JrsVerif/Props/$P.lean lean/JrsVerif/Drv/$P.lean lean/JrsVerif/Drv/$P extract/ex_*.py harness/src/engines/$p.rs harness/src/engines/${p}_* harness/src/engines/$p checks/props/$P.py checks/classifiers/$P.py checks/${p}_* checks/$P* harness/corpus/$P 2>/dev/null -type f); do
  if [ ! -f /verif/$f ] || ! cmp -s $f /verif/$f; then
    case $f in
      lean/JrsVerif/Model/*|lean/JrsVerif/Proofs/*|lean/JrsVerif/Spec/*|extract/ex_*)
        # shared namespaces: only files that do not exist yet in /verif (never overwrite another property's file)
        if [ -f /verif/$f ]; then echo "SKIP existing $f"; continue; fi;;
    esac
    mkdir -p /verif/$(dirname $f); cp $f /verif/$f; echo "copied $f"
  fi
done
echo "--- other differing files (not copied):"
diff -rq --exclude=.lake --exclude=target --exclude=target-repo --exclude=work --exclude=replays --exclude=evidence --exclude=__pycache__ --exclude=.git --exclude=Audit --exclude=Generated $A /verif 2>/dev/null | grep -v "Only in /verif" | head -30
