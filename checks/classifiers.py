"""Named classifiers for known findings.  Each recognises ONE defect by its failing observable at
one call site (never by property id alone).  signature: fn(op, impl, model, args) -> bool.
Definitions live in checks/classifiers/Cxx.py; this module re-exports them all."""
import importlib.util, os
_d = os.path.join(os.path.dirname(os.path.abspath(__file__)), "classifiers")
for _f in sorted(os.listdir(_d)):
    if _f.endswith(".py") and _f[0] == "C":
        _spec = importlib.util.spec_from_file_location("cl_" + _f[:-3], os.path.join(_d, _f))
        _m = importlib.util.module_from_spec(_spec)
        _spec.loader.exec_module(_m)
        for _k, _v in vars(_m).items():
            if callable(_v) and not _k.startswith("_"):
                globals()[_k] = _v
