"""Named classifiers for known findings: each recognises ONE defect by its failing observable at
one call site (never by property id alone).  signature: fn(op, impl, model, args) -> bool"""
