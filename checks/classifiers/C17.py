# Known findings for C17.  The three location defects (byte offsets compared with char indices in
# offset_to_location; only one pending offset resolved per character; print_code_location's
# multi-line branch) were repaired by fix: commits and have no classifier.
# The classifiers below recognise panics of the error-tolerant rowan parser (used by the
# formatter) on malformed input: no tree is produced, so the input text is lost.


def _tree_panic(op, impl):
    return op.get("op") == "tree.text" and isinstance(impl, dict) and isinstance(impl.get("panic"), str)


def rowan_function_without_lparen(op, impl, model, args):
    """`function` not followed by `(`: params_desc -> bump_assert(L_PAREN) (parser.rs:167)"""
    return _tree_panic(op, impl) and impl["panic"].startswith("expected L_PAREN")


def rowan_import_without_string(op, impl, model, args):
    """`import`/`importstr`/`importbin` not followed by a string: text() asserts (parser.rs:855)"""
    return _tree_panic(op, impl) and impl["panic"].startswith("assertion failed: Text::can_cast(p.current())")


def rowan_bump_at_end(op, impl, model, args):
    """a token is bumped although the input is exhausted: bump_remap's assert_ne (parser.rs:174)"""
    return _tree_panic(op, impl) and "already at end" in impl["panic"]
