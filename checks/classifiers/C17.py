# Known findings for C17.  The three location defects (byte offsets compared with char indices in
# offset_to_location; only one pending offset resolved per character; print_code_location's
# multi-line branch) were repaired by fix: commits and have no classifier.
# The classifiers below recognise panics of the error-tolerant rowan parser (used by the
# formatter) on malformed input: no tree is produced, so the input text is lost.


def _tree_panic(op, impl):
    return op.get("op") == "tree.text" and isinstance(impl, dict) and isinstance(impl.get("panic"), str)


def rowan_function_without_lparen(op, impl, model, args):
    """`function` not followed by `(`: params_desc -> bump_assert(L_PAREN) (parser.rs:167)"""
    return _tree_panic(op, impl) and impl["panic"].startswith("expected L_PAREN")


def rowan_import_without_string(op, impl, model, args):
    """`import`/`importstr`/`importbin` not followed by a string: text() asserts (parser.rs:855)"""
    return _tree_panic(op, impl) and impl["panic"].startswith("assertion failed: Text::can_cast(p.current())")


def rowan_bump_at_end(op, impl, model, args):
    """a token is bumped although the input is exhausted: bump_remap's assert_ne (parser.rs:174)"""
    return _tree_panic(op, impl) and "already at end" in impl["panic"]


def jsformat_column_one_too_large(op, impl, model, args):
    """JsFormat (`at desc (path:line:column)`) prints CodeLocation.column as it is: the 1-based column
    plus one (CompactFormat subtracts the one).  Matches only loc.js cases in which every frame has
    the reference line and, where a column is demanded, exactly the reference column + 1."""
    if op.get("op") != "loc.js" or not isinstance(impl, dict) or not isinstance(model, dict):
        return False
    got, ref = impl.get("pos"), (model.get("spec") or {}).get("pos")
    if not isinstance(got, list) or not isinstance(ref, list) or len(got) != len(ref) or not got:
        return False
    for g, r in zip(got, ref):
        if not (isinstance(g, list) and isinstance(r, list) and len(g) == 2 and len(r) == 2):
            return False
        if g[0] != r[0]:
            return False
        if (g[1] is None) != (r[1] is None):
            return False
        if g[1] is not None and g[1] != r[1] + 1:
            return False
    return True
