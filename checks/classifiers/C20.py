# Known findings for C20 (formatter).  The five crash defects (parser panics on `function`/`import`
# /end-of-input, diagnostic-range underflow / out-of-bounds, raw tabs and newlines sent to the
# printer) and, since round 4, all known layout defects (a second pass re-laying-out the text) were
# repaired by fix: commits and have no classifier.
#
# What remains are (1) symptom classifiers of first-pass outputs that did not parse any more
# (formatter defects owned by C19, all repaired there; no finding line refers to them any longer)
# and (3) limits of the layout engine on deep nesting.  A second pass that changes anything, fails
# to parse, panics or does not settle is never classified.
import re


# ------------------------------------------------------------------------------------------------
# a small Jsonnet scanner: code skeleton (no whitespace, no comments, no trailing commas)
# ------------------------------------------------------------------------------------------------
def _scan(text):
    """returns (skeleton_tokens, comments) ; strings are kept verbatim, text blocks line-trimmed"""
    toks, comments, i, n = [], [], 0, len(text)
    while i < n:
        c = text[i]
        if c in " \t\r\n":
            i += 1
        elif text.startswith("//", i) or c == "#":
            j = text.find("\n", i)
            j = n if j < 0 else j
            comments.append(text[i:j].strip())
            i = j
        elif text.startswith("/*", i):
            j = text.find("*/", i + 2)
            j = n if j < 0 else j + 2
            comments.append(re.sub(r"\s+", " ", text[i:j]))
            i = j
        elif text.startswith("|||", i):
            m = re.compile(r"\n[ \t]*\|\|\|").search(text, i + 3)
            j = n if not m else m.end()
            toks.append("\n".join(l.strip() for l in text[i:j].split("\n")))
            i = j
        elif c in "\"'" or (c == "@" and i + 1 < n and text[i + 1] in "\"'"):
            verbatim = c == "@"
            q = text[i + 1] if verbatim else c
            j = i + (2 if verbatim else 1)
            while j < n:
                if verbatim and text[j] == q and j + 1 < n and text[j + 1] == q:
                    j += 2
                elif not verbatim and text[j] == "\\":
                    j += 2
                elif text[j] == q:
                    j += 1
                    break
                else:
                    j += 1
            toks.append(text[i:j])
            i = j
        elif c.isalnum() or c == "_" or c == "$":
            j = i
            while j < n and (text[j].isalnum() or text[j] in "_$"):
                j += 1
            toks.append(text[i:j])
            i = j
        else:
            toks.append(c)
            i += 1
    out = []
    for k, t in enumerate(toks):
        if t == "," and k + 1 < len(toks) and toks[k + 1] in ")]}":
            continue
        out.append(t)
    return out, comments


def _idem(op, impl):
    """(once, twice, settles) for a fixed-point case of either stream, else None"""
    if op.get("op") == "fmt.idem" and isinstance(impl, dict):
        if impl.get("res") != "ok":
            return None
        return op.get("once", ""), impl.get("twice", ""), impl.get("_conv", 99)
    if op.get("op") == "fmt.main" and op.get("gen", "").startswith("produce-then-test") and isinstance(impl, dict):
        # `--test` rejected what the binary printed: recover the second pass from the format table
        if impl.get("code") != 1:
            return None
        eff = "0" if (op.get("indent") == 0 or op.get("hard_tabs")) else str(op.get("indent"))
        rows = (op.get("tables") or {}).get(eff) or []
        if not rows or rows[0][1] is None:
            return None
        settles = len(rows) if rows[-1][0] == rows[-1][1] or len(rows) < op.get("limit", 0) + 2 else 99
        return op.get("input", ""), rows[0][1] + "\n", min(settles, 4)
    return None


def _same_tokens(once, twice):
    a, ca = _scan(once)
    b, cb = _scan(twice)
    return a == b, ca, cb


def _first_pass_text(op):
    if op.get("op") == "fmt.idem":
        return op.get("once", "")
    if op.get("op") == "fmt.main" and op.get("gen", "").startswith("produce-then-test"):
        return op.get("input", "")
    return None


def _second_pass_failed(op, impl):
    if op.get("op") == "fmt.idem":
        return isinstance(impl, dict) and impl.get("res") == "diag"
    return isinstance(impl, dict) and impl.get("code") == 1


# ------------------------------------------------------------------------------------------------
# (1) first pass prints text that is no longer the program (C19 defects; symptom seen by C20)
# ------------------------------------------------------------------------------------------------
def _second_pass_differs(op, impl):
    """second pass fails to parse, or succeeds with a different text"""
    if _second_pass_failed(op, impl):
        return True
    r = _idem(op, impl)
    return r is not None and r[0] != r[1]


def c20_unary_operand_printed_as_missing(op, impl, model, args):
    """`-x` is printed `-/*missing Expr*/`: the second pass reports a syntax error or drops more"""
    t = _first_pass_text(op)
    return t is not None and "/*missing Expr*/" in t and _second_pass_differs(op, impl)


_GLUE = re.compile(r"[\w\]\)\}\"'|](if|for) ")


def c20_objcomp_specs_glued(op, impl, model, args):
    """`{[k]: v for x in y if z}` is printed `for x in yif z` (by the first or by the second pass)"""
    t = _first_pass_text(op)
    if t is None or not _second_pass_differs(op, impl):
        return False
    if _GLUE.search(t):
        return True
    r = _idem(op, impl)
    return r is not None and _GLUE.search(r[1]) is not None


def _squash(s):
    return re.sub(r"\s+", "", s)


def c20_inline_line_comment_swallows_code(op, impl, model, args):
    """`[ a, b # c` newline `]` is printed `[ a, b # c ]`: code ends up inside the `#`/`//` comment"""
    t = _first_pass_text(op)
    if t is None or not _second_pass_differs(op, impl):
        return False
    grown = [c for c in _scan(t)[1] if c.startswith(("//", "#"))]
    if op.get("op") == "fmt.idem":
        orig = [_squash(c) for c in _scan(op.get("t", ""))[1] if c.startswith(("//", "#"))]
        # an EMPTY source comment (`//`, `#`) is a prefix of every comment: it proves nothing
        orig = [o for o in orig if o not in ("//", "#")]
        return any(_squash(g).startswith(o) and len(_squash(g)) > len(o) for g in grown for o in orig)
    return any(re.search(r"[\]\)\}]", g) for g in grown)


def c20_local_multibind_trailing_comma(op, impl, model, args):
    """`local a = 1, b = 2; a` is printed with `,` before `;`"""
    t = _first_pass_text(op)
    return t is not None and re.search(r",\s*;", t) is not None and _second_pass_failed(op, impl)


# ------------------------------------------------------------------------------------------------
# (2) second pass keeps every token but lays the text out differently
#
# Round 4: every layout defect that had a classifier here (blank line after `(`, comments without a
# printer slot, re-break at the width limit, one-line group around a forced line break, dangling
# `)`) has been repaired in the formatter (see the `fixed` C20 lines of known_findings.jsonl), and so
# have the four families the thorough tier had turned up.  The hunk classifiers are gone with them:
# ANY second pass that differs from the first is a VIOLATION again.
# ------------------------------------------------------------------------------------------------
# ------------------------------------------------------------------------------------------------
# (3) nesting limits
# ------------------------------------------------------------------------------------------------
def c20_indent_level_u8_overflow(op, impl, model, args):
    """more than 255 nested indentation levels: dprint-core's writer keeps the level in a u8"""
    return (op.get("op") == "fmt.deep" and op.get("n", 0) >= 256 and isinstance(impl, dict)
            and impl.get("res") == "panic" and "attempt to add with overflow" in impl.get("_msg", "")
            and "writer.rs" in impl.get("_msg", ""))


def c20_deep_nesting_stack_overflow(op, impl, model, args):
    """thousands of nested brackets exhaust the stack of the recursive-descent parser / printers"""
    return (op.get("op") == "fmt.deep" and op.get("n", 0) >= 1000 and isinstance(impl, dict)
            and impl.get("res") == "abort" and "overflowed its stack" in impl.get("_msg", ""))
