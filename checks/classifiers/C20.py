# Known findings for C20 (formatter).  The five crash defects (parser panics on `function`/`import`
# /end-of-input, diagnostic-range underflow / out-of-bounds, raw tabs and newlines sent to the
# printer) were repaired by fix: commits and have no classifier.
#
# What remains are (1) first-pass outputs that do not parse any more (formatter defects owned by
# C19, "Formatting preserves the program", repaired there), (2) second passes that re-lay-out the
# text without changing its tokens (the reason `--conv-limit` exists), (3) limits of the layout
# engine on deep nesting.  Every classifier looks at the observable of ONE defect; a second pass
# that changes the token stream, fails to parse, panics or does not settle within 4 passes is
# never classified.
import re


# ------------------------------------------------------------------------------------------------
# a small Jsonnet scanner: code skeleton (no whitespace, no comments, no trailing commas)
# ------------------------------------------------------------------------------------------------
def _scan(text):
    """returns (skeleton_tokens, comments) ; strings are kept verbatim, text blocks line-trimmed"""
    toks, comments, i, n = [], [], 0, len(text)
    while i < n:
        c = text[i]
        if c in " \t\r\n":
            i += 1
        elif text.startswith("//", i) or c == "#":
            j = text.find("\n", i)
            j = n if j < 0 else j
            comments.append(text[i:j].strip())
            i = j
        elif text.startswith("/*", i):
            j = text.find("*/", i + 2)
            j = n if j < 0 else j + 2
            comments.append(re.sub(r"\s+", " ", text[i:j]))
            i = j
        elif text.startswith("|||", i):
            m = re.compile(r"\n[ \t]*\|\|\|").search(text, i + 3)
            j = n if not m else m.end()
            toks.append("\n".join(l.strip() for l in text[i:j].split("\n")))
            i = j
        elif c in "\"'" or (c == "@" and i + 1 < n and text[i + 1] in "\"'"):
            verbatim = c == "@"
            q = text[i + 1] if verbatim else c
            j = i + (2 if verbatim else 1)
            while j < n:
                if verbatim and text[j] == q and j + 1 < n and text[j + 1] == q:
                    j += 2
                elif not verbatim and text[j] == "\\":
                    j += 2
                elif text[j] == q:
                    j += 1
                    break
                else:
                    j += 1
            toks.append(text[i:j])
            i = j
        elif c.isalnum() or c == "_" or c == "$":
            j = i
            while j < n and (text[j].isalnum() or text[j] in "_$"):
                j += 1
            toks.append(text[i:j])
            i = j
        else:
            toks.append(c)
            i += 1
    out = []
    for k, t in enumerate(toks):
        if t == "," and k + 1 < len(toks) and toks[k + 1] in ")]}":
            continue
        out.append(t)
    return out, comments


def _idem(op, impl):
    """(once, twice, settles) for a fixed-point case of either stream, else None"""
    if op.get("op") == "fmt.idem" and isinstance(impl, dict):
        if impl.get("res") != "ok":
            return None
        return op.get("once", ""), impl.get("twice", ""), impl.get("_conv", 99)
    if op.get("op") == "fmt.main" and op.get("gen", "").startswith("produce-then-test") and isinstance(impl, dict):
        # `--test` rejected what the binary printed: recover the second pass from the format table
        if impl.get("code") != 1:
            return None
        eff = "0" if (op.get("indent") == 0 or op.get("hard_tabs")) else str(op.get("indent"))
        rows = (op.get("tables") or {}).get(eff) or []
        if not rows or rows[0][1] is None:
            return None
        settles = len(rows) if rows[-1][0] == rows[-1][1] or len(rows) < op.get("limit", 0) + 2 else 99
        return op.get("input", ""), rows[0][1] + "\n", min(settles, 4)
    return None


def _same_tokens(once, twice):
    a, ca = _scan(once)
    b, cb = _scan(twice)
    return a == b, ca, cb


def _first_pass_text(op):
    if op.get("op") == "fmt.idem":
        return op.get("once", "")
    if op.get("op") == "fmt.main" and op.get("gen", "").startswith("produce-then-test"):
        return op.get("input", "")
    return None


def _second_pass_failed(op, impl):
    if op.get("op") == "fmt.idem":
        return isinstance(impl, dict) and impl.get("res") == "diag"
    return isinstance(impl, dict) and impl.get("code") == 1


# ------------------------------------------------------------------------------------------------
# (1) first pass prints text that is no longer the program (C19 defects; symptom seen by C20)
# ------------------------------------------------------------------------------------------------
def _second_pass_differs(op, impl):
    """second pass fails to parse, or succeeds with a different text"""
    if _second_pass_failed(op, impl):
        return True
    r = _idem(op, impl)
    return r is not None and r[0] != r[1]


def c20_unary_operand_printed_as_missing(op, impl, model, args):
    """`-x` is printed `-/*missing Expr*/`: the second pass reports a syntax error or drops more"""
    t = _first_pass_text(op)
    return t is not None and "/*missing Expr*/" in t and _second_pass_differs(op, impl)


_GLUE = re.compile(r"[\w\]\)\}\"'|](if|for) ")


def c20_objcomp_specs_glued(op, impl, model, args):
    """`{[k]: v for x in y if z}` is printed `for x in yif z` (by the first or by the second pass)"""
    t = _first_pass_text(op)
    if t is None or not _second_pass_differs(op, impl):
        return False
    if _GLUE.search(t):
        return True
    r = _idem(op, impl)
    return r is not None and _GLUE.search(r[1]) is not None


def _squash(s):
    return re.sub(r"\s+", "", s)


def c20_inline_line_comment_swallows_code(op, impl, model, args):
    """`[ a, b # c` newline `]` is printed `[ a, b # c ]`: code ends up inside the `#`/`//` comment"""
    t = _first_pass_text(op)
    if t is None or not _second_pass_differs(op, impl):
        return False
    grown = [c for c in _scan(t)[1] if c.startswith(("//", "#"))]
    if op.get("op") == "fmt.idem":
        orig = [_squash(c) for c in _scan(op.get("t", ""))[1] if c.startswith(("//", "#"))]
        # an EMPTY source comment (`//`, `#`) is a prefix of every comment: it proves nothing
        orig = [o for o in orig if o not in ("//", "#")]
        return any(_squash(g).startswith(o) and len(_squash(g)) > len(o) for g in grown for o in orig)
    return any(re.search(r"[\]\)\}]", g) for g in grown)


def c20_local_multibind_trailing_comma(op, impl, model, args):
    """`local a = 1, b = 2; a` is printed with `,` before `;`"""
    t = _first_pass_text(op)
    return t is not None and re.search(r",\s*;", t) is not None and _second_pass_failed(op, impl)


# ------------------------------------------------------------------------------------------------
# (2) second pass keeps every token but lays the text out differently
#
# The differing regions (line hunks) of first-pass and second-pass output are examined one by one;
# each known defect has a predicate on a hunk.  A case is attributed to a finding only if EVERY hunk
# is explained by one of these predicates (and at least one by the finding's own), the code tokens
# are unchanged and the text settles within 4 passes.  A re-layout with any other shape (for
# instance blank lines appearing between members) is not classified.
# ------------------------------------------------------------------------------------------------
import difflib

_COMMENT = re.compile(r"//|#|/\*|\*/|^\s*\*(\s|$)")
_STMT_INLINE = re.compile(r"^\s*\S.*\b(local|assert)\b")


def _width(line):
    return len(line.replace("\t", "   "))


def _hunks(once, twice):
    a, b = once.split("\n"), twice.split("\n")
    out = []
    for tag, i1, i2, j1, j2 in difflib.SequenceMatcher(None, a, b, autojunk=False).get_opcodes():
        if tag != "equal":
            out.append((a[i1 - 1] if i1 > 0 else "", a[i1:i2], b[j1:j2], a[i2] if i2 < len(a) else ""))
    return out


def _h_comment(h):
    if any(_COMMENT.search(l) for l in h[1] + h[2]):
        return True
    # blank lines appearing/disappearing next to a comment line
    return all(l.strip() == "" for l in h[1] + h[2]) and (_COMMENT.search(h[0]) or _COMMENT.search(h[3])) is not None


def _indent(l):
    return len(l) - len(l.lstrip())


def _h_width(h):
    """a line at the column limit, or a soft (space-or-newline) break taken by the first pass because
    the rest of the line was too wide: `f(a, b,` newline `c)(` or `{ a: 1` newline `} & [` with the continuation NOT indented; the
    next pass joins the two lines again (nothing else changes)"""
    if any(_width(l) >= 96 for l in h[1] + h[2]):
        return True
    ja = re.sub(r",(?=[\])}])", "", _squash(" ".join(h[1])))
    jb = re.sub(r",(?=[\])}])", "", _squash(" ".join(h[2])))
    soft = any(a.strip() != "" and b.strip() != "" and _indent(b) <= _indent(a) for a, b in zip(h[1], h[1][1:]))
    return ja == jb and soft and len(h[2]) < len(h[1])


def _unclosed_inline_open(line):
    """the line opens a bracket that it does not close and puts content right after it"""
    toks, _ = _scan(line)
    depth = []
    for k, t in enumerate(toks):
        if t in "([{" and len(t) == 1:
            depth.append(k)
        elif t in ")]}" and len(t) == 1 and depth:
            depth.pop()
    return any(k + 1 < len(toks) for k in depth)


def _h_inline_group(h):
    """first pass left a bracket group in single-line form (`[ assert c;`, `f(|||`, `g(p = {`,
    `{ a(`) although a child forces a line break inside it; the next pass expands the group"""
    return any(_unclosed_inline_open(l) for l in h[1]) and len(h[2]) >= len(h[1])


def _h_dangling_rparen(h):
    """`f(` newline `)` or `f(a` newline `)` joined into one line by the next pass (nothing else changes)"""
    ja = re.sub(r",(?=[\])}])", "", _squash(" ".join(h[1])))
    jb = re.sub(r",(?=[\])}])", "", _squash(" ".join(h[2])))
    return ja == jb and any(l.strip().startswith(")") for l in h[1]) and len(h[2]) < len(h[1])


def _h_blank_after_lparen(h):
    return all(l.strip() == "" for l in h[1] + h[2]) and h[0].rstrip().endswith("(")


def _h_closing_side(h):
    """the closing brackets of a group expanded by `_h_inline_group` in an earlier hunk: `})(` becomes
    `},` newline `)(` (never sufficient on its own: no finding claims a case through this predicate)"""
    lines = h[1] + h[2]
    return bool(h[1]) and all(l.strip() != "" and re.fullmatch(r"[\s()\[\]{},;]*", l) for l in lines)


_HUNK_PREDICATES = [_h_comment, _h_width, _h_inline_group, _h_dangling_rparen, _h_blank_after_lparen, _h_closing_side]


def _relayout(op, impl, model, own):
    r = _idem(op, impl)
    if r is None or r[0] == r[1] or r[2] > 4:
        return False
    same, ca, cb = _same_tokens(r[0], r[1])
    if not same:
        return False
    # Lean's verdict on the REAL lexer's lexemes of both passes: FmtSink.sameTokCB = equal sequences of
    # non-trivia lexemes (kind and text) after dropping a `,` that directly precedes a closing bracket
    # (Props/C20: same_tokens_check_sound, same_tokens_mod_comma_sound).  The scanner above is only a
    # pre-filter; when Lean says the code tokens differ the case is never a layout finding.
    # Absent for fmt.main cases (no lexemes shipped there).
    if isinstance(model, dict) and model.get("_same_code_tokens_mod_trailing_comma") is False:
        return False
    hs = _hunks(r[0], r[1])
    return bool(hs) and all(any(p(h) for p in _HUNK_PREDICATES) for h in hs) and any(own(h) for h in hs)


def c20_second_pass_blank_line_after_lparen(op, impl, model, args):
    """a blank line between `(` and the first argument is kept by the first pass and changed by the next"""
    return _relayout(op, impl, model, _h_blank_after_lparen)


def c20_second_pass_moves_comment(op, impl, model, args):
    """a comment the printers have no slot for (after `{`/`[` on the same line, between `assert`/`local`
    and its body, after the last comprehension spec, inside parentheses) is moved or dropped by the
    next pass; the code tokens are unchanged"""
    return _relayout(op, impl, model, _h_comment)


def c20_second_pass_rebreaks_at_width_limit(op, impl, model, args):
    """a line at the 100-column limit is broken differently on the formatter's own output"""
    return _relayout(op, impl, model, _h_width)


def c20_second_pass_expands_inline_group(op, impl, model, args):
    """`[ assert c; v ]`, `f(|||..|||)`, `g(p = {` newline `})`: a child with a forced line break sits in a
    group the first pass printed in single-line form; the next pass prints the group multi-line"""
    return _relayout(op, impl, model, _h_inline_group)


def c20_second_pass_joins_dangling_rparen(op, impl, model, args):
    """`x(` newline `)` (empty argument list) or `f(a` newline `)` (blank lines before `)` in the source)
    printed by the first pass becomes `x()` / `f(a)` on the next"""
    return _relayout(op, impl, model, _h_dangling_rparen)


# ------------------------------------------------------------------------------------------------
# (3) nesting limits
# ------------------------------------------------------------------------------------------------
def c20_indent_level_u8_overflow(op, impl, model, args):
    """more than 255 nested indentation levels: dprint-core's writer keeps the level in a u8"""
    return (op.get("op") == "fmt.deep" and op.get("n", 0) >= 256 and isinstance(impl, dict)
            and impl.get("res") == "panic" and "attempt to add with overflow" in impl.get("_msg", "")
            and "writer.rs" in impl.get("_msg", ""))


def c20_deep_nesting_stack_overflow(op, impl, model, args):
    """thousands of nested brackets exhaust the stack of the recursive-descent parser / printers"""
    return (op.get("op") == "fmt.deep" and op.get("n", 0) >= 1000 and isinstance(impl, dict)
            and impl.get("res") == "abort" and "overflowed its stack" in impl.get("_msg", ""))
