# no known findings for C18: the interner and the collector corpus hold on the current tree
