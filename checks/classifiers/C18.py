# classifiers for C18 known findings


def c18_empty_object_singleton_stays_tracked(op, impl, model, args):
    """the evaluator keeps one empty object per thread (the value of `{}`) in a thread-local; once a
    program has materialised it, it stays tracked after result and state are dropped and a collection
    has run (`jrsonnet -e '{}' --gc-print-stats --gc-collect-before-printing-stats` prints Tracked: 1).
    Matches only the dedicated, not pre-warmed cases of the engine: exactly ONE object retained after
    the first evaluation, nothing accumulating afterwards, nothing else wrong."""
    return op.get("op") == "gc.observe" and op.get("tag") == "empty-object-singleton" \
        and isinstance(impl, dict) and impl.get("retained_after_first") == 1 \
        and impl.get("tracked_leaked") == 0 and impl.get("pool_leaked") == 0 and impl.get("panic") is False
