"""Classifiers for C13 known findings (one defect each, recognised by its observable)."""


def c13_equals_shared_pointer_shortcut(op, impl, model, args):
    """`local a = <array/object>; std.equals(a, a)` answers true through the ArrValue::ptr_eq /
    ObjValue::ptr_eq shortcut of val.rs `equals` although comparing the members fails (a failing
    element/field, or a function inside)."""
    if op.get("fn") != "equalsSame":
        return False
    spec = model.get("spec", {})
    return impl.get("ok") is True and "err" in spec
