# C15 known findings.  The five defects in the anchored plumbing code (--tla-str-file path, jrsonnet-deps
# importstr-then-import, libjsonnet not entering the state, jsonnet_jpath_add panic, add_jpath precedence)
# were repaired by fix: commits; what remains open lives outside the anchored files.


def c15_ini_format_panics_on_non_object(op, impl, model, args):
    """`-f ini` (IniFormat) on a value that is not an object: the derived FromUntyped of IniObj unwraps
    `as_obj()` ("shape is correct") so the library panics; the executable dies with exit status 101."""
    if op.get("op") != "cli.render":
        return False
    fmt = op.get("fmt") or {}
    panic = (op.get("out") or {}).get("_lib_panic", "")
    return (fmt.get("f") == "ini" and "shape is correct" in panic
            and isinstance(impl, dict) and impl.get("exit") == 101 and impl.get("stderr") is True
            and "shape is correct" in impl.get("_stderr", ""))
