# no known findings for C09: the four defects met (epsilon equality, unchecked negative-base
# `<<` overflow, unchecked `>>` count, inexact std.mantissa/std.exponent) were repaired by fix: commits
