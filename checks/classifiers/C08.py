# no known findings for C08 (all four defects were repaired by fix: commits)
