# C07: no defect found
