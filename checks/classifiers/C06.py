"""Known-finding classifiers for C06.  Each recognises ONE defect by the observable at its call
site: which parser deviates (direction) AND the syntactic feature of the source that triggers it.
signature: fn(op, impl, model, args) -> bool"""
import re

_TRIVIA = r"(?:\s|/\*.*?\*/|//[^\n]*\n|#[^\n]*\n)*"


def _agree(op):
    return op.get("op") == "c06.agree"


def _acc(op):
    return op.get("ir") != "reject" and not str(op.get("ir", "")).startswith("panic")


def _peg_acc(op):
    return op.get("peg") != "reject" and not str(op.get("peg", "")).startswith("panic")


_TOK = re.compile(r'\(|\)|\[|\]|"(?:\\.|[^"\\])*"|[^\s()\[\]]+')
_UNS = ("Plus", "Minus", "Not", "BitNot")
_MULS = ("Mul", "Div", "Mod")


def _parse(text):
    """span-erased s-expression -> nested tuples (brackets kept as node heads)"""
    toks = _TOK.findall(text or "")
    pos = 0

    def go():
        nonlocal pos
        if pos >= len(toks):
            raise ValueError("eof")
        t = toks[pos]
        pos += 1
        if t in "([":
            close = ")" if t == "(" else "]"
            items = [t]
            while pos < len(toks) and toks[pos] != close:
                items.append(go())
            if pos >= len(toks):
                raise ValueError("unbalanced")
            pos += 1
            return tuple(items)
        if t in ")]":
            raise ValueError("unbalanced")
        return t
    out = go()
    if pos != len(toks):
        raise ValueError("trailing")
    return out


def _is_un(t):
    return isinstance(t, tuple) and len(t) == 3 and t[0] == "(" and t[1] in _UNS


def _is_mul(t):
    return isinstance(t, tuple) and len(t) == 4 and t[0] == "(" and t[1] in _MULS


def _skeleton(t):
    """the tree with every maximal cluster of unary / multiplicative nodes flattened to its
    in-order sequence of operator names and (skeletons of) non-cluster operands: two parses of the
    same text have equal skeletons iff they differ only in how unary and * / % nest"""
    if not isinstance(t, tuple):
        return t
    if _is_un(t) or _is_mul(t):
        return ("{",) + tuple(_flat(t))
    return tuple(_skeleton(x) for x in t)


def _flat(t):
    if _is_un(t):
        return [t[1] + "/1"] + _flat(t[2])
    if _is_mul(t):
        return _flat(t[2]) + [t[1]] + _flat(t[3])
    return [_skeleton(t)]


def _has_unary_over_mul(t):
    if not isinstance(t, tuple):
        return False
    if _is_un(t) and _is_mul(t[2]):
        return True
    return any(_has_unary_over_mul(x) for x in t)


def _explained_by_unary_rotation(got, want):
    """`got` (default parser) differs from `want` only inside unary/multiplicative clusters, and
    `got` does have a unary node sitting on a multiplicative node"""
    try:
        g, w = _parse(got), _parse(want)
    except ValueError:
        return False
    return g != w and _has_unary_over_mul(g) and _skeleton(g) == _skeleton(w)


def c06_unary_looser_than_mul(op, impl, model, args):
    """prefix binding power 20 == left binding power of * / % in ir-parser (and rowan): the
    default parser's tree has a unary node on top of a multiplicative node and differs from the
    reference/PEG tree only in the nesting inside unary/multiplicative clusters"""
    if op.get("op") == "c06.pratt":
        got = (impl or {}).get("ast", "")
        want = ((model or {}).get("spec") or {}).get("ast", "")
        return op.get("via") == "ir" and got != "reject" and want != "reject" \
            and ((model or {}).get("model") or {}).get("ast") == got \
            and _explained_by_unary_rotation(got, want)
    if _agree(op):
        ir, peg = op.get("ir", ""), op.get("peg", "")
        if not (_acc(op) and _peg_acc(op)) or ir == peg:
            return False
        if not _explained_by_unary_rotation(ir, peg):
            return False
        # the rest of the statement (rowan verdict, trivia invariance) must hold, or the rowan verdict
        # must itself be the listed rowan deviation (two findings in one text, e.g. `~ + a * b`:
        # unary rotation AND unary plus, which the rowan parser always reports)
        rowan_ok = op.get("rowan") is True or (op.get("rowan") is False and "(Plus " in ir)
        base_ok = "base" not in op or op["base"] == ir
        return rowan_ok and base_ok
    return False


def _only_rowan_deviates(op):
    return _agree(op) and op.get("ir") == op.get("peg") and ("base" not in op or op["base"] == op["ir"])


def c06_rowan_no_unary_plus(op, impl, model, args):
    """rowan parser has no unary `+` operator kind: reports an error although the evaluator's
    parsers accept; nothing else may be wrong with the case"""
    # a text with a unary plus can never be error-free in the rowan parser, whatever else it contains
    # (`+ local x = 1; x`, `+ import a`), so the verdict is explained by this finding alone
    return _only_rowan_deviates(op) and _acc(op) and op.get("rowan") is False and "(Plus " in op["ir"]


_LEXICAL_MSGS = (
    "invalid string escape", "numbers are finite", "invalid string block",
    "unterminated", "text block", "junk after", "missing quotes", "comment too short",
    "unexpected end of text block", "invalid number literal",
    "verbatim string missing opening quotes",
)


def c06_rowan_ignores_lexical_errors(op, impl, model, args):
    """rowan parser reports no error for a token the evaluator's lexer/literal decoder rejects
    (bad escape, unterminated string, malformed text block, non-finite number)"""
    # ONLY the rowan parser's leniency: BOTH evaluator parsers must have rejected the text (said
    # explicitly, not only through `ir == peg`): a text with a lexical error that one of the two
    # evaluator parsers accepts (e.g. an unterminated comment skipped as trivia) is an ir-vs-peg
    # disagreement and never this finding
    msg = op.get("ir_msg", "")
    return _only_rowan_deviates(op) and op.get("ir") == "reject" and op.get("peg") == "reject" \
        and op.get("rowan") is True and any(m in msg for m in _LEXICAL_MSGS)


def c06_rowan_accepts_experimental_syntax(op, impl, model, args):
    """rowan parser accepts `?.`/`?.[`, destructuring binds without the feature gates"""
    s = op.get("src", "")
    return _only_rowan_deviates(op) and not _acc(op) and op.get("rowan") is True \
        and re.search(r"\?" + _TRIVIA + r"\.|(?:local|for|,|\()" + _TRIVIA + r"[\[{?]" + _TRIVIA + r"[\w.\]}?]", s) is not None \
        and ("expected identifier" in op.get("ir_msg", "") or "unexpected '?'" in op.get("ir_msg", "")
             or "expected end of file, got '?'" in op.get("ir_msg", ""))


def _peg_lenient(op):
    return _agree(op) and not _acc(op) and _peg_acc(op)


def c06_local_trailing_comma(op, impl, model, args):
    """PEG grammar (and the rowan parser, whose own test `local_method` pins it) accept a trailing
    comma after the binds of a local (`local a = 1, ; a`); the default parser and the grammar reject"""
    s = op.get("src", "")
    return _peg_lenient(op) and re.search(r"," + _TRIVIA + r";", s) is not None \
        and re.match(r"expected identifier, got ';'", op.get("ir_msg", "")) is not None


