"""Known-finding classifiers for C12 (std.format).  Each recognises one defect by its observable."""

_I64 = 1 << 63


def _text(a):
    return a.get("ok") if isinstance(a, dict) and isinstance(a.get("ok"), list) else None


def _nums(vals):
    for v in vals:
        if v.get("k") == "num":
            yield v
        elif v.get("k") == "obj":
            yield from _nums([f[1] for f in v.get("f", [])])


def _fmt(op):
    return "".join(chr(c) for c in op.get("fmt", []))


def c12_render_integer_saturates_at_i64(op, impl, model, args):
    """render_integer does `iv.floor() as i64`: an integer part (of the value, or of the scaled
    fraction) >= 2^63 is printed as 9223372036854775807.  Observable: both sides produce text, the
    faithful model reproduces the implementation's text, and a number >= 2^63 reaches an
    integer/fixed conversion."""
    if op.get("op") != "fmt" or _text(impl) is None or _text(model.get("spec", {})) is None:
        return False
    if _text(model.get("model", {})) != _text(impl):
        return False
    if not any(c in _fmt(op) for c in "diuoxXfFgG"):
        return False
    for v in _nums(op.get("vals", [])):
        if int(v["whole"]) >= _I64:
            return True
        for tab in ("fix", "sci"):
            for p, w, f in v.get(tab, []):
                if int(w) >= _I64 or int(f) >= _I64:
                    return True
    return False


def c12_char_of_negative_number_is_nul(op, impl, model, args):
    """`%c` casts the double with `as u32`, which maps every negative number to 0: a NUL is written
    (and formatting goes on, possibly into a later error) where the reference reports an invalid
    code point.  Observable: reference says `codepoint`, the faithful model reproduces the
    implementation's answer, a number <= -1 is among the values and the format has a %c."""
    if op.get("op") != "fmt" or "c" not in _fmt(op):
        return False
    if model.get("spec") != {"err": "codepoint"}:
        return False
    t = _text(impl)
    if t is not None:
        if 0 not in t or _text(model.get("model", {})) != t:
            return False
    elif impl.get("err") in ("codepoint", "panic") or model.get("model", {}).get("err") != impl.get("err"):
        return False
    return any(v["neg"] and int(v["whole"]) >= 1 for v in _nums(op.get("vals", [])))


def c12_float_precision_65535_overflows_u16(op, impl, model, args):
    """render_float computes `dot_size + precision` in u16: precision 65535 (only reachable as
    `%.65535f` or `*` = 65535) overflows -> panic in overflow-checked builds (and 10^65535 = inf,
    so the digits would be NaN anyway)."""
    if op.get("op") != "fmt" or impl.get("err") != "panic":
        return False
    if "add with overflow" not in impl.get("_msg", "") or model.get("model") != {"err": "panic"}:
        return False
    f = _fmt(op)
    if not any(c in f for c in "eEfFgG"):
        return False
    return ".65535" in f or (".*" in f and any(int(v["whole"]) == 65535 for v in _nums(op.get("vals", []))))
