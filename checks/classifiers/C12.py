"""Known-finding classifiers for C12 (std.format).  Each recognises one defect by its observable.

No open finding.  The three classifiers of round 1 (`c12_render_integer_saturates_at_i64`,
`c12_char_of_negative_number_is_nul`, `c12_float_precision_65535_overflows_u16`) were retired in
round 2 and `c12_float_digits_inexact_beyond_2_53` in round 5: the defects are repaired in the
repository (`fix:` commits, listed as `fixed` entries in known_findings.jsonl) and the
Stmt/counterexample/partial triples became the full theorems `int_conv_full`, `char_conv_spec`,
`float_precision_limit` and `float_conv_full` of Props/C12.lean.
"""
