"""Known-finding classifiers for C12 (std.format).  Each recognises one defect by its observable.

The three classifiers of round 1 (`c12_render_integer_saturates_at_i64`,
`c12_char_of_negative_number_is_nul`, `c12_float_precision_65535_overflows_u16`) were retired in
round 2: the defects are repaired in the repository (`fix:` commits, listed as `fixed` entries in
known_findings.jsonl) and the Stmt/counterexample/partial triples became the full theorems
`int_conv_full`, `char_conv_spec` and `float_precision_limit` of Props/C12.lean.
"""


def c12_float_digits_inexact_beyond_2_53(op, impl, model, args):
    """render_float generates the decimal digits in double arithmetic (`|v| * 10^precision + 0.5`,
    `floor`, `%`): once |v| * 10^precision reaches 2^53 the product is rounded and the digits after
    the 16th/17th significant one are noise ("%f" % 1e21 prints ...000.555072 where the exact
    expansion is ...000.000000).  The Lean reference takes the digits as an oracle, so this is only
    observable against CPython (exact digits).  Matches: the CPython stage marked the case as
    beyond 2^53, both sides produced text, the texts have the same length and agree on the first
    15 significant digits."""
    if not impl.get("beyond_2_53") or not isinstance(impl.get("ok"), list) or not isinstance(impl.get("cpython"), str):
        return False
    got, want = "".join(chr(c) for c in impl["ok"]), impl["cpython"]
    if len(got) != len(want):
        return False
    dg = [c for c in got if c.isdigit()]
    dw = [c for c in want if c.isdigit()]
    while dg and dw and dg[0] == "0" and dw[0] == "0":
        dg, dw = dg[1:], dw[1:]
    if dg[:15] != dw[:15]:
        return False
    return [c for c in got if not c.isdigit()] == [c for c in want if not c.isdigit()]
