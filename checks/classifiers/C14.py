"""C14 known-finding classifiers (signature: fn(op, impl, model, args) -> bool).
Each recognises one defect by its observable at one call site."""
import json


def yaml_stream_empty_with_document_end(op, impl, model, args):
    """YamlStreamFormat with c_document_end on an EMPTY array writes "\\n..." — a document end
    marker that follows no document.  Seen (a) in the framing cases `man.stream` (reference
    splitter rejects the text) and (b) in whole-document read-back (PyYAML rejects the stream)."""
    if op.get("op") == "man.stream":
        return op.get("docs") == [] and op.get("cde") is True and str(impl.get("out", "")).startswith("\n...")
    if op.get("op") == "man.obs" and op.get("fmt") == "yamlstream":
        return (op.get("v") == [] and op.get("opts", {}).get("c_document_end") is True
                and str(impl.get("out", "")).startswith("\n..."))
    return False


def _same(a, b):
    if isinstance(b, bool) or isinstance(a, bool):
        return isinstance(a, bool) and isinstance(b, bool) and a == b
    if b is None or a is None:
        return a is None and b is None
    if isinstance(b, (int, float)):
        return isinstance(a, (int, float)) and a == b
    if isinstance(b, str):
        return isinstance(a, str) and a == b
    if isinstance(b, list):
        return isinstance(a, list) and len(a) == len(b) and all(_same(x, y) for x, y in zip(a, b))
    if isinstance(b, dict):
        return isinstance(a, dict) and set(a) == set(b) and all(_same(a[k], b[k]) for k in b)
    return False


def yaml_doc_ends_in_clip_block_scalar(op, impl, model, args):
    """std.manifestYamlDoc returns text without a final line feed; when the LAST scalar of the
    document is a string ending in a line feed it is written as a `|` (clip) block scalar whose
    final line break is then missing, so the string is read back without it.  Recognised by:
    yaml via std, the text does not end with a line feed, and the same text with one line feed
    appended reads back as exactly the source value."""
    if op.get("op") != "man.obs" or op.get("fmt") != "yaml" or op.get("opts", {}).get("via") != "std":
        return False
    out = impl.get("out")
    if not isinstance(out, str) or out.endswith("\n"):
        return False
    try:
        import yaml
        docs = list(yaml.load_all(out + "\n", Loader=yaml.SafeLoader))
    except Exception:
        return False
    return len(docs) == 1 and _same(docs[0], op.get("v"))
