# classifiers for C05 known findings


def c05_parsejson_recursion_limit_128(op, impl, model, args):
    """std.parseJson (serde_json with its default recursion limit) rejects a text nested deeper than
    127 levels although the manifester emitted it and the independent reader (limit switched off)
    reads it back as the same value; nothing else may be wrong with the case"""
    return op.get("op") == "json.indep" and isinstance(op.get("depth"), int) and op["depth"] >= 128 \
        and isinstance(impl, dict) and impl.get("serde") is True and impl.get("parse") is False
