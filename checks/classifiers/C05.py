# no known findings for C05 on the current tree
