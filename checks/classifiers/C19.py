# Known findings for C19 (formatting preserves the program).
# Repaired by fix: commits (no classifier): unary operand dropped, trailing comma before `;` in a
# multi-bind local, `tailstrict` dropped, `f+: function` printed as a method, object-comprehension
# specs glued together, inline `//`/`#` comment swallowing the rest of a one-line list.
# Round 3: comments written between the tokens of a construct (everywhere but between list items)
# were dropped; repaired (ct/cl/co printer items + trivia of children_between printed), so the
# classifier c19_comment_dropped_outside_item_lists is gone: a dropped comment is a VIOLATION again.
# The classifiers below recognise two crashes that belong to C20 (never crashes) but also break
# C19's "declines or emits"; both are repaired too and no finding line refers to them any more.


def _is(op):
    return op.get("op") == "fmt.validate"


def c19_panic_dprint_raw_tab_or_newline(op, impl, model, args):
    """a text block line / string literal / comment containing a tab or a line break is pushed to
    dprint-core as one string; its debug assertion (`validate_string`) panics in builds with
    debug assertions (release builds print the text unchanged)"""
    p = op.get("panic") if _is(op) else None
    return isinstance(p, str) and (p.startswith("Debug panic! Found a tab in the string")
                                   or p.startswith("Debug panic! Found a newline in the string"))


def c19_panic_error_range_underflow(op, impl, model, args):
    """the input is rejected by the formatter's parser with an error range ending at offset 0
    (`+1`, unary plus is unknown to the rowan parser): `usize::from(range.end()) - 1` underflows in
    format()'s error branch instead of returning the diagnostic"""
    p = op.get("panic") if _is(op) else None
    return isinstance(p, str) and p.startswith("attempt to subtract with overflow") and op.get("rowan_errors", 0) > 0
