# Known findings for C19 (formatting preserves the program).
# Repaired by fix: commits (no classifier): unary operand dropped, trailing comma before `;` in a
# multi-bind local, `tailstrict` dropped, `f+: function` printed as a method, object-comprehension
# specs glued together, inline `//`/`#` comment swallowing the rest of a one-line list.
# The classifiers below recognise (a) comments written where the formatter has no trivia handling
# and (b) two crashes that belong to C20 (never crashes) but also break C19's "declines or emits".


def _is(op):
    return op.get("op") == "fmt.validate"


def c19_comment_dropped_outside_item_lists(op, impl, model, args):
    """The only failed sub-check is the comment comparison; the output's comments are a subsequence
    of the input's (nothing reordered, duplicated or altered); and every lost comment sits in a
    syntax node for which the formatter collects no trivia at all (`args.carried_parents` lists the
    nodes for which it does: a comment lost directly inside one of those is NOT excused, except
    before the `;` of a local, see lib.rs "TODO: keep end_comments")."""
    if not (_is(op) and op.get("outcome") == "formatted" and isinstance(model, dict)):
        return False
    if model.get("_fail") != ["comments"] or not model.get("_out_comments_subseq"):
        return False
    lost = op.get("lost_comments") or []
    if not lost:
        return False
    if len(lost) != model.get("_n_comments", -1) - model.get("_n_out_comments", -2):
        return False
    carried = set(args.get("carried_parents", []))
    exceptions = [tuple(e) for e in args.get("carried_except", [])]
    for l in lost:
        site = (l.get("parent"), l.get("prev"), l.get("next"))
        if site[0] in carried and not any(all(p == "*" or p == s for p, s in zip(e, site)) for e in exceptions):
            return False
    return True


def c19_panic_dprint_raw_tab_or_newline(op, impl, model, args):
    """a text block line / string literal / comment containing a tab or a line break is pushed to
    dprint-core as one string; its debug assertion (`validate_string`) panics in builds with
    debug assertions (release builds print the text unchanged)"""
    p = op.get("panic") if _is(op) else None
    return isinstance(p, str) and (p.startswith("Debug panic! Found a tab in the string")
                                   or p.startswith("Debug panic! Found a newline in the string"))


def c19_panic_error_range_underflow(op, impl, model, args):
    """the input is rejected by the formatter's parser with an error range ending at offset 0
    (`+1`, unary plus is unknown to the rowan parser): `usize::from(range.end()) - 1` underflows in
    format()'s error branch instead of returning the diagnostic"""
    p = op.get("panic") if _is(op) else None
    return isinstance(p, str) and p.startswith("attempt to subtract with overflow") and op.get("rowan_errors", 0) > 0
