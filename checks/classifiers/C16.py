"""Known-finding classifiers for C16 (match one defect by its observable, never by property id)."""
import re


def _first_lines(out, n=2):
    return out.split("\n")[:n]


def c16_import_cache_keeps_memoized_results(op, impl, model, args):
    """det.hist case whose renderings differ ONLY in variants where an earlier program (or the
    long-lived worker's earlier life) evaluated the same imported file, the program itself imports
    that file, and the difference is either (a) one side is the stack-limit error (depth-dependent
    outcome memoized in / avoided through the cached import value) or (b) same status and same error
    message, different trace (a memoized member failure re-reported)."""
    if op.get("op") != "det.hist":
        return False
    prog = op.get("prog", "")
    files = set(re.findall(r"import\s+'([^']+)'", prog))
    if not files:
        return False
    outs = op.get("outs", [])
    variants = op.get("variants", [])
    if len(outs) != len(variants) or len(outs) < 2:
        return False
    ref = outs[0]
    if variants[0].get("hist") or variants[0].get("worker"):
        return False
    seen_diff = False
    for v, o in zip(variants, outs):
        if o == ref:
            continue
        seen_diff = True
        touched = v.get("worker") or any(f in h for h in v.get("hist", []) for f in files)
        if not touched:
            return False
        if "<<second evaluation in the same state differs>>" in o:
            o = o.split("\n<<second evaluation in the same state differs>>\n")[0]
            if o == ref:
                return False
        stack = "stack overflow" in ref or "stack overflow" in o
        same_head = _first_lines(ref) == _first_lines(o) and ref.startswith("ERR")
        if not (stack or same_head):
            return False
    return seen_diff
