import re

def c01_eq_pointer_shortcut(op, impl, model, args):
    """`x == x` / `x != x` on the SAME variable: val::equals returns true by pointer identity without
    forcing the contents, where the semantics force them (and fail if an element fails or is a
    function).  Recognised by: the source compares an identifier with itself, the semantics give an
    error and the implementation a value."""
    src = op.get("src", "")
    if not re.search(r"\b(\w+)\)* [=!]= \(*\1\b", src):
        return False
    spec = model.get("spec", {})
    if "err" in spec and "ok" in impl:
        return True
    # the other face of the same shortcut: nothing fails, the value is the same, but the contents the
    # comparison would have forced are not forced: the implementation's trace labels are a proper
    # sub-multiset of the semantics'
    if "ok" in spec and "ok" in impl and spec["ok"] == impl["ok"]:
        want, got = list(spec.get("trace", [])), list(impl.get("trace", []))
        for t in got:
            if t not in want:
                return False
            want.remove(t)
        return len(want) > 0
    return False


def c01_self_dependent_field_under_assert(op, impl, model, args):
    """the C04 finding c04_self_dependent_field_under_assert_hangs seen from this engine: a field that
    depends on itself is read while the object's assertions run (get_idx ignores the Pending marker
    while asserting), so the recursion is never reported and the native stack is exhausted
    (stacker's mmap fails -> panic).  Recognised by: the interpreter is undecided (out of fuel), the
    implementation died with an allocation/stack panic, and the program has an object assertion."""
    p = impl.get("panic")
    return bool(model.get("skip")) and isinstance(p, str) and ("mmap failed" in p or "stack" in p.lower()) \
        and "assert" in op.get("src", "")
