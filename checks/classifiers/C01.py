import re

def c01_eq_pointer_shortcut(op, impl, model, args):
    """`x == x` / `x != x` on the SAME variable: val::equals returns true by pointer identity without
    forcing the contents, where the semantics force them (and fail if an element fails or is a
    function).  Recognised by: the source compares an identifier with itself, the semantics give an
    error and the implementation a value."""
    src = op.get("src", "")
    if not re.search(r"\((\w+) [=!]= \1\)", src):
        return False
    spec = model.get("spec", {})
    return "err" in spec and "ok" in impl
