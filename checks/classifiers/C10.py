# C10: no open findings (three defects repaired by fix: commits)
