"""Known-finding classifiers for C04 (one defect each, recognised by its observable)."""
import re

_PARAMS = re.compile(r"function\s*\(([^()]*)\)|local\s+\w+\s*\(([^()]*)\)\s*=")


def _has_duplicate_params(text):
    for m in _PARAMS.finditer(text or ""):
        names = []
        for part in (m.group(1) or m.group(2) or "").split(","):
            name = part.split("=")[0].strip()
            if name:
                names.append(name)
        if len(set(names)) != len(names):
            return True
    return False


def c04_duplicate_parameter_names_panic(op, impl, model, args):
    """a function literal with two parameters of the same name is accepted; binding its arguments
    by name then panics at one of three sites (unreachable!() in prepared.rs / parse.rs, the
    double-bind assertion of ContextBuilder)"""
    msgs = ("entered unreachable code", "variable bound twice in single context call")
    if op.get("op") == "bind.prepare":
        return bool(op.get("dup")) and op.get("impl_r") == "panic" and any(m in (op.get("impl_msg") or "") for m in msgs)
    if op.get("op") == "total.observe" and op.get("family") in ("tla", "dupparam", "programs", "tokens"):
        code = (op.get("case") or {}).get("code", "")
        return impl.get("outcome") == "panic" and any(m in (impl.get("panic") or "") for m in msgs) and _has_duplicate_params(code)
    return False


def c04_deep_syntactic_nesting_overflows_native_stack(op, impl, model, args):
    """source nested/chained `n` levels deep: the recursive-descent parser and the recursive
    evaluator have no depth limit and no stack growth on these paths"""
    return (op.get("op") == "total.observe" and op.get("family") == "nest"
            and op.get("n", 0) >= args.get("min_n", 1000)
            and impl.get("outcome") == "crash" and bool(impl.get("stack_overflow")))


def c04_recursion_through_field_or_element_not_counted(op, impl, model, args):
    """runaway recursion whose levels are linked by an object-field or array-element access: no
    frame is pending across the access, so the frame limit never triggers"""
    if op.get("op") != "total.observe" or op.get("family") != "unbounded":
        return False
    code = (op.get("case") or {}).get("code", "")
    return "assert" not in code and impl.get("outcome") in ("timeout", "oom")


def c04_self_dependent_field_under_assert_hangs(op, impl, model, args):
    """a field that depends on itself, first read while the object's assertions run: the pending
    marker is ignored while asserting and the re-evaluation recurses without bound"""
    if op.get("op") != "total.observe" or op.get("family") != "unbounded":
        return False
    code = (op.get("case") or {}).get("code", "")
    return "assert" in code and impl.get("outcome") in ("timeout", "oom")


def c04_float_conversion_of_huge_number_debug_assert(op, impl, model, args):
    """`%f`-family conversion of a number whose scaled value overflows to infinity: the fraction
    becomes NaN and trips render_integer's debug_assert (debug-assertion builds only)"""
    return (op.get("op") == "total.observe" and impl.get("outcome") == "panic"
            and "render_integer receives sign using arg" in (impl.get("panic") or "")
            and "%" in ((op.get("case") or {}).get("code") or ""))


def c04_native_recursion_over_self_referential_value(op, impl, model, args):
    """an infinitely deep lazy value (`local x = [x]`, `{a: $}`) handed to native code that walks
    values recursively (structural builtins, ordering comparison) without taking frames: the native
    stack overflows (or, for manifestTomlEx, the walk never ends) instead of a stack-overflow error"""
    if op.get("op") != "total.observe":
        return False
    code = (op.get("case") or {}).get("code") or ""
    dead = (impl.get("outcome") == "crash" and bool(impl.get("stack_overflow"))) or \
           (impl.get("outcome") in ("timeout", "oom") and op.get("family") == "cyclic")
    if not dead:
        return False
    names = args.get("fns", [])
    if op.get("family") == "cyclic":
        return any(n in (op.get("call") or "") for n in names)
    # elsewhere: only when the program visibly builds a self-referential value and calls one of them
    selfref = "$" in code or "self" in code or re.search(r"local (\w+) = [\[{][^;]*\b\1\b", code) is not None
    return selfref and any(("std." + n) in code for n in names if n.isalpha())
