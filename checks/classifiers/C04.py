"""Known-finding classifiers for C04 (one defect each, recognised by its observable)."""
import re

def c04_deep_syntactic_nesting_overflows_native_stack(op, impl, model, args):
    """source nested/chained `n` levels deep: the recursive-descent parser and the recursive
    evaluator have no depth limit and no stack growth on these paths"""
    return (op.get("op") == "total.observe" and op.get("family") == "nest"
            and op.get("n", 0) >= args.get("min_n", 1000)
            and impl.get("outcome") == "crash" and bool(impl.get("stack_overflow")))
