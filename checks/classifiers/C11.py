# no known findings for C11: both defects found (std.parseHex accepting ':'..'?' as digits 10..15,
# debug-format string truncation splitting a multi-byte character) were repaired by fix: commits
