"""Per-property configuration for ./check: loads checks/props/Cxx.py (each defines CFG)."""
import importlib.util, os

TRUSTED_BASE = [
    "Lean 4.33.0 kernel (thorough tier re-checks with leanchecker)",
    "axioms allowed in property theorems: propext, Classical.choice, Quot.sound (audited by #print axioms on every run)",
    "extract/extract.py copies tables and constants from /repo sources faithfully",
    "hand-written Lean models of Rust functions are tied to the code only by the correspondence run (depth of the generator)",
    "correspondence harness canonicalisation (error classes, sorted keys) does not hide property-relevant differences",
]

# commits in /repo that add hooks guarded by --cfg jrsonnet_verif
HOOK_COMMITS = ["7bb8375 verif hook: ObjValue::verif_core_shape (cfg jrsonnet_verif)", "25806a5 verif hook: read-only interner pool/refcount accessors (cfg jrsonnet_verif)", "2193d5d verif hook: read-only stack depth/limit accessors (cfg jrsonnet_verif)", "11a42ef verif hook: read-only record of the rowan parser event list and lexemes (cfg jrsonnet_verif)"]
# properties not claimed, with the reason
NOT_APPLICABLE = {}

PROPS = {}
_d = os.path.join(os.path.dirname(os.path.abspath(__file__)), "props")
for _f in sorted(os.listdir(_d)):
    if _f.endswith(".py") and _f[0] == "C":
        _spec = importlib.util.spec_from_file_location("props_" + _f[:-3], os.path.join(_d, _f))
        _m = importlib.util.module_from_spec(_spec)
        _spec.loader.exec_module(_m)
        PROPS[_f[:-3]] = _m.CFG
