#!/usr/bin/env python3
"""Regenerates /verif/MANIFEST.json from checks/props.py (single source of truth)."""
import json, os, sys
ROOT = os.path.dirname(os.path.dirname(os.path.abspath(__file__)))
sys.path.insert(0, os.path.join(ROOT, "checks"))
import props as P

ALL = [f"C{i:02d}" for i in range(1, 21)]
checks = []
for pid in ALL:
    c = P.PROPS.get(pid)
    if not c or c.get("unclaimed"):
        continue
    checks.append({
        "property_id": pid,
        "quick_cmd": f"./check {pid} quick",
        "thorough_cmd": f"./check {pid} thorough",
        "evidence_file": f"/verif/evidence/{pid}.json",
        "replay_cmd_template": f"./check {pid} quick --replay {{path}}",
        "engine": "lean-proof+correspondence",
        "level_claimed": {"category": c["level"], "text": c["level_text"], "design_ref": c.get("design_ref", f"DESIGN.md §4 {pid}")},
        "level_note": c["level_note"],
        "technique": c["technique"],
    })
na = [{"property_id": pid, "reason": P.NOT_APPLICABLE.get(pid, "not yet built in this round; see DESIGN.md")} for pid in ALL
      if pid not in {c["property_id"] for c in checks}]
m = {
    "version": 1,
    "setup_cmd": "./setup.sh",
    "hooks": {
        "guard": "--cfg jrsonnet_verif",
        "enable": "RUSTFLAGS='--cfg jrsonnet_verif' (set in harness/.cargo/config.toml and by ./check for /repo binaries)",
        "baseline_off_cmd": "./baseline.sh",
        "source_commits": P.HOOK_COMMITS,
        "add_only": True,
    },
    "engines": [
        {"name": "lean", "path": "lean/", "serves_properties": [c["property_id"] for c in checks],
         "kind_free_text": "Lean 4 project JrsVerif: Model/ (executable models), Generated/ (re-extracted from /repo each run), Props/ (property theorems), Driver.lean (jrsmodel line-protocol executable)"},
        {"name": "jvh", "path": "harness/", "serves_properties": [c["property_id"] for c in checks],
         "kind_free_text": "Rust correspondence harness linked against /repo's crates by path; one engine per property"},
        {"name": "extract", "path": "extract/", "serves_properties": [c["property_id"] for c in checks],
         "kind_free_text": "translator: tables/constants of /repo -> Lean definitions"},
    ],
    "checks": checks,
    "not_applicable": na,
    "notes": "Every check = machine-checked Lean theorems about a model + a checked tie (re-extraction and/or differential correspondence) to /repo's working tree. See DESIGN.md.",
}
json.dump(m, open(os.path.join(ROOT, "MANIFEST.json"), "w"), indent=1)
print("checks:", len(checks), "not_applicable:", len(na))
