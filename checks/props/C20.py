CFG = {
    "level": "other",
    "level_text": (
        "Weak partial. PROVED in Lean, for all inputs: (a) the diagnostic branch of jrsonnet_formatter::format — the "
        "error-range arithmetic `error_annotation_range`, re-translated from lib.rs on every run, together with hi-doc's "
        "`range.end() < src.len()` assertion — never panics and always ends in the diagnostic, for every list of error "
        "ranges and every input length incl. 0 (errorRange_never_panics, errorRange_total, errorRange_covers/_point/"
        "_at_end/_empty_input, annotate_never_panics, format_meets_spec, format_never_panics); (b) jrsonnet-fmt's "
        "main_result as a function of an abstract format∘trim: the convergence loop makes at most conv_limit+1 format "
        "calls (run_limit_terminates), without --conv-limit it is exactly one pass (limit0_single_pass), with "
        "--conv-limit>0 it can only finish on a fixed point (loop_done_fixpoint), `--test` accepts a text iff one pass "
        "reproduces it (test_accepts_iff), and `--test` accepts what jrsonnet-fmt printed PROVIDED the layout is stable on "
        "that text (test_accepts_fixpoint, produce_then_test_accepts). NOT PROVED, only OBSERVED on generated inputs: "
        "that the layout engine (printers + dprint-core) has that fixed point, and that the rowan parser, tree builder "
        "and printers never panic. Since round 4 the observation HOLDS on every generated program: the layout defects "
        "recorded earlier (blank line after `(`, comments without a printer slot, width/newline-driven re-layout) and "
        "the four families the thorough tier had found (one-line group around a forced line break, break taken in an "
        "earlier group, dangling `)`, expanded argument list joined again) were repaired by 8 fix: commits in the "
        "formatter; the layout classifiers are gone, so the check enforces the fixed-point clause as stated: ANY "
        "difference between the first and the second pass, for any indent setting, is a VIOLATION. "
        "(c) ROUND 2 — the rowan parser's event protocol and tree builder (event.rs Sink::finish incl. the "
        "forward_parent / wrapper walks, skip_whitespace, token, text_offset, error_starts_at; rowan's GreenNodeBuilder; "
        "marker.rs start/complete_raw/forget/precede/wrap_raw) are modelled statement by statement "
        "(Model/FmtDiagSink.lean) and PROVED, for every event list and lexeme list: sink_yield (the leaves of the built "
        "tree are the lexemes 0..off-1, each once, in input order: nothing duplicated, skipped or reordered), "
        "sink_never_hard_oob (text_offset's panic is dead code), and, under `the first event is the root Start` and "
        "`one Token event per kind parse() handed to the parser`, sink_code_complete (everything outside the tree is "
        "trivia: no code lexeme is lost) and sink_token_index_safe (lexemes[offset] in bounds) — both NEED the trivia "
        "predicate of parse()'s filter and of Sink::skip_whitespace to agree; the two predicates are extracted from "
        "their own sites into Generated/FmtTrivia.lean and trivia_sites_agree proves the tables equal; "
        "trivia_disagreement_loses_code is the planted ERROR_COMMENT_* bug as a theorem. Marker API: "
        "marker_api_binary_wf / marker_api_wrap_prev_wf (the call sequences of expr_binding_power and of "
        "wrap(.., previous_pos) yield well-formed lists the sink consumes completely), "
        "forget_after_precede_reaches_unreachable (an API hazard the drop bomb does not exclude). "
        "same_tokens_check_sound / same_tokens_mod_comma_sound: what the layout classifiers mean by `same tokens` "
        "(equal non-trivia lexeme sequences, optionally up to a `,` before a closer) and that the driver's check decides it "
        "(no classifier is left that reads the verdict; it is kept as information in the replay of a failing fixed-point case)."
    ),
    "level_note": (
        "Trusted: Lean kernel; the statement-by-statement translator extract/ex_c20.py (expression language: let, "
        "checked_sub/saturating_sub/max/min, Some((a,b))) and its shape checks of the call site and of main_result's "
        "loop; the hand models Fmt.annotate (hi-doc bound) and FmtMain.loop/main, tied by the differential run of the "
        "real format() (error ranges taken from the real parser) and of the real jrsonnet-fmt binary (exit code and "
        "stdout for plain / --test / --conv-limit / --indent / --hard-tabs runs, format table recorded in-process). "
        "Round 2 tie of the sink model: a cfg(jrsonnet_verif) hook records the event list and lexemes of every real "
        "parse(); for every generated input (<= 700 bytes) the Lean model of Sink::finish + GreenNodeBuilder runs on "
        "the REAL events and must reproduce the real tree (pre-order of node kinds, token kinds and ranges), the real "
        "error ranges and the yield; the model's static well-formedness predicate wfb (no Pending, pointers land on "
        "events of the same sort, no event pointed to twice, first = root Start, last = Finish, statically linearised "
        "sequence is one tree, Token kinds = filtered lexeme kinds) must hold of every real event list. "
        "NOT proved: DESIGN's sink_total in full (wfb => none of the event-side sites unreachable!/events[idx]/"
        "expect(starts == finishes)/builder asserts is reached) and marker_api_preserves_wf for arbitrary call "
        "sequences — the event-side crash-freedom stays observation, checked against wfb on every input."
    ),
    "technique": "Lean 4 proof of diagnostic-range and main-loop logic (source-translated + differential tie) + observation of crash-freedom and of the layout fixed point",
    "engines": ["c20"],
    "repo_bins": ["jrsonnet-fmt"],
    "timeout": 1500,
    "assumptions": [
        "layout idempotence (format∘format = format) is a hypothesis of test_accepts_fixpoint/produce_then_test_accepts, not a theorem; it is observed on generated valid programs × indent {tabs,2,4} (typed programs in three whitespace/comment styles, plus the `stress` stream: one-line / sparse-line-break / commented layouts behind prefixes of random width; and the `span` stream: tokens that span lines or contain tabs - quoted and verbatim strings with literal line breaks, tabs before / after / next to the first line break, CR, trailing blanks, `/* */` comments with tabs and differing indentation, with and without a `*` gutter, gutter-only and empty lines, text directly behind `/*`, no text at all (`/**/`, `/***/`), stars next to the delimiters, lines of stars, nested-looking text, lines wider than 100 columns, CRLF; `//` and `#` comments with trailing blanks / tabs / no text; a comment glued to both neighbours directly behind and before every bracket kind and separator; a comment ending the file without a line end; text blocks with tabs, blank and whitespace-only lines, `|||-` - every enumerated shape at nesting depth 0..3 inside objects, arrays, calls, locals; NO shape is left out of generation since round 6) and holds on all of them since the round-4 repairs of the layout and the round-6 repairs of the comment re-indentation",
        "the sink theorems take the event list as given: that Parser::parse emits one Token per non-trivia kind and opens the root first is checked per input (wfb), not proved for the 900 lines of grammar functions",
        "crash-freedom of lexer, rowan parser, the event-side panic sites of Sink::finish, the printers and dprint-core is observed (random byte strings, token soup over the whole token vocabulary, mutated and truncated valid programs), not proved",
        "error ranges handed to the diagnostic model are the ones the real parser reported; that they satisfy start <= end <= len is not needed (format_meets_spec holds for arbitrary ranges)",
        "`--conv-limit n` (n>0, documented as a debug option) ends in `assert!(iteration <= conv_limit)` = a panic when the layout does not settle; modelled as Outcome.notConverged / exit 101 and not counted against 'never panics'",
        "--in-place / file I/O paths of jrsonnet-fmt are not modelled; inputs reach the binary through a file",
        "harness and jrsonnet-fmt are built with debug assertions and overflow checks (dprint-core's debug-only string validation is active); a release build is not exercised",
        "nesting deeper than 255 levels is outside the explored space except for the listed probes (u8 indent level, stack exhaustion: known findings)",
    ],
}
