CFG = {
    "level": "proof",
    "level_text": "Partial. Proved in Lean: the memo automaton shared by thunks, array cells (ExprArray/MappedArray) and the object (field, layer) cache runs its body at most once for EVERY history of reads including re-entrant ones, repeats the first result forever, reports a read during evaluation as infinite recursion without disturbing the cell, and cells with different keys never interfere (thunk_runs_once, thunk_stable, thunk_reentrant, runK_project, cells_run_once); in the definitional interpreter the branch not taken and the short-circuited operand cannot influence value, store or trace (if_*_branch_unneeded, and/or_short_circuit). That every Rust construct actually routes through such a cell, and that unused locals/arguments/elements/fields/defaults are never forced, is established by correspondence: for generated programs with std.trace labels on memoised positions and error bombs in unneeded ones, the real evaluator's sorted trace multiset and outcome equal those of the call-by-need Lean interpreter.",
    "level_note": "Trusted: Lean kernel; Model/Eval.lean as the call-by-need semantics (store of thunk cells + object field cache); Model/Thunk.lean validated against the real MemoizedClosureThunk by scripted re-entrant closures (exhaustive small scripts). tailstrict: only exercised by the generator (tailstrict calls force arguments earlier); 'never changes a result that exists' is not proved. Native std higher-order functions other than map/mapWithIndex/filterMap/filter take evaluated elements (eager) — the generator uses foldl/map/filter/makeArray only.",
    "technique": "Lean 4 proof (memo automaton invariants over all histories; neededness lemmas on the interpreter) + trace-multiset correspondence",
    "engines": ["c03", "c03t"],
    "assumptions": [
        "object-local (`local` inside an object) bindings are not labelled with traces (their sharing across fields is not part of the compared multiset)",
        "trace labels are compared as a sorted multiset, not as a sequence (evaluation order of independent sub-terms is not specified by the property)",
    ],
    "timeout": 3000,
}
