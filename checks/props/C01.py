CFG = {
    "level": "proof",
    "level_text": "Partial. Proved in Lean for all parameter lists and calls (names distinct): the counting logic of parse_function_call is equivalent to the language's argument-binding rule — it accepts exactly the well-formed calls (parseCall_ok_iff), gives every parameter the argument the rule prescribes (parseCall_assignment), its unreachable!() is unreachable (parseCall_never_unreachable), and passing any suffix of the arguments by name in any order binds the same values and leaves the same defaults (call_style_invariant). 'Implementation = semantics for every program' is NOT a theorem: it is the correspondence of the real evaluator (default parser and legacy parser, snippet / imported file / ext-code / TLA-body embeddings, random positional/named call styles) with a total, fuel-indexed definitional interpreter of the core language written in Lean from the language definition and fed the real parser's AST.",
    "level_note": "Trusted: Lean kernel; the Lean interpreter Model/Eval.lean as the formalisation of the Jsonnet semantics (covers locals, closures, functions with positional/named/default parameters, conditionals, arithmetic/comparison/logic, strings, arrays, comprehensions, indexing, slicing, objects with inheritance/visibility/self/super/$/locals/asserts/methods/computed names, error, assert, a dozen std functions; bitwise operators are C09's; string formatting C12's; imports C07's); harness AST serialiser; hand model of parse_function_call (validated exhaustively on all calls with <=3 parameters and <=3 named arguments). Programs outside the modelled fragment are reported as 'model undecided' and not compared.",
    "technique": "Lean 4 proof (argument-binding refinement) + Lean definitional interpreter as executable spec + differential correspondence on the real parser's AST",
    "engines": ["c01", "c01p", "c01b", "c01t"],
    "engine_env": {"c01p": {"JRSONNET_LEGACY_PARSER": "1"}},
    "assumptions": [
        "parameter names of one function are distinct (both parsers build ExprParams from the source list; duplicates are rejected at bind time)",
        "numbers in generated programs are small integers and their quotients; non-integer number-to-string conversion and -0 formatting are C05's",
        "error messages are compared by class (type / bounds / div0 / assert / user / arity / nofield / infrec / other), not by text",
    ],
    "timeout": 3000,
}
