CFG = {
    "unclaimed": True,
    "level": "proof",
    "level_text": "partial",
    "level_note": "tbd",
    "technique": "Lean 4 definitional interpreter + argument-binding theorems + differential correspondence on the real parser's AST",
    "engines": ["c01"],
    "assumptions": [],
}
