CFG = {
    "level": "proof",
    "level_text": "Lean theorems prove (a) that the binding-power tables extracted from the IR parser, the rowan parser and the PEG precedence! block order the binary operators exactly as the Jsonnet grammar does, make every binary operator left-associative and agree with each other (table_wf_*, tables_agree, peg_agrees_ir), (b) generically, for every table with those properties, that the Pratt loop `expr_bp` parses the minimal-parenthesis rendering of every expression tree back to that tree (pratt_generic and its corollaries), and (c) that the string-escape decoder of unescape.rs, with its extracted shift amounts and escape letters, equals the Jsonnet escape definition for every string (unescape_spec). The tie is re-extraction of the tables on every run plus a differential run of the three real parsers (span-erased ASTs) against each other and against the Lean Pratt model and reference grammar.",
    "level_note": "Partial: statement-level grammar (objects, locals, comprehensions, slices, parameter/argument lists, text blocks, number forms) is only compared between the real parsers, not against a formal grammar. The rowan parser is compared by its error list only. Known, classified deviations: unary precedence in both Pratt tables, rowan leniencies, PEG leniencies.",
    "technique": "Lean 4 proof over extracted operator tables + generic Pratt-loop correctness + differential correspondence of the three parsers",
    "engines": ["c06"],
    "timeout": 1500,
    "assumptions": [
        "the hand model of expr_bp/expr_suffix covers atoms, parentheses, prefix and binary operators; postfix forms and statement-level syntax are compared between the real parsers only",
        "a rowan-parser panic on text the evaluator's parsers reject is counted as 'error reported' for this property (the crash itself belongs to C04/C20)",
        "adjacent ':' tokens of generated sequences are rendered without a space ('::' is one token of the grammar)",
        "experimental feature gates (exp-destruct, exp-null-coaelse) are off",
    ],
}
