CFG = {
    "level": "proof",
    "level_text": "Lean theorems (build_good/len_eq/get_eq/get_total/repr_irrelevant/materialize_eq) prove, for every array expression over literals, ranges, slices with any start/end/step, concatenation, reverse, repeat, map and filter and every index, that the modelled view code returns exactly the element of the plainly constructed list or out-of-bounds and never panics. The model is tied to the code by re-extracting the concat threshold and by a differential run of ArrValue's constructors/len/get and of evaluated source against both the model and the list semantics.",
    "level_note": "Trusted: Lean kernel; the hand model of arr/spec.rs + arr/mod.rs (validated only by correspondence: systematic depth<=2 enumeration + seeded random terms); lengths < 2^32; element thunks not modelled.",
    "technique": "Lean 4 proof by induction over array expressions (refinement to lists) + differential correspondence",
    "engines": ["c08"],
    "assumptions": [
        "array lengths stay below 2^32 (u32 casts in SliceArray) and below usize::MAX (checked_mul in RepeatedArray)",
        "element evaluation itself (thunks) is outside this model: elements are numbers",
    ],
}
