CFG = {
    "level": "proof",
    "level_text": "Lean theorems prove, with hash-map iteration order as an arbitrary input of the model, that fields_ex/len (fieldsEx_perm_invariant, objLen_perm_invariant), the did-you-mean rankings for fields and locals (suggestFields_/suggestLocals_perm_invariant) and the choice of the error reported by apply_tla (applyTla_perm_invariant) are the same for every order, and that the thread-local depth counter is restored by every evaluation so the stack limit is met at the same place after any history (stack_history_independent). The model is tied to the code by a differential run of the real evaluator (layer vectors via the verif_core_shape hook, real jaro_winkler scores, real apply_tla) under shuffled interning; everything outside the modelled functions is covered only by observation: every generated program replayed 8x in fresh processes (ASLR) and after randomised histories / pre-interned pools on fresh threads and on one long-lived state, byte-identical output or error text required; programs whose ERROR TEXT is assembled from hash-map iteration (undefined local below nested scopes that shadow names, unknown field / std function / named argument, argument-count messages, field listings inside messages) are replayed 14x in fresh processes and under 12 further interning histories each.",
    "level_note": "Partial: the theorems cover the modelled sources of order dependence (obj fields_visibility/fields_ex, Context::binding, suggest_object_fields, apply_tla, stack depth counter). Hash use in unmodelled code, address-space layout, allocator behaviour and the remaining thread-local state (RUNNING_ASSERTIONS, FileData.evaluating, STATE) are covered by the repeated/varied runs only. One known finding: values of imported files cached by a long-lived State keep memoized results (incl. StackOverflow and error traces).",
    "technique": "Lean 4 proof of permutation invariance (sorting of permuted inputs, per-key decomposition of a map fold) + differential correspondence + repeated-run observation",
    "engines": ["c16", "c16cli"],
    "repo_bins": ["jrsonnet"],
    "timeout": 3000,
    "assumptions": [
        "hash-map/set iteration yields every entry exactly once in some order (modelled as an arbitrary permutation); keys of one map are pairwise distinct",
        "strsim::jaro_winkler is a pure function of its two arguments (scores enter the ranking model as inputs); scores are non-negative, non-NaN doubles, compared through their bit patterns",
        "exp-preserve-order is not enabled (default features)",
        "fresh-process runs cover address-space-layout independence only by observation (8 runs per program, 14 per message program - a text that differs in 30% of the layouts escapes one such program with probability 0.7^14 + 0.3^14 < 0.01; ASLR must be enabled on the host: kernel.randomize_va_space != 0)",
        "det.suggest (locals): a name bound in several nested scopes is a candidate once per scope (the model takes the concatenation of the scope maps, as Context::binding's iter_keys does), so a shadowed similar name is listed as often as it is bound",
        "history independence beyond the depth counter (assertion set, import flags, interner) rests on the C02/C07/C18 theorems and on the randomised-history observation here",
    ],
    "trusted_extra": [
        "harness dependency strsim 0.11.1 (same version as the evaluator's) supplies the similarity scores",
    ],
}
