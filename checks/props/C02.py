CFG = {
    "level": "proof",
    "level_text": "Lean theorems prove, for every object built from literals, `+` and objectRemoveKey (any depth) and every field name and start layer, that the four independent layer walkers of obj/mod.rs (field read incl. `+:` accumulation order, hidden-inclusive existence, per-name visibility, global field listing) compute exactly the language-level meaning (right-most definition wins, `+:` chains down to the first plain definition, top-most ::/::: marker wins, removed keys masked only within the object they were removed from), that `super` reads from any layer are reads on the constructible object of the layers to its left, that each contribution is bound to its own layer's super index, that the global and per-name visibility walkers agree on every layer vector, and that field listings are strictly ascending. The model is tied to the code by comparing `compile t` with the real builder's layer vector (hook) and by a differential run through the evaluator.",
    "level_note": "Trusted: Lean kernel; hand model of the four loops (validated by correspondence on exhaustive 2-/3-layer chains + random terms); field bodies are opaque payloads (late binding of self/$ inside bodies, object locals and assertions are exercised by the C01 interpreter correspondence, not proved here); StandaloneSuperCore (bare `super`) not modelled.",
    "technique": "Lean 4 proof by induction over object terms (simulation of saturating-skip walkers by term semantics) + hook-based structure tie + differential correspondence",
    "engines": ["c02", "c02a"],
    "assumptions": [
        "field names inside one literal are distinct (the builder rejects duplicates)",
        "hash-map iteration order inside a layer is irrelevant per name (each name occurs at most once per layer)",
    ],
}
