CFG = {
    "level": "proof",
    "level_text": "Lean theorems over exact values of doubles (every finite double is an integer multiple of 2^-1074): bits_roundtrip/eq_on_bits prove that this representation is a faithful image of the 64-bit patterns (encode∘decode is the identity on every finite pattern, and == holds exactly for identical patterns or two zeros); trichotomy/ops_agree/cmp_spec/sort_uses_same_order prove that exactly one of <, ==, > holds and that <=, >=, !=, std.sort agree with it; finite_guard/arith_result_finite/arith_nonfinite_is_error/div_mod_by_zero/builtin_result_finite prove that, whatever the FPU or libm returns, only finite results become values and division/modulo by zero is an error; trunc_is_safe_range/bitwise_spec/shl_spec/shl_err_iff/shr_spec/bitnot_spec prove that & | ^ << >> act on the integer parts of operands in the safe-integer range as two's-complement operations, and fail exactly outside that range, for negative counts and for products that do not fit i64. The model is tied to the code by re-extracting the safe-integer bound, the shift modulus, the shape of the numeric equality arm and of every numeric operator arm (all end in Val::try_num), and by a differential run of the real evaluator on all pairs of a boundary-dense set of doubles against both the model and an independent exact IEEE-754 round-to-nearest-even reference written in Lean.",
    "level_note": "Partial: 'correctly rounded' and 'agrees with the platform libm' are not theorems. + - * / % and floor/ceil/round/abs/sign/max/min/clamp/mantissa/exponent/deg2rad/rad2deg are compared bit-for-bit with an exact integer-arithmetic reference (correspondence, all boundary pairs); sqrt/log/exp/pow/trig are compared bit-for-bit with Lean's Float (the platform C library) — observation only. std.hypot is only observed to be finite-or-error. Trusted: Lean kernel; hand model of operator.rs/val.rs arms (validated by correspondence); i64 wrap-around described as Int.bmod 2^64 and BitVec 64.",
    "technique": "Lean 4 proof over exact dyadic values / Int / BitVec 64 + constant and code-shape extraction + differential correspondence against an exact IEEE-754 reference",
    "engines": ["c09"],
    "assumptions": [
        "rustc compiles f64 `+ - * / %`, comparisons and `as i64`/`as f64` casts to IEEE-754 / saturating semantics (validated bit-for-bit on the boundary set, not proved)",
        "std math functions are compared with the platform libm through Lean's Float; std.hypot only for finiteness",
        "std.clamp is exercised with lo <= hi only (lo > hi is a panic site handled under C04)",
        "the sign of a zero result of max/min/clamp/sort/set is not compared (both zeros are the same number)",
        "sort_identity's sort_unstable is modelled as an insertion sort by the same comparison (outputs compared by value)",
    ],
    "timeout": 1200,
}
