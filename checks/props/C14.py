"""C14 configuration + the external-parser observation stage.

`extra` reads work/C14/c14/obs.jsonl (written by harness engine c14: source value as JSON, writer
configuration, text emitted by the REAL writer) and reads every document back with parsers that
share no code with jrsonnet:
    YAML    PyYAML pure-Python SafeLoader and, when built, libyaml's CSafeLoader (YAML 1.1)
    TOML    tomllib
    Python  ast.literal_eval / ast.parse
    XML     xml.etree.ElementTree (expat)
    INI     configparser + a 15-line reader for repeated keys
and compares the result with the source value *strictly* (bool is not int, str code point for
code point, numbers by value, sequences in order, same key sets)."""
import ast, configparser, json, os, sys

try:
    import yaml
except Exception:  # pragma: no cover
    yaml = None
try:
    import tomllib
except Exception:  # pragma: no cover
    tomllib = None
import xml.etree.ElementTree as ET


# ------------------------------------------------------------------------------------------------
def same(a, b):
    """strict structural equality of a parsed value `a` with the source JSON value `b`"""
    if isinstance(b, bool) or isinstance(a, bool):
        return isinstance(a, bool) and isinstance(b, bool) and a == b
    if b is None or a is None:
        return a is None and b is None
    if isinstance(b, (int, float)):
        return isinstance(a, (int, float)) and a == b
    if isinstance(b, str):
        return isinstance(a, str) and a == b
    if isinstance(b, list):
        return isinstance(a, list) and len(a) == len(b) and all(same(x, y) for x, y in zip(a, b))
    if isinstance(b, dict):
        return (isinstance(a, dict) and set(a.keys()) == set(b.keys())
                and all(isinstance(k, str) for k in a) and all(same(a[k], b[k]) for k in b))
    return False


def yaml_loaders():
    ls = [("PyYAML.SafeLoader", yaml.SafeLoader)]
    if getattr(yaml, "CSafeLoader", None) is not None:
        ls.append(("libyaml.CSafeLoader", yaml.CSafeLoader))
    return ls


def read_yaml(text, v, opts):
    for name, L in yaml_loaders():
        try:
            docs = list(yaml.load_all(text, Loader=L))
        except Exception as e:
            return f"{name} rejects the document: {str(e).splitlines()[0]}"
        if len(docs) != 1:
            return f"{name} reads {len(docs)} documents instead of 1"
        if not same(docs[0], v):
            return f"{name} reads back {docs[0]!r}"
    return None


def read_yamlstream(text, v, opts):
    for name, L in yaml_loaders():
        try:
            docs = list(yaml.load_all(text, Loader=L))
        except Exception as e:
            return f"{name} rejects the stream: {str(e).splitlines()[0]}"
        if not same(docs, v):
            return f"{name} reads back {docs!r}"
    return None


def read_toml(text, v, opts):
    try:
        d = tomllib.loads(text)
    except Exception as e:
        return f"tomllib rejects the document: {e}"
    return None if same(d, v) else f"tomllib reads back {d!r}"


def read_python(text, v, opts):
    try:
        d = ast.literal_eval(text)
    except Exception as e:
        return f"ast.literal_eval rejects the literal: {e}"
    return None if same(d, v) else f"ast.literal_eval reads back {d!r}"


def read_pyvars(text, v, opts):
    try:
        mod = ast.parse(text)
        d = {}
        for st in mod.body:
            if not (isinstance(st, ast.Assign) and len(st.targets) == 1 and isinstance(st.targets[0], ast.Name)):
                return "ast.parse: a statement is not `name = literal`"
            d[st.targets[0].id] = ast.literal_eval(st.value)
    except Exception as e:
        return f"ast.parse rejects the module: {e}"
    if list(d.keys()) != sorted(v.keys()):
        return f"assignments {list(d.keys())} instead of {sorted(v.keys())}"
    return None if same(d, v) else f"ast reads back {d!r}"


def jsonml_norm(v):
    """source JSONML -> [tag, {attr: str}, children...] with adjacent strings merged, empty dropped"""
    tag = v[0]
    rest = v[1:]
    attrs = {}
    if rest and isinstance(rest[0], dict):
        for k, x in rest[0].items():
            if isinstance(x, bool):
                attrs[k] = "true" if x else "false"
            elif isinstance(x, (int, float)):
                attrs[k] = num_text(x)
            else:
                attrs[k] = x
        rest = rest[1:]
    kids = []
    for c in rest:
        if isinstance(c, str):
            if c == "":
                continue
            if kids and isinstance(kids[-1], str):
                kids[-1] += c
            else:
                kids.append(c)
        else:
            kids.append(jsonml_norm(c))
    return [tag, attrs] + kids


def etree_norm(e):
    kids = []
    if e.text:
        kids.append(e.text)
    for c in e:
        kids.append(etree_norm(c))
        if c.tail:
            kids.append(c.tail)
    return [e.tag, dict(e.attrib)] + kids


def num_text(x):
    """jrsonnet prints numbers without exponent and without a trailing .0; compare by value"""
    return x


def attr_same(a, b):
    if isinstance(b, (int, float)) and not isinstance(b, bool):
        try:
            return float(a) == float(b)
        except ValueError:
            return False
    return a == b


def xml_same(a, b):
    if isinstance(a, str) or isinstance(b, str):
        return a == b
    if a[0] != b[0] or set(a[1].keys()) != set(b[1].keys()) or len(a) != len(b):
        return False
    if not all(attr_same(a[1][k], b[1][k]) for k in b[1]):
        return False
    return all(xml_same(x, y) for x, y in zip(a[2:], b[2:]))


def read_xml(text, v, opts):
    try:
        root = ET.fromstring(text)
    except Exception as e:
        return f"xml.etree rejects the document: {e}"
    got, want = etree_norm(root), jsonml_norm(v)
    return None if xml_same(got, want) else f"xml.etree reads back {got!r}"


def ini_text(x):
    if isinstance(x, bool):
        return "true" if x else "false"
    return x


def ini_same(a, b):
    if isinstance(b, (int, float)) and not isinstance(b, bool):
        try:
            return float(a) == float(b)
        except ValueError:
            return False
    return a == ini_text(b)


def ini_expected(v):
    """[(section or None, [(key, value)...])...] in writer order"""
    out = []
    def body(o):
        items = []
        for k in sorted(o.keys()):
            x = o[k]
            for e in (x if isinstance(x, list) else [x]):
                items.append((k, e))
        return items
    if "main" in v:
        out.append((None, body(v["main"])))
    for s in sorted(v["sections"].keys()):
        out.append((s, body(v["sections"][s])))
    return out


def ini_simple_reader(text):
    """independent line reader: `[name]` opens a section, `key = value` splits at the first '='"""
    out, cur = [], None
    for line in text.split("\n"):
        if line == "":
            continue
        if line.startswith("[") and line.endswith("]"):
            cur = (line[1:-1], [])
            out.append(cur)
            continue
        if "=" not in line:
            raise ValueError(f"line without '=': {line!r}")
        k, x = line.split("=", 1)
        if cur is None:
            cur = (None, [])
            out.append(cur)
        cur[1].append((k.strip(), x.strip()))
    return out


def read_ini(text, v, opts):
    want = ini_expected(v)
    try:
        got = ini_simple_reader(text)
    except Exception as e:
        return f"line reader rejects the document: {e}"
    # an empty `main` produces no lines at all
    want_cmp = [(s, kv) for s, kv in want if not (s is None and not kv)]
    if len(got) != len(want_cmp):
        return f"line reader sees sections {[s for s, _ in got]!r}"
    for (gs, gkv), (ws, wkv) in zip(got, want_cmp):
        if gs != ws or len(gkv) != len(wkv) or not all(gk == wk and ini_same(gx, wx) for (gk, gx), (wk, wx) in zip(gkv, wkv)):
            return f"line reader reads back {got!r}"
    # configparser: needs a header for the section-less part; repeated keys keep the last value
    cp = configparser.RawConfigParser(strict=False, interpolation=None, delimiters=("=",),
                                      comment_prefixes=("#", ";"), default_section="\0none",
                                      empty_lines_in_values=False)
    cp.optionxform = str
    try:
        cp.read_string("[\0main]\n" + text)
    except Exception as e:
        return f"configparser rejects the document: {str(e).splitlines()[0]}"
    for ws, wkv in want:
        sec = "\0main" if ws is None else ws
        if not cp.has_section(sec):
            return f"configparser: section {sec!r} missing"
        last = {}
        for k, x in wkv:
            last[k] = x
        if set(cp.options(sec)) != set(last.keys()):
            return f"configparser: section {sec!r} has options {cp.options(sec)!r}"
        for k, x in last.items():
            if not ini_same(cp.get(sec, k), x):
                return f"configparser: [{sec}] {k} = {cp.get(sec, k)!r}"
    return None


READERS = {"yaml": read_yaml, "yamlstream": read_yamlstream, "toml": read_toml, "python": read_python,
           "pyvars": read_pyvars, "xml": read_xml, "ini": read_ini}


def extra(root, out_dir, tier, seed, findings, cov):
    sys.path.insert(0, os.path.join(root, "checks"))
    import classifiers as CL
    path = os.path.join(out_dir, "c14", "obs.jsonl")
    stats = {"documents": 0, "by_format": {}, "mismatches": 0, "known": 0,
             "parsers": ["PyYAML " + (yaml.__version__ if yaml else "missing")
                         + (" + libyaml" if yaml and getattr(yaml, "CSafeLoader", None) else ""),
                         "tomllib", "ast", "xml.etree", "configparser"]}
    cov["external_parsers"] = stats
    if yaml is None or tomllib is None:
        yield ("violation", {"property": "C14", "kind": "oracle-missing",
                             "what": "PyYAML or tomllib is not importable; the read-back stage cannot run"}, None)
        return
    if not os.path.exists(path):
        yield ("violation", {"property": "C14", "kind": "oracle-missing", "what": "obs.jsonl was not produced"}, None)
        return
    bad, known = [], {}
    for line in open(path, encoding="utf-8"):
        rec = json.loads(line)
        stats["documents"] += 1
        stats["by_format"][rec["fmt"]] = stats["by_format"].get(rec["fmt"], 0) + 1
        res = rec["res"]
        if "out" not in res:
            why = "the writer failed on a value of the format's domain: " + str(res.get("_msg") or res.get("panic"))
        else:
            try:
                why = READERS[rec["fmt"]](res["out"], rec["v"], rec["opts"])
            except Exception as e:  # a reader bug must not pass silently
                why = f"reader raised {type(e).__name__}: {e}"
        if why is None:
            continue
        op = {"op": "man.obs", "fmt": rec["fmt"], "opts": rec["opts"], "v": rec["v"], "size": rec["size"]}
        imp = dict(res, why=why)
        hit = None
        for f in findings:
            if f.get("kind") != "finding":
                continue
            fn = getattr(CL, f["site"], None)
            if fn and fn(op, imp, {}, f.get("args", {})):
                hit = f
                break
        if hit:
            known.setdefault(hit["site"], [hit, 0])[1] += 1
        else:
            bad.append((rec["size"], op, imp))
    stats["mismatches"] = len(bad)
    stats["known"] = sum(n for _, n in known.values())
    for site, (f, n) in sorted(known.items()):
        yield ("known", None, f"KNOWN-FINDING: property=C14 {f['what']} [{site}; {n} document(s) this run]")
    if bad:
        bad.sort(key=lambda x: x[0])
        size, op, imp = bad[0]
        yield ("violation", {"property": "C14", "kind": "implementation-violates-spec",
                             "what": "an independent parser does not read the emitted document back as the source value: " + imp["why"],
                             "op": op, "impl": imp, "others": len(bad) - 1}, None)


CFG = {
    "level": "proof",
    "level_text": "Lean theorems about the lexical layer of every writer, each against a reader written independently from the target format's grammar: toml_basic_roundtrip / toml_key_roundtrip / bareAllowed_sound (every TOML string and key is a well-formed basic string or a non-empty [A-Za-z0-9_-]+ bare key and decodes to the source string), py_literal_roundtrip (Python literal), yaml_dq_roundtrip (YAML double-quoted scalar: only printable characters literally, no YAML 1.1 line break, decodes to the source), xml_text_roundtrip / xml_attr_roundtrip / xml_escape_no_markup (character data and attribute values survive entity decoding, end-of-line handling and attribute-value normalisation; no markup characters are left), yaml_stream_framing_partial (+ counterexample for the empty stream with c_document_end, a listed finding), bareSafe_sound (what bare_safe leaves unquoted is resolved to a string by the complete YAML 1.1 implicit-type resolver as PyYAML has it - bool, int with sign/underscores/0b/0x/leading-zero octal/sexagesimal, float with exponent/.inf/.nan/sexagesimal, timestamp, merge <<, value =, null ~ - and is syntactically a plain scalar; bareSafe_repo_counterexample / bareSafe_repo_partial record that the letter of yaml.org/type/float.html, which allows several dots, would also take 1.2.3, which no parser does), toml_sections_rebuild (for both settings of skip_empty_sections and every object with distinct keys per table: the key/value lines and [table] / [[array of tables]] headers the table writers start, given TOML's meaning of headers, rebuild exactly the source value, so every table including an empty one must be announced by a line) with toml_layout_same_members, domain_rejected / domain_rejected_named (a writer fails exactly on values outside the format's domain: null/function in TOML, function anywhere, non-JsonML shapes), escape_table_high_half_zero (the byte-level escaper acts character by character). All hold for every string / value, no size bound. The model is tied to the code by re-extracting the 256-entry escape table, the TOML bare-key class and guard, the YAML reserved words, the six bare_safe character classes, the YAML/TOML re-escape classes and the XML escape arms on every run, and by a token-level differential run of the real writers (every lexical position of every format, ~500 hostile strings) against both the model and the Lean readers. Whole-writer models (ManifDoc: TOML items + render, Python, PythonVars, INI with ToString values) are compared byte for byte with the real writers under every option combination (4 indents x std, 3 paddings x CLI, both INI newline settings), and an independently written TOML reader (ManifTomlR: statements, dotted headers, inline arrays/tables, basic strings; then the table semantics proved above) reads every emitted TOML document back and must return the source value. The remaining layout is not proved: whole documents emitted by the real writers under every option combination are read back by PyYAML (pure Python and libyaml), tomllib, ast, xml.etree and configparser and compared strictly with the source value.",
    "level_note": "Partial: for TOML the section structure is proved on the statement level (toml_sections_rebuild); that the characters written parse into those statements (parseDoc (render items) = statements) is not a theorem - it is checked on every generated document by running the Lean reader on the real output, and by tomllib. YAML indentation / block-scalar layout, Python and INI layout are observed through external parsers, not proved. bare_safe is proved against the PyYAML (YAML 1.1) resolver; a YAML 1.2 core-schema reader would resolve the bare 0o17 to an integer (outside the 1.1 reference). Trusted: Lean kernel; the Lean readers as renderings of the TOML 1.0 / Python / YAML 1.2(+1.1 strictness) / XML 1.0 grammars (the Python reader under-approximates: no octal, no \\N{}); the character-level reading of the byte loop (backed by escape_table_high_half_zero and UTF-8's ASCII transparency); number rendering ({n} Display) belongs to C05.",
    "technique": "Lean 4 proof of the lexical layer (escapers, key predicates incl. the full YAML 1.1 resolver, framing, domains) and of the TOML section structure against independently written readers + table/class extraction + token-level and whole-document byte-for-byte correspondence + read-back of whole documents by a Lean TOML reader and by external parsers",
    "engines": ["c14"],
    "assumptions": [
        "domains: PythonVars field names are Python identifiers, XML tag/attribute names are XML Names, strings given to the XML writer consist of XML 1.0 Chars, INI keys/values/section names contain no line breaks, no leading/trailing blanks and keys no '=' — the writers do not escape or validate these (no escaping exists in those positions) and the property text does not list them among the rejections",
        "block-scalar-safe class used by the generator: 2..4 non-empty lines of printable characters that neither start nor end with white space, at most one trailing line feed; other multi-line strings are only compared token-by-token with the model",
        "toml_sections_rebuild assumes distinct keys in every object (true of every jsonnet object); object members reach the model in the order obj.iter() yields them (taken from the real value by the harness)",
        "numbers: integers up to 2^53 and a few fractions; their rendering is not part of this model",
        "YAML is read back with YAML 1.1 parsers (PyYAML / libyaml); a YAML 1.2 core-schema parser would read the bare key 0o17 as an integer (not checked)",
        "the CLI formats are exercised through the constructors the CLI calls (YamlFormat::cli, TomlFormat::cli, XmlJsonmlFormat::cli, IniFormat::cli, YamlStreamFormat::cli) plus the line feed the binary appends; --line-padding 0 for YAML is excluded (no indentation at all)",
        "the `_ => unreachable!()` arm of the escaper (a table value that is neither a short escape nor UU) is C05's obligation",
    ],
    "extra": extra,
    "timeout": 1200,
}
