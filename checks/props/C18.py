CFG = {
    "level": "proof",
    "level_text": "Interner half: Lean theorems (step_ok, run_refines, reachable_inv, ptrEq_iff_contentsEq, contents_stable, dropped_leave_pool, live_values_safe, obs_eq_spec) prove for EVERY well-typed history of intern str/bytes, clone, drop, cast str<->bytes and thread hand-over, of any length below the 2^31 reference-count capacity, that the coded protocol (pool lookup by contents, Inner::clone, maybe_unpool with the extracted threshold, Inner::drop freeing at zero, casts cloning before the consumed value drops) never panics, never underflows a count or touches a freed block, keeps one pool entry per contents exactly while a live value has them, makes two values pointer-equal iff their contents are equal, keeps contents of live values, and empties the pool when everything is dropped. The model is tied to the code by re-extracted constants/shapes and a differential run (pool size, contents, refcount, == classes, pool-entry identity after every op) against both the model and the list semantics. Collector half: observed only (programs with cycles, failing and stack-limited ones: tracked-object count and pool size return to the baseline after drop + collect_thread_cycles), plus a decided necessary condition on the re-extracted #[trace(skip)] table (traceGraph_complete).",
    "level_note": "Trusted: Lean kernel; the hand model of jrsonnet-interner's lib.rs/inner.rs (validated by exhaustive histories to length 4-5 (thorough 5-7) + seeded random histories to 200 ops, on real OS threads for hand-over); unsafe allocation/deallocation and hashbrown are outside the model (a freed block is a flag); jrsonnet-gcmodule's algorithm and the Trace derive are not modelled: cycle reclamation is an observation over a corpus, not a theorem.",
    "technique": "Lean 4 invariant + refinement proof over operation histories; differential correspondence with a verification hook; collector observed against a baseline",
    "engines": ["c18", "c18gc"],
    "assumptions": [
        "fewer than 2^31 - 3 live interned values (beyond that set_refcnt's assertion panics; modelled as none)",
        "hand-over follows the documented protocol: exit_thread on the old thread, reenter_thread on a thread whose own pool is empty, every live value moves along, the old thread does not intern in between",
        "HashMap lookup/removal by contents is modelled as first match in a list (equivalent under the proved one-entry-per-contents invariant); allocator address reuse after free is not modelled",
        "&str arguments are valid UTF-8 (Rust type invariant); validUtf8 (Unicode table 3-7) is compared with str::from_utf8 through cast_str on boundary byte strings",
        "collector half is observation: a fixed template corpus x parameters x random combinations, leak = growth of count_thread_tracked()/pool size between the first and second evaluation on a fresh thread (thread-local singletons are absorbed by the first run)",
        "traceGraph_complete is a necessary condition only: the allow-list of hidden types (Model/TraceGraph.lean) is declared by hand",
    ],
    "trusted_extra": [
        "verification hook commit in jrsonnet-interner (read-only accessors under cfg(jrsonnet_verif))",
        "jrsonnet_gcmodule::count_thread_tracked / collect_thread_cycles report faithfully",
    ],
    "timeout": 3000,
}
