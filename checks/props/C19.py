CFG = {
    "level": "proof",
    "level_text": "Translation validation with a proved-sound validator. Lean theorems (validate_sound, norm_sound, sugar_local_sound, sugar_field_sound, norm_idempotent, comments_of_strip_invariant, accept_sound, eval_local_sugar, eval_bindLocals_sugar, eval_field_sugar) prove that whenever the validator accepts a formatter output, the output's syntax tree has the same meaning as the input's in every compositional semantics that treats the two documented sugar pairs alike, and that its comment sequence is the input's. The check runs the REAL formatter on generated programs covering every construct (plain, with source line breaks, indent tabs/2/4, and decorated with comments at every token boundary), re-parses the output with the evaluator's parser, serialises both trees (spans erased) and decides the validator in the Lean driver; both texts are also evaluated by the real evaluator and the jrsonnet-fmt binary is compared with the library call.",
    "level_note": "Per-run guarantee only: nothing is proved about the printers, and nothing is claimed for programs that were not generated. validate_sound is relative to an abstract compositional semantics (fold over the serialised tree) with the sugar laws as hypothesis; for the interpreter model Model/Eval.lean it is proved only that `local` evaluates identically for both bind forms and that methods and function-valued fields store the same body. Trusted: the harness walker that serialises jrsonnet_ir::Expr (checked against the shape grammar Fmt.wf on every case), the real lexer for comment tokens.",
    "technique": "translation validation: Lean 4 proofs about the validator (sugar normal form, fold invariance, comment projection) + per-case validation of the real formatter through the real parser",
    "engines": ["c19"],
    "repo_bins": ["jrsonnet-fmt"],
    "timeout": 3000,
    "assumptions": [
        "the meaning of a program is compositional in its syntax tree and identifies `local f = function(ps) e` with `local f(ps) = e` and `f: function(ps) e` with `f(ps): e` (hypothesis SugarLaws of validate_sound; shape-checked at the evaluator's evaluate_named / evaluate_method call sites by extract/ex_c19.py, and observed by evaluating every case before and after formatting)",
        "comment text is compared up to white-space layout and `*` gutters (the formatter re-indents block comments); comment kind (`#`, `//`, `/* */`) and order are compared exactly",
        "inputs are the generated ones: token-level generator over all constructs, depth <= 4, each with comments at every token boundary; a formatter bug that needs another shape of input is not seen",
        "a declined input (formatter's parser reports a syntax error) is accepted without further checks, as the property allows",
    ],
}
