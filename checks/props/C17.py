CFG = {
    "level": "proof",
    "level_text": "Lean theorems (model_eq_spec/line_spec/column_chars/column_exact_if_line_prefix_ascii/multi_offsets_independent/span_locations/print_start/print_single_line/print_multi_line) prove, for every text and every tuple of character-boundary offsets, that the modelled offset_to_location walker returns line = 1 + newlines before the offset, column = characters since the line start + 1 (= byte distance + 1 when the line prefix is ASCII), the right line start/end, independently of the other offsets asked, and that print_code_location prints the start's own line and column in all three branches; tiling_lossless proves that ranges accepted by the executable tiling statement concatenate to the input. The model is tied to the code by a differential run of Source::map_source_locations and CompactFormat on generated texts against model and reference, and the lexer/rowan/parser/evaluator/CLI outputs are checked against the reference on generated inputs (observation).",
    "level_note": "Proof covers the byte-offset to line/column mapping and span printing (the part with arithmetic). Trusted/observed only: logos' DFA and the text-block scanner (ranges checked to tile on every generated input), rowan's green tree and Sink::finish (tree text compared with input), that the parsers attach the intended offsets to AST nodes (planted constructs, all IR spans checked to be in-range char boundaries), hand model of location.rs/print_code_location (validated by correspondence). Partial by design: nothing is demanded of the column when non-ASCII text precedes the construct on its own line; the end column convention of a printed span (exclusive end + 1) is recorded as observed.",
    "technique": "Lean 4 proof by induction over the text (walker invariant, refinement to a prefix-counting reference) + differential correspondence + observation of lexer/tree/trace output",
    "engines": ["c17", "c17lex", "c17cli"],
    "repo_bins": ["jrsonnet"],
    "assumptions": [
        "source files are shorter than 2^32 bytes (offsets are u32; `pos as u32` does not wrap)",
        "offsets handed to map_source_locations by the evaluator are character boundaries inside the text (checked for every span of every IR the harness parses; for other offsets the model still mirrors the code but no theorem speaks)",
        "Char.utf8Size of core Lean is the UTF-8 length Rust's char_indices advances by (checked on every generated text: model offsets equal implementation offsets)",
        "tiling/losslessness of the logos lexer, the text-block scanner and the rowan sink is observed on generated inputs, not proved",
        "JsFormat and the explaining-traces (hi-doc) format are not covered; CompactFormat, StdTracePrinter and the jrsonnet binary's stderr are",
        "a syntax error reported at end of input is attributed by the code to the last character of the text (then column + 1); the planted syntax errors are not at end of input",
    ],
    "timeout": 1500,
}
