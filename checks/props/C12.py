"""C12 — std.format / `%`: configuration + CPython as a second oracle."""
import json, os, re, struct
from fractions import Fraction

_SPEC_RE = re.compile(r"%(?:\((?P<key>[^)]*)\))?(?P<flags>[#0\- +]*)(?P<width>\*|\d*)(?:\.(?P<prec>\*|\d*))?(?P<len>[hlL]*)(?P<conv>.)", re.S)


def _pyval(v):
    """jsonnet value description -> Python value (or None when Python has no counterpart)"""
    if v["k"] == "num":
        x = struct.unpack(">d", bytes.fromhex(v["_bits"]))[0]
        return x
    if v["k"] == "str":
        return "".join(chr(c) for c in v["s"])
    return None


def _in_domain(fmt, vals):
    """Returns the Python argument tuple when CPython's `%` and Jsonnet's std.format are specified
    to agree on (fmt, vals); None otherwise.  Every exclusion is a documented difference of the
    two languages, not of the implementation under test."""
    specs = list(_SPEC_RE.finditer(fmt))
    if fmt.count("%") != sum(2 if m.group("conv") == "%" else 1 for m in specs):
        return None  # malformed: error behaviour is compared by the Lean reference, not CPython
    args, i = [], 0
    for m in specs:
        conv, flags, width, prec = m.group("conv"), m.group("flags"), m.group("width"), m.group("prec")
        if m.group("key") is not None or m.group("len"):
            return None
        if conv == "%":
            if flags or width or prec is not None:
                return None  # CPython rejects/ignores flags on %%
            continue
        if conv not in "diuoxXeEfFgGcs":
            return None
        p = None
        if (width not in ("", "*") and int(width) > 65535) or (prec not in (None, "", "*") and int(prec) > 65535):
            return None  # jrsonnet keeps widths in u16 and rejects larger ones (an error, not wrong text)
        for star in (width, prec):
            if star == "*":
                if i >= len(vals):
                    return None
                x = _pyval(vals[i]); i += 1
                if not isinstance(x, float) or x != int(x) or not (0 <= x <= 65535):
                    return None  # CPython: negative * = left-justify; Jsonnet: error
                args.append(int(x))
                if star is prec:
                    p = int(x)
        if prec is not None and prec != "*":
            p = int(prec or "0")
        if i >= len(vals):
            return None
        x = _pyval(vals[i]); i += 1
        if x is None:
            return None
        if conv == "s":
            if not isinstance(x, str) or prec is not None:
                return None  # number -> text is C05's business; Jsonnet ignores precision on %s
            args.append(x)
        elif conv == "c":
            if isinstance(x, str):
                if len(x) != 1:
                    return None
                args.append(x)
            else:
                if x != int(x) or not (0 <= x <= 0x10FFFF) or 0xD800 <= x <= 0xDFFF:
                    return None
                args.append(int(x))
        elif conv in "diuoxX":
            if isinstance(x, str) or abs(x) >= 2.0 ** 63:
                return None  # >= 2^63: known finding (saturation), handled by the Lean reference
            if conv == "o" and "#" in flags:
                return None  # CPython writes 0o, Jsonnet/C write 0
            args.append(int(x))  # truncation toward zero = the Jsonnet rule for doubles
        else:
            if isinstance(x, str):
                return None
            pp = 6 if p is None else p
            fx = Fraction(x)
            if conv in "gG":
                pp = max(pp, 1)
                if x == 0:
                    e = 0
                else:
                    e = int(("%e" % abs(x)).split("e")[1])  # exact for our value set (checked below)
                    if not (Fraction(10) ** e <= abs(fx) < Fraction(10) ** (e + 1)):
                        return None
                if e < 0:
                    return None  # Jsonnet counts significant digits of |v|<1 from the units digit
                if e >= pp:
                    scale, digs = Fraction(10) ** (pp - 1 - e), pp - 1
                else:
                    scale, digs = Fraction(10) ** (pp - 1 - e), pp - 1 - e
                # rounding must not carry into a new leading digit (CPython re-decides the form then)
                if abs(fx) * scale + Fraction(1, 2) >= Fraction(10) ** pp:
                    return None
                scaled = abs(fx) * scale
            elif conv in "eE":
                if x == 0:
                    e = 0
                else:
                    e = int(("%e" % abs(x)).split("e")[1])
                    if not (Fraction(10) ** e <= abs(fx) < Fraction(10) ** (e + 1)):
                        e = e - 1 if abs(fx) < Fraction(10) ** e else e + 1
                scaled = abs(fx) / Fraction(10) ** e * Fraction(10) ** pp
                if scaled + Fraction(1, 2) >= Fraction(10) ** (pp + 1):
                    return None  # carry changes the exponent: Jsonnet's algorithm prints 10.0e+NN
            else:
                scaled = abs(fx) * Fraction(10) ** pp
            # Jsonnet's algorithm (|v|*10^p + 0.5 in double arithmetic, round half up) and CPython
            # (exact, round half even) agree away from ties and while |v|*10^p is exact in a double
            if scaled >= 2 ** 53:
                return None
            frac = scaled - (scaled.numerator // scaled.denominator)
            if abs(frac - Fraction(1, 2)) < Fraction(1, 10 ** 6):
                return None
            args.append(x)
    if i != len(vals):
        return None
    return tuple(args)


def extra(root, out_dir, tier, seed, findings, cov):
    """CPython's `%` as a second oracle on the part of the domain where both languages agree."""
    d = os.path.join(out_dir, "c12")
    res, n, skipped, pyerr, bad = [], 0, 0, 0, []
    try:
        fin, fimp = open(os.path.join(d, "in.jsonl")), open(os.path.join(d, "impl.jsonl"))
    except OSError:
        return res
    for l1, l2 in zip(fin, fimp):
        if '"op":"fmt"' not in l1 or '"mode":"arr"' not in l1:
            continue
        op = json.loads(l1)
        fmt = op.get("_fmt")
        if fmt is None:
            continue
        args = _in_domain(fmt, op["vals"])
        if args is None:
            skipped += 1
            continue
        try:
            want = fmt % args
        except Exception:
            pyerr += 1
            continue
        n += 1
        imp = json.loads(l2)
        got = "".join(chr(c) for c in imp["ok"]) if "ok" in imp else None
        if got != want:
            bad.append((len(fmt) + len(args), {"fmt": fmt, "args": [repr(a) for a in args], "cpython": want,
                                                "implementation": got if got is not None else imp, "via": op.get("via")}))
    cov["cpython_compared"] = n
    cov["cpython_out_of_common_domain"] = skipped
    cov["cpython_raised"] = pyerr
    cov["cpython_disagreements"] = len(bad)
    if bad:
        bad.sort(key=lambda x: x[0])
        res.append(("violation", {"property": "C12", "kind": "cpython-disagrees",
                                  "what": "the implementation's text differs from CPython's `fmt % args` on an input where Python's and Jsonnet's %-formatting are specified to agree",
                                  "case": bad[0][1], "others": len(bad) - 1}, None))
    return res


CFG = {
    "level": "proof",
    "level_text": "Lean theorems about a model of format.rs prove, for all inputs: the integer conversions d i u o x X equal the reference printf text for every flag subset, width, precision and every number with |v| < 2^63 and never panic (int_conv_spec / int_conv_partial, with the >= 2^63 saturation kept as a proved counterexample + known finding); %s/%c/%% pad to the width in characters (pad_spec, percent_text, char_conv_partial); values are consumed strictly left to right, each code seeing exactly its own window (`*` width, `*` precision, value), %% consuming nothing, and success implies the value count is exact, so too few / too many values are errors (consumes_left_to_right, value_count_exact, too_few_is_error, too_many_is_error, percent_no_consume); text without % is copied unchanged (literal_copied, literal_elem_copied); object mode resolves %(key) incl. dotted paths, rejects `*` and key-less codes (obj_mode_spec); parsing never panics and fails only with truncated / unrecognised-conversion / width-too-large, the conversion character alone decides known vs unknown (parse_errors_only, conversion_char_spec); the conversion/flag/length-modifier tables re-extracted from format.rs on every run equal the reference tables (conv_table_spec, flag_table_spec). The model is tied to the code by an exhaustive differential run (flags 2^5 x widths x precisions x 15 conversions x values, every format string of length <= 4 over a 17-character alphabet, argument-mode tables, seeded random strings; 1 in 16 also through `%`, std.format and std.mod from source) against both the model and the independent reference, and the implementation is additionally compared with CPython's `%` operator on ~1.3e5 cases of the common domain.",
    "level_note": "Trusted: Lean kernel; the hand model of format.rs (validated by the correspondence run only); the digit oracle: double -> decimal digit generation of %e/%f/%g (mul_add/floor/%/log10/powf) is recomputed by the harness and handed to model and reference (checked only against CPython away from ties and below 2^53); number -> text of %s is an input (C05). Which format strings are truncated is decided by the model parser; its agreement with the independently written reference grammar (FormatSpec.parseFmt) is checked by exhaustive enumeration (length <= 4) + random strings against the independently written reference parser, not by a Lean equivalence theorem.",
    "technique": "Lean 4 proof (value threading, integer/padding arithmetic, table equality) + exhaustive differential correspondence + CPython as second oracle",
    "engines": ["c12"],
    "assumptions": [
        "reference = Python %-formatting as adopted by Jsonnet's std.format: %#o writes a leading 0 (not 0o), %s ignores precision, %% honours flags/width, doubles are truncated toward zero by integer conversions (also %x, where upstream std.jsonnet floors), parse errors precede value errors, %g counts significant digits of |v|<1 from the units digit, widths/precisions above 65535 are an error",
        "digit generation of %e/%f/%g (the float pipeline) is an oracle input to model and reference; it is compared with CPython only where |v|*10^precision < 2^53, away from rounding ties and (for %g) for |v| >= 1 without carry",
        "the text of a non-string value under %s (Val::to_string) is an input",
        "float precisions explored: <= 9 in the cross product, 0..7 and 65534/65535 elsewhere; precisions >= 19 (scaled fraction >= 2^63) fall under the saturation finding",
        "format strings are modelled as code-point lists (the parser only inspects and slices at ASCII bytes)",
    ],
    "timeout": 3000,
    "extra": extra,
}
