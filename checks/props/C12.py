"""C12 — std.format / `%`: configuration + CPython as a second oracle."""
import json, math, os, re, struct

_SPEC_RE = re.compile(r"%(?:\((?P<key>[^)]*)\))?(?P<flags>[#0\- +]*)(?P<width>\*|\d*)(?:\.(?P<prec>\*|\d*))?(?P<len>[hlL]*)(?P<conv>.)", re.S)


def _pyval(v):
    """jsonnet value description -> Python value (or None when Python has no counterpart)"""
    if v["k"] == "num":
        x = struct.unpack(">d", bytes.fromhex(v["_bits"]))[0]
        return x
    if v["k"] == "str":
        return "".join(chr(c) for c in v["s"])
    return None


def _in_domain(fmt, vals):
    """Returns the Python argument tuple when CPython's `%` and Jsonnet's std.format are specified
    to agree on (fmt, vals); None otherwise.  Every exclusion is a documented difference of the
    two languages, not of the implementation under test."""
    specs = list(_SPEC_RE.finditer(fmt))
    if fmt.count("%") != sum(2 if m.group("conv") == "%" else 1 for m in specs):
        return None  # malformed: error behaviour is compared by the Lean reference, not CPython
    args, i = [], 0
    for m in specs:
        conv, flags, width, prec = m.group("conv"), m.group("flags"), m.group("width"), m.group("prec")
        if m.group("key") is not None or m.group("len"):
            return None
        if conv == "%":
            if flags or width or prec is not None:
                return None  # CPython rejects/ignores flags on %%
            continue
        if conv not in "diuoxXeEfFgGcs":
            return None
        p = None
        if (width not in ("", "*") and int(width) > 65535) or (prec not in (None, "", "*") and int(prec) > 65535):
            return None  # jrsonnet keeps widths in u16 and rejects larger ones (an error, not wrong text)
        for star in (width, prec):
            if star == "*":
                if i >= len(vals):
                    return None
                x = _pyval(vals[i]); i += 1
                if not isinstance(x, float) or x != int(x) or not (0 <= x <= 65535):
                    return None  # CPython: negative * = left-justify; Jsonnet: error
                args.append(int(x))
                if star is prec:
                    p = int(x)
        if prec is not None and prec != "*":
            p = int(prec or "0")
        if i >= len(vals):
            return None
        x = _pyval(vals[i]); i += 1
        if x is None:
            return None
        if conv == "s":
            if not isinstance(x, str) or prec is not None:
                return None  # number -> text is C05's business; Jsonnet ignores precision on %s
            args.append(x)
        elif conv == "c":
            if isinstance(x, str):
                if len(x) != 1:
                    return None
                args.append(x)
            else:
                if x != int(x) or not (0 <= x <= 0x10FFFF) or 0xD800 <= x <= 0xDFFF:
                    return None
                args.append(int(x))
        elif conv in "diuoxX":
            if isinstance(x, str):
                return None
            if conv == "o" and "#" in flags:
                return None  # CPython writes 0o, Jsonnet/C write 0
            args.append(int(x))  # truncation toward zero = the Jsonnet rule for doubles
        else:
            if isinstance(x, str):
                return None
            pp = 6 if p is None else p
            if pp > 308:
                return None  # jrsonnet limits float precisions to 308: above that an error
            if x == 0 and math.copysign(1.0, x) < 0:
                return None  # Jsonnet prints -0.0 without a sign (the sign test is `n < 0`)
            if conv in "gG":
                pp = max(pp, 1)
                # decimal exponent of the value rounded to pp significant digits (C, Python and — since
                # the repair — jrsonnet choose the form by it)
                e = int(("%.*e" % (pp - 1, abs(x))).split("e")[1])
                if -4 <= e < 0:
                    return None  # fixed form of |v| < 1: Jsonnet counts significant digits from the units digit
            # every other float conversion is in the common domain: exact digits, round half even,
            # exponent of the rounded value — no exclusion for ties, carries or large magnitudes
            args.append(x)
    if i != len(vals):
        return None
    return tuple(args)


def extra(root, out_dir, tier, seed, findings, cov):
    """CPython's `%` as a second oracle on the part of the domain where both languages agree."""
    d = os.path.join(out_dir, "c12")
    res, n, skipped, pyerr, bad, n_float = [], 0, 0, 0, [], 0
    try:
        fin, fimp = open(os.path.join(d, "in.jsonl")), open(os.path.join(d, "impl.jsonl"))
    except OSError:
        return res
    for l1, l2 in zip(fin, fimp):
        if '"op":"fmt"' not in l1 or '"mode":"arr"' not in l1:
            continue
        op = json.loads(l1)
        fmt = op.get("_fmt")
        if fmt is None:
            continue
        args = _in_domain(fmt, op["vals"])
        if args is None:
            skipped += 1
            continue
        try:
            want = fmt % args
        except Exception:
            pyerr += 1
            continue
        n += 1
        if (op.get("_tag") or "").startswith("float-digits"):
            n_float += 1
        imp = json.loads(l2)
        got = "".join(chr(c) for c in imp["ok"]) if "ok" in imp else None
        if got != want:
            bad.append((len(fmt) + len(args), {"fmt": fmt, "args": [repr(a) for a in args], "cpython": want,
                                                "implementation": got if got is not None else imp, "via": op.get("via")}))
    cov["cpython_compared"] = n
    cov["cpython_out_of_common_domain"] = skipped
    cov["cpython_raised"] = pyerr
    cov["cpython_disagreements"] = len(bad)
    cov["cpython_compared_float_digit_cases"] = n_float
    if bad:
        bad.sort(key=lambda x: x[0])
        res.append(("violation", {"property": "C12", "kind": "cpython-disagrees",
                                  "what": "the implementation's text differs from CPython's `fmt % args` on an input where Python's and Jsonnet's %-formatting are specified to agree",
                                  "case": bad[0][1], "others": len(bad) - 1}, None))
    return res


CFG = {
    "level": "proof",
    "level_text": "Lean theorems about a model of format.rs prove, for all inputs: PARSER — the model of parse_codes/parse_code/try_parse_* equals the independently written reference grammar on EVERY format string, successes and the three error classes alike (parse_spec, parse_code_spec), and parsing the rendering of any well-formed element list gives the list back field by field (parse_roundtrip, parse_code_roundtrip); parsing fails only with truncated / unrecognised-conversion / width-too-large and never panics (parse_errors_only, conversion_char_spec). INTEGER conversions d i u o x X equal the reference printf text for every flag subset, width, precision and EVERY finite double, no i64 bound (int_conv_spec, int_conv_full; the former saturation finding is repaired). FLOAT conversions e E f F g G equal the reference text for EVERY finite double, flag subset, width and precision <= 308, where the reference (FormatSpec.fixDigits / sciDigits) is the EXACT decimal expansion of the double, correctly rounded half-even to the precision, written in integer arithmetic on |v|*2^1074 — digits, exponent of the rounded value (two digits at least, signed), %g form chosen by that exponent with the extracted threshold, sign, #, zero padding inside render_float_digits or applied afterwards for %g, trailing-zero stripping, width (float_conv_spec, float_conv_full; the former finding c12_float_digits_inexact_beyond_2_53 is repaired: the code now delegates digit generation to Rust's float formatting, and the theorem assumes that library returns the exact correctly rounded expansion — RustFmtExact, validated on every run against the Lean exact reference); what the code does with the returned text is right for ALL digit data whether or not they are the digits of the number (float_layout_fixed, float_layout_sci); every finite bit pattern is within the bound of these theorems (ofBits_finite); the reference's rounding is a nearest integer with ties to even and its digit data recompose to the rounded value (round_half_even_nearest, fix_digits_recompose), and its scientific notation is normalised for every non-zero finite double — one leading digit 1..9, i.e. the reference exponent is the exponent of the rounded value (sci_digits_normalised); a float precision above 308 is the error tooLarge for every value (float_precision_limit; the former u16-overflow finding is repaired). %s/%c/%% pad to the width in characters; %c is the reference for every value incl. negative numbers (pad_spec, percent_text, char_conv_spec; former NUL finding repaired). Values are consumed strictly left to right, each code seeing exactly its own window, %% consuming nothing, success implies the value count is exact (consumes_left_to_right, value_count_exact, too_few_is_error, too_many_is_error, percent_no_consume); text without % is copied unchanged (literal_copied, literal_elem_copied); object mode resolves %(key) incl. dotted paths, rejects `*` and key-less codes (obj_mode_spec); the conversion/flag/length-modifier tables, default precisions, %g threshold, exponent padding, the float precision limit with its guard and the two format strings handed to Rust's float formatting ({:.*} and {:.*e}, with the bodies of float_digits / float_sci_digits) are re-extracted from format.rs on every run (conv_table_spec, flag_table_spec, rust_float_calls_spec). The model is tied to the code by an exhaustive differential run (flags 2^5 x widths x precisions x 15 conversions x values; every format string of length <= 4 over a 17-character alphabet, whose parse is compared FIELD BY FIELD through the Debug text of the real Vec<Element>; integer conversions of 16 numbers beyond the i64 range up to f64::MAX x flags x widths/precisions; float precision limit; %c of negative/fractional/huge numbers; argument-mode tables; seeded random strings; FLOAT DIGITS: ~3000 boundary-heavy doubles (every 13th power of two with both neighbours — every one in the thorough tier —, powers of ten with neighbours and carry cases, subnormals, max finite, -0, exact ties t/2^(p+1) of every precision 0..20 and ties of the exponent form with both neighbours, random bit patterns) x e/E/f/F/g/G x 12 width/precision forms (precisions up to 308) x rotating flag forms; 1 in 16 also through `%`, std.format and std.mod from source) against both the model and the independent reference, and the implementation is additionally compared with CPython's `%` operator on ~3.4e5 cases of the common domain (float conversions without exclusion of ties, carries or large magnitudes). The assumption about Rust's float formatting is validated by op fmt.digits: format!(\"{:.*}\") / format!(\"{:.*e}\") on the same doubles at precisions 0..21, 30, 50, 100, 308 (some at 400, 767, 1074, 1075, 1100) against the Lean exact reference (~7e4 comparisons quick). REACH family: 41 right operands of every type given bare — 0, -0, 0.0, -0.0, (1-1), (0*-1), integers, negative, fractional, huge numbers, strings, booleans, null, arrays, objects — x 42 format strings (two longer than the 100-byte rope threshold) + seeded random code x value, each through eleven entry points that must give the one reference answer: std_format(f, x), `f % x`, std.format(f, x), std.mod(f, x), `local f = .., v = ..; f % v`, `(f) % (x)`, `(f1 + f2) % x` with the format string cut in the middle, and the first four with the value wrapped as [x]) against both the model and the independent reference, and the implementation is additionally compared with CPython's `%` operator on ~1.4e5 cases of the common domain.",
    "level_note": "Trusted: Lean kernel; the hand model of format.rs (validated by the correspondence run only); Rust's float formatting (core::fmt::float / flt2dec: format!(\"{:.*}\", p, x), format!(\"{:.*e}\", p, x)), to which the repaired code delegates double -> decimal digit generation: it is NOT modelled — its answers are parameters of the model (Num.rfix / Num.rsci) and float_conv_spec assumes RustFmtExact: for every precision <= 308 the returned text is the plain / scientific notation of the exact decimal expansion of the double correctly rounded half-even (FormatSpec.rustFixed / rustSci). That assumption is compared with the Lean exact reference on every run (op fmt.digits, boundary-heavy doubles) and, through std_format, with CPython; it is not proved. The harness obtains the texts handed to the model with the very format! calls of float_digits / float_sci_digits (re-extracted from the source; a changed call is an extraction error). render_integer's limb-wise long division (integer_digits) is modelled at the level of the exact integer (repeated % radix, / radix); the limb arithmetic itself is validated by the big-number correspondence cases only. Number -> text of %s is an input (C05).",
    "technique": "Lean 4 proof (parser = reference grammar for all strings + round trip, value threading, integer padding arithmetic, float conversions against an exact integer-arithmetic reference under an explicit, run-time validated assumption about Rust's float formatting, table equality) + exhaustive differential correspondence incl. field-by-field parse comparison + CPython as second oracle",
    "engines": ["c12"],
    "assumptions": [
        "reference = Python %-formatting as adopted by Jsonnet's std.format: %#o writes a leading 0 (not 0o), %s ignores precision, %% honours flags/width, doubles are truncated toward zero by integer conversions (also %x, where upstream std.jsonnet floors), parse errors precede value errors, %g counts significant digits of |v|<1 from the units digit, widths/precisions above 65535 are an error, float precisions above 308 are an error (limit kept from the time digits were generated by scaling with 10^precision), %c of a number <= -1 is an invalid-code-point error",
        "ASSUMPTION RustFmtExact (Proofs/FormatExact.lean): for every finite double x and precision q <= 308, format!(\"{:.*}\", q, x.abs()) is `ddd.ddd` (`ddd` for q = 0) and format!(\"{:.*e}\", q, x.abs()) is `d.ddde-7` (exponent without + or padding) of the EXACT decimal expansion of x correctly rounded, ties to even, to q places / q+1 significant digits; the float theorems hold under it; validated, not proved: compared on every run with the Lean exact reference (op fmt.digits) on powers of two and ten with neighbours, subnormals, max finite, exact ties at every precision 0..20, random bit patterns",
        "float reference = C/Python semantics on the exact value: round half even, exponent of the rounded value, %g form by that exponent; adopted Jsonnet deviations: the fixed form of %g prints max(p,1) - max(1, X+1) decimals (for |v| < 1 significant digits are counted from the units digit), -0.0 has no sign; CPython is compared on all float cases except those two and precisions above 308",
        "the text of a non-string value under %s (Val::to_string) is an input",
        "float precisions explored: <= 9 in the cross product, 0..7 elsewhere, none/0/1/2/3/5/10/15/17/20/40/308 on the boundary doubles, 308 and 309/310/400/65535 (error path) on the limit cases; Rust's formatter itself also at 400/767/1074/1075/1100",
        "a bare non-array, non-object right operand x means the argument list [x] (std_format's `o => format_arr(str, &[o])`); the reference answers `f % x`, std.mod(f, x), std.format(f, x) and their [x] forms from the same op; negative zero formats as zero without sign (sign from n < 0, as in std.jsonnet) except under %s, whose text is an input — CPython, which prints -0.0, is therefore not consulted on the REACH family's scalar operands",
        "format strings are modelled as code-point lists (the parser only inspects and slices at ASCII bytes)",
    ],
    "trusted_extra": [
        "Rust's float formatting (core::fmt::float, flt2dec) returns the exact decimal expansion of a double, correctly rounded half-even (assumption RustFmtExact; compared with the Lean exact reference on boundary-heavy doubles every run)",
    ],
    "timeout": 3000,
    "extra": extra,
}
