"""C12 — std.format / `%`: configuration + CPython as a second oracle."""
import json, os, re, struct
from fractions import Fraction

_SPEC_RE = re.compile(r"%(?:\((?P<key>[^)]*)\))?(?P<flags>[#0\- +]*)(?P<width>\*|\d*)(?:\.(?P<prec>\*|\d*))?(?P<len>[hlL]*)(?P<conv>.)", re.S)


def _pyval(v):
    """jsonnet value description -> Python value (or None when Python has no counterpart)"""
    if v["k"] == "num":
        x = struct.unpack(">d", bytes.fromhex(v["_bits"]))[0]
        return x
    if v["k"] == "str":
        return "".join(chr(c) for c in v["s"])
    return None


_BEYOND = []   # filled by _in_domain: a float conversion with |v|*10^precision >= 2^53 was seen


def _in_domain(fmt, vals):
    """Returns the Python argument tuple when CPython's `%` and Jsonnet's std.format are specified
    to agree on (fmt, vals); None otherwise.  Every exclusion is a documented difference of the
    two languages, not of the implementation under test."""
    specs = list(_SPEC_RE.finditer(fmt))
    if fmt.count("%") != sum(2 if m.group("conv") == "%" else 1 for m in specs):
        return None  # malformed: error behaviour is compared by the Lean reference, not CPython
    args, i = [], 0
    for m in specs:
        conv, flags, width, prec = m.group("conv"), m.group("flags"), m.group("width"), m.group("prec")
        if m.group("key") is not None or m.group("len"):
            return None
        if conv == "%":
            if flags or width or prec is not None:
                return None  # CPython rejects/ignores flags on %%
            continue
        if conv not in "diuoxXeEfFgGcs":
            return None
        p = None
        if (width not in ("", "*") and int(width) > 65535) or (prec not in (None, "", "*") and int(prec) > 65535):
            return None  # jrsonnet keeps widths in u16 and rejects larger ones (an error, not wrong text)
        for star in (width, prec):
            if star == "*":
                if i >= len(vals):
                    return None
                x = _pyval(vals[i]); i += 1
                if not isinstance(x, float) or x != int(x) or not (0 <= x <= 65535):
                    return None  # CPython: negative * = left-justify; Jsonnet: error
                args.append(int(x))
                if star is prec:
                    p = int(x)
        if prec is not None and prec != "*":
            p = int(prec or "0")
        if i >= len(vals):
            return None
        x = _pyval(vals[i]); i += 1
        if x is None:
            return None
        if conv == "s":
            if not isinstance(x, str) or prec is not None:
                return None  # number -> text is C05's business; Jsonnet ignores precision on %s
            args.append(x)
        elif conv == "c":
            if isinstance(x, str):
                if len(x) != 1:
                    return None
                args.append(x)
            else:
                if x != int(x) or not (0 <= x <= 0x10FFFF) or 0xD800 <= x <= 0xDFFF:
                    return None
                args.append(int(x))
        elif conv in "diuoxX":
            if isinstance(x, str):
                return None
            if conv == "o" and "#" in flags:
                return None  # CPython writes 0o, Jsonnet/C write 0
            args.append(int(x))  # truncation toward zero = the Jsonnet rule for doubles
        else:
            if isinstance(x, str):
                return None
            pp = 6 if p is None else p
            if pp > 308:
                return None  # jrsonnet generates digits by scaling with 10^precision: above 308 an error
            fx = Fraction(x)
            if conv in "gG":
                pp = max(pp, 1)
                if x == 0:
                    e = 0
                else:
                    e = int(("%e" % abs(x)).split("e")[1])  # exact for our value set (checked below)
                    if not (Fraction(10) ** e <= abs(fx) < Fraction(10) ** (e + 1)):
                        return None
                if e < 0:
                    return None  # Jsonnet counts significant digits of |v|<1 from the units digit
                if e >= pp:
                    scale, digs = Fraction(10) ** (pp - 1 - e), pp - 1
                else:
                    scale, digs = Fraction(10) ** (pp - 1 - e), pp - 1 - e
                # rounding must not carry into a new leading digit (CPython re-decides the form then)
                if abs(fx) * scale + Fraction(1, 2) >= Fraction(10) ** pp:
                    return None
                scaled = abs(fx) * scale
            elif conv in "eE":
                if x == 0:
                    e = 0
                else:
                    e = int(("%e" % abs(x)).split("e")[1])
                    if not (Fraction(10) ** e <= abs(fx) < Fraction(10) ** (e + 1)):
                        e = e - 1 if abs(fx) < Fraction(10) ** e else e + 1
                scaled = abs(fx) / Fraction(10) ** e * Fraction(10) ** pp
                if scaled + Fraction(1, 2) >= Fraction(10) ** (pp + 1):
                    return None  # carry changes the exponent: Jsonnet's algorithm prints 10.0e+NN
            else:
                scaled = abs(fx) * Fraction(10) ** pp
            # Jsonnet's algorithm (|v|*10^p + 0.5 in double arithmetic, round half up) and CPython
            # (exact, round half even) agree away from ties and while |v|*10^p is exact in a double
            if scaled >= 2 ** 53:
                # beyond exact double arithmetic: CPython prints the exact expansion; a disagreement
                # here is the finding c12_float_digits_inexact_beyond_2_53, not a new violation
                _BEYOND.append(True)
            frac = scaled - (scaled.numerator // scaled.denominator)
            if abs(frac - Fraction(1, 2)) < Fraction(1, 10 ** 6):
                return None
            args.append(x)
    if i != len(vals):
        return None
    return tuple(args)


def extra(root, out_dir, tier, seed, findings, cov):
    """CPython's `%` as a second oracle on the part of the domain where both languages agree."""
    import sys
    sys.path.insert(0, os.path.join(root, "checks"))
    import classifiers as CL
    d = os.path.join(out_dir, "c12")
    res, n, skipped, pyerr, bad, known, n_beyond = [], 0, 0, 0, [], {}, 0
    try:
        fin, fimp = open(os.path.join(d, "in.jsonl")), open(os.path.join(d, "impl.jsonl"))
    except OSError:
        return res
    for l1, l2 in zip(fin, fimp):
        if '"op":"fmt"' not in l1 or '"mode":"arr"' not in l1:
            continue
        op = json.loads(l1)
        fmt = op.get("_fmt")
        if fmt is None:
            continue
        del _BEYOND[:]
        args = _in_domain(fmt, op["vals"])
        if args is None:
            skipped += 1
            continue
        beyond = bool(_BEYOND)
        try:
            want = fmt % args
        except Exception:
            pyerr += 1
            continue
        n += 1
        imp = json.loads(l2)
        got = "".join(chr(c) for c in imp["ok"]) if "ok" in imp else None
        if beyond:
            n_beyond += 1
        if got != want and beyond:
            imp2 = dict(imp, cpython=want, beyond_2_53=True)
            hit = None
            for f in findings:
                if f.get("kind") == "finding" and f.get("property") == "C12":
                    fn = getattr(CL, f["site"], None)
                    if fn and fn(op, imp2, {}, f.get("args", {})):
                        hit = f
                        break
            if hit:
                known.setdefault(hit["site"], [hit, 0])[1] += 1
                continue
        if got != want:
            bad.append((len(fmt) + len(args), {"fmt": fmt, "args": [repr(a) for a in args], "cpython": want,
                                                "implementation": got if got is not None else imp, "via": op.get("via")}))
    cov["cpython_compared"] = n
    cov["cpython_out_of_common_domain"] = skipped
    cov["cpython_raised"] = pyerr
    cov["cpython_disagreements"] = len(bad)
    cov["cpython_compared_beyond_2_53"] = n_beyond
    cov["cpython_known_finding_hits"] = {k: v[1] for k, v in known.items()}
    for site, (f, k) in sorted(known.items()):
        res.append(("known", None, f"KNOWN-FINDING: property=C12 {f['what']} [{site}; {k} case(s) this run, CPython oracle]"))
    if bad:
        bad.sort(key=lambda x: x[0])
        res.append(("violation", {"property": "C12", "kind": "cpython-disagrees",
                                  "what": "the implementation's text differs from CPython's `fmt % args` on an input where Python's and Jsonnet's %-formatting are specified to agree",
                                  "case": bad[0][1], "others": len(bad) - 1}, None))
    return res


CFG = {
    "level": "proof",
    "level_text": "Lean theorems about a model of format.rs prove, for all inputs: PARSER — the model of parse_codes/parse_code/try_parse_* equals the independently written reference grammar on EVERY format string, successes and the three error classes alike (parse_spec, parse_code_spec), and parsing the rendering of any well-formed element list gives the list back field by field (parse_roundtrip, parse_code_roundtrip); parsing fails only with truncated / unrecognised-conversion / width-too-large and never panics (parse_errors_only, conversion_char_spec). INTEGER conversions d i u o x X equal the reference printf text for every flag subset, width, precision and EVERY finite double, no i64 bound (int_conv_spec, int_conv_full; the former saturation finding is repaired). FLOAT conversions e E f F g G: everything after digit generation — sign, #, zero padding inside render_float or applied afterwards for %g, width, trailing-zero stripping, two-digit signed exponent, fixed/exponent form selection with the extracted threshold — equals the reference text for every flag subset, width, precision <= 308 and all digit data (float_conv_spec); a float precision above 308 is the error tooLarge for every value (float_precision_limit; the former u16-overflow finding is repaired). %s/%c/%% pad to the width in characters; %c is the reference for every value incl. negative numbers (pad_spec, percent_text, char_conv_spec; former NUL finding repaired). Values are consumed strictly left to right, each code seeing exactly its own window, %% consuming nothing, success implies the value count is exact (consumes_left_to_right, value_count_exact, too_few_is_error, too_many_is_error, percent_no_consume); text without % is copied unchanged (literal_copied, literal_elem_copied); object mode resolves %(key) incl. dotted paths, rejects `*` and key-less codes (obj_mode_spec); the conversion/flag/length-modifier tables, default precisions, %g threshold, exponent padding and the float precision limit with its guard are re-extracted from format.rs on every run (conv_table_spec, flag_table_spec). The model is tied to the code by an exhaustive differential run (flags 2^5 x widths x precisions x 15 conversions x values; every format string of length <= 4 over a 17-character alphabet, whose parse is compared FIELD BY FIELD through the Debug text of the real Vec<Element>; integer conversions of 16 numbers beyond the i64 range up to f64::MAX x flags x widths/precisions; float precision limit; %c of negative/fractional/huge numbers; argument-mode tables; seeded random strings; 1 in 16 also through `%`, std.format and std.mod from source; and a REACH family: 41 right operands of every type given bare — 0, -0, 0.0, -0.0, (1-1), (0*-1), integers, negative, fractional, huge numbers, strings, booleans, null, arrays, objects — x 42 format strings (two longer than the 100-byte rope threshold) + seeded random code x value, each through eleven entry points that must give the one reference answer: std_format(f, x), `f % x`, std.format(f, x), std.mod(f, x), `local f = .., v = ..; f % v`, `(f) % (x)`, `(f1 + f2) % x` with the format string cut in the middle, and the first four with the value wrapped as [x]) against both the model and the independent reference, and the implementation is additionally compared with CPython's `%` operator on ~1.4e5 cases of the common domain.",
    "level_note": "Trusted: Lean kernel; the hand model of format.rs (validated by the correspondence run only); the digit oracle: double -> decimal digit generation of %e/%f/%g (mul_add/floor/%/log10/powf) is recomputed by the harness and handed to model and reference; float_conv_spec holds for all digit data satisfying OracleOK (parts below 2^1024, fraction < 10^precision) but says nothing about whether the digits are the right ones — that is observed against CPython only (away from ties, |v|*10^p < 2^53), and beyond 2^53 the digits are known to be noise (finding c12_float_digits_inexact_beyond_2_53). An exact dyadic model of the pipeline was not built. render_integer's limb-wise long division (integer_digits) is modelled at the level of the exact integer (repeated % radix, / radix); the limb arithmetic itself is validated by the big-number correspondence cases only. Number -> text of %s is an input (C05).",
    "technique": "Lean 4 proof (parser = reference grammar for all strings + round trip, value threading, integer/float padding arithmetic, table equality) + exhaustive differential correspondence incl. field-by-field parse comparison + CPython as second oracle",
    "engines": ["c12"],
    "assumptions": [
        "reference = Python %-formatting as adopted by Jsonnet's std.format: %#o writes a leading 0 (not 0o), %s ignores precision, %% honours flags/width, doubles are truncated toward zero by integer conversions (also %x, where upstream std.jsonnet floors), parse errors precede value errors, %g counts significant digits of |v|<1 from the units digit, widths/precisions above 65535 are an error, float precisions above 308 are an error (10^precision must be a finite double), %c of a number <= -1 is an invalid-code-point error",
        "digit generation of %e/%f/%g (the float pipeline) is an oracle input to model and reference; it is compared with CPython only where |v|*10^precision < 2^53, away from rounding ties and (for %g) for |v| >= 1 without carry; where |v|*10^precision >= 2^53 CPython is compared too and a disagreement limited to digits after the 15th significant one is the listed finding",
        "the text of a non-string value under %s (Val::to_string) is an input",
        "float precisions explored: <= 9 in the cross product, 0..7 elsewhere, 308 with the value 0, 309/310/400/65535 for the error path; |v|*10^precision overflowing to infinity (\"%f\" % 1e308, \"%.308f\" % 3) is C04's finding c04_float_conversion_of_huge_number_debug_assert and is not explored here",
        "a bare non-array, non-object right operand x means the argument list [x] (std_format's `o => format_arr(str, &[o])`); the reference answers `f % x`, std.mod(f, x), std.format(f, x) and their [x] forms from the same op; negative zero formats as zero without sign (sign from n < 0, as in std.jsonnet) except under %s, whose text is an input — CPython, which prints -0.0, is therefore not consulted on the REACH family's scalar operands",
        "format strings are modelled as code-point lists (the parser only inspects and slices at ASCII bytes)",
    ],
    "timeout": 3000,
    "extra": extra,
}
