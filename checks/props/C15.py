CFG = {
    "level": "proof",
    "level_text": "Lean theorems prove, for every list of --ext-*/--tla-* options (any order, repeated names), that the setting a name ends up with is the one of the strongest flavour naming it and carries exactly that option's payload (plumb_lookup, plumb_spec, plumb_absent); that -J/JSONNET_PATH and jsonnet_jpath_add give the documented search order (paths_rightmost_wins, capi_paths_eq_cli); that every accepted -S/-f/-y/--line-padding combination selects the format it names (format_spec); that the executable exits 0 exactly when the library succeeds, writes to stderr exactly otherwise and prints exactly the manifestation (exit_status_iff_error, stdout_is_manifestation); that a C consumer decodes exactly the multi/stream lists from the double-NUL framing (framing_roundtrip, framing_roundtrip_stream); and that the dependency lister returns exactly the import targets of the files reachable through `import`, fails only for a reachable unreadable/unresolvable import, and therefore lists every file an evaluation can load (deps_eq_reachable, deps_error_sound, loaded_subset_deps). The models are tied to the code by running the real clap option structs, the real jrsonnet and jrsonnet-deps executables and the real libjsonnet.so (through a C driver) against the library API used directly.",
    "level_note": "Partial: agreement of the three real binaries with the library is an observation over generated programs x option combinations (the evaluator itself is not modelled here); the theorems cover the plumbing tables, the rendering, the framing codec and the dependency closure. Trusted: Lean kernel; hand models of jrsonnet-cli option structs, main_real, multi_to_raw/stream_to_raw and collect_deps (validated by the correspondence runs); gcc + the C driver harness/src/engines/c15_capi.c.",
    "technique": "Lean 4 proofs (association-list refinement of the option loops, codec round trip by induction, DFS-with-visited-set invariant) + 4-way differential correspondence (clap structs in-process, jrsonnet, libjsonnet.so via C driver, jrsonnet-deps)",
    "engines": ["c15", "c15run", "c15capi", "c15deps"],
    "repo_bins": ["jrsonnet", "jrsonnet-deps", "libjsonnet"],
    "timeout": 3000,
    "trusted_extra": [
        "gcc and harness/src/engines/c15_capi.c (C driver speaking bindings/c/libjsonnet.h to the real libjsonnet.so)",
        "the reference side of c15run/c15capi uses jrsonnet-evaluator/jrsonnet-stdlib directly (State, FileImportResolver, ContextInitializer, apply_tla, ManifestFormat) and shares the evaluator with the binaries",
    ],
    "assumptions": [
        "file system operations of the executable succeed (output directory exists and is writable); --create-output-dirs and I/O failures are not modelled",
        "jsonnet_string_output(1) is compared with the library's ToStringFormat (the format of `-f string`), not with `-S`: on a non-string value the C API returns its JSON text with error 0",
        "the C API's default JSON layout is JsonFormat::default() (4 spaces) while the executable's default is 3 spaces: texts are compared with the library configured accordingly, not with each other",
        "jsonnet_import_callback (custom import callbacks), jsonnet_max_trace, jsonnet_realloc and the jrsonnet_* threading interop functions are not exercised; error message texts are not compared (only error flag / exit status / non-empty stderr)",
        "top-level arguments naming a parameter the function does not have are not generated (C04 owns that panic)",
        "framing round trip is stated for NUL-free strings with non-empty names (multi) / non-empty documents (stream); with jsonnet_string_output(1) an empty document truncates the list for any double-NUL consumer",
        "deps model: a file is identified by its resolved path; computed (non-literal) import paths are rejected by the evaluator and ignored by the lister; the recursion budget of the model (files + 1) was never exhausted in the runs (fuel sufficiency is not a theorem)",
        "dev-profile builds of jrsonnet, jrsonnet-deps and libjsonnet (cargo build -p ..., --cfg jrsonnet_verif)",
    ],
}
