"""C11 — stdlib string / encoding / parsing / hashing functions."""
import hashlib, json, os, struct


def _py(v):
    """harness value encoding -> python value"""
    if v == "null":
        return None
    if "s" in v:
        return "".join(chr(c) for c in v["s"])
    if "n" in v:
        t = v["n"]
        if t.startswith("frac:"):
            return struct.unpack(">d", bytes.fromhex(t[5:]))[0]
        return int(t)
    if "bool" in v:
        return bool(v["bool"])
    if "arr" in v:
        return [_py(x) for x in v["arr"]]
    if "obj" in v:
        return {k: _py(x) for k, x in v["obj"].items()}
    return ("?", v)


def _same(a, b):
    """type-strict structural equality; numbers by value (int vs float of the same value are the same number)"""
    if isinstance(a, bool) or isinstance(b, bool):
        return isinstance(a, bool) and isinstance(b, bool) and a == b
    if isinstance(a, (int, float)) and isinstance(b, (int, float)):
        return float(a) == float(b)
    if type(a) != type(b):
        return False
    if isinstance(a, list):
        return len(a) == len(b) and all(_same(x, y) for x, y in zip(a, b))
    if isinstance(a, dict):
        return a.keys() == b.keys() and all(_same(a[k], b[k]) for k in a)
    return a == b


_DIGEST = {"md5": hashlib.md5, "sha1": hashlib.sha1, "sha256": hashlib.sha256,
           "sha512": hashlib.sha512, "sha3": hashlib.sha3_512}


def extra(root, out_dir, tier, seed, findings, cov):
    """observation: digests against hashlib, parseJson against python json, parseYaml (JSON-compatible
    documents) against PyYAML.  Yields ("violation", payload, None) for the smallest disagreement."""
    edir = os.path.join(out_dir, "c11")
    fin, fim = os.path.join(edir, "in.jsonl"), os.path.join(edir, "impl.jsonl")
    if not (os.path.exists(fin) and os.path.exists(fim)):
        return
    try:
        import yaml
    except Exception:
        yaml = None
    counts = {"digest": 0, "parseJson": 0, "parseYaml": 0, "parseJson_rejects": 0}
    fails = []
    with open(fin, encoding="utf-8") as f1, open(fim, encoding="utf-8") as f2:
        for l1, l2 in zip(f1, f2):
            if '"str.ext"' not in l1:
                continue
            op, imp = json.loads(l1), json.loads(l2)
            fn = op["fn"]
            text = "".join(chr(c) for c in op["a"][0]["s"])
            want = None
            if "panic" in imp:
                fails.append((op.get("size", 0), op, imp, "panic"))
                continue
            if fn in _DIGEST:
                counts["digest"] += 1
                want = {"ok": _DIGEST[fn](text.encode("utf-8")).hexdigest()}
                got = {"ok": _py(imp["ok"])} if "ok" in imp else {"err": 1}
                ok = got == want
            elif fn == "parseJson":
                try:
                    want = {"ok": json.loads(text)}
                    counts["parseJson"] += 1
                except Exception:
                    want = {"err": 1}
                    counts["parseJson_rejects"] += 1
                got = {"ok": _py(imp["ok"])} if "ok" in imp else {"err": 1}
                ok = ("ok" in got) == ("ok" in want) and ("err" in want or _same(got["ok"], want["ok"]))
            elif fn == "parseYaml":
                if yaml is None:
                    continue
                try:
                    want = {"ok": yaml.safe_load(text)}
                except Exception:
                    continue          # not a document PyYAML accepts: no opinion
                counts["parseYaml"] += 1
                got = {"ok": _py(imp["ok"])} if "ok" in imp else {"err": 1}
                ok = "ok" in got and _same(got["ok"], want["ok"])
            else:
                continue
            if not ok:
                fails.append((op.get("size", 0), op, imp, want))
    cov["external_oracle_cases"] = counts
    cov["external_oracle_failures"] = len(fails)
    if fails:
        fails.sort(key=lambda x: x[0])
        size, op, imp, want = fails[0]
        yield ("violation", {"property": "C11", "kind": "implementation-violates-external-oracle",
                             "oracle": "python hashlib / json / PyYAML", "op": op, "impl": imp,
                             "expected": want if want == "panic" else json.loads(json.dumps(want, default=str)),
                             "others": len(fails) - 1}, None)


CFG = {
    "level": "proof",
    "level_text": "Lean theorems over strings as code-point lists and byte strings as lists of naturals: the UTF-8 encoder/decoder pair is mutually inverse on scalar values, the strict decoder accepts nothing else and lossy decoding agrees with it on valid input (utf8_roundtrip, utf8_decode_sound, utf8_decode_rejects_invalid, utf8_lossy_valid, encodeUTF8_bytes); on invalid input lossy decoding passes valid leading text through, puts one U+FFFD for each maximal ill-formed prefix and resumes behind it, so every rejected input shows a U+FFFD (utf8_lossy_valid_prefix, utf8_lossy_invalid_step, utf8_lossy_marks_invalid); the byte-slice/char_indices walk of std.findSubstr returns exactly the ascending code-point indices of all, possibly overlapping, occurrences (findSubstr_spec, findSubstr_mem, findSubstr_sorted); byte-wise std.startsWith/endsWith are the code-point prefix/suffix tests (startsWith_spec, endsWith_spec); Rust's split/splitn/rsplitn/replace, modelled as the leftmost (from the back: rightmost) needle occurrence over ALL byte offsets with byte-offset slicing and the SplitN count, return exactly the UTF-8 encodings of the code-point split from the left / from the right / join-with-replacement, a needle never matching inside a multi-byte character, an empty `from` being an error and overlapping occurrences replaced once (splitLimit_spec, split_spec, splitLimitR_spec, strReplace_spec, strReplace_scan; split_join, splitLimit_count, strReplace_self for the reference); std.length as the count of non-continuation bytes, isEmpty as byte length zero and stringChars are the code-point notions (length_spec, isEmpty_spec, stringChars_spec); std.substr is the code-point window cut at the end of the string (substr_spec, substr_length); the stripChars family removes exactly a run of listed characters and std.trim does so for exactly {space, TAB, LF, FF, CR, U+0085, U+00A0} (lstrip_spec, rstrip_spec, strip_spec, trim_spec); the byte-table JSON/Python escaper (256-row table extracted from the source), the XML, Bash and Dollars escapers over bytes equal the per-code-point definitions (escapeStringJson_spec, escapeStringXml_spec, escapeStringBash_spec, escapeStringDollars_spec); parse_nat's checked_sub digit cascade and fused f64 fold give the exact positional value below 2^53, every later step is round-to-nearest-even of the exact base*acc+digit, the result is an error exactly for the empty string, a non-digit of the base (every non-ASCII character, ':'..'@', '+', space) or overflow of the f64 range, and parseInt takes one optional leading '-' (digitOf_spec, parseNat_spec, parseNat_reject_iff, non_digit_rejected, parseInt_spec, parseNatX_spec, parseNatX_reject_iff, parseNatX_refines, parseNat_step_rounding, parseInt_sign); std.char/std.codepoint are inverse on scalar values and std.char fails exactly on negatives, surrogates and values above U+10FFFF (char_codepoint_inverse, codepoint_char_inverse, char_err_iff); byte-wise asciiUpper/asciiLower/equalsIgnoreCase touch only ASCII letters (asciiUpper_spec, asciiLower_spec, upper_lower_ascii_only, equalsIgnoreCase_spec); base64 decoding inverts encoding and accepts ONLY canonical RFC 4648 encodings (base64_roundtrip, base64_string_roundtrip, base64_decode_sound, base64_decode_accepts_iff); std.parseJson accepts a text iff one value is followed by JSON whitespace only, by the independent RFC 8259 reader of C05 (parseJson_accepts_iff, parseJson_rejects_trailing); the debug format of std.trace shortens long strings on whole characters only (debugTrunc_spec). The model is tied to the code by a differential run of every listed builtin, called in-process with Val arguments (about 3*10^5 calls quick), against both the code-shaped byte-level model and the code-point reference definitions; std.parseJson accept/reject is compared with the Lean reader on about 1200 texts (valid documents, whitespace/junk heads and tails, single-character damage).",
    "level_note": "Partial: md5/sha1/sha256/sha512/sha3 are external crates and are not modelled — their outputs are compared with python hashlib on the generated strings (observation); the VALUE std.parseJson returns is compared with python json and parseYaml with PyYAML on generated JSON-compatible documents (observation; only accept/reject of parseJson is compared with the Lean reader). The substring searcher is modelled by what it computes (leftmost / rightmost occurrence over all byte offsets), not as the Two-Way algorithm of core::str::pattern; split/splitLimit/splitLimitR with an EMPTY separator have no model. The length of the ill-formed prefix replaced by one U+FFFD in lossy decoding (`badLen`, Utf8Chunks) has one definition, compared by correspondence only; so has base64 encoding of byte arrays. Trusted: Lean kernel; the hand model of strings.rs/encoding.rs/manifest.rs escapers (validated by the correspondence run; the JSON escape table is re-extracted from the source on every run); Rust core's str::from_utf8/from_utf8_lossy/StrSearcher/trim_matches/to_ascii_uppercase, serde_json, the base64 crate and the digest crates are reached only through correspondence/observation.",
    "technique": "Lean 4 proof over code-point lists (UTF-8 prefix-freeness and self-synchronisation, byte-offset searchers against code-point occurrences, induction over the char walk, exact-integer model of f64 mul_add) + differential correspondence + external oracles for digests and parsers",
    "engines": ["c11"],
    "extra": extra,
    "assumptions": [
        "strings are finite sequences of Unicode scalar values (Rust `str` invariant); byte arrays are sequences of integers 0..255",
        "the f64 fold of parseInt/parseOctal/parseHex is modelled by exact round-to-nearest-even on naturals with overflow to +inf above the largest finite double (inputs generated have up to 400 digits); an infinite result is an error because it is not a jsonnet number",
        "the sign of a zero result (parseInt(\"-0\")) is not compared",
        "split/splitLimit/splitLimitR with an empty separator are outside the documented domain: only checked not to panic",
        "error text is not compared, only error-vs-value",
        "digests, parseJson and parseYaml are compared with python hashlib/json/PyYAML (observation, not proof); YAML inputs are JSON-compatible flow documents that PyYAML accepts, without exponent-form numbers or surrogate-pair escapes",
    ],
    "timeout": 1500,
}
