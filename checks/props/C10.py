CFG = {
    "level": "proof",
    "level_text": "Lean theorems prove, for every element type, key function and total key order and for lists of any length: the native sort structure (key every element, right-to-left insertion as performed by slice::sort_by on short slices, error latch) returns a stable ordered permutation; the two-pointer merges of setUnion/setInter/setDiff return exactly the membership-defined union/intersection/difference of two sets and a set again; the setMember binary search equals membership; removeAt (two slices + concatenation, as repaired) and remove equal their comprehension definitions for every integer index; the balanced flattenArrays split equals the left fold of ++; the join loop with its `first` flag equals intercalation of the non-null items. The model is tied to the code by a differential run of std.<fn>(args) through the real evaluator against both the model and the documented definitions for 40 functions.",
    "level_note": "Trusted: Lean kernel; the hand model of sort.rs/sets.rs/arrays.rs (validated only by the correspondence run); slice::sort_by / sort_unstable_by are modelled by the insertion sort they perform on slices of <= 20 elements; functions whose native code is a single loop (member/find/count, folds, map/filter/flatMap, any/all/sum/avg, range/repeat/slice/makeArray, deepJoin, flattenDeepArray) are compared with their reference definitions only (no theorem); numbers are small integers.",
    "technique": "Lean 4 proofs over polymorphic list algorithms (refinement of the native loops to list definitions) + differential correspondence through the evaluator",
    "engines": ["c10"],
    "assumptions": [
        "Rust's slice::sort_by / sort_unstable_by(_key) behave as the insertion sort they run for slices of at most 20 elements; for longer slices their documented contract (stable / ordered permutation) is assumed",
        "numbers in generated arguments are small integers (no NaN, no -0, no fractions except the result of std.avg); strings are ASCII",
        "function-valued arguments come from a pool of 26 named functions implemented on both sides; errors are compared as ok/error/panic, never by message",
        "error behaviour of sort/set/minArray/maxArray is specified only for keys on which comparability is an equivalence (numbers, strings, arrays of numbers, never-comparable values); on other keys and for the set functions on inputs that are not sets the implementation is compared with the model only",
        "std.slice/std.repeat/std.range/std.map/std.filter view semantics are property C08's; here only the evaluated results are compared",
    ],
    "timeout": 1200,
}
