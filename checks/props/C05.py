CFG = {
    "level": "proof",
    "level_text": "Lean theorems prove, for every byte string, that the modelled escaping loop (run copying, 256-row table extracted from manifest.rs) never reaches unreachable!(), emits quote + RFC 8259 escapes + quote with no raw control byte and only ASCII insertions, and that an independently written string-token decoder reads it back as the same bytes (escape_table_ok, escape_total, decode_escape, escape_wellformed); and for every JSON value, every indentation state and every formatting mode whose padding/newline are whitespace and whose separator is ws*:ws* (minify, default, cli(n) for all n, std.toString, std.manifestJsonEx with whitespace arguments) that an independent RFC 8259 reader returns exactly the written value (read_write, manifest_read, toString_read), that manifested objects list exactly the visible fields in ascending key order at every depth (canon_sorted, canon_hidden_omitted) and that a value is rejected iff a function sits in a visited position (function_rejected). Numbers are covered under the hypothesis NumOK (the token Rust's Display prints for a double is a JSON number that rounds back to it), which is checked per case, not proved.",
    "level_note": "Trusted: Lean kernel; extraction of ESCAPE/HEX_DIGITS/match arms/JsonFormat constructor constants (re-run every check); the hand model of manifest_json_ex_buf and of obj.iter() ordering (tied by byte-for-byte correspondence on all paths); NumOK for Display-for-f64 is an assumption validated on ~2*10^4 (quick) / 3*10^5 (thorough) doubles by the Lean exact-rounding reader, serde_json and std.parseJson; std.parseJson as left inverse is correspondence only (serde_json is external code).",
    "technique": "Lean 4 proof (table by kernel decide over 256 rows, loop refinement by induction, parser/printer round trip by mutual structural induction) + table extraction + byte-for-byte differential correspondence + independent readers",
    "engines": ["c05"],
    "timeout": 3000,
    "assumptions": [
        "NumOK: Rust's `Display for f64` prints every finite double as a JSON number token (no exponent, no NaN/inf) that rounds back to the same double; validated per case (json.num, json.read, json.indep), not proved",
        "std.parseJson (serde_json + the serde visitor in integrations/serde.rs) is exercised only by the correspondence run (left inverse on every emitted text), not modelled",
        "object field enumeration (visibility, inheritance) is C02/C03's subject: here `canon` takes the final visible/hidden flag of each field and the model is tied to obj.iter() by correspondence on built objects (one layer, two layers, `o + {}`, `{} + o`)",
        "values are finite trees (no evaluation errors inside thunks, no assertion failures); exp-bigint and exp-preserve-order features are off; JsonFormat::debug (string truncation) is not a JSON-producing path of the property",
        "std.manifestJsonEx with non-whitespace indent/newline/key_val_sep produces text that is not JSON by the caller's choice; the theorems and the generator cover whitespace arguments only",
    ],
}


def _extra(root, out_dir, tier, seed, findings, cov):
    """Second independent reader: Python's `json` (exact float parsing, member order kept) reads
    every text the implementation emitted (ops json.read / json.num of the c05 engine) and the
    result is compared with the canonical value recomputed here from the source value (hidden
    fields dropped, keys in ascending UTF-8 byte order, numbers bit for bit except that -0 == 0
    is also accepted only when the sign matches)."""
    import json, os, struct
    path = os.path.join(out_dir, "c05", "in.jsonl")
    if not os.path.exists(path):
        return
    class Func(Exception):
        pass
    def canon(v):
        if v is None or isinstance(v, bool):
            return v
        if v == "f":
            raise Func()
        if "n" in v:
            return ("num", struct.unpack(">d", bytes.fromhex(v["n"]))[0])
        if "s" in v:
            return bytes.fromhex(v["s"]).decode("utf-8")
        if "a" in v:
            return [canon(x) for x in v["a"]]
        fs = [(bytes.fromhex(k), canon(x)) for k, h, x in v["o"] if not h]
        fs.sort(key=lambda kv: kv[0])
        return ("obj", [(k.decode("utf-8"), x) for k, x in fs])
    def same(p, c):
        if isinstance(c, tuple) and c[0] == "num":
            if isinstance(p, bool) or not isinstance(p, (int, float)):
                return False
            f = float(p)
            return f == c[1] and struct.pack(">d", f) == struct.pack(">d", c[1])
        if isinstance(c, tuple) and c[0] == "obj":
            return (isinstance(p, tuple) and p[0] == "obj" and len(p[1]) == len(c[1])
                    and all(a[0] == b[0] and same(a[1], b[1]) for a, b in zip(p[1], c[1])))
        if isinstance(c, list):
            return isinstance(p, list) and len(p) == len(c) and all(same(a, b) for a, b in zip(p, c))
        if c is None or isinstance(c, bool) or isinstance(c, str):
            return type(p) is type(c) and p == c
        return False
    def reject(x):
        raise ValueError("non-JSON constant " + x)
    dec = json.JSONDecoder(object_pairs_hook=lambda kv: ("obj", kv), parse_constant=reject)
    n = bad = 0
    first = None
    with open(path, encoding="utf-8") as f:
        for line in f:
            if '"json.read"' not in line and '"json.num"' not in line:
                continue
            op = json.loads(line)
            try:
                if op["op"] == "json.read":
                    text = bytes.fromhex(op["text"]).decode("utf-8")
                    want = canon(op["v"])
                elif op["op"] == "json.num":
                    if not op["tok"]:
                        continue
                    text = bytes.fromhex(op["tok"]).decode("utf-8")
                    want = ("num", struct.unpack(">d", bytes.fromhex(op["bits"]))[0])
                else:
                    continue
                n += 1
                # -0 is an int 0 for Python when written "-0": keep the sign by parsing ints as float
                got = json.JSONDecoder(object_pairs_hook=lambda kv: ("obj", kv), parse_constant=reject,
                                       parse_int=lambda s: float(s) if s.startswith("-") and s.strip("-0") == "" else int(s)).decode(text)
                ok = same(got, want)
            except Func:
                ok = False
            except Exception as e:  # not JSON for Python
                ok = False
            if not ok:
                bad += 1
                if first is None or op.get("size", 0) < first.get("size", 0):
                    first = op
    cov["python_json_reader_cases"] = n
    cov["python_json_reader_failures"] = bad
    if first is not None:
        yield ("violation", {"property": "C05", "kind": "implementation-violates-spec",
                             "what": "Python's json module does not read the emitted text back as the source value",
                             "op": first, "others": bad - 1}, None)


CFG["extra"] = _extra
