CFG = {
    "level": "proof",
    "level_text": "PARTIAL. Proved in Lean (for all inputs, no size bound): (1) the frame counter of stack.rs with the two frame wrappers, over arbitrary nested computations with Ok/Err exits, limit overrides and swallowed errors: the counter operations never overflow/underflow (stack_total), depth and limit are restored after any outcome (stack_balanced, usable_after_error), depth never exceeds the limit in force (stack_bounded, stack_bounded_top), a frame at the limit is refused with the stack-overflow error and below it is entered (limit_hit_is_error, below_limit_enters, below_limit_ok), n-level recursion succeeds iff n <= limit (recursion_stopped_at_limit), and the stateful machine equals the lexical-nesting meaning (stack_refines_lexical); (2) checked-arithmetic kernels: prepare_call never panics for functions with pairwise different parameter names and reports an error when more arguments than parameters are passed (prepareCall_partial, prepareCall_overfull_is_error; counterexample for duplicated names = known finding), std.clamp is total and equals the std.jsonnet definition (clamp_total, clamp_spec, clamp_in_range), the debug truncation never slices off a character boundary and keeps exactly the longest prefix/suffix of at most limit/2 bytes (truncateDebug_total, truncateDebug_spec). OBSERVED ONLY (not proved): absence of panics/aborts/native stack overflows in the rest of the evaluator, parser, stdlib and dependencies — searched by worker subprocesses over arbitrary sources, every std function x boundary-heavy argument tuples, recursion sweeps across the limit, self-dependent values, top-level arguments and failing/succeeding sequences on one thread.",
    "level_note": "Trusted: Lean kernel; hand models of stack.rs/in_frame, prepare_call, builtin_clamp and the debug truncation (tied by shape extraction in extract/ex_c04.py and by the differential run); the hooks verif_current_depth/verif_stack_limit. Whole-program totality is a search, not a theorem: native-stack use of the recursive-descent parser and evaluator, allocation failure, panics in code that no kernel models.",
    "technique": "Lean 4 proof over a counter machine for all computation shapes + checked-arithmetic kernel models; differential correspondence through verification hooks; crash search in isolated worker processes",
    "engines": ["c04", "c04w"],
    "assumptions": [
        "64-bit usize; frame nesting + limit arguments below 2^64 (stack_total's hypothesis)",
        "every frame is taken through in_frame/in_description_frame (extract/ex_c04.py checks that check_depth() has no other caller) and guards are dropped in LIFO order (Rust scoping)",
        "prepare_call: parameter and argument counts below 2^63 (Vec lengths); duplicated parameter names are excluded by hypothesis (known finding)",
        "std.clamp is modelled on an order-isomorphic integer key of finite doubles with -0 = +0",
        "worker search: an evaluation that does not answer within the time limit (10 s quick / 20 s thorough) or dies from allocation failure under the 4 GB address-space cap is counted as undecided, not as a crash, except in the `unbounded` family where an answer is required",
        "workers are the overflow-checked opt-level-1 harness build with an 8 MiB evaluation thread; a plain release build (panic=abort) is not exercised",
        "recursion sweeps assume each recursion level of the templates costs between 1 and 8 frames",
    ],
    "trusted_extra": [
        "verification hook commit in jrsonnet-evaluator/src/stack.rs (read-only accessors under cfg(jrsonnet_verif))",
    ],
    "timeout": 3000,
}
