#!/bin/bash
# rmscratch.sh <name> : remove a builder workspace made by mkscratch.sh
N=$1; D=/tmp/$N
git -C /repo worktree remove --force $D/repo 2>/dev/null
rm -rf $D
git -C /repo worktree prune
