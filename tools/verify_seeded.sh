#!/bin/bash
# verify_seeded.sh <rt-dir> <n> : confirm a seeded change in a scratch worktree at current /repo HEAD
# (patch applies, workspace builds, 82 baseline tests pass, demo fails with patch and passes without)
RT=$1; N=$2; W=/tmp/seedverify/repo; T=/tmp/seedverify/target
mkdir -p /tmp/seedverify
if [ ! -d $W ]; then git -C /repo worktree add --detach $W HEAD >/dev/null 2>&1; fi
git -C $W checkout -q --detach $(git -C /repo rev-parse HEAD) 2>/dev/null; git -C $W checkout -q -- . 
export CARGO_TARGET_DIR=$T CARGO_NET_OFFLINE=true
cd $W
echo "== $RT/$N"
if ! git apply --check $RT/out/$N/patch.diff 2>/tmp/seedverify/apply.err; then echo "PATCH-DOES-NOT-APPLY"; cat /tmp/seedverify/apply.err | head -3; exit 1; fi
# without patch
sh $RT/out/$N/demo.sh $W $T > /tmp/seedverify/demo_clean.log 2>&1; RC0=$?
git apply $RT/out/$N/patch.diff
cargo nextest run --workspace --no-fail-fast --tool-config-file pb:/w/lib/nextest.toml --profile pb --test-threads 8 --offline > /tmp/seedverify/tests.log 2>&1
PASSED=$(grep -Eo "[0-9]+ passed" /tmp/seedverify/tests.log | tail -1); FAILED=$(grep -E "^\s+FAIL" /tmp/seedverify/tests.log | grep -v cpp_test_suite | sort -u | wc -l)
sh $RT/out/$N/demo.sh $W $T > /tmp/seedverify/demo_patched.log 2>&1; RC1=$?
git checkout -q -- .
echo "demo clean rc=$RC0 patched rc=$RC1 tests: $PASSED, other failures: $FAILED"
