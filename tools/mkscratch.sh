#!/bin/bash
# mkscratch.sh <name> : builder workspace /tmp/<name>/{verif,repo}: a copy of /verif (with build output, so the
# first build is warm) whose harness points at a private git worktree of /repo. Remove with rmscratch.sh <name>.
set -e
N=$1; D=/tmp/$N
[ -e $D ] && { echo "$D exists"; exit 1; }
mkdir -p $D/patches
git -C /repo worktree add -q --detach $D/repo HEAD
rsync -a --exclude .git --exclude work --exclude replays --exclude 'harness/target-repo' /verif/ $D/verif/
mkdir -p $D/verif/work $D/verif/replays
sed -i "s#\"/repo/#\"$D/repo/#g" $D/verif/harness/Cargo.toml
echo "export VERIF_REPO=$D/repo" > $D/env.sh
echo "created $D (use: source $D/env.sh; cd $D/verif; ./check Cxx quick)"
