#!/bin/bash
# r2copy.sh Cxx prefix1 [prefix2..] : copy a round-2 builder's owned files from /tmp/r2-Cxx/verif into /verif
P=$1; shift; p=$(echo $P | tr 'C' 'c'); A=/tmp/r2-$P/verif; cd $A || exit 1
L=""
for pre in "$@"; do L="$L $(ls lean/JrsVerif/Model/${pre}*.lean lean/JrsVerif/Proofs/${pre}*.lean 2>/dev/null)"; done
L="$L lean/JrsVerif/Props/$P.lean lean/JrsVerif/Drv/$P.lean extract/ex_$p.py checks/props/$P.py checks/classifiers/$P.py $(ls harness/src/engines/${p}*.rs harness/src/engines/${p}_* 2>/dev/null)"
for f in $L; do [ -f $f ] && (cmp -s $f /verif/$f || (mkdir -p /verif/$(dirname $f); cp $f /verif/$f && echo "copied $f")); done
