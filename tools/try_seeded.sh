#!/bin/bash
# try_seeded.sh <patch> <check ids...> : apply a seeded change to /repo, run checks, revert
PATCH=$1; shift
cd /repo && git status --short | grep -q . && { echo "repo dirty"; exit 2; }
git apply $PATCH || { echo "apply failed"; exit 2; }
cd /verif
for P in "$@"; do
  OUT=$(./check $P quick 2>&1); RC=$?
  echo "$P rc=$RC :: $(echo "$OUT" | grep -E "^VIOLATION" | head -2 | tr '\n' ' ') $(echo "$OUT" | tail -1 | cut -c1-160)"
done
git -C /repo checkout -- . ; git -C /repo status --short | head -3
