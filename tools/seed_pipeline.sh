#!/bin/bash
# seed_pipeline.sh "<prop> <n> <checks...>" ...   (one quoted group per seeded change)
for spec in "$@"; do
  set -- $spec; P=$1; N=$2; shift 2
  echo "##### $P-$N"
  /verif/tools/verify_seeded.sh /tmp/rt-$P $N
  /verif/tools/try_seeded.sh /tmp/rt-$P/out/$N/patch.diff "$@"
done
echo PIPEDONE
