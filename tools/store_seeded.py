#!/usr/bin/env python3
"""store_seeded.py <dir-prefix> <offset> <pipeline-log>... : copy red-team changes <prefix><P>/out/<n>/ to
/verif/seeded/<P>-<n+offset>/ with the pipeline's confirmation and detection results added to meta.json"""
import json, os, re, shutil, sys
pre, off, logs = sys.argv[1], int(sys.argv[2]), sys.argv[3:]
res = {}
for log in logs:
    cur = None
    for line in open(log, errors="replace"):
        m = re.match(r"##### (C\d\d)-(\d+)", line)
        if m:
            cur = (m.group(1), int(m.group(2))); res[cur] = {"confirm": None, "ran": []}; continue
        if cur is None: continue
        if line.startswith("demo clean"):
            res[cur]["confirm"] = line.strip()
        m = re.match(r"(C\d\d) rc=(\d+) :: (.*)", line)
        if m:
            viol = "VIOLATION" in m.group(3)
            tail = re.search(r"\[C\d\d quick\].*", m.group(3))
            res[cur]["ran"].append((m.group(1), viol, "no-failing-input-found" in m.group(3), tail.group(0)[:170] if tail else ""))
for (P, n), r in sorted(res.items()):
    src = f"{pre}{P}/out/{n}"
    dst = f"/verif/seeded/{P}-{n+off}"
    if not os.path.isdir(src): print("missing", src); continue
    os.makedirs(dst, exist_ok=True)
    for f in ("patch.diff", "demo.sh"):
        shutil.copy(os.path.join(src, f), os.path.join(dst, f))
    meta = json.load(open(os.path.join(src, "meta.json")))
    meta["round"] = int(os.environ.get("SEED_ROUND", "2"))
    ok = r["confirm"] and "clean rc=0 patched rc=1" in r["confirm"] and "other failures: 0" in r["confirm"]
    meta["confirmed"] = ("scratch worktree at /repo HEAD: patch applies, workspace builds, baseline tests pass, demo.sh exits 0 without the patch and 1 with it (tools/verify_seeded.sh): " if ok else "NOT CONFIRMED: ") + str(r["confirm"])
    meta["ran"] = [f"./check {c} quick -> {'VIOLATION' + (' (no-failing-input-found)' if nf else '') if v else 'exit 0 (missed)'} {t}" for c, v, nf, t in r["ran"]]
    own = [v for c, v, nf, t in r["ran"] if c == P]
    meta["caught_initially"] = bool(own and own[0])
    meta["caught_by_other_property_initially"] = [c for c, v, nf, t in r["ran"] if v and c != P]
    json.dump(meta, open(os.path.join(dst, "meta.json"), "w"), indent=1)
    print(dst, "confirmed" if ok else "UNCONFIRMED", "caught" if meta["caught_initially"] else "MISSED-by-own", meta["caught_by_other_property_initially"])
