#!/bin/bash
# seed_pipeline2.sh <dir-prefix> "<prop> <n> <checks...>" ...   (one quoted group per seeded change; dir = <prefix><prop>)
PRE=$1; shift
for spec in "$@"; do
  set -- $spec; P=$1; N=$2; shift 2
  echo "##### $P-$N"
  /verif/tools/verify_seeded.sh $PRE$P $N
  /verif/tools/try_seeded.sh $PRE$P/out/$N/patch.diff "$@"
done
echo PIPEDONE
