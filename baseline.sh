#!/bin/bash
# Runs the repository's stable baseline (82 tests) with the verification guard OFF.
# Prints "BASELINE ok passed=<n>" and exits 0 iff every stable_pass test of /root/.vp/BASELINE.json passes.
cd /repo || exit 2
unset RUSTFLAGS
export CARGO_NET_OFFLINE=true
if [ -f /w/lib/nextest.toml ] && cargo nextest --version >/dev/null 2>&1; then
  cargo nextest run --workspace --no-fail-fast --tool-config-file pb:/w/lib/nextest.toml --profile pb --test-threads 8 --offline 2>&1 | tail -n 60 > /tmp/.baseline_out.txt
else
  cargo test --workspace --no-fail-fast --offline 2>&1 | tail -n 200 > /tmp/.baseline_out.txt
fi
cat /tmp/.baseline_out.txt | grep -E "Summary|FAIL|test result|failed" | head -40
python3 - <<'PY'
import json,re,sys
out=open('/tmp/.baseline_out.txt').read()
failed=set(re.findall(r'FAIL\s+\[[^\]]*\]\s+(?:\(\S+\)\s+)?(\S+)\s+(\S+)',out))
names={f"{a}::{b}" if not a.startswith('tests') else f"{a}::{b}" for a,b in failed}
base=json.load(open('/root/.vp/BASELINE.json'))['stable_pass']
bad=[t for t in base if any(t.endswith(b) and a.split('::')[0] in t for a,b in failed)]
if bad:
    print("BASELINE broken:",bad); sys.exit(1)
print("BASELINE ok (failed outside stable set: %d)"%len(failed))
PY
