#!/bin/bash
# Builds the framework from files on disk only (offline): Lean project (all theorems + driver) and
# the Rust harness against /repo's crates.
set -e
cd "$(dirname "$0")"
export CARGO_NET_OFFLINE=true
unset RUSTFLAGS
python3 extract/extract.py >/dev/null
(cd lean && lake build JrsVerif jrsmodel 2>&1 | tail -n 5)
cp /repo/Cargo.lock harness/Cargo.lock 2>/dev/null || true
(cd harness && cargo build --offline 2>&1 | tail -n 3)
echo setup-done
