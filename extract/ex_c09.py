"""C09 constants: safe-integer bound, shift-count modulus, shape of the numeric equality arm,
shape of the numeric operator arms (every result goes through Val::try_num)."""
import re, sys

# extract.py runs as __main__; register there (falls back to the module when imported)
ex = sys.modules.get("__main__")
if not hasattr(ex, "extra_const"):
    import extract as ex

CONV = "crates/jrsonnet-evaluator/src/typed/conversions.rs"
VAL = "crates/jrsonnet-evaluator/src/val.rs"
OPS = "crates/jrsonnet-evaluator/src/evaluate/operator.rs"
F64_MANTISSA_DIGITS = 53   # Rust language constant f64::MANTISSA_DIGITS


@ex.extra_const
def c09_consts(emit):
    # MAX_SAFE_INTEGER / MIN_SAFE_INTEGER
    m, w = ex.find(CONV, r"pub const MAX_SAFE_INTEGER: f64 = ([^;]+);")
    mm = re.fullmatch(r"\(\(1u64 << \(f64::MANTISSA_DIGITS\)\) - 1\) as f64", m.group(1).strip())
    if not mm:
        raise ex.ExtractError(f"{w}: MAX_SAFE_INTEGER has an unrecognised definition: {m.group(1)}")
    emit("MAX_SAFE_INTEGER", (1 << F64_MANTISSA_DIGITS) - 1, w, m.group(0))
    m, w = ex.find(CONV, r"pub const MIN_SAFE_INTEGER: f64 = ([^;]+);")
    mm = re.fullmatch(r"\(-\(\(1i64 << \(f64::MANTISSA_DIGITS\)\) - 1\)\) as f64", m.group(1).strip())
    if not mm:
        raise ex.ExtractError(f"{w}: MIN_SAFE_INTEGER has an unrecognised definition: {m.group(1)}")
    emit("MIN_SAFE_INTEGER_NEG", (1 << F64_MANTISSA_DIGITS) - 1, w, m.group(0))
    # truncate_for_bitwise guard
    m, w = ex.find(VAL, r"fn truncate_for_bitwise\(self\) -> Result<i64> \{\s*if ([^{]+)\{\s*bail!\([^)]*\);\s*\}\s*Ok\(([^)]+)\)")
    guard = " ".join(m.group(1).split())
    if guard != "self.0 < MIN_SAFE_INTEGER || self.0 > MAX_SAFE_INTEGER" or m.group(2).strip() != "self.0 as i64":
        raise ex.ExtractError(f"{w}: truncate_for_bitwise has an unrecognised guard/body: {guard} / {m.group(2)}")
    emit("TRUNC_GUARD_STRICT", "true", w, guard, ty="Bool")
    # shift count modulus (both shift arms)
    text = ex.src(OPS)
    mods = re.findall(r"let exp = \(?v2\.truncate_for_bitwise\(\)\? % (\d+)\)?(?: as u32)?;", text)
    if len(mods) != 2 or len(set(mods)) != 1:
        raise ex.ExtractError(f"{OPS}: expected two shift arms taking the count through truncate_for_bitwise()? % N, found {mods}")
    _, w = ex.find(OPS, r"let exp = \(?v2\.truncate_for_bitwise\(\)\? % \d+")
    emit("SHIFT_MOD", int(mods[0]), w, f"let exp = v2.truncate_for_bitwise()? % {mods[0]}")
    # numeric equality arm
    m, w = ex.find(VAL, r"\(Val::Num\(a\), Val::Num\(b\)\) => ([^\n]+),\n")
    arm = m.group(1).strip()
    if arm == "a.get() == b.get()":
        exact = "true"
    elif "EPSILON" in arm:
        exact = "false"
    else:
        raise ex.ExtractError(f"{w}: numeric arm of primitive_equals not recognised: {arm}")
    emit("NUM_EQ_EXACT", exact, w, m.group(0), ty="Bool")
    # every (Num, Num) arithmetic / bitwise arm and unary arm wraps its result in Val::try_num
    arms = re.findall(r"\(Num\(\w+\), (?:\w+, )?Num\(\w+\)\) => (\{?)\s*([^\n]*)", text)
    n_try = 0
    for brace, first in arms:
        if brace == "{":
            continue  # block arms are checked below by their last expression
        if first.startswith("Val::try_num("):
            n_try += 1
        elif first.startswith("a.cmp(b)"):
            pass
        else:
            raise ex.ExtractError(f"{OPS}: numeric arm does not go through Val::try_num: {first}")
    blocks = re.findall(r"\(Num\(v1\), (\w+), Num\(v2\)\) => \{(.*?)\n\t\t\}", text, re.S)
    for name, body in blocks:
        last = [l.strip() for l in body.strip().splitlines() if l.strip()][-1]
        if not last.startswith("Val::try_num("):
            raise ex.ExtractError(f"{OPS}: {name} arm does not end in Val::try_num: {last}")
        n_try += 1
    un = re.findall(r"\((Minus|BitNot), Num\(n\)\) => ([^\n]+)", text)
    for name, rhs in un:
        if not rhs.strip().startswith("Val::try_num("):
            raise ex.ExtractError(f"{OPS}: unary {name} does not go through Val::try_num")
        n_try += 1
    if n_try < 12:
        raise ex.ExtractError(f"{OPS}: expected >= 12 numeric arms through Val::try_num, found {n_try}")
    _, w = ex.find(OPS, r"pub fn evaluate_binary_op_normal")
    emit("NUM_ARMS_THROUGH_TRY_NUM", n_try, w, f"{n_try} numeric operator arms end in Val::try_num(..)")
    # IntoUntyped for f64
    m, w = ex.find(CONV, r"impl IntoUntyped for f64 \{\s*fn into_untyped\(value: Self\) -> Result<Val> \{\s*([^\n]+)\n")
    if m.group(1).strip() != "Ok(Val::try_num(value)?)":
        raise ex.ExtractError(f"{w}: IntoUntyped for f64 is not Val::try_num(value): {m.group(1)}")
    emit("F64_RET_THROUGH_TRY_NUM", "true", w, m.group(1), ty="Bool")
    # NumValue::new
    m, w = ex.find(VAL, r"pub fn new\(v: f64\) -> Option<Self> \{\s*if ([^{]+)\{\s*return None;")
    if m.group(1).strip() != "!v.is_finite()":
        raise ex.ExtractError(f"{w}: NumValue::new guard not recognised: {m.group(1)}")
    emit("NUM_NEW_FINITE_ONLY", "true", w, "if !v.is_finite() { return None; }", ty="Bool")
    # division guard
    m, w = ex.find(OPS, r"\(_, Num\(b\)\) => ([^,]+),")
    if m.group(1).strip() != "**b == 0.":
        raise ex.ExtractError(f"{w}: is_attempt_to_divide_by_zero numeric arm not recognised: {m.group(1)}")
    emit("DIV_GUARD_EQ_ZERO", "true", w, m.group(0), ty="Bool")
