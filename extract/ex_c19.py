"""C19 translator plug-in -> lean/JrsVerif/Generated/FmtKinds.lean

1. `commentKinds` : the token kinds of the lexer that are comments = the kinds `TriviaKind::can_cast`
   of the rowan parser accepts, minus WHITESPACE and the ERROR_* kinds (which make the input
   syntactically invalid).  `Fmt.comments` projects a token stream onto exactly these kinds.
2. `triviaKinds` : all kinds the parsers skip (what may be inserted/removed freely between tokens).
3. Shape checks (no constant, ExtractError when the source no longer has the shape):  the evaluator
   builds the SAME named closure for the two members of each documented sugar pair —
     local f = function(ps) e   : BindSpec::Field  -> evaluate_named_param -> evaluate_named ->
                                   `Function(params, body) => evaluate_method(ctx, name, ..)`
     local f(ps) = e            : BindSpec::Function -> `evaluate_method(fctx.unwrap(), name, params, value)`
     f: function(ps) e          : FieldMember{params: None}  -> UnboundValue::bind -> evaluate_named
     f(ps): e                   : FieldMember{params: Some}  -> UnboundMethod::bind -> evaluate_method
   and the method arm of evaluate_field_member does not read `plus` (so the field rewrite is only
   sound for plus = false, which is how `Fmt.sugarHead` is written).
"""
import re, sys

_m = sys.modules.get("__main__")
extract = _m if hasattr(_m, "GENERATORS") else __import__("extract")
ExtractError = extract.ExtractError

NODES = "crates/jrsonnet-rowan-parser/src/generated/nodes.rs"
KINDS = "crates/jrsonnet-lexer/src/generated/syntax_kinds.rs"
EVAL = "crates/jrsonnet-evaluator/src/evaluate/mod.rs"
DESTR = "crates/jrsonnet-evaluator/src/evaluate/destructure.rs"


def _lean_list(xs):
    return "[" + ", ".join('"' + x + '"' for x in xs) + "]"


@extract.register("FmtKinds.lean")
def fmt_kinds():
    m, w = extract.find(NODES, r"impl TriviaKind \{\s*fn can_cast\(kind: SyntaxKind\) -> bool \{\s*match kind \{([^}]*?)=> true,", re.S)
    trivia = [k.strip() for k in m.group(1).replace("\n", " ").split("|") if k.strip()]
    if not trivia or any(not re.fullmatch(r"[A-Z_]+", k) for k in trivia):
        raise ExtractError(f"{w}: cannot read TriviaKind::can_cast arms: {m.group(1)!r}")
    kinds_text = extract.src(KINDS)
    for k in trivia:
        if not re.search(r"^\s*" + k + r",\s*$", kinds_text, re.M):
            raise ExtractError(f"{KINDS}: trivia kind {k} is not a lexer SyntaxKind")
    if "WHITESPACE" not in trivia:
        raise ExtractError(f"{w}: WHITESPACE is not a trivia kind")
    comments = [k for k in trivia if k != "WHITESPACE" and not k.startswith("ERROR_")]
    if sorted(comments) != sorted(k for k in trivia if k.endswith("_COMMENT") and not k.startswith("ERROR_")):
        raise ExtractError(f"{w}: a non-whitespace, non-error trivia kind is not a comment: {trivia}")
    # every comment kind must have a printer arm in format_comments
    fc = extract.src("crates/jrsonnet-formatter/src/comments.rs")
    camel = lambda k: "".join(p.capitalize() for p in k.split("_"))
    for k in comments:
        if f"TriviaKind::{camel(k)} =>" not in fc:
            raise ExtractError(f"comments.rs: no format_comments arm for TriviaKind::{camel(k)}")

    # sugar pairs build the same closure (shape checks)
    extract.find(EVAL, r"pub fn evaluate_named\(ctx: Context, expr: &Expr, name: IStr\) -> Result<Val> \{\s*use Expr::\*;\s*Ok\(match expr \{\s*Function\(params, body\) => evaluate_method\(ctx, name, params\.clone\(\), body\.clone\(\)\),\s*_ => evaluate\(ctx, expr\)\?,")
    extract.find(EVAL, r"ParamName::Named\(name\) => evaluate_named\(ctx, expr, name\),")
    extract.find(DESTR, r"BindSpec::Field \{ into, value \} => \{\s*let name = into\.name\(\);\s*let value = value\.clone\(\);\s*let data = \{\s*let fctx = fctx\.clone\(\);\s*Thunk!\(move \|\| evaluate_named_param\(fctx\.unwrap\(\), &value, name\)\)")
    extract.find(DESTR, r"BindSpec::Function \{\s*name,\s*params,\s*value,\s*\} => \{.*?Thunk!\(move \|\| Ok\(evaluate_method\(fctx\.unwrap\(\), name, params, value\)\)\)", re.S)
    extract.find(EVAL, r"fn bind\(&self, sup_this: SupThis\) -> Result<Val> \{\s*evaluate_named\(self\.uctx\.bind\(sup_this\)\?, &self\.value, self\.name\.clone\(\)\)")
    extract.find(EVAL, r"fn bind\(&self, sup_this: SupThis\) -> Result<Val> \{\s*Ok\(evaluate_method\(\s*self\.uctx\.bind\(sup_this\)\?,\s*self\.name\.clone\(\),\s*self\.params\.clone\(\),\s*self\.value\.clone\(\),\s*\)\)")
    m2, w2 = extract.find(EVAL, r"FieldMember \{\s*params: Some\(params\),\s*visibility,\s*value,\s*\.\.\s*\} => \{(.*?)\n\t\t\}\n\t\}\n\tOk\(\(\)\)", re.S)
    if "with_add" in m2.group(1) or "plus" in m2.group(1):
        raise ExtractError(f"{w2}: the method arm of evaluate_field_member now reads `plus`; revisit Fmt.sugarHead")

    extract.ITEMS["FmtKinds.commentKinds"] = {"value": comments, "where": w, "raw": m.group(1).strip()}
    extract.ITEMS["FmtKinds.sugarClosureShape"] = {"value": True, "where": f"{EVAL}, {DESTR}", "raw": "evaluate_named / evaluate_method call sites"}
    out = ["-- GENERATED by extract/ex_c19.py from /repo on every check run. Do not edit.",
           "namespace JrsVerif.Generated.FmtKinds", "",
           f"/-- {w}: arms of `TriviaKind::can_cast` -/",
           f"def triviaKinds : List String := {_lean_list(trivia)}", "",
           "/-- the trivia kinds that are (well-formed) comments; each has an arm in `format_comments` -/",
           f"def commentKinds : List String := {_lean_list(comments)}", "",
           "end JrsVerif.Generated.FmtKinds"]
    return "\n".join(out) + "\n"
