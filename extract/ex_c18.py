"""C18 translator plug-in.

1. constants of the interner's reference-count protocol (crates/jrsonnet-interner):
   INTERN_UNPOOL_THRESHOLD (`strong_count(inner) <= 2`), INTERN_REFCNT_BITS (`UTF8_MASK = 1 << 31`),
   INTERN_INIT_REFCNT (`utf8_refcnt: 1 | ...`).  The operator of the unpool guard and the order
   `maybe_unpool` -> field drop are checked by shape (ExtractError when not recognised).
2. Generated/TraceGraph.lean: for every `#[derive(.. Trace ..)]` type of the evaluator the list of
   its fields with the type text and whether the field is `#[trace(skip)]`, plus the hand-written
   `impl Trace` blocks (as opaque entries).  Props/C18 decides on this finite table that every
   skipped field has a type from the declared acyclic/weak list.
"""
import os, re, sys

_m = sys.modules.get("__main__")
extract = _m if hasattr(_m, "GENERATORS") else __import__("extract")
ExtractError = extract.ExtractError

LIB = "crates/jrsonnet-interner/src/lib.rs"
INNER = "crates/jrsonnet-interner/src/inner.rs"


@extract.extra_const
def intern_consts(emit):
    m, w = extract.find(LIB, r"if Inner::strong_count\(inner\)\s*(<=|<|==|>=|>|!=)\s*(\d+)\s*\{\s*unpool\(inner\);")
    if m.group(1) != "<=":
        raise ExtractError(f"{w}: unpool guard operator is {m.group(1)!r}, the model is written for '<='")
    emit("INTERN_UNPOOL_THRESHOLD", extract.rust_int(m.group(2)), w, m.group(0))
    m, w = extract.find(INNER, r"const UTF8_MASK: u32 = 1 << (\d+);")
    emit("INTERN_REFCNT_BITS", extract.rust_int(m.group(1)), w, m.group(0))
    extract.find(INNER, r"const REFCNT_MASK: u32 = !UTF8_MASK;")
    m, w = extract.find(INNER, r"utf8_refcnt: (\d+) \| \(if is_utf8 \{ UTF8_MASK \} else \{ 0 \}\)")
    emit("INTERN_INIT_REFCNT", extract.rust_int(m.group(1)), w, m.group(0))
    # shape checks (no constant produced): clone adds one, drop subtracts one and frees at zero,
    # both handle types call maybe_unpool from Drop, casts clone before the consumed value drops
    extract.find(INNER, r"let refcnt = \(\*header\)\.refcnt\(\) \+ 1;\s*\(\*header\)\.set_refcnt\(refcnt\);")
    extract.find(INNER, r"let refcnt = \(\*header\)\.refcnt\(\) - 1;\s*\(\*header\)\.set_refcnt\(refcnt\);\s*refcnt\s*\};\s*if refcnt == 0 \{\s*dealloc\(self\);")
    text = extract.src(LIB)
    if len(re.findall(r"fn drop\(&mut self\) \{\s*maybe_unpool\(&self\.0\);\s*\}", text)) != 2:
        raise ExtractError(f"{LIB}: expected exactly two Drop impls calling maybe_unpool(&self.0)")
    extract.find(LIB, r"pub fn cast_bytes\(self\) -> IBytes \{\s*IBytes\(self\.0\.clone\(\)\)\s*\}")
    extract.find(LIB, r"pub fn cast_str\(self\) -> Option<IStr> \{\s*if Inner::check_utf8\(&self\.0\) \{\s*Some\(IStr\(self\.0\.clone\(\)\)\)\s*\} else \{\s*None\s*\}\s*\}")
    extract.find(LIB, r"if pool\.remove\(inner\)\.is_none\(\) \{")
    extract.find(LIB, r"RawEntryMut::Occupied\(i\) => IBytes\(i\.get_key_value\(\)\.0\.clone\(\)\),\s*RawEntryMut::Vacant\(e\) => \{\s*let \(k, \(\)\) = e\.insert\(Inner::new_bytes\(bytes\), \(\)\);\s*IBytes\(k\.clone\(\)\)")


def _lean_str(s):
    return '"' + s.replace("\\", "\\\\").replace('"', '\\"') + '"'


@extract.register("TraceGraph.lean")
def trace_graph():
    """every `#[trace(skip)]` in the workspace crates with the type it hides from the collector"""
    root = os.path.join(extract.REPO, "crates")
    if not os.path.isdir(root):
        raise ExtractError("crates/: not found")
    skips, derives = [], 0
    for dp, dn, fn in sorted(os.walk(root)):
        dn.sort()
        if os.sep + "target" in dp or "jrsonnet-macros" in dp:
            continue
        for f in sorted(fn):
            if not f.endswith(".rs"):
                continue
            rel = os.path.relpath(os.path.join(dp, f), extract.REPO)
            text = extract.src(rel)
            derives += len(re.findall(r"#\[derive\([^\]]*\bTrace\b[^\]]*\)\]", text))
            for m in re.finditer(r"#\[trace\(skip\)\]", text):
                line = text.count("\n", 0, m.start()) + 1
                rest = text[m.end():]
                mm = (re.match(r"\s*\n\s*(?:pub(?:\([a-z]+\))?\s+)?(?:enum|struct)\s+(\w+)", rest))
                if mm:
                    skips.append((f"{rel}:{line}", "type " + mm.group(1), "type " + mm.group(1)))
                    continue
                mm = re.match(r"\s*\n\s*(?:pub(?:\([a-z]+\))?\s+)?(\w+):\s*([^\n]+?),\s*\n", rest)
                if mm:
                    skips.append((f"{rel}:{line}", mm.group(1), mm.group(2).strip()))
                    continue
                # tuple position: `Name(#[trace(skip)] Type)` possibly followed by `,` or `;`
                before = text[:m.start()]
                mo = re.search(r"(\w+)\(\s*$", before)
                mm = re.match(r"\s*([^\n]+?)\)\s*[,;]\s*\n", rest)
                if mo and mm:
                    skips.append((f"{rel}:{line}", mo.group(1), mm.group(1).strip()))
                    continue
                raise ExtractError(f"{rel}:{line}: #[trace(skip)] in a position the translator does not recognise")
    if not skips or derives == 0:
        raise ExtractError("no #[derive(Trace)] / #[trace(skip)] found: source layout changed")
    out = ["-- GENERATED by extract/ex_c18.py from /repo on every check run. Do not edit.",
           "namespace JrsVerif.Generated", "",
           "/-- every `#[trace(skip)]` of the workspace: (where, owner or field, hidden type) -/",
           "def traceSkips : List (String × String × String) := ["]
    out.append(",\n".join(f"  ({_lean_str(w)}, {_lean_str(o)}, {_lean_str(t)})" for (w, o, t) in skips))
    out.append("]")
    out.append("")
    out.append(f"def traceDeriveCount : Nat := {derives}")
    out.append("")
    out.append("end JrsVerif.Generated")
    extract.ITEMS["traceSkips"] = {"value": len(skips), "where": "crates/*/src/**/*.rs", "raw": "#[trace(skip)]"}
    return "\n".join(out) + "\n"
