"""C05 translator plug-in: the JSON string escape table of crates/jrsonnet-evaluator/src/manifest.rs
-> lean/JrsVerif/Generated/Escape.lean (ESCAPE : Array UInt8 with 256 rows, HEX_DIGITS, and the
formatting constants of the JsonFormat constructors)."""
import re, sys
# extract.py runs as __main__; `import extract` would create a second module object with its own
# GENERATORS registry, so bind to the running one when there is one.
extract = sys.modules["__main__"] if hasattr(sys.modules.get("__main__"), "GENERATORS") else __import__("extract")
ExtractError, find, src = extract.ExtractError, extract.find, extract.src

REL = "crates/jrsonnet-evaluator/src/manifest.rs"


def byte_lit(s, where):
    """value of a Rust u8 expression: b'x', b'\\\\', b'"', decimal or 0x.. literal"""
    s = s.strip()
    m = re.fullmatch(r"b'(\\?.)'", s)
    if m:
        c = m.group(1)
        if len(c) == 1:
            return ord(c)
        esc = {"\\\\": 0x5C, "\\'": 0x27, '\\"': 0x22, "\\n": 10, "\\r": 13, "\\t": 9, "\\0": 0}
        if c in esc:
            return esc[c]
        raise ExtractError(f"{where}: unknown byte escape {s!r}")
    m = re.fullmatch(r"b'\\x([0-9a-fA-F]{2})'", s)
    if m:
        return int(m.group(1), 16)
    m = re.fullmatch(r"(0x[0-9a-fA-F]+|\d+)(?:u8)?", s)
    if m:
        v = int(m.group(1), 0)
        if v > 255:
            raise ExtractError(f"{where}: {s} does not fit u8")
        return v
    raise ExtractError(f"{where}: cannot read u8 literal {s!r}")


def str_lit(s, where):
    """bytes of a Rust "..." literal with the simple escapes"""
    out, i = [], 0
    while i < len(s):
        c = s[i]
        if c == "\\":
            i += 1
            e = s[i]
            mp = {"n": 10, "r": 13, "t": 9, "\\": 0x5C, '"': 0x22, "0": 0}
            if e not in mp:
                raise ExtractError(f"{where}: unknown escape \\{e}")
            out.append(mp[e])
        else:
            out.extend(c.encode("utf-8"))
        i += 1
    return out


def ctor_body(text, header_re, what):
    m = re.search(header_re, text, re.S)
    if not m:
        raise ExtractError(f"{REL}: constructor {what} not found")
    # the LAST `Self {` .. `}` of the function (cli() has an early return before it)
    start = m.end()
    nxt = re.search(r"\n\t(?:pub |const |// |/// |\})", text[start:])
    body = text[start:start + (nxt.start() if nxt else 4000)]
    k = body.rfind("Self {")
    if k < 0:
        raise ExtractError(f"{REL}: {what}: no `Self {{` literal")
    return body[k:], text.count("\n", 0, start) + 1


def field(body, name, what):
    m = re.search(rf"\b{name}:\s*([^\n]+?),\s*\n", body)
    if not m:
        # shorthand `newline,`
        if re.search(rf"\n\s*{name},\s*\n", body):
            return None
        raise ExtractError(f"{REL}: {what}: field {name} not found")
    return m.group(1).strip()


def lean_bytes(bs):
    return "[" + ", ".join(str(b) for b in bs) + "]"


@extract.register("Escape.lean")
def escape_table():
    text = src(REL)
    consts = {}
    for m in re.finditer(r"^const (\w+): u8 = ([^;]+);", text, re.M):
        consts[m.group(1)] = byte_lit(m.group(2), f"{REL}: const {m.group(1)}")
    m, where = find(REL, r"static ESCAPE: \[u8; (\d+)\] = \[(.*?)\];", re.S)
    if int(m.group(1)) != 256:
        raise ExtractError(f"{where}: ESCAPE is declared with {m.group(1)} rows, expected 256")
    body = re.sub(r"//[^\n]*", "", m.group(2))
    rows = []
    for tok in body.split(","):
        tok = tok.strip()
        if not tok:
            continue
        if tok in consts:
            rows.append(consts[tok])
        else:
            rows.append(byte_lit(tok, where))
    if len(rows) != 256:
        raise ExtractError(f"{where}: ESCAPE has {len(rows)} entries, expected 256")
    # the match arms of escape_string_json_buf: which table values take the two-byte form and
    # which the \u00XX form
    fm, fwhere = find(REL, r"pub fn escape_string_json_buf\(.*?\n\}\n", re.S)
    fn = fm.group(0)
    am = re.search(r"match escape \{\s*((?:self::\w+\s*\|?\s*)+)=>\s*\{\s*buf\.extend_from_slice\(&\[b'\\\\', escape\]\);", fn)
    if not am:
        raise ExtractError(f"{fwhere}: two-byte escape arm not recognised")
    short_names = re.findall(r"self::(\w+)", am.group(1))
    um = re.search(r"self::(\w+) => \{\s*static HEX_DIGITS: \[u8; 16\] = \*b\"([^\"]*)\";\s*let bytes = &\[\s*"
                   r"b'\\\\',\s*b'u',\s*b'0',\s*b'0',\s*HEX_DIGITS\[\(byte >> 4\) as usize\],\s*"
                   r"HEX_DIGITS\[\(byte & 0xF\) as usize\],\s*\];", fn)
    if not um:
        raise ExtractError(f"{fwhere}: \\u00XX arm not recognised")
    for n in short_names + [um.group(1)]:
        if n not in consts:
            raise ExtractError(f"{fwhere}: arm constant {n} has no `const` definition")
    hexd = str_lit(um.group(2), fwhere)
    if len(hexd) != 16:
        raise ExtractError(f"{fwhere}: HEX_DIGITS has {len(hexd)} entries")
    if not re.search(r"if escape == __ \{\s*continue;", fn) or consts.get("__") != 0:
        raise ExtractError(f"{fwhere}: pass-through test `escape == __` (0) not recognised")
    if not re.search(r"buf\.push\(b'\"'\);\s*let mut start = 0;", fn) or fn.count("buf.push(b'\"');") != 3:
        raise ExtractError(f"{fwhere}: opening/closing quote pushes not recognised")

    out = ["-- GENERATED by extract/ex_c05.py from /repo on every check run. Do not edit.",
           "namespace JrsVerif.Generated.Escape", "",
           f"/-- {where}: `static ESCAPE: [u8; 256]` (row i = escape letter of byte i, 0 = not escaped) -/",
           "@[irreducible] def ESCAPE : Array UInt8 := #["]
    for r in range(16):
        out.append("  " + ", ".join(str(v) for v in rows[16 * r:16 * r + 16]) + ("," if r < 15 else ""))
    out.append("]")
    out.append("")
    out.append(f"/-- {fwhere}: table values written as the two bytes `\\\\` + value ({', '.join(short_names)}) -/")
    out.append(f"def SHORT : List UInt8 := {lean_bytes([consts[n] for n in short_names])}")
    out.append("")
    out.append(f"/-- {fwhere}: table value written as `\\\\u00XX` ({um.group(1)}) -/")
    out.append(f"def UU : UInt8 := {consts[um.group(1)]}")
    out.append("")
    out.append(f"/-- {fwhere}: `HEX_DIGITS` -/")
    out.append(f"def HEX_DIGITS : Array UInt8 := #{lean_bytes(hexd)}")
    out.append("")
    extract.ITEMS["ESCAPE"] = {"value": rows, "where": where, "raw": "static ESCAPE: [u8; 256]"}
    extract.ITEMS["ESCAPE.SHORT"] = {"value": short_names, "where": fwhere, "raw": am.group(0)[:80]}
    extract.ITEMS["HEX_DIGITS"] = {"value": um.group(2), "where": fwhere, "raw": "HEX_DIGITS"}

    # formatting constants of the JsonFormat constructors
    em, ewhere = find(REL, r"enum JsonFormatting \{(.*?)\n\}", re.S)
    variants = re.findall(r"^\s*(\w+),\s*$", em.group(1), re.M)
    if variants != ["Manifest", "Std", "ToString", "Minify"]:
        raise ExtractError(f"{ewhere}: JsonFormatting variants {variants} not recognised")
    out.append(f"/-- {ewhere}: `enum JsonFormatting` -/")
    out.append("inductive Kind where | manifest | std | toString | minify")
    out.append("  deriving DecidableEq, Repr")
    out.append("")
    ctors = [
        ("minify", r"pub fn minify\("),
        ("toString", r"const fn std_to_string_helper\("),
        ("cli", r"pub fn cli\("),
        ("dflt", r"impl Default for JsonFormat<'static> \{\s*fn default\("),
        ("stdToJson", r"pub fn std_to_json\("),
    ]
    kinds = {"JsonFormatting::Manifest": "manifest", "JsonFormatting::Std": "std",
             "JsonFormatting::ToString": "toString", "JsonFormatting::Minify": "minify"}
    for lname, hdr in ctors:
        body, line = ctor_body(text, hdr, lname)
        w = f"{REL}:{line}"
        mt = field(body, "mtype", lname)
        if mt not in kinds:
            raise ExtractError(f"{w}: {lname}: mtype {mt!r} not recognised")
        out.append(f"/-- {w}: `{lname}` → mtype -/")
        out.append(f"def {lname}Kind : Kind := .{kinds[mt]}")
        for fname in ("padding", "newline", "key_val_sep"):
            raw = field(body, fname, lname)
            lean_name = f"{lname}{''.join(p.capitalize() for p in fname.split('_'))}"
            if lname == "stdToJson":
                ok = (raw is None) or raw == f"Cow::Owned({fname})"
                if not ok:
                    raise ExtractError(f"{w}: std_to_json: field {fname} is not passed through: {raw!r}")
                continue
            if lname == "cli" and fname == "padding":
                if raw != 'Cow::Owned(" ".repeat(padding))':
                    raise ExtractError(f"{w}: cli: padding {raw!r} not recognised")
                continue
            mm = re.fullmatch(r'(?:Cow::Borrowed\()?"((?:[^"\\]|\\.)*)"\)?', raw or "")
            if not mm:
                raise ExtractError(f"{w}: {lname}: field {fname} literal {raw!r} not recognised")
            out.append(f"/-- {w}: `{lname}.{fname} = {raw}` -/")
            out.append(f"def {lean_name} : List UInt8 := {lean_bytes(str_lit(mm.group(1), w))}")
            extract.ITEMS[f"JsonFormat.{lname}.{fname}"] = {"value": mm.group(1), "where": w, "raw": raw}
        out.append("")
    cm = re.search(r"pub fn cli\(.*?if padding == 0 \{\s*return Self::minify\(", text, re.S)
    if not cm:
        raise ExtractError(f"{REL}: cli(): `padding == 0 => minify` shortcut not recognised")
    out.append("end JrsVerif.Generated.Escape")
    return "\n".join(out) + "\n"
