"""C08 translator plug-in.

Generated/ArrKernels.lean: the straight-line bodies of the view representations in
crates/jrsonnet-evaluator/src/arr/spec.rs — `len`, `get`, `get_lazy`, `get_cheap`, `is_cheap` of
SliceArray (+ `map_idx`), ReverseArray, RepeatedArray, ExtendedArray, the constant `is_cheap` of
the leaf representations, and RangeArray's wrapping length / `new_exclusive` / `empty` —
translated from the Rust source text into Lean definitions.  Props/C08.lean proves that the hand
model's arms equal these kernels, so a changed guard, index expression, delegated field or accessor
breaks a theorem (lake build fails) instead of having to be hit by the generator.

Recognised body shapes (anything else raises ExtractError):

    len       :  EXPR [as usize]
    map_idx   :  EXPR
    accessor  :  [if COND { return Ok(None); | return None; }]  self.FIELD.ACC(EXPR)
              |  if COND { self.F.ACC(EXPR) } else { self.G.ACC(EXPR) }
    is_cheap  :  BOOL       (true | false | self.F.is_cheap() | BOOL && BOOL)

    EXPR := atoms `index`, integer, `self.FIELD`, `self.FIELD.len()`, `self.len()`,
            `self.map_idx(EXPR)`, `(EXPR)`, `EXPR as usize`, `EXPR.div_ceil(EXPR)`,
            binary + - * %   (all checked: failure = panic)
    COND := EXPR (>= | > | <= | < | ==) EXPR
"""
import re, sys

_m = sys.modules.get("__main__")
extract = _m if hasattr(_m, "GENERATORS") else __import__("extract")
ExtractError = extract.ExtractError

SPEC = "crates/jrsonnet-evaluator/src/arr/spec.rs"
VIEWS = ["SliceArray", "ReverseArray", "RepeatedArray", "ExtendedArray"]
LEAVES = ["CharArray", "BytesArray", "ExprArray", "LazyArray", "EagerArray", "RangeArray",
          "MappedArray", "PickObjectValues", "PickObjectKeyValues"]
ACCESSORS = ["get", "get_lazy", "get_cheap"]


def _strip_comments(t):
    return re.sub(r"//[^\n]*", "", t)


def _block(text, start):
    """text[start] == '{' -> index just after the matching '}'"""
    depth = 0
    for i in range(start, len(text)):
        if text[i] == "{":
            depth += 1
        elif text[i] == "}":
            depth -= 1
            if depth == 0:
                return i + 1
    raise ExtractError(f"{SPEC}: unbalanced braces")


def _impl(text, header):
    m = re.search(re.escape(header) + r"\s*\{", text)
    if not m:
        raise ExtractError(f"{SPEC}: `{header}` not found")
    end = _block(text, m.end() - 1)
    return text[m.end():end - 1]


def _fn(impl, name, where):
    m = re.search(r"fn " + name + r"\(&self(?:, _?index: usize)?\)\s*(?:->\s*[^{]+)?\{", impl)
    if not m:
        raise ExtractError(f"{SPEC}: fn {name} not found in {where}")
    end = _block(impl, m.end() - 1)
    return " ".join(impl[m.end():end - 1].split())


def _fields(text, name):
    """-> list of (field, type) for a braced or tuple struct"""
    m = re.search(r"pub struct " + name + r"\s*\{", text)
    if m:
        end = _block(text, m.end() - 1)
        out = []
        for part in text[m.end():end - 1].split(","):
            part = part.strip()
            if not part:
                continue
            mm = re.fullmatch(r"(?:pub(?:\(crate\))?\s+)?([a-z_][a-z0-9_]*)\s*:\s*(.+)", part, re.S)
            if not mm:
                raise ExtractError(f"{SPEC}: unreadable field {part!r} of {name}")
            out.append((mm.group(1), mm.group(2).strip()))
        return out
    m = re.search(r"pub struct " + name + r"\(([^)]*)\);", text)
    if m:
        return [(str(i), t.replace("pub", "").strip()) for i, t in enumerate(m.group(1).split(","))]
    raise ExtractError(f"{SPEC}: struct {name} not found")


# ---------------------------------------------------------------- expression translator
TOK = re.compile(r"\s*(>=|<=|==|&&|\|\||[-+*%()<>.{};]|[A-Za-z_][A-Za-z0-9_]*|\d+)")


def _tokens(s):
    out, i = [], 0
    s = s.strip()
    while i < len(s):
        m = TOK.match(s, i)
        if not m:
            raise ExtractError(f"{SPEC}: cannot tokenise {s[i:i+20]!r}")
        out.append(m.group(1))
        i = m.end()
    return out


class P:
    def __init__(self, toks, struct, fields, ctx):
        self.t, self.i, self.struct, self.ctx = toks, 0, struct, ctx
        self.fields = dict(fields)

    def peek(self, k=0):
        return self.t[self.i + k] if self.i + k < len(self.t) else None

    def eat(self, tok=None):
        cur = self.peek()
        if cur is None or (tok is not None and cur != tok):
            raise ExtractError(f"{SPEC}: {self.ctx}: expected {tok!r}, found {cur!r}")
        self.i += 1
        return cur

    def done(self):
        return self.i >= len(self.t)

    # nat expressions -> Lean term of type Option Nat
    def expr(self):
        lhs = self.term()
        while self.peek() in ("+", "-"):
            op = self.eat()
            rhs = self.term()
            lhs = f"({'kadd' if op == '+' else 'ksub'} {lhs} {rhs})"
        return lhs

    def term(self):
        lhs = self.cast()
        while self.peek() in ("*", "%"):
            op = self.eat()
            rhs = self.cast()
            lhs = f"({'kmul' if op == '*' else 'kmod'} {lhs} {rhs})"
        return lhs

    def cast(self):
        e = self.postfix()
        while self.peek() == "as":
            self.eat()
            ty = self.eat()
            if ty != "usize":
                raise ExtractError(f"{SPEC}: {self.ctx}: unsupported cast `as {ty}`")
        return e

    def field(self):
        """after `self .` : returns ('field', name)"""
        name = self.eat()
        if name not in self.fields and name not in ("len", "map_idx", "is_empty"):
            raise ExtractError(f"{SPEC}: {self.ctx}: unknown field self.{name}")
        return name

    def postfix(self):
        tok = self.peek()
        if tok == "(":
            self.eat("(")
            e = self.expr()
            self.eat(")")
        elif tok == "index":
            self.eat()
            e = "(some index)"
        elif tok is not None and tok.isdigit():
            e = f"(some {int(self.eat())})"
        elif tok == "self":
            self.eat()
            self.eat(".")
            name = self.field()
            if name == "len" and self.peek() == "(":
                self.eat("("); self.eat(")")
                e = f"({self.struct}_len {self.params('scalars+lens')})"
            elif name == "map_idx" and self.peek() == "(":
                self.eat("(")
                arg = self.expr()
                self.eat(")")
                e = f"(kbind {arg} (fun i => {self.struct}_map_idx {self.params('scalars+lens')} i))"
            elif self.fields.get(name) == "ArrValue":
                # only `.len()` is an arithmetic use of an array field
                self.eat(".")
                meth = self.eat()
                if meth != "len":
                    raise ExtractError(f"{SPEC}: {self.ctx}: self.{name}.{meth} inside arithmetic")
                self.eat("("); self.eat(")")
                e = f"(some len_{_ln(name)})"
            elif self.fields.get(name) in ("u32", "usize"):
                e = f"(some v_{name})"
            else:
                raise ExtractError(f"{SPEC}: {self.ctx}: self.{name} has unsupported type {self.fields.get(name)!r}")
        else:
            raise ExtractError(f"{SPEC}: {self.ctx}: unexpected token {tok!r}")
        while self.peek() == "." and self.peek(1) == "div_ceil":
            self.eat("."); self.eat(); self.eat("(")
            arg = self.expr()
            self.eat(")")
            e = f"(kdivceil {e} {arg})"
        return e

    def params(self, which):
        return _params(self.fields, which, call=True)

    def cond(self):
        a = self.expr()
        op = self.eat()
        names = {">=": "kge", ">": "kgt", "<=": "kle", "<": "klt", "==": "keq"}
        if op not in names:
            raise ExtractError(f"{SPEC}: {self.ctx}: unsupported comparison {op!r}")
        b = self.expr()
        return f"({names[op]} {a} {b})"

    def call(self):
        """self.FIELD.ACC(EXPR) -> K term"""
        self.eat("self"); self.eat(".")
        name = self.eat()
        if self.fields.get(name) != "ArrValue":
            raise ExtractError(f"{SPEC}: {self.ctx}: delegation to non-array field self.{name}")
        self.eat(".")
        acc = self.eat()
        if acc not in ACCESSORS:
            raise ExtractError(f"{SPEC}: {self.ctx}: delegation through unknown accessor {acc!r}")
        self.eat("(")
        idx = self.expr()
        self.eat(")")
        return f'(kcall "{name}" "{acc}" {idx})'

    def none_return(self):
        self.eat("return")
        if self.peek() == "Ok":
            self.eat(); self.eat("("); self.eat("None"); self.eat(")")
        else:
            self.eat("None")
        self.eat(";")

    def accessor(self):
        if self.peek() == "if":
            self.eat("if")
            c = self.cond()
            self.eat("{")
            if self.peek() == "return":
                self.none_return()
                self.eat("}")
                tail = self.call()
                k = f"(kif {c} K.none {tail})"
            else:
                a = self.call()
                self.eat("}"); self.eat("else"); self.eat("{")
                b = self.call()
                self.eat("}")
                k = f"(kif {c} {a} {b})"
        else:
            k = self.call()
        if not self.done():
            raise ExtractError(f"{SPEC}: {self.ctx}: trailing tokens {self.t[self.i:self.i+6]}")
        return k

    def boolean(self):
        def atom():
            tok = self.eat()
            if tok in ("true", "false"):
                return tok
            if tok == "self":
                self.eat(".")
                name = self.eat()
                if self.fields.get(name) != "ArrValue":
                    raise ExtractError(f"{SPEC}: {self.ctx}: is_cheap of non-array field {name}")
                self.eat("."); self.eat("is_cheap"); self.eat("("); self.eat(")")
                return f"cheap_{_ln(name)}"
            raise ExtractError(f"{SPEC}: {self.ctx}: unsupported boolean {tok!r}")
        e = atom()
        while self.peek() == "&&":
            self.eat()
            e = f"({e} && {atom()})"
        if not self.done():
            raise ExtractError(f"{SPEC}: {self.ctx}: trailing tokens in is_cheap")
        return e


def _ln(name):
    return "f" + name if name.isdigit() else name


def _params(fields, which, call=False):
    fields = list(fields.items()) if isinstance(fields, dict) else fields
    sc = [f"v_{n}" for n, t in fields if t in ("u32", "usize")]
    ln = [f"len_{_ln(n)}" for n, t in fields if t == "ArrValue"]
    ch = [f"cheap_{_ln(n)}" for n, t in fields if t == "ArrValue"]
    names = {"scalars+lens": sc + ln, "cheap": ch}[which]
    if call:
        return " ".join(names)
    ty = "Bool" if which == "cheap" else "Nat"
    return f"({' '.join(names)} : {ty})" if names else ""


_HEAD = '''-- GENERATED by extract/ex_c08.py from crates/jrsonnet-evaluator/src/arr/spec.rs on every check run.
-- Do not edit.
import JrsVerif.Generated.Consts
set_option linter.unusedVariables false
namespace JrsVerif.Generated.ArrKernels

/-- what an accessor body does with an index: answer `None`, delegate to the accessor `acc` of the
    array field `field` at a translated index, or panic (checked arithmetic failed) -/
inductive K where
  | none
  | call (field acc : String) (idx : Nat)
  | panic
  deriving Repr, DecidableEq, Inhabited

/-! checked `usize`/`u32` arithmetic of an overflow-checked build: `none` = panic -/
def ksub : Option Nat → Option Nat → Option Nat
  | some x, some y => if y ≤ x then some (x - y) else none
  | _, _ => none
def kadd : Option Nat → Option Nat → Option Nat
  | some x, some y => some (x + y)
  | _, _ => none
def kmul : Option Nat → Option Nat → Option Nat
  | some x, some y => some (x * y)
  | _, _ => none
def kmod : Option Nat → Option Nat → Option Nat
  | some x, some y => if y = 0 then none else some (x % y)
  | _, _ => none
def kdivceil : Option Nat → Option Nat → Option Nat
  | some x, some y => if y = 0 then none else some ((x + y - 1) / y)
  | _, _ => none
def kbind (a : Option Nat) (f : Nat → Option Nat) : Option Nat :=
  match a with | some x => f x | none => none
def kge : Option Nat → Option Nat → Option Bool
  | some x, some y => some (decide (x ≥ y))
  | _, _ => none
def kgt : Option Nat → Option Nat → Option Bool
  | some x, some y => some (decide (x > y))
  | _, _ => none
def kle : Option Nat → Option Nat → Option Bool
  | some x, some y => some (decide (x ≤ y))
  | _, _ => none
def klt : Option Nat → Option Nat → Option Bool
  | some x, some y => some (decide (x < y))
  | _, _ => none
def keq : Option Nat → Option Nat → Option Bool
  | some x, some y => some (decide (x = y))
  | _, _ => none
def kcall (field acc : String) : Option Nat → K
  | some i => .call field acc i
  | none => .panic
def kif (c : Option Bool) (t e : K) : K :=
  match c with
  | some true => t
  | some false => e
  | none => .panic

/-! `i32 as usize` (sign extension) and wrapping `usize` arithmetic -/
def i32AsUsize (x : Int) : Nat := (x % (2 ^ 64 : Int)).toNat
def wsub (a b : Nat) : Nat := (a + 2 ^ 64 - b % 2 ^ 64) % 2 ^ 64
def wadd (a b : Nat) : Nat := (a + b) % 2 ^ 64
/-- `i32::checked_sub` -/
def i32CheckedSub (a b : Int) : Option Int :=
  if a - b < -(2 ^ 31 : Int) ∨ a - b > 2 ^ 31 - 1 then none else some (a - b)
'''


MOD = "crates/jrsonnet-evaluator/src/arr/mod.rs"
CMP = {">=": "≥", ">": ">", "<=": "≤", "<": "<"}


def _norm(t):
    return " ".join(_strip_comments(t).split())


def _mod_rs(spec_text, items):
    """branch structure of `ArrValue::extended` / `ExtendedArray::new`, and `ArrValue::slice`
    with its `get_idx` closure: template translation (the operators, operands, defaults and
    field assignments are taken from the source, the skeleton must match exactly)"""
    out = []
    mod = _norm(extract.src(MOD))
    m = re.search(
        r"pub fn extended\(a: Self, b: Self\) -> Self \{ const ARR_EXTEND_THRESHOLD: usize = [0-9_]+; "
        r"if ([ab])\.is_empty\(\) \{ ([ab]) \} else if ([ab])\.is_empty\(\) \{ ([ab]) \} "
        r"else if ([ab])\.len\(\) \+ ([ab])\.len\(\) (>=|>|<=|<) ARR_EXTEND_THRESHOLD "
        r"\{ Self::new\(ExtendedArray::new\(([ab]), ([ab])\)\) \} "
        r"else if let \(Some\(a\), Some\(b\)\) = \(([ab])\.iter_cheap\(\), ([ab])\.iter_cheap\(\)\) "
        r"\{ let mut out = Vec::with_capacity\(a\.len\(\) \+ b\.len\(\)\); out\.extend\(([ab])\); out\.extend\(([ab])\); "
        r"Self::(eager|lazy)\(out\) \} "
        r"else \{ let mut out = Vec::with_capacity\(a\.len\(\) \+ b\.len\(\)\); "
        r"out\.extend\(([ab])\.iter_lazy\(\)\); out\.extend\(([ab])\.iter_lazy\(\)\); Self::(eager|lazy)\(out\) \} \}", mod)
    if not m:
        raise ExtractError(f"{MOD}: ArrValue::extended has an unrecognised shape")
    g = m.groups()
    bound = {"a": g[9], "b": g[10]}          # the iterators shadow a/b inside the cheap branch
    out.append("/-! ### ArrValue::extended / ExtendedArray::new (arr/mod.rs, arr/spec.rs) -/")
    out.append("inductive ExtPlan where\n  | ret (which : String)\n  | link (fst snd : String)\n"
               "  | copyCheap (fst snd into : String)\n  | copyLazy (fst snd into : String)\n  deriving Repr, DecidableEq")
    out.append(f"/-- `{m.group(0)[:60]} …` -/")
    out.append("def ArrValue_extended (len_a len_b : Nat) (cheap_a cheap_b : Bool) : ExtPlan :=")
    out.append(f"  if len_{g[0]} = 0 then .ret \"{g[1]}\"")
    out.append(f"  else if len_{g[2]} = 0 then .ret \"{g[3]}\"")
    out.append(f"  else if len_{g[4]} + len_{g[5]} {CMP[g[6]]} JrsVerif.Generated.ARR_EXTEND_THRESHOLD then .link \"{g[7]}\" \"{g[8]}\"")
    out.append(f"  else if cheap_{g[9]} && cheap_{g[10]} then .copyCheap \"{bound[g[11]]}\" \"{bound[g[12]]}\" \"{g[13]}\"")
    out.append(f"  else .copyLazy \"{g[14]}\" \"{g[15]}\" \"{g[16]}\"")
    items["ArrValue::extended"] = m.group(0)
    st = _norm(spec_text)
    m = re.search(r"pub fn new\(a: ArrValue, b: ArrValue\) -> Self \{ let a_len = a\.len\(\); let b_len = b\.len\(\); "
                  r"Self \{ a, b, split: ([ab])_len, len: ([ab])_len\.checked_add\(([ab])_len\)\.expect\(\"[^\"]*\"\), \} \}", st)
    if not m:
        raise ExtractError(f"{SPEC}: ExtendedArray::new has an unrecognised shape")
    out.append(f"/-- `split: {m.group(1)}_len, len: {m.group(2)}_len.checked_add({m.group(3)}_len)` -/")
    out.append(f"def ExtendedArray_new (a_len b_len : Nat) : Nat × Nat := ({m.group(1)}_len, {m.group(2)}_len + {m.group(3)}_len)")
    items["ExtendedArray::new"] = m.group(0)
    for pat, what in ((r"fn is_empty\(&self\) -> bool \{ self\.len\(\) == 0 \}", "ArrayLike::is_empty default"),
                      (r"fn is_empty\(&self\) -> bool \{ self\.range\(\)\.len\(\) == 0 \}", "RangeArray::is_empty")):
        if not re.search(pat, st):
            raise ExtractError(f"{SPEC}: {what} has an unrecognised shape")
    # the three iterators: which accessor each one reads through
    for name, acc in (("iter", r"self\.get\(i\)\.transpose\(\)\.expect\(\"length checked\"\)"),
                      ("iter_lazy", r"self\.get_lazy\(i\)\.expect\(\"length checked\"\)")):
        if not re.search(r"pub fn " + name + r"\(&self\) -> impl ArrayLikeIter<[^{]*\{ \(0\.\.self\.len\(\)\)\.map\(\|i\| " + acc + r"\) \}", mod):
            raise ExtractError(f"{MOD}: ArrValue::{name} has an unrecognised shape")
    if not re.search(r"pub fn iter_cheap\(&self\) -> Option<impl ArrayLikeIter<Val> \+ '_> \{ if self\.is_cheap\(\) \{ "
                     r"Some\(\(0\.\.self\.len\(\)\)\.map\(\|i\| self\.get_cheap\(i\)\.expect\(\"length and is_cheap checked\"\)\)\) \} else \{ None \} \}", mod):
        raise ExtractError(f"{MOD}: ArrValue::iter_cheap has an unrecognised shape")
    # ArrValue::slice
    m = re.search(
        r"pub fn slice\(self, index: Option<i32>, end: Option<i32>, step: Option<NonZeroU32>\) -> Self \{ "
        r"let get_idx = \|pos: Option<i32>, len: usize, default\| match pos \{ "
        r"Some\(v\) if v (<|<=|>|>=) (-?\d+) => len\.saturating_sub\(v\.unsigned_abs\(\) as usize\), "
        r"Some\(v\) => \(v as usize\)\.min\(len\), None => default, \}; "
        r"let index = get_idx\(index, self\.len\(\), (0|self\.len\(\))\); "
        r"let end = get_idx\(end, self\.len\(\), (0|self\.len\(\))\); "
        r"let step = step\.unwrap_or_else\(\|\| NonZeroU32::new\((\d+)\)\.expect\(\"[^\"]*\"\)\); "
        r"if (index|end) (>=|>|<=|<) (index|end) \{ return Self::empty\(\); \} "
        r"Self::new\(SliceArray \{ inner: self, from: (index|end) as u32, to: (index|end) as u32, step: step\.get\(\), \}\) \}", mod)
    if not m:
        raise ExtractError(f"{MOD}: ArrValue::slice has an unrecognised shape")
    g = m.groups()
    dfl = lambda x: "0" if x == "0" else "self_len"
    out.append("/-! ### ArrValue::slice (arr/mod.rs) -/")
    out.append("/-- the `get_idx` closure -/")
    out.append("def ArrValue_slice_get_idx (pos : Option Int) (len dflt : Nat) : Nat :=\n  match pos with\n"
               f"  | some v => if v {CMP[g[0]]} {int(g[1])} then len - v.natAbs else min v.toNat len\n  | none => dflt")
    out.append("/-- `none` = `Self::empty()`, `some (from, to, step)` = the SliceArray fields -/")
    out.append("def ArrValue_slice (index end_ : Option Int) (step : Option Nat) (self_len : Nat) : Option (Nat × Nat × Nat) :=")
    out.append(f"  let v_index := ArrValue_slice_get_idx index self_len {dfl(g[2])}")
    out.append(f"  let v_end := ArrValue_slice_get_idx end_ self_len {dfl(g[3])}")
    out.append(f"  let v_step := step.getD {int(g[4])}")
    out.append(f"  if v_{g[5]} {CMP[g[6]]} v_{g[7]} then none else some (v_{g[8]}, v_{g[9]}, v_step)")
    items["ArrValue::slice"] = m.group(0)
    out.append("")
    return out


@extract.register("ArrKernels.lean")
def arr_kernels():
    text = _strip_comments(extract.src(SPEC))
    out = [_HEAD]
    items = {}
    for S in VIEWS:
        fields = _fields(text, S)
        for n, t in fields:
            if t not in ("u32", "usize", "ArrValue"):
                raise ExtractError(f"{SPEC}: {S}.{n} has unsupported type {t!r}")
        impl = _impl(text, f"impl ArrayLike for {S}")
        pn = _params(fields, "scalars+lens")
        out.append(f"/-! ### {S} ({', '.join(n + ': ' + t for n, t in fields)}) -/")
        # len
        body = _fn(impl, "len", S)
        p = P(_tokens(body), S, fields, f"{S}::len")
        # inside `len` itself `self.len()` would be a cycle
        term = p.expr()
        if not p.done():
            raise ExtractError(f"{SPEC}: {S}::len: trailing tokens {p.t[p.i:]}")
        out.append(f"/-- `{body}` -/\ndef {S}_len {pn} : Option Nat := {term}\n")
        items[f"{S}::len"] = body
        # map_idx (SliceArray only)
        m = re.search(r"impl " + S + r"\s*\{", text)
        if m and "fn map_idx" in text[m.end():_block(text, m.end() - 1)]:
            inh = text[m.end():_block(text, m.end() - 1) - 1]
            body = _fn(inh, "map_idx", S)
            p = P(_tokens(body), S, fields, f"{S}::map_idx")
            term = p.expr()
            if not p.done():
                raise ExtractError(f"{SPEC}: {S}::map_idx: trailing tokens")
            out.append(f"/-- `{body}` -/\ndef {S}_map_idx {pn} (index : Nat) : Option Nat := {term}\n")
            items[f"{S}::map_idx"] = body
        for acc in ACCESSORS:
            body = _fn(impl, acc, S)
            p = P(_tokens(body), S, fields, f"{S}::{acc}")
            k = p.accessor()
            out.append(f"/-- `{body}` -/\ndef {S}_{acc} {pn} (index : Nat) : K :=\n  {k}\n")
            items[f"{S}::{acc}"] = body
        body = _fn(impl, "is_cheap", S)
        p = P(_tokens(body), S, fields, f"{S}::is_cheap")
        out.append(f"/-- `{body}` -/\ndef {S}_is_cheap {_params(fields, 'cheap')} : Bool := {p.boolean()}\n")
        items[f"{S}::is_cheap"] = body
    out.append("/-! ### leaf representations: `is_cheap` is a constant -/")
    for S in LEAVES:
        impl = _impl(text, f"impl ArrayLike for {S}")
        body = _fn(impl, "is_cheap", S)
        if body not in ("true", "false"):
            raise ExtractError(f"{SPEC}: {S}::is_cheap is not a constant: {body!r}")
        out.append(f"def {S}_is_cheap : Bool := {body}")
        items[f"{S}::is_cheap"] = body
        gc = _fn(impl, "get_cheap", S)
        if body == "false" and gc != "None":
            raise ExtractError(f"{SPEC}: {S} is not cheap but get_cheap is {gc!r}")
    out.append("")
    # RangeArray
    out.append("/-! ### RangeArray -/")
    rimpl = _impl(text, "impl RangeArray")
    m = re.search(r"WithExactSize\(\s*self\.(\w+)\.\.=self\.(\w+),\s*\(self\.(\w+) as usize\)\s*"
                  r"\.wrapping_sub\(self\.(\w+) as usize\)\s*\.wrapping_add\((\d+)\),?\s*\)", rimpl)
    if not m:
        raise ExtractError(f"{SPEC}: RangeArray::range has an unrecognised shape")
    lo, hi, a, b, c = m.groups()
    for f in (lo, hi, a, b):
        if f not in ("start", "end"):
            raise ExtractError(f"{SPEC}: RangeArray::range uses unknown field {f}")
    out.append(f"/-- iterator bounds `self.{lo}..=self.{hi}` -/")
    out.append(f"def RangeArray_bounds (v_start v_end : Int) : Int × Int := (v_{lo}, v_{hi})")
    out.append(f"/-- `(self.{a} as usize).wrapping_sub(self.{b} as usize).wrapping_add({c})` -/")
    out.append(f"def RangeArray_len (v_start v_end : Int) : Nat := wadd (wsub (i32AsUsize v_{a}) (i32AsUsize v_{b})) {int(c)}")
    items["RangeArray::range"] = m.group(0)
    m = re.search(r"pub fn new_exclusive\(start: i32, end: i32\) -> Self \{\s*end\.checked_sub\((\d+)\)\s*"
                  r"\.map_or_else\(Self::empty, \|end\| Self \{ start, end \}\)\s*\}", rimpl)
    if not m:
        raise ExtractError(f"{SPEC}: RangeArray::new_exclusive has an unrecognised shape")
    out.append(f"/-- `end.checked_sub({m.group(1)}).map_or_else(Self::empty, |end| Self {{ start, end }})`; `none` = `Self::empty()` -/")
    out.append(f"def RangeArray_new_exclusive (v_start v_end : Int) : Option (Int × Int) :=\n"
               f"  match i32CheckedSub v_end {int(m.group(1))} with\n  | some e => some (v_start, e)\n  | none => none")
    items["RangeArray::new_exclusive"] = m.group(0)
    m = re.search(r"pub fn empty\(\) -> Self \{\s*Self::new_exclusive\((-?\d+), (-?\d+)\)\s*\}", rimpl)
    if not m:
        raise ExtractError(f"{SPEC}: RangeArray::empty has an unrecognised shape")
    out.append(f"/-- `Self::new_exclusive({m.group(1)}, {m.group(2)})` -/")
    out.append(f"def RangeArray_empty_args : Int × Int := ({int(m.group(1))}, {int(m.group(2))})")
    m = re.search(r"pub fn new_inclusive\(start: i32, end: i32\) -> Self \{\s*Self \{ start, end \}\s*\}", rimpl)
    if not m:
        raise ExtractError(f"{SPEC}: RangeArray::new_inclusive has an unrecognised shape")
    aimpl = _impl(text, "impl ArrayLike for RangeArray")
    for fn_, want in (("len", "self.range().len()"), ("get", "Ok(self.get_cheap(index))"),
                      ("get_lazy", "self.get_cheap(index).map(Thunk::evaluated)"),
                      ("get_cheap", "self.range().nth(index).map(|i| Val::Num(i.into()))")):
        got = _fn(aimpl, fn_, "RangeArray")
        if got != want:
            raise ExtractError(f"{SPEC}: RangeArray::{fn_} is {got!r}, expected {want!r}")
    out.append("")
    out.extend(_mod_rs(text, items))
    out.append("end JrsVerif.Generated.ArrKernels")
    for k, v in items.items():
        extract.ITEMS["arr." + k] = {"value": v, "where": SPEC, "raw": v}
    return "\n".join(out) + "\n"
