"""C20 translator plug-in.

Generated/FmtRange.lean: the diagnostic-range arithmetic of `jrsonnet_formatter::format`'s error
branch (`fn error_annotation_range(start, end, len) -> Option<(usize, usize)>`, crates/
jrsonnet-formatter/src/lib.rs) translated statement by statement into a Lean definition over `Nat`
with explicit `usize` failure (`checked_sub` -> Option, plain `-`/`+` -> panic = `none` of the outer
`Except`-like wrapper).  Only a small expression language is recognised:

    let NAME = ATOM(.METHOD(ARG))* [?] ;          METHOD in checked_sub saturating_sub max min
    Some((A, B))

plus plain binary `a - b` / `a + b` on atoms (translated to *checked* arithmetic whose failure is a
panic).  Anything else raises ExtractError (the tie is then broken and ./check reports it).

Shape checks (no Lean output): the call site passes (range.start, range.end, input.len()) in this
order and feeds the pair to `.range(first..=last)`; `jrsonnet-fmt`'s convergence loop has the
statements the hand model FmtMain.loop mirrors, in order.
"""
import re, sys

_m = sys.modules.get("__main__")
extract = _m if hasattr(_m, "GENERATORS") else __import__("extract")
ExtractError = extract.ExtractError

LIB = "crates/jrsonnet-formatter/src/lib.rs"
MAIN = "cmds/jrsonnet-fmt/src/main.rs"

METHODS = {"checked_sub": "checkedSub", "saturating_sub": "satSub", "max": "Nat.max", "min": "Nat.min"}


def _v(name):
    return "v_" + name


def _atom(tok, env):
    tok = tok.strip()
    if re.fullmatch(r"\d+(usize)?", tok):
        return str(int(tok.replace("usize", "")))
    if re.fullmatch(r"[a-z_][a-z0-9_]*", tok):
        if tok not in env:
            raise ExtractError(f"{LIB}: unknown variable {tok!r} in error_annotation_range")
        return _v(tok)
    raise ExtractError(f"{LIB}: unsupported atom {tok!r} in error_annotation_range")


def _expr(text, env):
    """returns (lean_term, kind) with kind in {'nat', 'opt', 'chk'}:
    nat = total, opt = Option from `?`-checked op, chk = plain +/- that panics on failure"""
    text = text.strip()
    m = re.fullmatch(r"([a-z_0-9]+)\s*([-+])\s*([a-z_0-9]+)", text)
    if m:
        a, b = _atom(m.group(1), env), _atom(m.group(3), env)
        return (f"(panicSub {a} {b})" if m.group(2) == "-" else f"(panicAdd {a} {b})"), "chk"
    q = text.endswith("?")
    if q:
        text = text[:-1].strip()
    parts = re.split(r"\.(?=[a-z_]+\()", text)
    term = _atom(parts[0], env)
    kind = "nat"
    for i, p in enumerate(parts[1:]):
        mm = re.fullmatch(r"([a-z_]+)\(([^()]*)\)", p)
        if not mm or mm.group(1) not in METHODS:
            raise ExtractError(f"{LIB}: unsupported method call {p!r} in error_annotation_range")
        if kind != "nat":
            raise ExtractError(f"{LIB}: method call on an Option in error_annotation_range: {text!r}")
        arg = _atom(mm.group(2), env)
        term = f"({METHODS[mm.group(1)]} {term} {arg})"
        if mm.group(1).startswith("checked_"):
            kind = "opt"
    if (kind == "opt") != q:
        raise ExtractError(f"{LIB}: `?` and checked_* do not pair up in {text!r}")
    return term, kind


@extract.register("FmtRange.lean")
def fmt_range():
    m, where = extract.find(
        LIB,
        r"fn error_annotation_range\(start: usize, end: usize, len: usize\) -> Option<\(usize, usize\)> \{\n(.*?)\n\}\n",
        re.S,
    )
    body = m.group(1)
    env = {"start", "end", "len"}
    lines = [l.strip() for l in body.split("\n") if l.strip() and not l.strip().startswith("//")]
    out = []
    ret = None
    for l in lines:
        ml = re.fullmatch(r"let ([a-z_][a-z0-9_]*) = (.*);", l)
        if ml:
            if ret is not None:
                raise ExtractError(f"{where}: statement after the result expression")
            term, kind = _expr(ml.group(2), env)
            name = ml.group(1)
            if kind == "nat":
                out.append(f"  let {_v(name)} := {term}")
            elif kind == "opt":
                out.append(f"  match {term} with\n  | none => .ok none\n  | some {_v(name)} =>")
            else:
                out.append(f"  match {term} with\n  | none => .panic\n  | some {_v(name)} =>")
            env.add(name)
            continue
        mr = re.fullmatch(r"Some\(\(([a-z_0-9]+), ([a-z_0-9]+)\)\)", l)
        if mr:
            ret = f"  .ok (some ({_atom(mr.group(1), env)}, {_atom(mr.group(2), env)}))"
            continue
        raise ExtractError(f"{where}: unsupported statement in error_annotation_range: {l!r}")
    if ret is None:
        raise ExtractError(f"{where}: no `Some((a, b))` result in error_annotation_range")
    # call site: argument order and the inclusive range handed to hi-doc
    extract.find(LIB, r"match error_annotation_range\(\s*error\.range\.start\(\)\.into\(\),\s*error\.range\.end\(\)\.into\(\),\s*input\.len\(\),\s*\) \{\s*Some\(\(first, last\)\) => annotation\.range\(first\.\.=last\)\.build\(\),\s*(?://[^\n]*\s*)*None => annotation\.build\(\),")
    extract.find(LIB, r"if !errors\.is_empty\(\) \{")
    extract.ITEMS["error_annotation_range"] = {"value": len(lines), "where": where, "raw": " ".join(lines)}
    head = _HEAD + [
        f"/-- {where}: `fn error_annotation_range` translated statement by statement -/",
        "def errorAnnotationRange (v_start v_end v_len : Nat) : R (Option (Nat × Nat)) :=",
    ]
    return "\n".join(head + out + [ret, "", "end JrsVerif.Generated.FmtRange"]) + "\n"


@extract.register("FmtMainShape.lean")
def fmt_main_shape():
    """jrsonnet-fmt main loop: statements mirrored by the hand model FmtMain.loop, in source order"""
    main = extract.src(MAIN)
    seq = [
        r"let mut iteration = 0;",
        r"let mut formatted = input\.clone\(\);",
        r"loop \{",
        r"let reformatted = match format\(\s*&formatted,",
        r"indent: if opts\.indent == 0 \|\| opts\.hard_tabs \{\s*0\s*\} else \{\s*opts\.indent\s*\},",
        r"Err\(e\) => \{",
        r"return Err\(Error::Parse\);",
        r"convergence_tmp = reformatted\.trim\(\)\.to_owned\(\);",
        r"if formatted == convergence_tmp \{\s*break;\s*\}",
        r"formatted = convergence_tmp;",
        r"if opts\.conv_limit == 0 \{\s*break;\s*\}",
        r"iteration \+= 1;",
        r"assert!\(iteration <= opts\.conv_limit, \"formatting not converged\"\);",
        r"formatted\.push\('\\n'\);",
        r"if opts\.test && formatted != input \{\s*process::exit\(1\);\s*\}",
        r"print!\(\"\{formatted\}\"\);",
    ]
    pos = 0
    for pat in seq:
        mm = re.compile(pat).search(main, pos)
        if not mm:
            raise ExtractError(f"{MAIN}: main_result no longer has the statement /{pat}/ after offset {pos} (FmtMain.loop mirrors it)")
        pos = mm.end()
    extract.find(MAIN, r"if opts\.indent == 0 \{[^}]*opts\.hard_tabs = true;\s*\}")
    extract.ITEMS["fmt_main_loop_shape"] = {"value": len(seq), "where": MAIN, "raw": "statement sequence of main_result's loop"}
    return ("-- GENERATED by extract/ex_c20.py from /repo on every check run. Do not edit.\n"
            "namespace JrsVerif.Generated.FmtMainShape\n\n"
            f"/-- {MAIN}: number of statements of `main_result`'s loop recognised in order -/\n"
            f"def loopStatements : Nat := {len(seq)}\n\n"
            "end JrsVerif.Generated.FmtMainShape\n")


_HEAD = [
    "-- GENERATED by extract/ex_c20.py from /repo on every check run. Do not edit.",
    "namespace JrsVerif.Generated.FmtRange",
    "",
    "/-- outcome of `usize` arithmetic: a value, or the panic of an unchecked `-`/`+` -/",
    "inductive R (α : Type) where",
    "  | ok (v : α)",
    "  | panic",
    "deriving Repr, DecidableEq",
    "",
    "def checkedSub (a b : Nat) : Option Nat := if b ≤ a then some (a - b) else none",
    "def satSub (a b : Nat) : Nat := a - b",
    "def panicSub (a b : Nat) : Option Nat := if b ≤ a then some (a - b) else none",
    "/-- `usize` addition overflows at 2^64 -/",
    "def panicAdd (a b : Nat) : Option Nat := if a + b < 2 ^ 64 then some (a + b) else none",
    "",
]
