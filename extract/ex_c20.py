"""C20 translator plug-in.

Generated/FmtRange.lean: the diagnostic-range arithmetic of `jrsonnet_formatter::format`'s error
branch (`fn error_annotation_range(start, end, len) -> Option<(usize, usize)>`, crates/
jrsonnet-formatter/src/lib.rs) translated statement by statement into a Lean definition over `Nat`
with explicit `usize` failure (`checked_sub` -> Option, plain `-`/`+` -> panic = `none` of the outer
`Except`-like wrapper).  Only a small expression language is recognised:

    let NAME = ATOM(.METHOD(ARG))* [?] ;          METHOD in checked_sub saturating_sub max min
    Some((A, B))

plus plain binary `a - b` / `a + b` on atoms (translated to *checked* arithmetic whose failure is a
panic).  Anything else raises ExtractError (the tie is then broken and ./check reports it).

Shape checks (no Lean output): the call site passes (range.start, range.end, input.len()) in this
order and feeds the pair to `.range(first..=last)`; `jrsonnet-fmt`'s convergence loop has the
statements the hand model FmtMain.loop mirrors, in order.
"""
import re, sys

_m = sys.modules.get("__main__")
extract = _m if hasattr(_m, "GENERATORS") else __import__("extract")
ExtractError = extract.ExtractError

LIB = "crates/jrsonnet-formatter/src/lib.rs"
MAIN = "cmds/jrsonnet-fmt/src/main.rs"

METHODS = {"checked_sub": "checkedSub", "saturating_sub": "satSub", "max": "Nat.max", "min": "Nat.min"}


def _v(name):
    return "v_" + name


def _atom(tok, env):
    tok = tok.strip()
    if re.fullmatch(r"\d+(usize)?", tok):
        return str(int(tok.replace("usize", "")))
    if re.fullmatch(r"[a-z_][a-z0-9_]*", tok):
        if tok not in env:
            raise ExtractError(f"{LIB}: unknown variable {tok!r} in error_annotation_range")
        return _v(tok)
    raise ExtractError(f"{LIB}: unsupported atom {tok!r} in error_annotation_range")


def _expr(text, env):
    """returns (lean_term, kind) with kind in {'nat', 'opt', 'chk'}:
    nat = total, opt = Option from `?`-checked op, chk = plain +/- that panics on failure"""
    text = text.strip()
    m = re.fullmatch(r"([a-z_0-9]+)\s*([-+])\s*([a-z_0-9]+)", text)
    if m:
        a, b = _atom(m.group(1), env), _atom(m.group(3), env)
        return (f"(panicSub {a} {b})" if m.group(2) == "-" else f"(panicAdd {a} {b})"), "chk"
    q = text.endswith("?")
    if q:
        text = text[:-1].strip()
    parts = re.split(r"\.(?=[a-z_]+\()", text)
    term = _atom(parts[0], env)
    kind = "nat"
    for i, p in enumerate(parts[1:]):
        mm = re.fullmatch(r"([a-z_]+)\(([^()]*)\)", p)
        if not mm or mm.group(1) not in METHODS:
            raise ExtractError(f"{LIB}: unsupported method call {p!r} in error_annotation_range")
        if kind != "nat":
            raise ExtractError(f"{LIB}: method call on an Option in error_annotation_range: {text!r}")
        arg = _atom(mm.group(2), env)
        term = f"({METHODS[mm.group(1)]} {term} {arg})"
        if mm.group(1).startswith("checked_"):
            kind = "opt"
    if (kind == "opt") != q:
        raise ExtractError(f"{LIB}: `?` and checked_* do not pair up in {text!r}")
    return term, kind


@extract.register("FmtRange.lean")
def fmt_range():
    m, where = extract.find(
        LIB,
        r"fn error_annotation_range\(start: usize, end: usize, len: usize\) -> Option<\(usize, usize\)> \{\n(.*?)\n\}\n",
        re.S,
    )
    body = m.group(1)
    env = {"start", "end", "len"}
    lines = [l.strip() for l in body.split("\n") if l.strip() and not l.strip().startswith("//")]
    out = []
    ret = None
    for l in lines:
        ml = re.fullmatch(r"let ([a-z_][a-z0-9_]*) = (.*);", l)
        if ml:
            if ret is not None:
                raise ExtractError(f"{where}: statement after the result expression")
            term, kind = _expr(ml.group(2), env)
            name = ml.group(1)
            if kind == "nat":
                out.append(f"  let {_v(name)} := {term}")
            elif kind == "opt":
                out.append(f"  match {term} with\n  | none => .ok none\n  | some {_v(name)} =>")
            else:
                out.append(f"  match {term} with\n  | none => .panic\n  | some {_v(name)} =>")
            env.add(name)
            continue
        mr = re.fullmatch(r"Some\(\(([a-z_0-9]+), ([a-z_0-9]+)\)\)", l)
        if mr:
            ret = f"  .ok (some ({_atom(mr.group(1), env)}, {_atom(mr.group(2), env)}))"
            continue
        raise ExtractError(f"{where}: unsupported statement in error_annotation_range: {l!r}")
    if ret is None:
        raise ExtractError(f"{where}: no `Some((a, b))` result in error_annotation_range")
    # call site: argument order and the inclusive range handed to hi-doc
    extract.find(LIB, r"match error_annotation_range\(\s*error\.range\.start\(\)\.into\(\),\s*error\.range\.end\(\)\.into\(\),\s*input\.len\(\),\s*\) \{\s*Some\(\(first, last\)\) => annotation\.range\(first\.\.=last\)\.build\(\),\s*(?://[^\n]*\s*)*None => annotation\.build\(\),")
    extract.find(LIB, r"if !errors\.is_empty\(\) \{")
    extract.ITEMS["error_annotation_range"] = {"value": len(lines), "where": where, "raw": " ".join(lines)}
    head = _HEAD + [
        f"/-- {where}: `fn error_annotation_range` translated statement by statement -/",
        "def errorAnnotationRange (v_start v_end v_len : Nat) : R (Option (Nat × Nat)) :=",
    ]
    return "\n".join(head + out + [ret, "", "end JrsVerif.Generated.FmtRange"]) + "\n"


@extract.register("FmtMainShape.lean")
def fmt_main_shape():
    """jrsonnet-fmt main loop: statements mirrored by the hand model FmtMain.loop, in source order"""
    main = extract.src(MAIN)
    seq = [
        r"let mut iteration = 0;",
        r"let mut formatted = input\.clone\(\);",
        r"loop \{",
        r"let reformatted = match format\(\s*&formatted,",
        r"indent: if opts\.indent == 0 \|\| opts\.hard_tabs \{\s*0\s*\} else \{\s*opts\.indent\s*\},",
        r"Err\(e\) => \{",
        r"return Err\(Error::Parse\);",
        r"convergence_tmp = reformatted\.trim\(\)\.to_owned\(\);",
        r"if formatted == convergence_tmp \{\s*break;\s*\}",
        r"formatted = convergence_tmp;",
        r"if opts\.conv_limit == 0 \{\s*break;\s*\}",
        r"iteration \+= 1;",
        r"assert!\(iteration <= opts\.conv_limit, \"formatting not converged\"\);",
        r"formatted\.push\('\\n'\);",
        r"if opts\.test && formatted != input \{\s*process::exit\(1\);\s*\}",
        r"print!\(\"\{formatted\}\"\);",
    ]
    pos = 0
    for pat in seq:
        mm = re.compile(pat).search(main, pos)
        if not mm:
            raise ExtractError(f"{MAIN}: main_result no longer has the statement /{pat}/ after offset {pos} (FmtMain.loop mirrors it)")
        pos = mm.end()
    extract.find(MAIN, r"if opts\.indent == 0 \{[^}]*opts\.hard_tabs = true;\s*\}")
    extract.ITEMS["fmt_main_loop_shape"] = {"value": len(seq), "where": MAIN, "raw": "statement sequence of main_result's loop"}
    return ("-- GENERATED by extract/ex_c20.py from /repo on every check run. Do not edit.\n"
            "namespace JrsVerif.Generated.FmtMainShape\n\n"
            f"/-- {MAIN}: number of statements of `main_result`'s loop recognised in order -/\n"
            f"def loopStatements : Nat := {len(seq)}\n\n"
            "end JrsVerif.Generated.FmtMainShape\n")


# ------------------------------------------------------------------------------------------------
# Generated/FmtTrivia.lean: which lexeme kinds are trivia at the TWO sites that must agree —
#   lib.rs   parse():               kinds handed to the parser = lexemes.filter(|k| !P1(k))
#   event.rs Sink::skip_whitespace: lexemes re-attached while     P2(lexeme.kind)
# Each predicate is read from its own site and evaluated over the whole SyntaxKind enum
# (discriminant = position, #[repr(u16)]).  Recognised predicate language:
#   X::can_cast(e) | matches!(e, A | B ..) | e == A | e != A | !p | p || q | p && q | (p)
# ------------------------------------------------------------------------------------------------
RP = "crates/jrsonnet-rowan-parser/src/"
RKINDS = RP + "generated/syntax_kinds.rs"
RNODES = RP + "generated/nodes.rs"


def _kind_enum():
    m, w = extract.find(RKINDS, r"#\[repr\(u16\)\]\s*pub enum SyntaxKind \{(.*?)\n\}", re.S)
    names = []
    for line in m.group(1).split("\n"):
        line = line.strip()
        if not line or line.startswith("#[") or line.startswith("//"):
            continue
        mm = re.fullmatch(r"([A-Za-z_][A-Za-z0-9_]*),", line)
        if not mm:
            raise ExtractError(f"{w}: unexpected line in enum SyntaxKind: {line!r} (explicit discriminant?)")
        names.append(mm.group(1))
    if len(set(names)) != len(names) or any(x not in names for x in ("WHITESPACE", "COMMA", "R_PAREN", "R_BRACK", "R_BRACE")):
        raise ExtractError(f"{w}: cannot read enum SyntaxKind")
    return names, w


def _can_cast_set(ty, names):
    """kinds accepted by `<ty as AstToken>::can_cast` (delegating to `<ty>Kind::can_cast`'s match)"""
    extract.find(RNODES, r"impl AstToken for " + ty + r" \{\s*fn can_cast\(kind: SyntaxKind\) -> bool \{\s*" + ty + r"Kind::can_cast\(kind\)\s*\}")
    m, w = extract.find(RNODES, r"impl " + ty + r"Kind \{\s*fn can_cast\(kind: SyntaxKind\) -> bool \{\s*match kind \{([^}]*?)=> true,\s*_ => false,\s*\}", re.S)
    ks = [k.strip() for k in m.group(1).replace("\n", " ").split("|") if k.strip()]
    for k in ks:
        if k not in names:
            raise ExtractError(f"{w}: {ty}Kind::can_cast arm {k!r} is not a SyntaxKind")
    return {names.index(k) for k in ks}


def _pred_set(expr, names, where):
    """evaluate a kind predicate (Rust expression text) over every SyntaxKind"""
    idx = {n: i for i, n in enumerate(names)}
    py = expr

    def cc(m):
        return "(k in " + repr(sorted(_can_cast_set(m.group(1), names))) + ")"

    def mt(m):
        ks = [x.strip().replace("SyntaxKind::", "") for x in m.group(1).split("|")]
        for x in ks:
            if x not in idx:
                raise ExtractError(f"{where}: unknown kind {x!r} in {expr!r}")
        return "(k in " + repr(sorted(idx[x] for x in ks)) + ")"

    def eq(m):
        x = m.group(2).replace("SyntaxKind::", "")
        if x not in idx:
            raise ExtractError(f"{where}: unknown kind {x!r} in {expr!r}")
        return f"(k {m.group(1)} {idx[x]})"

    py = re.sub(r"\b([A-Z][A-Za-z]*)::can_cast\(\s*[*&]?[a-z_.]+\s*\)", cc, py)
    py = re.sub(r"matches!\(\s*[*&]?[a-z_.]+\s*,([A-Za-z_:|\s]+)\)", mt, py)
    py = re.sub(r"[*&]?\b[a-z_][a-z_.]*\s*(==|!=)\s*((?:SyntaxKind::)?[A-Z_]+)", eq, py)
    py = py.replace("||", " or ").replace("&&", " and ")
    py = re.sub(r"!(?!=)", " not ", py)
    if not re.fullmatch(r"[\s()\[\],0-9k]*(?:(?:in|or|and|not|==|!=|k)[\s()\[\],0-9]*)*", py):
        raise ExtractError(f"{where}: trivia predicate not in the recognised language: {expr!r} -> {py!r}")
    try:
        return sorted(k for k in range(len(names)) if eval(py, {"__builtins__": {}}, {"k": k}))
    except Exception as e:  # noqa: BLE001
        raise ExtractError(f"{where}: cannot evaluate trivia predicate {expr!r}: {e}")


@extract.register("FmtTrivia.lean")
def fmt_trivia():
    names, wk = _kind_enum()
    # site 1: parse() filters the kinds the parser sees
    m1, w1 = extract.find(RP + "lib.rs", r"let kinds = lexemes\s*\.iter\(\)\s*\.map\(\|l\| l\.kind\)\s*\.filter\(\|k\| (.*?)\)\s*\.collect\(\);", re.S)
    keep = _pred_set(m1.group(1), names, w1)           # kinds KEPT for the parser
    parse_trivia = [k for k in range(len(names)) if k not in keep]
    # site 2: Sink::skip_whitespace re-attaches lexemes while the predicate holds
    m2, w2 = extract.find(RP + "event.rs", r"fn skip_whitespace\(&mut self\) \{\s*while let Some\(lexeme\) = self\.lexemes\.get\(self\.offset\) \{\s*if (.*?) \{\s*break;\s*\}\s*self\.token\(lexeme\.kind\);\s*\}\s*\}", re.S)
    stop = _pred_set(m2.group(1), names, w2)           # kinds at which the loop STOPS
    sink_trivia = [k for k in range(len(names)) if k not in stop]
    # shape of the rest of parse(): the same `lexemes` go to the parser (filtered) and to the sink (all)
    extract.find(RP + "lib.rs", r"let lexemes = lex::lex\(input\);")
    extract.find(RP + "lib.rs", r"let parser = Parser::new\(kinds\);\s*let events = parser\.parse\(\);(?:\s*#\[cfg\(jrsonnet_verif\)\]\s*verif::record\(&events, &lexemes\);)?\s*let sink = Sink::new\(events, &lexemes\);")
    extract.ITEMS["FmtTrivia.parseSite"] = {"value": [names[k] for k in parse_trivia], "where": w1, "raw": m1.group(1)}
    extract.ITEMS["FmtTrivia.sinkSite"] = {"value": [names[k] for k in sink_trivia], "where": w2, "raw": m2.group(1)}
    nm = lambda ks: ", ".join(names[k] for k in ks)
    out = ["-- GENERATED by extract/ex_c20.py from /repo on every check run. Do not edit.",
           "namespace JrsVerif.Generated.FmtTrivia", "",
           f"/-- {wk}: number of `SyntaxKind` variants (discriminant = position) -/",
           f"def kindCount : Nat := {len(names)}", "",
           f"/-- {w1}: lexeme kinds `parse()` does NOT hand to the parser: {nm(parse_trivia)} -/",
           f"def parseSiteTrivia : List Nat := {parse_trivia}", "",
           f"/-- {w2}: lexeme kinds `Sink::skip_whitespace` re-attaches on its own: {nm(sink_trivia)} -/",
           f"def sinkSiteTrivia : List Nat := {sink_trivia}", "",
           f"/-- {wk}: `COMMA` and the closing brackets `R_PAREN`, `R_BRACK`, `R_BRACE` -/",
           f"def commaKind : Nat := {names.index('COMMA')}",
           f"def closerKinds : List Nat := {[names.index(x) for x in ('R_PAREN', 'R_BRACK', 'R_BRACE')]}", "",
           "end JrsVerif.Generated.FmtTrivia"]
    return "\n".join(out) + "\n"


_HEAD = [
    "-- GENERATED by extract/ex_c20.py from /repo on every check run. Do not edit.",
    "namespace JrsVerif.Generated.FmtRange",
    "",
    "/-- outcome of `usize` arithmetic: a value, or the panic of an unchecked `-`/`+` -/",
    "inductive R (α : Type) where",
    "  | ok (v : α)",
    "  | panic",
    "deriving Repr, DecidableEq",
    "",
    "def checkedSub (a b : Nat) : Option Nat := if b ≤ a then some (a - b) else none",
    "def satSub (a b : Nat) : Nat := a - b",
    "def panicSub (a b : Nat) : Option Nat := if b ≤ a then some (a - b) else none",
    "/-- `usize` addition overflows at 2^64 -/",
    "def panicAdd (a b : Nat) : Option Nat := if a + b < 2 ^ 64 then some (a + b) else none",
    "",
]
