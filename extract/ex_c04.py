"""C04 translator plug-in.

Constants of the frame counter (crates/jrsonnet-evaluator/src/stack.rs), of the debug manifest
truncation (manifest.rs) and the shapes the hand models of Model/Stack.lean and Model/Total.lean
are written for.  Every shape the model depends on (comparison operator of the limit guard, +1/-1
on the counter, `current_depth + depth_limit`, guard taken before the body in both frame wrappers,
saturating arity arithmetic in prepare_call, `truncate / 2` on both sides, boundary loops) is
matched textually; an unrecognised shape is an ExtractError (= broken tie).
"""
import re, sys

_m = sys.modules.get("__main__")
extract = _m if hasattr(_m, "GENERATORS") else __import__("extract")
ExtractError = extract.ExtractError

STACK = "crates/jrsonnet-evaluator/src/stack.rs"
LIB = "crates/jrsonnet-evaluator/src/lib.rs"
MANIFEST = "crates/jrsonnet-evaluator/src/manifest.rs"
PREPARED = "crates/jrsonnet-evaluator/src/function/prepared.rs"
MATH = "crates/jrsonnet-stdlib/src/math.rs"


@extract.extra_const
def stack_consts(emit):
    m, w = extract.find(STACK, r"max_stack_size: Cell::new\((\d+)\),\s*current_depth: Cell::new\((\d+)\),")
    if extract.rust_int(m.group(2)) != 0:
        raise ExtractError(f"{w}: initial depth is {m.group(2)}, the model starts at 0")
    emit("STACK_DEFAULT_LIMIT", extract.rust_int(m.group(1)), w, m.group(0))
    # check_depth: guard operator and increment
    m, w = extract.find(STACK, r"let current = limit\.current_depth\.get\(\);\s*if current\s*(<=|<|==|>=|>|!=)\s*limit\.max_stack_size\.get\(\) \{\s*limit\.current_depth\.set\(current \+ (\d+)\);\s*Ok\(StackDepthGuard\(PhantomData\)\)\s*\} else \{\s*Err\(StackOverflowError\)\s*\}")
    if m.group(1) != "<" or m.group(2) != "1":
        raise ExtractError(f"{w}: check_depth is `current {m.group(1)} max … current + {m.group(2)}`; the model is written for `current < max … current + 1`")
    emit("STACK_GUARD_IS_LT", "true", w, "if current < limit.max_stack_size.get() { … current + 1 …", ty="Bool")
    # guard drop
    extract.find(STACK, r"impl Drop for StackDepthGuard \{\s*fn drop\(&mut self\) \{\s*STACK_LIMIT\.with\(\|limit\| limit\.current_depth\.set\(limit\.current_depth\.get\(\) - 1\)\);\s*\}\s*\}")
    # limit override
    extract.find(STACK, r"let old_limit = limit\.max_stack_size\.get\(\);\s*let current_depth = limit\.current_depth\.get\(\);\s*limit\.max_stack_size\.set\(current_depth \+ depth_limit\);\s*StackDepthLimitOverrideGuard \{ old_limit \}")
    extract.find(STACK, r"impl Drop for StackDepthLimitOverrideGuard \{\s*fn drop\(&mut self\) \{\s*STACK_LIMIT\.with\(\|limit\| limit\.max_stack_size\.set\(self\.old_limit\)\);")
    extract.find(STACK, r"pub fn set_stack_depth_limit\(depth_limit: usize\) \{\s*std::mem::forget\(limit_stack_depth\(depth_limit\)\);")
    # StackOverflowError maps to ErrorKind::StackOverflow
    extract.find(STACK, r"impl From<StackOverflowError> for Error \{\s*fn from\(_: StackOverflowError\) -> Self \{\s*ErrorKind::StackOverflow\.into\(\)")
    # both frame wrappers take the guard first and hold it over the body
    text = extract.src(LIB)
    n = len(re.findall(r"\) -> Result<T> \{\s*let _guard = check_depth\(\)\?;\s*f\(\)\.with_description", text))
    if n != 2:
        raise ExtractError(f"{LIB}: expected in_frame and in_description_frame to start with `let _guard = check_depth()?;` (found {n})")
    # every other use of check_depth would be a frame the model does not know
    uses = 0
    import os
    for dp, dn, fn in os.walk(os.path.join(extract.REPO, "crates")):
        if os.sep + "target" in dp:
            continue
        for f in fn:
            if f.endswith(".rs"):
                t = open(os.path.join(dp, f), encoding="utf-8", errors="replace").read()
                uses += len(re.findall(r"\bcheck_depth\(\)", t))
    if uses != 3:  # definition + two wrappers
        raise ExtractError(f"crates/: check_depth() occurs {uses} times, expected 3 (definition, in_frame, in_description_frame)")
    m, w = extract.find("crates/jrsonnet-cli/src/lib.rs", r"default_value = \"(\d+)\"\)\]\s*max_stack: usize,")
    emit("CLI_DEFAULT_MAX_STACK", extract.rust_int(m.group(1)), w, m.group(0))


@extract.extra_const
def kernel_consts(emit):
    m, w = extract.find(MANIFEST, r"pub fn debug\(\) -> Self \{.*?debug_truncate_strings: Some\((\d+)\),", re.S)
    emit("DEBUG_TRUNCATE_STRINGS", extract.rust_int(m.group(1)), w, f"debug_truncate_strings: Some({m.group(1)})")
    # truncation shape (repaired code): both cuts at truncate / 2 and moved to a char boundary
    extract.find(MANIFEST, r"if flat\.len\(\) > truncate \{(?:\s*//[^\n]*)*\s*let mut head = truncate / 2;\s*while !flat\.is_char_boundary\(head\) \{\s*head -= 1;\s*\}\s*let mut tail = flat\.len\(\) - truncate / 2;\s*while !flat\.is_char_boundary\(tail\) \{\s*tail \+= 1;\s*\}\s*let \(start, end\) = \(&flat\[\.\.head\], &flat\[tail\.\.\]\);\s*escape_string_json_buf\(&format!\(\"\{start\}\.\.\{end\}\"\), buf\);")
    # prepare_call arity arithmetic (repaired code)
    extract.find(PREPARED, r"if unnamed > params\.len\(\) \{\s*bail!\(TooManyArgsFunctionHas")
    extract.find(PREPARED, r"let expected_defaults = params\.len\(\)\.saturating_sub\(unnamed \+ named\.len\(\)\);")
    extract.find(PREPARED, r"if named\.len\(\) \+ unnamed < params\.len\(\) \{")
    extract.find(PREPARED, r"if defaults != expected_defaults \{")
    # clamp (repaired code)
    extract.find(MATH, r"pub fn builtin_clamp\(x: f64, minVal: f64, maxVal: f64\) -> f64 \{(?:\s*//[^\n]*)*\s*if x < minVal \{\s*minVal\s*\} else if x > maxVal \{\s*maxVal\s*\} else \{\s*x\s*\}\s*\}")


# ---- round 3: shapes of the repaired code and of the kernels of Model/TotalKern.lean -------------
EXPR = "crates/jrsonnet-ir/src/expr.rs"
IRP = "crates/jrsonnet-ir-parser/src/lib.rs"
PEGP = "crates/jrsonnet-peg-parser/src/lib.rs"
OBJ = "crates/jrsonnet-evaluator/src/obj/mod.rs"
EVAL = "crates/jrsonnet-evaluator/src/evaluate/mod.rs"
OPER = "crates/jrsonnet-evaluator/src/evaluate/operator.rs"
VALRS = "crates/jrsonnet-evaluator/src/val.rs"
ARRS = "crates/jrsonnet-stdlib/src/arrays.rs"
MISC = "crates/jrsonnet-stdlib/src/misc.rs"
PY = "crates/jrsonnet-stdlib/src/manifest/python.rs"
TOML = "crates/jrsonnet-stdlib/src/manifest/toml.rs"
STRS = "crates/jrsonnet-stdlib/src/strings.rs"
TRACE = "crates/jrsonnet-evaluator/src/trace/mod.rs"


@extract.extra_const
def round3_shapes(emit):
    # 1. duplicate_name: the loop of Model/TotalKern.lean::duplicateNameGo, and both parsers use it
    extract.find(EXPR, r"pub fn duplicate_name\(exprs: &\[ExprParam\]\) -> Option<IStr> \{\s*for \(i, param\) in exprs\.iter\(\)\.enumerate\(\) \{\s*if let ParamName::Named\(name\) = param\.destruct\.name\(\) \{\s*if exprs\[\.\.i\]\.iter\(\)\.any\(\|p\| p\.destruct\.name\(\) == name\) \{\s*return Some\(name\);\s*\}\s*\}\s*\}\s*None\s*\}")
    extract.find(IRP, r"result\.push\(ExprParam \{\s*destruct: d,\s*default,\s*\}\);\s*if let Some\(name\) = ExprParams::duplicate_name\(&result\) \{\s*return Err\(ParseError \{")
    extract.find(PEGP, r"= params:comma_list\(<param\(s\)>\) \{\?\s*if ExprParams::duplicate_name\(&params\)\.is_some\(\) \{\s*return Err\(\"<unique parameter name>\"\)\s*\}\s*Ok\(ExprParams::new\(params\)\)\s*\}")
    # every ExprParams::new outside the constructor itself sits in a params rule (checked or empty list)
    for rel, want in ((IRP, 2), (PEGP, 2)):
        n = len(re.findall(r"ExprParams::new\(", extract.src(rel)))
        if n != want:
            raise ExtractError(f"{rel}: ExprParams::new occurs {n} times, expected {want} (checked list + empty list)")
    # 2. pending markers of get_idx: Model/TotalKern.lean::enter
    # get_idx: assertions first, then the marker match (Pending = self-dependence, no escape)
    extract.find(OBJ, r"fn get_idx\(&self, key: IStr, core: CoreIdx\) -> Result<Option<Val>> \{(?:\s*//[^\n]*)*\s*self\.run_assertions\(\)\?;\s*let cache_key = \(key\.clone\(\), core\);")
    extract.find(OBJ, r"Entry::Occupied\(v\) => match v\.get\(\) \{\s*CacheValue::Cached\(v\) => return v\.clone\(\),\s*CacheValue::Pending => bail!\(InfiniteRecursionDetected\),\s*\},\s*Entry::Vacant\(v\) => \{\s*v\.insert\(CacheValue::Pending\);")
    extract.find(OBJ, r"fn get_idx_uncached\(&self, key: IStr, core: CoreIdx\) -> Result<Option<Val>> \{\s*let mut first_add = None;")
    # 3. native value walkers recurse inside in_description_frame
    walkers = [
        (ARRS, r"in_description_frame\(\s*\|\| format!\(\"elem <\{i\}> joining\"\),\s*\|\| deep_join_inner\(out, indexable\),\s*\)\?"),
        (ARRS, r"in_description_frame\(\s*\|\| format!\(\"elem <\{i\}> flattening\"\),\s*\|\| process\(ele, out\),\s*\)\?"),
        (ARRS, r"in_description_frame\(\s*\|\| format!\(\"elem <\{i\}> pruning\"\),\s*\|\| \{\s*builtin_prune\("),
        (ARRS, r"in_description_frame\(\s*\|\| format!\(\"field <\{name\}> pruning\"\),\s*\|\| \{\s*builtin_prune\("),
        (MISC, r"in_description_frame\(\s*\|\| format!\(\"field <\{field\}> patching\"\),\s*\|\| builtin_merge_patch\(field_target, field_patch\),\s*\)\?"),
        (PY, r"in_description_frame\(\s*\|\| format!\(\"elem <\{i\}> manifestification\"\),\s*\|\| self\.manifest_buf\(el, buf\),\s*\)\?"),
        (PY, r"in_description_frame\(\s*\|\| format!\(\"field <\{field\}> manifestification\"\),\s*\|\| self\.manifest_buf\(value, buf\),\s*\)\?"),
        (TOML, r"in_description_frame\(\s*\|\| format!\(\"section <\{k\}> manifestification\"\),\s*\|\| match v \{\s*Val::Obj\(obj\) => manifest_table\(&obj, path, buf, cur_padding, options\),\s*Val::Arr\(arr\) => manifest_table_array\(&arr, path, buf, cur_padding, options\),"),
        (OPER, r"in_description_frame\(\s*\|\| format!\(\"elem <\{i\}> comparison\"\),\s*\|\| evaluate_compare_op\(&a, &b, op\),\s*\)\?"),
        (VALRS, r"in_description_frame\(\|\| format!\(\"elem <\{i\}> comparison\"\), \|\| equals\(&a, &b\)\)\?"),
        (VALRS, r"in_description_frame\(\s*\|\| format!\(\"field <\{field\}> comparison\"\),\s*\|\| equals\(&a, &b\),\s*\)\?"),
    ]
    for rel, pat in walkers:
        extract.find(rel, pat)
    # no recursive call of these walkers outside a frame: count textual self-calls
    for rel, name, want in ((OPER, r"evaluate_compare_op\(", 6), (VALRS, r"\bequals\(", 3), (MISC, r"builtin_merge_patch\(", 2)):
        n = len(re.findall(name, extract.src(rel)))
        if n != want:
            raise ExtractError(f"{rel}: `{name}` occurs {n} times, expected {want} (definition, uses, framed recursion)")
    # field / element access of an index expression is a frame
    extract.find(EVAL, r"\(Val::Obj\(v\), Val::Str\(key\)\) => match in_frame\(\s*CallLocation::new\(&part\.span\),\s*\|\| format!\(\"field <\{key\}> access\"\),\s*\|\| v\.get\(key\.clone\(\)\.into_flat\(\)\),\s*\)\? \{")
    extract.find(EVAL, r"in_frame\(\s*CallLocation::new\(&part\.span\),\s*\|\| format!\(\"element <\{n\}> access\"\),\s*\|\| v\.get\(n as usize\),\s*\)\?")
    # 4. the `<<` arm: Model/TotalKern.lean::shlCore
    extract.find(OPER, r"\(Num\(v1\), Lhs, Num\(v2\)\) => \{\s*if v2\.get\(\) < 0\.0 \{\s*bail!\(\"shift by negative exponent\"\)\s*\}\s*let base = v1\.truncate_for_bitwise\(\)\?;\s*let exp = v2\.truncate_for_bitwise\(\)\? % 64;\s*if exp >= 1\s*&& \(base >= \(1i64 << \(63 - exp as u32\)\) \|\| base < -\(1i64 << \(63 - exp as u32\)\)\)\s*\{\s*bail!\(\"left shift would overflow\"\)\s*\}\s*Val::try_num\(base\.wrapping_shl\(exp as u32\) as f64\)\?")
    # 5. builtin_find_substr: Model/TotalKern.lean::findSubstrK
    extract.find(STRS, r"if pat\.is_empty\(\) \|\| str\.is_empty\(\) \|\| pat\.len\(\) > str\.len\(\) \{\s*return ArrValue::empty\(\);\s*\}\s*let str = str\.as_str\(\);\s*let pat = pat\.as_bytes\(\);\s*let strb = str\.as_bytes\(\);\s*let max_pos = str\.len\(\) - pat\.len\(\);")
    extract.find(STRS, r"\.char_indices\(\)\s*\.take_while\(\|\(i, _\)\| i <= &max_pos\)\s*\.enumerate\(\)\s*\{\s*if &strb\[i\.\.i \+ pat\.len\(\)\] == pat \{")
    # 6. print_code_location: one plain `column - 1`, two saturating ones
    m, w = extract.find(TRACE, r"fn print_code_location\(.*?\n\}\n", re.S)
    body = m.group(0)
    if len(re.findall(r"start\.column - 1", body)) != 1 or len(re.findall(r"column\.saturating_sub\(1\)", body)) != 2:
        raise ExtractError(f"{w}: print_code_location no longer has one `start.column - 1` and two `column.saturating_sub(1)`")
    emit("C04_ROUND3_SHAPES", "true", w, "duplicate_name, get_idx markers, framed walkers, << arm, find_substr, print_code_location", ty="Bool")
