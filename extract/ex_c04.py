"""C04 translator plug-in.

Constants of the frame counter (crates/jrsonnet-evaluator/src/stack.rs), of the debug manifest
truncation (manifest.rs) and the shapes the hand models of Model/Stack.lean and Model/Total.lean
are written for.  Every shape the model depends on (comparison operator of the limit guard, +1/-1
on the counter, `current_depth + depth_limit`, guard taken before the body in both frame wrappers,
saturating arity arithmetic in prepare_call, `truncate / 2` on both sides, boundary loops) is
matched textually; an unrecognised shape is an ExtractError (= broken tie).
"""
import re, sys

_m = sys.modules.get("__main__")
extract = _m if hasattr(_m, "GENERATORS") else __import__("extract")
ExtractError = extract.ExtractError

STACK = "crates/jrsonnet-evaluator/src/stack.rs"
LIB = "crates/jrsonnet-evaluator/src/lib.rs"
MANIFEST = "crates/jrsonnet-evaluator/src/manifest.rs"
PREPARED = "crates/jrsonnet-evaluator/src/function/prepared.rs"
MATH = "crates/jrsonnet-stdlib/src/math.rs"


@extract.extra_const
def stack_consts(emit):
    m, w = extract.find(STACK, r"max_stack_size: Cell::new\((\d+)\),\s*current_depth: Cell::new\((\d+)\),")
    if extract.rust_int(m.group(2)) != 0:
        raise ExtractError(f"{w}: initial depth is {m.group(2)}, the model starts at 0")
    emit("STACK_DEFAULT_LIMIT", extract.rust_int(m.group(1)), w, m.group(0))
    # check_depth: guard operator and increment
    m, w = extract.find(STACK, r"let current = limit\.current_depth\.get\(\);\s*if current\s*(<=|<|==|>=|>|!=)\s*limit\.max_stack_size\.get\(\) \{\s*limit\.current_depth\.set\(current \+ (\d+)\);\s*Ok\(StackDepthGuard\(PhantomData\)\)\s*\} else \{\s*Err\(StackOverflowError\)\s*\}")
    if m.group(1) != "<" or m.group(2) != "1":
        raise ExtractError(f"{w}: check_depth is `current {m.group(1)} max … current + {m.group(2)}`; the model is written for `current < max … current + 1`")
    emit("STACK_GUARD_IS_LT", "true", w, "if current < limit.max_stack_size.get() { … current + 1 …", ty="Bool")
    # guard drop
    extract.find(STACK, r"impl Drop for StackDepthGuard \{\s*fn drop\(&mut self\) \{\s*STACK_LIMIT\.with\(\|limit\| limit\.current_depth\.set\(limit\.current_depth\.get\(\) - 1\)\);\s*\}\s*\}")
    # limit override
    extract.find(STACK, r"let old_limit = limit\.max_stack_size\.get\(\);\s*let current_depth = limit\.current_depth\.get\(\);\s*limit\.max_stack_size\.set\(current_depth \+ depth_limit\);\s*StackDepthLimitOverrideGuard \{ old_limit \}")
    extract.find(STACK, r"impl Drop for StackDepthLimitOverrideGuard \{\s*fn drop\(&mut self\) \{\s*STACK_LIMIT\.with\(\|limit\| limit\.max_stack_size\.set\(self\.old_limit\)\);")
    extract.find(STACK, r"pub fn set_stack_depth_limit\(depth_limit: usize\) \{\s*std::mem::forget\(limit_stack_depth\(depth_limit\)\);")
    # StackOverflowError maps to ErrorKind::StackOverflow
    extract.find(STACK, r"impl From<StackOverflowError> for Error \{\s*fn from\(_: StackOverflowError\) -> Self \{\s*ErrorKind::StackOverflow\.into\(\)")
    # both frame wrappers take the guard first and hold it over the body
    text = extract.src(LIB)
    n = len(re.findall(r"\) -> Result<T> \{\s*let _guard = check_depth\(\)\?;\s*f\(\)\.with_description", text))
    if n != 2:
        raise ExtractError(f"{LIB}: expected in_frame and in_description_frame to start with `let _guard = check_depth()?;` (found {n})")
    # every other use of check_depth would be a frame the model does not know
    uses = 0
    import os
    for dp, dn, fn in os.walk(os.path.join(extract.REPO, "crates")):
        if os.sep + "target" in dp:
            continue
        for f in fn:
            if f.endswith(".rs"):
                t = open(os.path.join(dp, f), encoding="utf-8", errors="replace").read()
                uses += len(re.findall(r"\bcheck_depth\(\)", t))
    if uses != 3:  # definition + two wrappers
        raise ExtractError(f"crates/: check_depth() occurs {uses} times, expected 3 (definition, in_frame, in_description_frame)")
    m, w = extract.find("crates/jrsonnet-cli/src/lib.rs", r"default_value = \"(\d+)\"\)\]\s*max_stack: usize,")
    emit("CLI_DEFAULT_MAX_STACK", extract.rust_int(m.group(1)), w, m.group(0))


@extract.extra_const
def kernel_consts(emit):
    m, w = extract.find(MANIFEST, r"pub fn debug\(\) -> Self \{.*?debug_truncate_strings: Some\((\d+)\),", re.S)
    emit("DEBUG_TRUNCATE_STRINGS", extract.rust_int(m.group(1)), w, f"debug_truncate_strings: Some({m.group(1)})")
    # truncation shape (repaired code): both cuts at truncate / 2 and moved to a char boundary
    extract.find(MANIFEST, r"if flat\.len\(\) > truncate \{(?:\s*//[^\n]*)*\s*let mut head = truncate / 2;\s*while !flat\.is_char_boundary\(head\) \{\s*head -= 1;\s*\}\s*let mut tail = flat\.len\(\) - truncate / 2;\s*while !flat\.is_char_boundary\(tail\) \{\s*tail \+= 1;\s*\}\s*let \(start, end\) = \(&flat\[\.\.head\], &flat\[tail\.\.\]\);\s*escape_string_json_buf\(&format!\(\"\{start\}\.\.\{end\}\"\), buf\);")
    # prepare_call arity arithmetic (repaired code)
    extract.find(PREPARED, r"if unnamed > params\.len\(\) \{\s*bail!\(TooManyArgsFunctionHas")
    extract.find(PREPARED, r"let expected_defaults = params\.len\(\)\.saturating_sub\(unnamed \+ named\.len\(\)\);")
    extract.find(PREPARED, r"if named\.len\(\) \+ unnamed < params\.len\(\) \{")
    extract.find(PREPARED, r"if defaults != expected_defaults \{")
    # clamp (repaired code)
    extract.find(MATH, r"pub fn builtin_clamp\(x: f64, minVal: f64, maxVal: f64\) -> f64 \{(?:\s*//[^\n]*)*\s*if x < minVal \{\s*minVal\s*\} else if x > maxVal \{\s*maxVal\s*\} else \{\s*x\s*\}\s*\}")
