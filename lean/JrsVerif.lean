import JrsVerif.Generated.Consts
import JrsVerif.Model.Arr
import JrsVerif.Proofs.Arr
import JrsVerif.Props.C08
