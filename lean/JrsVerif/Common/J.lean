/- JSON helpers for the driver (core `Lean.Data.Json` only). -/
import Lean.Data.Json

namespace JrsVerif.J
open Lean

def str? (j : Json) (k : String) : Option String := (j.getObjValAs? String k).toOption
def int? (j : Json) (k : String) : Option Int := (j.getObjValAs? Int k).toOption
def nat? (j : Json) (k : String) : Option Nat := (j.getObjValAs? Nat k).toOption
def bool? (j : Json) (k : String) : Option Bool := (j.getObjValAs? Bool k).toOption
def val? (j : Json) (k : String) : Option Json := (j.getObjVal? k).toOption
def arr? (j : Json) (k : String) : Option (Array Json) :=
  match j.getObjVal? k with
  | .ok (.arr a) => some a
  | _ => none
def optInt (j : Json) (k : String) : Option Int :=
  match j.getObjVal? k with
  | .ok .null => none
  | .ok v => (v.getInt?).toOption
  | _ => none
def optNat (j : Json) (k : String) : Option Nat :=
  match j.getObjVal? k with
  | .ok .null => none
  | .ok v => (v.getNat?).toOption
  | _ => none
def ints (a : Array Json) : List Int := a.toList.filterMap (fun x => x.getInt?.toOption)
def nats (a : Array Json) : List Nat := a.toList.filterMap (fun x => x.getNat?.toOption)
def strs (a : Array Json) : List String := a.toList.filterMap (fun x => x.getStr?.toOption)
def ofInts (l : List Int) : Json := .arr (l.map (fun (i : Int) => (toJson i))).toArray
def ofNats (l : List Nat) : Json := .arr (l.map (fun (i : Nat) => (toJson i))).toArray
def ofStrs (l : List String) : Json := .arr (l.map Json.str).toArray
def obj (kvs : List (String × Json)) : Json := Json.mkObj kvs
def bad (msg : String) : Json := obj [("bad", .str msg)]

end JrsVerif.J
