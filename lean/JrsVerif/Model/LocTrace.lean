/- C17 — `CompactFormat::write_trace` over a trace whose frames live in DIFFERENT files.

   `Model` side mirrors `crates/jrsonnet-evaluator/src/trace/mod.rs: CompactFormat::write_trace`
   (the part after the message line): for every trace element, in order,
     * no location            → `None`
     * `Some(Span(src, a, b))` → `path ++ ":" ++ print_code_location(locs[0], locs[1]) ++ ":"` where
                                 `locs = src.map_source_locations(&[a, b])` is computed from the text of
                                 the frame's OWN source,
   then `align` = the maximal `String::len` (bytes) of the names, then one line per element:
   `{:<padding$}{name:<align$} {desc}` or `{:<padding$}{desc}`.

   A frame is given as (path as printed, text of its file, span, description): the list of frames
   of one trace may mention any number of different files. -/
import JrsVerif.Model.Loc

namespace JrsVerif.Loc

/-- one stack-trace element with a location: `StackTraceElement { location: Some(Span(src, a, b)), desc }` -/
structure Frame where
  /-- the resolved path `write_trace` prints (`resolver.resolve(path)` or the virtual name) -/
  path : String
  /-- `src.code()` : the text of the file this frame's span points into -/
  text : List Char
  a : Nat
  b : Nat
deriving DecidableEq, Repr

/-- `print_code_location(&l[0], &l[1])` for `l = src.map_source_locations(&[a, b])` -/
def frameLoc (text : List Char) (a b : Nat) : Printed :=
  printCodeLocation (locFn text [a, b] 0) (locFn text [a, b] 1)

/-- the closure of `.map(|location| …)` : `resolved_path` after the three `write!`s -/
def frameName (f : Frame) : String := f.path ++ ":" ++ (frameLoc f.text f.a f.b).render ++ ":"

/-- `file_names` -/
def fileNames (fs : List (Option Frame × String)) : List (Option String) :=
  fs.map (fun p => p.1.map frameName)

/-- the positions only (what the property speaks about) -/
def framePositions (fs : List (Option Frame × String)) : List (Option Printed) :=
  fs.map (fun p => p.1.map (fun f => frameLoc f.text f.a f.b))

/-- `.iter().flatten().map(String::len).max().unwrap_or(0)` (`String::len` counts bytes) -/
def alignOf : List (Option String) → Nat
  | [] => 0
  | none :: r => alignOf r
  | some s :: r => max s.utf8ByteSize (alignOf r)

def spaces (n : Nat) : String := String.ofList (List.replicate n ' ')

/-- `{s:<w$}` : pad on the right to `w` characters -/
def padRight (s : String) (w : Nat) : String := s ++ spaces (w - s.length)

/-- one line below the message -/
def traceLine (padding align : Nat) (name : Option String) (desc : String) : String :=
  match name with
  | some file => spaces padding ++ padRight file align ++ " " ++ desc
  | none => spaces padding ++ desc

/-- the lines `write_trace` writes for an error that is not an `ImportSyntaxError`:
    message, then one line per trace element -/
def writeTrace (padding : Nat) (msg : String) (fs : List (Option Frame × String)) : List String :=
  let names := fileNames fs
  let align := alignOf names
  msg :: (fs.zip names).map (fun p => traceLine padding align p.2 p.1.2)

/-! ### the `ImportSyntaxError` branch -/

/-- `offset`, clamped to the last byte at end of input, mapped alone, `column += 1` at end of
    input, printed with `print_code_location(&l, &l)` -/
def syntaxErrorLoc (text : List Char) (offset : Nat) : Printed :=
  let len := byteLen text
  let isEof := decide (offset ≥ len)
  let off := if isEof then len - 1 else offset
  let l := locFn text [off] 0
  let l := if isEof then { l with column := l.column + 1 } else l
  printCodeLocation l l

/-! ### JsFormat -/

/-- `JsFormat` prints `start_end[0].line : start_end[0].column.saturating_sub(1)` (the record's
    column is one more than the 1-based column) -/
def jsFrameLoc (text : List Char) (a b : Nat) : Nat × Nat :=
  ((locFn text [a, b] 0).line, (locFn text [a, b] 0).column - 1)

end JrsVerif.Loc
