/- C06 — the IR parser never sees trivia: `Parser::new` (crates/jrsonnet-ir-parser/src/lib.rs) collects
   `Lexer::new(code).filter(|l| !matches!(l.kind, WHITESPACE | …))`, and every later step reads only that
   vector.  `irTriviaKinds` is the EXTRACTED kind list of that `matches!`.  Import-free apart from
   Generated.Prec and Model.Pratt. -/
import JrsVerif.Generated.Prec
import JrsVerif.Model.Pratt

namespace JrsVerif.Trivia
open JrsVerif.Generated

/-- a lexeme as the parser sees it: kind name and text -/
structure Lexeme where
  kind : String
  text : String
  deriving DecidableEq, Repr

def isTrivia (l : Lexeme) : Bool := irTriviaKinds.contains l.kind

/-- the `.filter(..).collect()` of `Parser::new` -/
def strip (ls : List Lexeme) : List Lexeme := ls.filter (fun l => !isTrivia l)

/-- the IR parser as a function of the full lexeme stream: any parser `f` over the collected vector -/
def irParse {α : Type} (f : List Lexeme → α) (ls : List Lexeme) : α := f (strip ls)

/-- `ls'` arises from `ls` by inserting trivia lexemes at arbitrary positions -/
inductive Ext : List Lexeme → List Lexeme → Prop
  | nil : Ext [] []
  | keep (l : Lexeme) {a b : List Lexeme} : Ext a b → Ext (l :: a) (l :: b)
  | ins (t : Lexeme) {a b : List Lexeme} : isTrivia t = true → Ext a b → Ext a (t :: b)

/-- the expression-fragment Pratt parser run on a lexeme stream -/
def parseLexemes (T : JrsVerif.Pratt.Table) (tok : Lexeme → JrsVerif.Pratt.Tok) (ls : List Lexeme) :
    Option JrsVerif.Pratt.Ast :=
  irParse (fun v => JrsVerif.Pratt.parse T (v.map tok)) ls

end JrsVerif.Trivia
