/-
  C10 — stdlib array / set / higher-order functions.

  Part 1 (generic, polymorphic): the *algorithms* of the native implementations
  (`crates/jrsonnet-stdlib/src/{sort,sets,arrays}.rs`) over an arbitrary element type, with a
  partial key function and a partial comparison (`none` = the jsonnet evaluation raised an error),
  next to their reference definitions on plain lists.  The theorems of Props/C10.lean are about
  these.

  Part 2 (concrete): jsonnet values `V`, `std.equals`/`<` on them, the named function pool, and the
  `std.<fn>` entry points (`Spec.*` = documented definition, `Model.*` = native structure) that the
  driver runs against the real implementation.

  Import-free (core Lean only) so that the driver links.
-/
namespace JrsVerif.StdArr

/-! ## Part 1 — generic algorithms -/

section Generic
variable {α κ : Type}

/-! ### sorting — `slice::sort_by` / `sort_unstable_by` as used by `sort_identity` / `sort_keyf`

For slices of at most 20 elements (all arrays the harness produces) both std sorts are exactly
`insertion_sort_shift_left(v, 1, is_less)`: element `i` is moved left while it is less than its
left neighbour.  `acc` below is the already sorted prefix *reversed* (its head is the right-most
element).  A failing comparison is latched by the Rust closure and turns the whole call into an
error; aborting at the first failure is observationally the same. -/

def insR (lt : α → α → Option Bool) (x : α) : List α → Option (List α)
  | [] => some [x]
  | y :: r =>
    match lt x y with
    | none => none
    | some true => (insR lt x r).map (y :: ·)
    | some false => some (x :: y :: r)

def sortGo (lt : α → α → Option Bool) : List α → List α → Option (List α)
  | acc, [] => some acc.reverse
  | acc, x :: xs =>
    match insR lt x acc with
    | none => none
    | some acc' => sortGo lt acc' xs

/-- the std sort on a short slice with comparison `lt` -/
def sortR (lt : α → α → Option Bool) (xs : List α) : Option (List α) := sortGo lt [] xs

/-- `is_less` derived from a three-way comparison of keys attached to the elements -/
def ltOfCmp (cmp : κ → κ → Option Ordering) (a b : α × κ) : Option Bool :=
  (cmp a.2 b.2).map (· == .lt)

/-- attach keys (`vk.push((value, keyf.eval(value)?))`) -/
def withKeys (key : α → Option κ) : List α → Option (List (α × κ))
  | [] => some []
  | x :: xs =>
    match key x with
    | none => none
    | some k => (withKeys key xs).map ((x, k) :: ·)

/-- `sort_keyf` without the type dispatch: key every element, stable-sort the pairs by key, drop the
    keys -/
def sortByKeyM (key : α → Option κ) (cmp : κ → κ → Option Ordering) (xs : List α) : Option (List α) :=
  match withKeys key xs with
  | none => none
  | some vk => (sortR (ltOfCmp cmp) vk).map (·.map Prod.fst)

/-- reference: core Lean's verified stable merge sort by a total key order -/
def sortSpec (k : α → κ) (ord : κ → κ → Ordering) (xs : List α) : List α :=
  xs.mergeSort (fun a b => (ord (k a) (k b)).isLE)

/-! ### `uniq_keyf` : keep an element iff its key differs from the key of its predecessor -/

def uniqGo (key : α → Option κ) (eq : κ → κ → Bool) : κ → List α → Option (List α)
  | _, [] => some []
  | last, x :: xs =>
    match key x with
    | none => none
    | some k =>
      match uniqGo key eq k xs with
      | none => none
      | some r => some (if eq last k then r else x :: r)

def uniqM (key : α → Option κ) (eq : κ → κ → Bool) : List α → Option (List α)
  | [] => some []
  | x :: xs =>
    match key x with
    | none => none
    | some k => (uniqGo key eq k xs).map (x :: ·)

/-! ### two-pointer merges of `sets.rs`

Each side is a position in its array (`MergeSide`).  The key of the current element is evaluated
when it is first compared, i.e. only while BOTH sides still have an element (`compare_heads`); what
is left of one side when the other runs out is appended (`rest()`: union, diff) or dropped (inter,
diff) without calling the key function — as `acc + a[i:]` / `acc + b[j:]` in the documented
definitions.  (A key is computed once per element; for a pure key function that is not
observable, so the model simply calls `key` at each comparison.) -/

def unionM (key : α → Option κ) (cmp : κ → κ → Option Ordering) : List α → List α → Option (List α)
  | [], bs => some bs
  | x :: as, [] => some (x :: as)
  | x :: as, y :: bs =>
    match key x, key y with
    | some kx, some ky =>
      match cmp kx ky with
      | none => none
      | some .lt => (unionM key cmp as (y :: bs)).map (x :: ·)
      | some .gt => (unionM key cmp (x :: as) bs).map (y :: ·)
      | some .eq => (unionM key cmp as bs).map (x :: ·)      -- values in `a` win
    | _, _ => none
termination_by a b => a.length + b.length

def interM (key : α → Option κ) (cmp : κ → κ → Option Ordering) : List α → List α → Option (List α)
  | [], _ => some []
  | _ :: _, [] => some []
  | x :: as, y :: bs =>
    match key x, key y with
    | some kx, some ky =>
      match cmp kx ky with
      | none => none
      | some .lt => interM key cmp as (y :: bs)
      | some .gt => interM key cmp (x :: as) bs
      | some .eq => (interM key cmp as bs).map (x :: ·)
    | _, _ => none
termination_by a b => a.length + b.length

def diffM (key : α → Option κ) (cmp : κ → κ → Option Ordering) : List α → List α → Option (List α)
  | [], _ => some []
  | x :: as, [] => some (x :: as)
  | x :: as, y :: bs =>
    match key x, key y with
    | some kx, some ky =>
      match cmp kx ky with
      | none => none
      | some .lt => (diffM key cmp as (y :: bs)).map (x :: ·)
      | some .gt => diffM key cmp (x :: as) bs
      | some .eq => diffM key cmp as bs
    | _, _ => none
termination_by a b => a.length + b.length

/-- key equivalence under a total order -/
def keq (k : α → κ) (ord : κ → κ → Ordering) (x y : α) : Bool := ord (k x) (k y) == .eq

/-- reference definitions by membership (inputs are sets: strictly sorted by key) -/
def interSpec (k : α → κ) (ord : κ → κ → Ordering) (a b : List α) : List α :=
  a.filter (fun x => b.any (keq k ord x))
def diffSpec (k : α → κ) (ord : κ → κ → Ordering) (a b : List α) : List α :=
  a.filter (fun x => !b.any (keq k ord x))
/-- union = everything of `a`, plus what `b` has and `a` has not, in key order -/
def unionSpec (k : α → κ) (ord : κ → κ → Ordering) (a b : List α) : List α :=
  sortSpec k ord (a ++ diffSpec k ord b a)

/-- `builtin_set_member` : binary search on `arr.get_lazy(middle)`; `fuel` ≥ length -/
def bsearch (key : α → Option κ) (cmp : κ → κ → Option Ordering) (arr : Array α) (x : κ) :
    Nat → Nat → Nat → Option Bool
  | 0, _, _ => some false
  | fuel + 1, low, high =>
    if low < high then
      let middle := (low + high) / 2
      match arr[middle]? with
      | none => none                                   -- expect("in bounds")
      | some e =>
        match key e with
        | none => none
        | some c =>
          match cmp c x with
          | none => none
          | some .lt => bsearch key cmp arr x fuel (middle + 1) high
          | some .eq => some true
          | some .gt => bsearch key cmp arr x fuel low middle
    else some false

def setMemberM (key : α → Option κ) (cmp : κ → κ → Option Ordering) (x : α) (arr : List α) :
    Option Bool :=
  if arr.isEmpty then some false          -- `if high == 0 { return Ok(false) }`: `x` is not looked at
  else
    match key x with
    | none => none
    | some kx => bsearch key cmp arr.toArray kx (arr.length + 1) 0 arr.length

def setMemberSpec (k : α → κ) (ord : κ → κ → Ordering) (x : α) (arr : List α) : Bool :=
  arr.any (fun y => keq k ord y x)

/-! ### slices, removeAt, remove -/

/-- every `st`-th element, starting after skipping `n` -/
def everyNth (st : Nat) : Nat → List α → List α
  | _, [] => []
  | 0, x :: r => x :: everyNth st (st - 1) r
  | n + 1, _ :: r => everyNth st n r

/-- Python / Jsonnet index normalisation: negative counts from the end, everything clamps -/
def normIdx (p : Option Int) (n : Nat) (d : Nat) : Nat :=
  match p with
  | none => d
  | some v => if v < 0 then ((n : Int) + v).toNat else min v.toNat n

/-- `xs[s:e:step]` (this is what `ArrValue::slice` computes — property C08) -/
def sliceL (xs : List α) (s e : Option Int) (step : Nat) : List α :=
  let n := xs.length
  everyNth step 0 ((xs.take (normIdx e n n)).drop (normIdx s n 0))

/-- `ArrValue::extended(a, b)` on contents -/
def extended (a b : List α) : List α := a ++ b

/-- `builtin_remove_at` as coded (after the two `fix:` commits): a negative index returns the array
    unchanged; otherwise `arr[:at] ++ arr[at+1:]`, where `at + 1` is computed in `i32`
    (`checked_add`; on overflow the right part is empty). -/
def removeAtM (arr : List α) (at_ : Int) : List α :=
  if at_ < 0 then arr
  else
    let left := sliceL arr none (some at_) 1
    let right := if at_ + 1 < 2 ^ 31 then sliceL arr (some (at_ + 1)) none 1 else []
    extended left right

/-- the defective original: no guard, both parts always slices -/
def removeAtOrig (arr : List α) (at_ : Int) : List α :=
  extended (sliceL arr none (some at_) 1) (sliceL arr (some (at_ + 1)) none 1)

/-- reference: `[arr[j] for j in 0..len-1 if j != at]` -/
def removeAtSpecGo (at_ : Int) : Nat → List α → List α
  | _, [] => []
  | j, x :: r => if (j : Int) = at_ then removeAtSpecGo at_ (j + 1) r else x :: removeAtSpecGo at_ (j + 1) r

def removeAtSpec (arr : List α) (at_ : Int) : List α := removeAtSpecGo at_ 0 arr

/-- index of the first element satisfying `p` (`arr.iter().enumerate()` loop of `builtin_remove`) -/
def findIdxGo (p : α → Bool) : Nat → List α → Option Nat
  | _, [] => none
  | j, x :: r => if p x then some j else findIdxGo p (j + 1) r

def removeM (p : α → Bool) (arr : List α) : List α :=
  match findIdxGo p 0 arr with
  | some i => removeAtM arr (i : Int)      -- `index as i32`
  | none => arr

/-- reference: drop the first element equal to `elem` -/
def removeSpec (p : α → Bool) : List α → List α
  | [] => []
  | x :: r => if p x then r else x :: removeSpec p r

/-! ### flattenArrays : balanced `flatten_inner` -/

def flattenInner : Nat → List (List α) → List α
  | 0, _ => []                                    -- unreachable with fuel ≥ length
  | fuel + 1, vs =>
    match vs with
    | [a] => a
    | [a, b] => extended a b
    | _ =>
      let h := vs.length / 2
      extended (flattenInner fuel (vs.take h)) (flattenInner fuel (vs.drop h))

def flattenM (arrs : List (List α)) : List α :=
  match arrs with
  | [] => []
  | [a] => a
  | _ => flattenInner arrs.length arrs

def flattenSpec (arrs : List (List α)) : List α := arrs.foldl (· ++ ·) []

/-! ### join : items are `some piece` or `none` (null, skipped); separators only between kept items -/

/-- the native loop with its `first` flag; `out` accumulates -/
def joinGo (sep : List α) : Bool → List α → List (Option (List α)) → List α
  | _, out, [] => out
  | first, out, none :: r => joinGo sep first out r
  | first, out, some p :: r =>
    joinGo sep false ((if first then out else out ++ sep) ++ p) r

def joinM (sep : List α) (items : List (Option (List α))) : List α := joinGo sep true [] items

/-- reference: intercalate the non-null items -/
def intercalate (sep : List α) : List (List α) → List α
  | [] => []
  | [p] => p
  | p :: q :: r => p ++ sep ++ intercalate sep (q :: r)

def joinSpec (sep : List α) (items : List (Option (List α))) : List α :=
  intercalate sep (items.filterMap id)

end Generic

/-! ## Part 2 — jsonnet values -/

/-- values the harness uses: numbers are small integers; objects are `{}` or `{a: v}` -/
inductive V where
  | null
  | bool (b : Bool)
  | num (n : Int)
  | str (s : String)
  | arr (xs : List V)
  | objE
  | objA (v : V)
  deriving Repr, Inhabited

mutual
/-- `std.equals` (total on these values) -/
def eqV : V → V → Bool
  | .null, .null => true
  | .bool a, .bool b => a == b
  | .num a, .num b => a == b
  | .str a, .str b => a == b
  | .arr a, .arr b => eqVs a b
  | .objE, .objE => true
  | .objA a, .objA b => eqV a b
  | _, _ => false
def eqVs : List V → List V → Bool
  | [], [] => true
  | a :: as, b :: bs => eqV a b && eqVs as bs
  | _, _ => false
end

mutual
/-- `evaluate_compare_op` : strings, numbers, arrays (lexicographic, lazily); anything else fails -/
def cmpV : V → V → Option Ordering
  | .str a, .str b => some (compare a b)
  | .num a, .num b => some (compare a b)
  | .arr a, .arr b => cmpVs a b
  | _, _ => none
def cmpVs : List V → List V → Option Ordering
  | [], [] => some .eq
  | [], _ :: _ => some .lt
  | _ :: _, [] => some .gt
  | a :: as, b :: bs =>
    match cmpV a b with
    | none => none
    | some .eq => cmpVs as bs
    | some o => some o
end

/-- `r` is a successful result equal (as jsonnet values) to `want` -/
def okIs (r : Option (List V)) (want : List V) : Bool :=
  match r with | some xs => eqVs xs want | none => false

def typeName : V → String
  | .null => "null" | .bool _ => "boolean" | .num _ => "number" | .str _ => "string"
  | .arr _ => "array" | .objE => "object" | .objA _ => "object"

def chars (s : String) : List V := s.toList.map (fun c => V.str (String.singleton c))

/-- named pool of unary functions (jsonnet text on the Rust side: `harness/src/engines/c10.rs`) -/
def fn1 (name : String) (x : V) : Option V :=
  match name with
  | "id" => some x                                             -- function(x) x
  | "idw" => some x                                            -- function(x) [x][0]
  | "neg" => match x with | .num n => some (.num (-n)) | _ => none
  | "const0" => some (.num 0)
  | "mod2" => match x with | .num n => some (.num (n.tmod 2)) | _ => none
  | "len" => match x with
      | .str s => some (.num s.length) | .arr a => some (.num a.length)
      | .objE => some (.num 0) | .objA _ => some (.num 1) | _ => none
  | "fieldA" => match x with | .objA v => some v | _ => none
  | "failOnStr" => match x with | .str _ => none | _ => some x
  | "type" => some (.str (typeName x))
  | "wrap" => some (.arr [x])
  | "isNum" => some (.bool (match x with | .num _ => true | _ => false))
  | "pos" => match x with | .num n => some (.bool (n > 0)) | _ => none
  | "eq1" => some (.bool (eqV x (.num 1)))
  | "true" => some (.bool true)
  | "inc" => match x with
      | .num n => some (.num (n + 1)) | .str s => some (.str (s ++ "1")) | _ => none
  | "dup" => some (.arr [x, x])
  | "numOrNull" => match x with | .num _ => some (.arr [x]) | _ => some .null
  | "cc" => match x with
      | .num n => some (.num (n + n)) | .str s => some (.str (s ++ s))
      | .arr a => some (.arr (a ++ a)) | .objE => some .objE | .objA v => some (.objA v)
      | _ => none
  | "skipA" => if eqV x (.str "a") then some .null else some x
  | "twice" => match x with | .num n => some (.num (n * 2)) | _ => none
  | "lit" => some (.str "k")
  | "arr1" => some (.arr [.num 1])                             -- function(x) [1]
  | _ => none

def showInt (n : Int) : String := toString n

/-- named pool of binary functions, arguments in call order -/
def fn2 (name : String) (a b : V) : Option V :=
  match name with
  | "pair" => some (.arr [a, b])                               -- function(a,b) [a,b]
  | "snoc" => match a with | .arr xs => some (.arr (xs ++ [b])) | _ => none   -- function(a,x) a+[x]
  | "cons" => match b with | .arr xs => some (.arr (a :: xs)) | _ => none     -- function(x,a) [x]+a
  | "add" => match a, b with                                   -- function(a,b) a+b
      | .num x, .num y => some (.num (x + y))
      | .str x, .str y => some (.str (x ++ y))
      | .str x, .num y => some (.str (x ++ showInt y))
      | .num x, .str y => some (.str (showInt x ++ y))
      | .arr x, .arr y => some (.arr (x ++ y))
      | _, _ => none
  | "fst" => some a
  | "snd" => some b                                            -- function(a,b) b
  | "inc1" => match a with | .num n => some (.num (n + 1)) | _ => none      -- function(a,b) a+1 (numbers)
  | "inc2" => match b with | .num n => some (.num (n + 1)) | _ => none      -- function(a,b) b+1 (numbers)
  | "const7" => some (.num 7)                                  -- function(a,b) 7
  | _ => none

/-- key function argument: `none` = omitted or literally `function(x) x` (`KeyF::Identity`) -/
def keyFn (f : Option String) : V → Option V :=
  match f with
  | none => some
  | some n => fn1 n

def isIdentity (f : Option String) : Bool := f == none || f == some "id"

/-! ### Model side: native structure on `V` -/
namespace Model

inductive SortType | number | string | unspec | unknown
  deriving DecidableEq, Repr

/-- `get_sort_type`: `none` = "sort elements should have the same types" -/
def sortTypeGo : SortType → List V → Option SortType
  | t, [] => some t
  | t, k :: r =>
    match k, t with
    | .str _, .unknown => sortTypeGo .string r
    | .num _, .unknown => sortTypeGo .number r
    | .str _, .string => sortTypeGo t r
    | .num _, .number => sortTypeGo t r
    | .str _, _ => none
    | .num _, _ => none
    | _, _ => some .unspec

def numKey : V → Int | .num n => n | _ => 0
def strKey : V → String | .str s => s | _ => ""

/-- the comparison each path of `sort_identity`/`sort_keyf` uses, on the keys -/
def pathCmp : SortType → V → V → Option Ordering
  | .number => fun a b => some (compare (numKey a) (numKey b))
  | .string => fun a b => some (compare (strKey a) (strKey b))
  | _ => cmpV

/-- `sort_keyf` / `sort_identity` (identity = key is the value itself) -/
def sortCore (key : V → Option V) (xs : List V) : Option (List V) :=
  match withKeys key xs with
  | none => none
  | some vk =>
    match sortTypeGo .unknown (vk.map Prod.snd) with
    | none => none
    | some t => (sortR (ltOfCmp (pathCmp t)) vk).map (·.map Prod.fst)

/-- `sort::sort` -/
def sort (xs : List V) (f : Option String) : Option (List V) :=
  if xs.length ≤ 1 then some xs else sortCore (keyFn f) xs

/-- `builtin_uniq` -/
def uniq (xs : List V) (f : Option String) : Option (List V) :=
  if xs.length ≤ 1 then some xs else uniqM (keyFn f) eqV xs

/-- `builtin_set` -/
def set (xs : List V) (f : Option String) : Option (List V) :=
  if xs.length ≤ 1 then some xs
  else match sortCore (keyFn f) xs with
    | none => none
    | some s => uniqM (keyFn f) eqV s

def setUnion (a b : List V) (f : Option String) := unionM (keyFn f) cmpV a b
def setInter (a b : List V) (f : Option String) := interM (keyFn f) cmpV a b
def setDiff (a b : List V) (f : Option String) := diffM (keyFn f) cmpV a b
def setMember (x : V) (arr : List V) (f : Option String) := setMemberM (keyFn f) cmpV x arr

/-- `array_top1` -/
def top1Go (key : V → Option V) (want : Ordering) : V → V → List V → Option V
  | m, _, [] => some m
  | m, mk, c :: r =>
    match key c with
    | none => none
    | some ck =>
      match cmpV ck mk with
      | none => none
      | some o => if o == want then top1Go key want c ck r else top1Go key want m mk r

def top1 (xs : List V) (f : Option String) (want : Ordering) : Option V :=
  match xs with
  | [] => none                                        -- "expected non-empty array"
  | m :: r => match keyFn f m with
    | none => none
    | some mk => top1Go (keyFn f) want m mk r

end Model

/-! ### Spec side: documented definitions on `V` -/
namespace Spec

def allSome {β : Type} (l : List (Option β)) : Option (List β) := l.mapM id

/-- totalised key for use after all keys have been checked to evaluate -/
def keyD (key : V → Option V) (x : V) : V := (key x).getD .null
def ordD (a b : V) : Ordering := (cmpV a b).getD .eq

/-- all pairs of keys comparable -/
def comparable (ks : List V) : Bool := ks.all (fun a => ks.all (fun b => (cmpV a b).isSome))

/-- std.sort: arrays of length ≤ 1 are returned as they are; otherwise every key must evaluate and
    all keys must be mutually comparable; result = stable sort by key -/
def sort (xs : List V) (f : Option String) : Option (List V) :=
  if xs.length ≤ 1 then some xs
  else match allSome (xs.map (keyFn f)) with
    | none => none
    | some ks => if comparable ks then some (sortSpec (keyD (keyFn f)) ordD xs) else none

/-- std.uniq: drop an element whose key equals the key of its predecessor -/
def uniqGo (k : V → V) : V → List V → List V
  | _, [] => []
  | prev, x :: r => if eqV (k prev) (k x) then uniqGo k x r else x :: uniqGo k x r

def uniq (xs : List V) (f : Option String) : Option (List V) :=
  if xs.length ≤ 1 then some xs
  else match allSome (xs.map (keyFn f)) with
    | none => none
    | some _ => match xs with
      | [] => some []
      | x :: r => some (x :: uniqGo (keyD (keyFn f)) x r)

/-- std.set = uniq ∘ sort -/
def set (xs : List V) (f : Option String) : Option (List V) :=
  match sort xs f with
  | none => none
  | some s => uniq s f

/-- the set functions on *sets* whose keys all evaluate and are mutually comparable -/
def setOp (op : (V → V) → (V → V → Ordering) → List V → List V → List V)
    (a b : List V) (f : Option String) : Option (List V) :=
  match allSome ((a ++ b).map (keyFn f)) with
  | none => none
  | some ks => if comparable ks then some (op (keyD (keyFn f)) ordD a b) else none

def setUnion := setOp unionSpec
def setInter := setOp interSpec
def setDiff := setOp diffSpec

def setMember (x : V) (arr : List V) (f : Option String) : Option Bool :=
  match allSome ((x :: arr).map (keyFn f)) with
  | none => none
  | some ks => if comparable ks then some (setMemberSpec (keyD (keyFn f)) ordD x arr) else none

/-- is `xs` a set under `f` (strictly increasing keys)? -/
def isSet (xs : List V) (f : Option String) : Bool :=
  match allSome (xs.map (keyFn f)) with
  | none => false
  | some ks => comparable ks &&
      (ks.zip (ks.drop 1)).all (fun p => ordD p.1 p.2 == .lt)

/-- minArray / maxArray: first element whose key is minimal / maximal -/
def top1 (xs : List V) (f : Option String) (want : Ordering) : Option V :=
  match xs with
  | [] => none
  | m :: r =>
    match allSome (xs.map (keyFn f)) with
    | none => none
    | some ks =>
      if xs.length ≥ 2 && !comparable ks then none
      else
        let k := keyD (keyFn f)
        some (r.foldl (fun best c => if ordD (k c) (k best) == want then c else best) m)

def member (arr : List V) (x : V) : Bool := arr.any (fun y => eqV y x)
def find (x : V) (arr : List V) : List Nat :=
  (List.range arr.length).filter (fun i => match arr[i]? with | some y => eqV y x | none => false)
def count (arr : List V) (x : V) : Nat := (arr.filter (fun y => eqV y x)).length

/-- substring test for std.member on strings -/
def isInfix (pat s : List Char) : Bool :=
  (List.range (s.length + 1)).any (fun i => (s.drop i).take pat.length == pat)

def flattenDeep : V → List V
  | .arr xs => flattenDeepL xs
  | v => [v]
where flattenDeepL : List V → List V
  | [] => []
  | x :: r => flattenDeep x ++ flattenDeepL r

def mapM' (f : V → Option V) (xs : List V) : Option (List V) := xs.mapM f

def mapIdx (f : V → V → Option V) : Nat → List V → Option (List V)
  | _, [] => some []
  | i, x :: r =>
    match f (.num i) x, mapIdx f (i + 1) r with
    | some y, some ys => some (y :: ys)
    | _, _ => none

/-- std.filter: the predicate must return a boolean for every element -/
def filter (p : V → Option V) : List V → Option (List V)
  | [] => some []
  | x :: r =>
    match p x, filter p r with
    | some (.bool true), some ys => some (x :: ys)
    | some (.bool false), some ys => some ys
    | _, _ => none

def foldl (f : V → V → Option V) : V → List V → Option V
  | acc, [] => some acc
  | acc, x :: r => match f acc x with | none => none | some a => foldl f a r

def foldr (f : V → V → Option V) (init : V) : List V → Option V
  | [] => some init
  | x :: r => match foldr f init r with | none => none | some a => f x a

/-- std.flatMap on arrays: results must be arrays or null -/
def flatMapArr (f : V → Option V) : List V → Option (List V)
  | [] => some []
  | x :: r =>
    match f x, flatMapArr f r with
    | some (.arr ys), some zs => some (ys ++ zs)
    | some .null, some zs => some zs
    | _, _ => none

/-- std.flatMap on strings: results must be strings or null -/
def flatMapStr (f : V → Option V) : List V → Option String
  | [] => some ""
  | x :: r =>
    match f x, flatMapStr f r with
    | some (.str ys), some zs => some (ys ++ zs)
    | some .null, some zs => some zs
    | _, _ => none

/-- std.join items: every item a string (resp. array) or null -/
def strItems : List V → Option (List (Option (List Char)))
  | [] => some []
  | .str s :: r => (strItems r).map (some s.toList :: ·)
  | .null :: r => (strItems r).map (none :: ·)
  | _ => none
def arrItems : List V → Option (List (Option (List V)))
  | [] => some []
  | .arr s :: r => (arrItems r).map (some s :: ·)
  | .null :: r => (arrItems r).map (none :: ·)
  | _ => none

def deepJoin : V → Option String
  | .str s => some s
  | .arr xs => deepJoinL xs
  | _ => none
where deepJoinL : List V → Option String
  | [] => some ""
  | x :: r => match deepJoin x, deepJoinL r with
    | some a, some b => some (a ++ b)
    | _, _ => none

/-- std.any / std.all: left to right, stop at the deciding element; a non-boolean met before that is
    an error -/
def anyV : List V → Option Bool
  | [] => some false
  | .bool true :: _ => some true
  | .bool false :: r => anyV r
  | _ => none
def allV : List V → Option Bool
  | [] => some true
  | .bool false :: _ => some false
  | .bool true :: r => allV r
  | _ => none

def nums : List V → Option (List Int)
  | [] => some []
  | .num n :: r => (nums r).map (n :: ·)
  | _ => none

def range (a b : Int) : List V :=
  (List.range (b - a + 1).toNat).map (fun (i : Nat) => V.num (a + i))

def repeatL {β : Type} (xs : List β) : Nat → List β
  | 0 => []
  | n + 1 => xs ++ repeatL xs n

end Spec

end JrsVerif.StdArr
