/-
  C18, collector half, static necessary condition.  The cycle collector only sees what `Trace`
  visits; a `#[trace(skip)]` on a field whose type can own a `Cc` makes every cycle through that
  field unreclaimable.  `Generated.traceSkips` lists every skip in the workspace; this file
  declares which hidden types are harmless and why.  (Necessary, not sufficient: the derive macro
  and jrsonnet-gcmodule itself are outside the model.)
-/
import JrsVerif.Generated.TraceGraph

namespace JrsVerif.TraceGraph
open JrsVerif.Generated

/-- types that cannot own a `Cc`: plain data, `'static` borrows, function pointers, foreign error
    and big-integer types, the parser's `SyntaxError` (strings and offsets) -/
def acyclicLeaf : List String :=
  ["bool", "ObjFieldFlags", "Skip", "Box<SyntaxError>", "std::rc::Rc<anyhow::Error>",
   "fn(D) -> Result<T>", "Box<num_bigint::BigInt>", "&'static dyn StaticBuiltin",
   "type ComplexValType"]

/-- deliberately weak back references (do not keep their target alive, so need no tracing) -/
def weakRef : List String := ["Weak<ObjValueInner>"]

def skipOk (e : String × String × String) : Bool :=
  acyclicLeaf.contains e.2.2 || weakRef.contains e.2.2

def allSkipsOk : Bool := traceSkips.all skipOk

end JrsVerif.TraceGraph
