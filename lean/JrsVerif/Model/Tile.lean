/- C17 — "the lexer's tokens tile the input without gaps or overlaps".

   `tilesB a n ranges` is the executable statement evaluated by the driver on the token ranges the
   real lexer produced: the ranges, in order, start at `a`, each starts where the previous one
   ended, none is reversed, and the last one ends at `n`.  `Proofs/Tile.lean` shows that this is
   exactly what makes the concatenation of the token texts equal to the input (for every input). -/

namespace JrsVerif.Tile

def tilesB (a n : Nat) : List (Nat × Nat) → Bool
  | [] => a == n
  | (s, e) :: rest => s == a && s ≤ e && e ≤ n && tilesB e n rest

/-- the text of a token: elements `[s, e)` of the input -/
def slice {α : Type} (xs : List α) (r : Nat × Nat) : List α := (xs.drop r.1).take (r.2 - r.1)

end JrsVerif.Tile
