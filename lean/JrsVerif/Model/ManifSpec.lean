/- C14 — Spec side: independently written readers of the lexical forms of each target format.

   None of these definitions mentions the escape table or the writers' predicates; they are
   written from the grammars of the formats:
     TOML 1.0    basic-string / unquoted-key            (toml.io/en/v1.0.0, ABNF `basic-char`, `unquoted-key`)
     Python 3    string literal with `"` delimiters       (Lexical analysis §2.4.1; octal and \N{..} are not
                                                           accepted by this reader — it under-approximates)
     YAML        double-quoted flow scalar on one line    (YAML 1.2.2 §5.7, §7.3.1) with the stricter reading
                                                           that 1.1 processors apply: only printable characters
                                                           may appear literally and NEL/LS/PS count as line breaks
     XML 1.0     CharData / AttValue with references      (§2.4, §3.3.3 attribute-value normalisation, §2.11
                                                           end-of-line handling, §4.1 references, §2.2 Char)
     YAML stream document markers                         (YAML 1.2.2 §9.1.2 / PyYAML's scanner: `...` may only
                                                           follow a document)
   A reader returns `none` for text that is not well-formed in that format. -/
import JrsVerif.Model.ManifVal

namespace JrsVerif.ManifSpec
open JrsVerif.ManifVal

/-! ### quoted strings with backslash escapes (TOML basic string, Python literal, YAML double-quoted) -/

structure QCfg where
  /-- characters that may appear literally between the quotes (besides the handling of `"` and `\`) -/
  plainOk : Char → Bool
  /-- single-character escapes: letter after the backslash ↦ character denoted -/
  simple : Char → Option Char
  /-- numeric escapes: letter ↦ number of hexadecimal digits that follow -/
  hex : Char → Option Nat

inductive St
  | plain
  | esc
  | hex (left acc : Nat)
  | done
  deriving DecidableEq, Repr

def hexVal (c : Char) : Option Nat :=
  if 48 ≤ c.toNat ∧ c.toNat ≤ 57 then some (c.toNat - 48)
  else if 97 ≤ c.toNat ∧ c.toNat ≤ 102 then some (c.toNat - 87)
  else if 65 ≤ c.toNat ∧ c.toNat ≤ 70 then some (c.toNat - 55)
  else none

/-- a number denotes a character only if it is a Unicode scalar value -/
def scalar (n : Nat) : Option Char := if n.isValidChar then some (Char.ofNat n) else none

def step (g : QCfg) : St → Char → Option (St × Option Char)
  | .plain, c =>
    if c = '"' then some (.done, none)
    else if c = '\\' then some (.esc, none)
    else if g.plainOk c then some (.plain, some c)
    else none
  | .esc, c =>
    match g.simple c with
    | some d => some (.plain, some d)
    | none =>
      match g.hex c with
      | some n => if n = 0 then none else some (.hex n 0, none)
      | none => none
  | .hex left acc, c =>
    match hexVal c with
    | none => none
    | some v =>
      if left = 1 then
        match scalar (acc * 16 + v) with
        | some d => some (.plain, some d)
        | none => none
      else some (.hex (left - 1) (acc * 16 + v), none)
  | .done, _ => none

def emit (o : Option Char) (r : List Char) : List Char :=
  match o with
  | some d => d :: r
  | none => r

/-- reads to the end of the text; succeeds only if the closing quote is the last character -/
def run (g : QCfg) : St → List Char → Option (List Char)
  | st, [] => if st = .done then some [] else none
  | st, c :: cs =>
    match step g st c with
    | none => none
    | some (st', o) =>
      match run g st' cs with
      | none => none
      | some r => some (emit o r)

def decodeQuoted (g : QCfg) : List Char → Option (List Char)
  | '"' :: rest => run g .plain rest
  | _ => none

/-- TOML 1.0 `basic-unescaped = wschar / %x21 / %x23-5B / %x5D-7E / non-ascii` -/
def tomlCfg : QCfg where
  plainOk c := c.toNat = 0x20 || c.toNat = 0x09 || c.toNat = 0x21 || (0x23 ≤ c.toNat && c.toNat ≤ 0x5B)
    || (0x5D ≤ c.toNat && c.toNat ≤ 0x7E) || 0x80 ≤ c.toNat
  simple c :=
    if c = 'b' then some (Char.ofNat 8) else if c = 't' then some '\t' else if c = 'n' then some '\n'
    else if c = 'f' then some (Char.ofNat 12) else if c = 'r' then some '\r'
    else if c = '"' then some '"' else if c = '\\' then some '\\' else none
  hex c := if c = 'u' then some 4 else if c = 'U' then some 8 else none

def tomlBasic : List Char → Option (List Char) := decodeQuoted tomlCfg

/-- TOML `unquoted-key = 1*( ALPHA / DIGIT / %x2D / %x5F )` -/
def tomlBareChar (c : Char) : Bool :=
  (65 ≤ c.toNat && c.toNat ≤ 90) || (97 ≤ c.toNat && c.toNat ≤ 122) || (48 ≤ c.toNat && c.toNat ≤ 57)
    || c.toNat = 0x2D || c.toNat = 0x5F

/-- a simple key: bare (non-empty) or basic string (literal strings are never written) -/
def tomlKey (t : List Char) : Option (List Char) :=
  match t with
  | [] => none
  | '"' :: _ => tomlBasic t
  | _ => if t.all tomlBareChar then some t else none

/-- Python: a `"`-delimited, non-raw, single-line literal. A physical line break or NUL cannot
    appear in it. -/
def pyCfg : QCfg where
  plainOk c := c != '\n' && c != '\r' && c.toNat != 0
  simple c :=
    if c = '\\' then some '\\' else if c = '\'' then some '\'' else if c = '"' then some '"'
    else if c = 'a' then some (Char.ofNat 7) else if c = 'b' then some (Char.ofNat 8)
    else if c = 'f' then some (Char.ofNat 12) else if c = 'n' then some '\n' else if c = 'r' then some '\r'
    else if c = 't' then some '\t' else if c = 'v' then some (Char.ofNat 11) else none
  hex c := if c = 'x' then some 2 else if c = 'u' then some 4 else if c = 'U' then some 8 else none

def pyLiteral : List Char → Option (List Char) := decodeQuoted pyCfg

/-- YAML `c-printable` without the characters YAML 1.1 treats as line breaks -/
def yamlLiteralOk (c : Char) : Bool :=
  c.toNat = 0x09 || (0x20 ≤ c.toNat && c.toNat ≤ 0x7E) || (0xA0 ≤ c.toNat && c.toNat ≤ 0xD7FF && c.toNat != 0x2028 && c.toNat != 0x2029)
    || (0xE000 ≤ c.toNat && c.toNat ≤ 0xFFFD) || 0x10000 ≤ c.toNat

/-- YAML 1.2.2 §5.7 escape sequences -/
def yamlCfg : QCfg where
  plainOk := yamlLiteralOk
  simple c :=
    if c = '0' then some (Char.ofNat 0) else if c = 'a' then some (Char.ofNat 7) else if c = 'b' then some (Char.ofNat 8)
    else if c = 't' then some '\t' else if c = '\t' then some '\t' else if c = 'n' then some '\n'
    else if c = 'v' then some (Char.ofNat 11) else if c = 'f' then some (Char.ofNat 12) else if c = 'r' then some '\r'
    else if c = 'e' then some (Char.ofNat 0x1B) else if c = ' ' then some ' ' else if c = '"' then some '"'
    else if c = '/' then some '/' else if c = '\\' then some '\\' else if c = 'N' then some (Char.ofNat 0x85)
    else if c = '_' then some (Char.ofNat 0xA0) else if c = 'L' then some (Char.ofNat 0x2028)
    else if c = 'P' then some (Char.ofNat 0x2029) else none
  hex c := if c = 'x' then some 2 else if c = 'u' then some 4 else if c = 'U' then some 8 else none

def yamlDq : List Char → Option (List Char) := decodeQuoted yamlCfg

/-! ### YAML plain scalars: what must not be written without quotes (YAML 1.1 implicit types) -/

/-- characters that are never indicators, white space or comment starts: letters, digits, `-_./` -/
def yamlPlainSafeChar (c : Char) : Bool :=
  (97 ≤ c.toNat && c.toNat ≤ 122) || (65 ≤ c.toNat && c.toNat ≤ 90) || (48 ≤ c.toNat && c.toNat ≤ 57)
    || c.toNat = 0x2D || c.toNat = 0x5F || c.toNat = 0x2E || c.toNat = 0x2F

def asciiLower (c : Char) : Char := if 65 ≤ c.toNat ∧ c.toNat ≤ 90 then Char.ofNat (c.toNat + 32) else c

/-- yaml.org/type/bool.html, null.html, float.html: the words (in any of the listed casings; here:
    compared case-insensitively, which over-approximates) that resolve to bool / null / ±inf / nan -/
def yaml11Words : List (List Char) :=
  ["y", "n", "yes", "no", "true", "false", "on", "off", "null", ".nan", ".inf", "-.inf", "+.inf"].map String.toList

def isYaml11Word (s : List Char) : Bool := yaml11Words.contains (s.map asciiLower)

/-- `[0-9]+`: resolves to an integer -/
def isDigits (s : List Char) : Bool := !s.isEmpty && s.all (fun c => 48 ≤ c.toNat && c.toNat ≤ 57)

/-! ### XML character data and attribute values -/

/-- XML 1.0 §2.2 `Char` -/
def xmlChar (c : Char) : Bool :=
  c.toNat = 0x9 || c.toNat = 0xA || c.toNat = 0xD || (0x20 ≤ c.toNat && c.toNat ≤ 0xD7FF)
    || (0xE000 ≤ c.toNat && c.toNat ≤ 0xFFFD) || 0x10000 ≤ c.toNat

def decVal (c : Char) : Option Nat := if 48 ≤ c.toNat ∧ c.toNat ≤ 57 then some (c.toNat - 48) else none

def readNum (base : Nat) (dig : Char → Option Nat) : List Char → Nat → Option Nat
  | [], acc => some acc
  | c :: cs, acc =>
    match dig c with
    | some v => if v < base then readNum base dig cs (acc * base + v) else none
    | none => none

/-- §4.1 / §4.6: the five predefined entities and character references (to a `Char`) -/
def reference (name : List Char) : Option Char :=
  if name = "lt".toList then some '<' else if name = "gt".toList then some '>'
  else if name = "amp".toList then some '&' else if name = "quot".toList then some '"'
  else if name = "apos".toList then some '\''
  else
    match name with
    | '#' :: 'x' :: d :: ds =>
      match readNum 16 hexVal (d :: ds) 0 with
      | some n => match scalar n with
        | some c => if xmlChar c then some c else none
        | none => none
      | none => none
    | '#' :: d :: ds =>
      match readNum 10 decVal (d :: ds) 0 with
      | some n => match scalar n with
        | some c => if xmlChar c then some c else none
        | none => none
      | none => none
    | _ => none

inductive XSt
  | text
  | afterCr
  | ref (acc : List Char)
  deriving DecidableEq, Repr

/-- `attr = true`: inside a double-quoted attribute value (tab / line feed / CR are normalised to a
    space, `"` would end the value); `attr = false`: character data (CR LF and CR become LF). -/
def xstep (attr : Bool) : XSt → Char → Option (XSt × Option Char)
  | .ref acc, c =>
    if c = ';' then
      match reference acc.reverse with
      | some d => some (.text, some d)
      | none => none
    else if acc.length ≥ 12 then none
    else some (.ref (c :: acc), none)
  | st, c =>
    if c = '<' then none
    else if c = '&' then some (.ref [], none)
    else if attr && c = '"' then none
    else if !xmlChar c then none
    else if c = '\r' then some (.afterCr, some (if attr then ' ' else '\n'))
    else if c = '\n' then
      (if st = .afterCr then some (.text, none) else some (.text, some (if attr then ' ' else '\n')))
    else if attr && c = '\t' then some (.text, some ' ')
    else some (.text, some c)

def xrun (attr : Bool) : XSt → List Char → Option (List Char)
  | st, [] => match st with
    | .ref _ => none
    | _ => some []
  | st, c :: cs =>
    match xstep attr st c with
    | none => none
    | some (st', o) =>
      match xrun attr st' cs with
      | none => none
      | some r => some (emit o r)

def xmlText (t : List Char) : Option (List Char) := xrun false .text t
def xmlAttr (t : List Char) : Option (List Char) := xrun true .text t

/-! ### YAML stream: lines and document markers -/

def lines : List Char → List (List Char)
  | [] => [[]]
  | c :: rest =>
    if c = '\n' then [] :: lines rest
    else match lines rest with
      | [] => [[c]]
      | h :: t => (c :: h) :: t

def isBlank (c : Char) : Bool := c = ' ' || c = '\t'

/-- `---` / `...` at the start of a line followed by white space or the end of the line -/
def isMarker (m : List Char) (l : List Char) : Bool :=
  match l with
  | a :: b :: c :: rest => [a, b, c] == m && (match rest with | [] => true | d :: _ => isBlank d)
  | _ => false

def isStart := isMarker "---".toList
def isEnd := isMarker "...".toList

/-- Splits a stream that uses explicit document starts into the lines of each document.
    `cur = none`: between documents; a `...` there has no document to end (PyYAML: "expected the
    node content, but found '<document end>'"), a non-empty line there would be a bare document,
    which the framing under test never produces — both are reported as `none`. -/
def splitDocs : Option (List (List Char)) → List (List Char) → Option (List (List (List Char)))
  | none, [] => some []
  | some d, [] => some [d.reverse]
  | none, l :: ls =>
    if isStart l then (if l.length = 3 then splitDocs (some []) ls else none)
    else if l.isEmpty then splitDocs none ls
    else none
  | some d, l :: ls =>
    -- the empty "line" after the final line feed of the text is not part of the document
    if l.isEmpty && ls.isEmpty then some [d.reverse]
    else if isStart l then
      (if l.length = 3 then (match splitDocs (some []) ls with | some r => some (d.reverse :: r) | none => none) else none)
    else if isEnd l then
      (match splitDocs none ls with | some r => some (d.reverse :: r) | none => none)
    else splitDocs (some (l :: d)) ls

/-- documents of a stream; the empty "line" after a final line feed belongs to no document -/
def streamDocs (text : List Char) : Option (List (List (List Char))) :=
  splitDocs none (lines text)

/-- a document none of whose lines is a document marker and whose last line is not empty -/
def GoodDoc (d : List Char) : Prop :=
  (∀ l, l ∈ lines d → isStart l = false ∧ isEnd l = false) ∧ (lines d).getLast? ≠ some []

def unlines : List (List Char) → List Char
  | [] => []
  | [l] => l
  | l :: ls => l ++ '\n' :: unlines ls

/-! ### domains -/

mutual
/-- every value that occurs in `v`, `v` included -/
def nodes : V → List V
  | .arr xs => .arr xs :: nodesList xs
  | .obj kvs => .obj kvs :: nodesFields kvs
  | .null => [.null]
  | .bool b => [.bool b]
  | .num t => [.num t]
  | .str s => [.str s]
  | .func => [.func]
def nodesList : List V → List V
  | [] => []
  | x :: xs => nodes x ++ nodesList xs
def nodesFields : List (List Char × V) → List V
  | [] => []
  | kv :: r => nodes kv.2 ++ nodesFields r
end

def hasFunc (v : V) : Bool := (nodes v).any V.isFunc
def hasNull (v : V) : Bool := (nodes v).any V.isNull

-- JsonML (jsonml.org): element = [tag-name, attributes?, element-list] | string
mutual
def isJsonml : V → Bool
  | .str _ => true
  | .arr (.str _ :: .obj _ :: kids) => isJsonmlAll kids
  | .arr (.str _ :: kids) => isJsonmlAll kids
  | _ => false
def isJsonmlAll : List V → Bool
  | [] => true
  | k :: ks => isJsonml k && isJsonmlAll ks
end

def field (k : List Char) : List (List Char × V) → Option V
  | [] => none
  | kv :: r => if kv.1 = k then some kv.2 else field k r

/-- std.manifestIni: `{ main: {k: v | [v..]}?, sections: { name: {k: v | [v..]} } }`, no functions inside -/
def isIni : V → Bool
  | .obj kvs =>
    (match field "main".toList kvs with
     | none => true
     | some (.obj b) => !hasFunc (.obj b)
     | some _ => false) &&
    (match field "sections".toList kvs with
     | some (.obj ss) => ss.all (fun kv => kv.2.isObj && !hasFunc kv.2)
     | _ => false)
  | _ => false

inductive Format | yaml | yamlStream | toml | python | pyvars | xml | ini

/-- the values each format can denote -/
def inDomain : Format → V → Bool
  | .yaml, v => !hasFunc v
  | .python, v => !hasFunc v
  | .yamlStream, v => v.isArr && !hasFunc v
  | .toml, v => v.isObj && !hasFunc v && !hasNull v
  | .pyvars, v => v.isObj && !hasFunc v
  | .xml, v => isJsonml v && !hasFunc v
  | .ini, v => isIni v

end JrsVerif.ManifSpec
