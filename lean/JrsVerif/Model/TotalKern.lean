/-
  C04, round 3: more kernels with the checked machine operations made explicit (`none` = the Rust
  code would panic), each next to the owning property's model of the same code (read-only):

  1. `duplicateName`  — crates/jrsonnet-ir/src/expr.rs::ExprParams::duplicate_name, the check both
     parsers run on a parameter list before `ExprParams::new` (fix 5a79d8f-shaped: duplicate
     parameter names are a syntax error).
  2. `enter`          — the pending markers of `ObjValue::get_idx` (crates/jrsonnet-evaluator/src/
     obj/mod.rs): `run_assertions` first, then `Pending` means self-dependence (round 4; the
     round-3 repair had a second marker `PendingAsserting` and an `is_asserting` escape, the
     original code only the escape).
  3. `shlK`           — the `(Num, Lhs, Num)` arm of `evaluate_binary_op_normal` with its `i64`/`u32`
     operations checked: `63 - exp as u32`, `1i64 << k`, unary `-` (C09's `shlOp` totalises them).
  4. `findSubstrK`    — `builtin_find_substr` with the checked `str.len() - pat.len()` and the
     bounds-checked byte slice `strb[i..i + pat.len()]` (C11's `Model.findSubstr` totalises them).
  5. `printCodeLocationK` — `print_code_location` with the one unchecked `start.column - 1`.

  Imports only other import-free model files, so the driver links.
-/
import JrsVerif.Model.Total
import JrsVerif.Model.Num
import JrsVerif.Model.Str
import JrsVerif.Model.Loc

namespace JrsVerif.TotalKern
open JrsVerif.Total

/-! ## 1. ExprParams::duplicate_name -/

/-- `exprs[..i].iter().any(|p| p.destruct.name() == name)` -/
def seenName (seen : List Param) (n : String) : Bool := seen.any (fun q => q.name = some n)

/-- the `for (i, param) in exprs.iter().enumerate()` loop; `seen` is `exprs[..i]` -/
def duplicateNameGo : List Param → List Param → Option String
  | _, [] => none
  | seen, p :: rest =>
    match p.name with
    | some n => if seenName seen n then some n else duplicateNameGo (seen ++ [p]) rest
    | none => duplicateNameGo (seen ++ [p]) rest

/-- `ExprParams::duplicate_name(&exprs)` -/
def duplicateName (ps : List Param) : Option String := duplicateNameGo [] ps

/-- what both `params` rules do with the answer: a parameter list is accepted iff no name repeats -/
def paramsAccepted (ps : List Param) : Bool := (duplicateName ps).isNone

/-! ## 2. pending markers of `get_idx` -/

/-- `Option<CacheValue>` for one `(key, core)` while no evaluation of it has finished -/
inductive Mark where
  | vacant
  | pending
  deriving Repr, DecidableEq, Inhabited

/-- the `match cache.entry(..)` at the head of `get_idx` (which runs AFTER `self.run_assertions()`)
    for an entry that is not `Cached`: the new marker when the evaluation is entered,
    `none` = `InfiniteRecursionDetected`.  `asserting` (the value `is_asserting(self)` would have)
    no longer matters: assertions have run, or are running, before any field is marked. -/
def enter (_asserting : Bool) : Mark → Option Mark
  | .vacant => some .pending
  | .pending => none

/-- the original code: a pending key was re-entered as often as asked while asserting -/
def enterOrig (asserting : Bool) : Mark → Option Mark
  | .vacant => some .pending
  | .pending => if !asserting then none else some .pending

/-- a chain of nested (not yet finished) entries of one key, outermost first, each with the value
    of `is_asserting(self)` at that moment: how many of them are let through -/
def admitted (ent : Bool → Mark → Option Mark) : Mark → List Bool → Nat
  | _, [] => 0
  | m, a :: rest =>
    match ent a m with
    | none => 0
    | some m' => 1 + admitted ent m' rest

/-! ## 3. `<<` with checked `i64` / `u32` operations -/
open JrsVerif.Num

/-- `a - b` on `u32` -/
def u32sub (a b : Nat) : Option Nat := if b ≤ a then some (a - b) else none

/-- `1i64 << k` (the shift amount is checked against the width; the value may wrap to `i64::MIN`) -/
def shl1 (k : Nat) : Option Int := if k < 64 then some (wrapI64 (2 ^ k)) else none

/-- unary `-` on `i64` -/
def negI64 (x : Int) : Option Int := if x = -(2 ^ 63) then none else some (-x)

/-- `x as u32` of an `i64` -/
def asU32 (x : Int) : Nat := (x % 2 ^ 32).toNat

/-- the arm after the two `truncate_for_bitwise()?`: `base`, `e` are the truncated operands -/
def shlCore (base e : Int) : Option (Except Err Int) :=
  let exp : Int := Int.tmod e (Generated.SHIFT_MOD : Int)      -- `… % 64` on `i64`
  let ov : Option Bool :=
    if exp ≥ 1 then
      match u32sub 63 (asU32 exp) with                           -- `63 - exp as u32`
      | none => none
      | some k =>
        match shl1 k with                                        -- `1i64 << (63 - exp as u32)`
        | none => none
        | some p =>
          if base ≥ p then some true                             -- `||` short-circuits
          else
            match negI64 p with                                  -- `-(1i64 << (63 - exp as u32))`
            | none => none
            | some np => some (decide (base < np))
    else some false
  match ov with
  | none => none
  | some true => some (.error .overflow)
  | some false => some (.ok (wrapI64 (base * 2 ^ (asU32 exp % 64))))   -- `wrapping_shl(exp as u32)`

/-- `(Num(v1), Lhs, Num(v2))` -/
def shlK (a b : D) : Option (Except Err Int) :=
  if isNegative b then some (.error .negshift)
  else
    match truncBitwise a with
    | .error err => some (.error err)
    | .ok base =>
      match truncBitwise b with
      | .error err => some (.error err)
      | .ok e => shlCore base e

/-! ## 4. `std.findSubstr` with checked subtraction and slicing -/
open JrsVerif.Str

/-- `&bytes[i..j]` -/
def sliceB (sb : List Nat) (i j : Nat) : Option (List Nat) :=
  if i ≤ j ∧ j ≤ sb.length then some ((sb.drop i).take (j - i)) else none

/-- the `char_indices().take_while(i <= max_pos).enumerate()` loop -/
def findGoK (sb pb : List Nat) (maxPos : Nat) : List Nat → Nat → Nat → Option (List Nat)
  | [], _, _ => some []
  | c :: cs, i, ch =>
    if i ≤ maxPos then
      match uadd i pb.length with                                -- `i + pat.len()`
      | none => none
      | some j =>
        match sliceB sb i j with                                 -- `&strb[i..i + pat.len()]`
        | none => none
        | some w =>
          match findGoK sb pb maxPos cs (i + (enc1 c).length) (ch + 1) with
          | none => none
          | some rest => some (if w == pb then ch :: rest else rest)
    else some []

/-- `builtin_find_substr` -/
def findSubstrK (pat s : List Nat) : Option (List Nat) :=
  let pb := enc pat
  let sb := enc s
  if pb.isEmpty || sb.isEmpty || pb.length > sb.length then some []
  else
    match usub sb.length pb.length with                          -- `str.len() - pat.len()`
    | none => none
    | some maxPos => findGoK sb pb maxPos s 0 0

/-! ## 5. `print_code_location` -/
open JrsVerif.Loc

/-- `print_code_location`: two of the three `column - 1` are `saturating_sub`, the one of the
    same-line range is a plain `usize` subtraction -/
def printCodeLocationK (s e : CodeLocation) : Option Printed :=
  if s.line = e.line then
    if s.column = e.column then some (.point s.line (e.column - 1))
    else
      match usub s.column 1 with
      | none => none
      | some c => some (.sameLine s.line c e.column)
  else some (.multi s.line (s.column - 1) e.line e.column)

end JrsVerif.TotalKern
