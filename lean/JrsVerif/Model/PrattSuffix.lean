/- C06 — the suffix loop of `expr_suffix` (crates/jrsonnet-ir-parser/src/lib.rs): consecutive index
   parts (`.field`, `[expr]`) are ACCUMULATED in `parts` and flushed into one `Expr::Index` before a
   slice, a call, an object extension and at the end of the loop (`flush_index_parts`).  The
   sub-expressions inside the suffixes are parsed by recursive calls that do not touch `e`/`parts`,
   so they are opaque payloads here.  `Spec` side: the postfix chain read left to right, where each
   MAXIMAL run of index suffixes forms one index node (the PEG rule `indexable:(@) _ parts:(index_part ++ _)`).
   Import-free. -/
namespace JrsVerif.Suffix

/-- one suffix as the loop sees it (payload = span-erased rendering of its sub-expressions) -/
inductive Item where
  | part (p : String)      -- `.field` or `[expr]`
  | slice (d : String)     -- `[a:b:c]`
  | call (a : String)      -- `(args)` with optional `tailstrict`
  | ext (b : String)       -- `{ … }`
  deriving DecidableEq, Repr

inductive Tree where
  | base (s : String)
  | index (e : Tree) (parts : List String)
  | slice (e : Tree) (d : String)
  | apply (e : Tree) (a : String)
  | ext (e : Tree) (b : String)
  deriving DecidableEq, Repr

/-- `flush_index_parts(&mut e, &mut parts)` -/
def flush (e : Tree) (parts : List String) : Tree := if parts.isEmpty then e else .index e parts

/-- the `loop { … }` of `expr_suffix`, followed by the final flush -/
def suffixLoop (e : Tree) (parts : List String) : List Item → Tree
  | [] => flush e parts
  | .part p :: r => suffixLoop e (parts ++ [p]) r
  | .slice d :: r => suffixLoop (.slice (flush e parts) d) [] r
  | .call a :: r => suffixLoop (.apply (flush e parts) a) [] r
  | .ext b :: r => suffixLoop (.ext (flush e parts) b) [] r

/-- `expr_suffix` after `expr_basic` returned `e` -/
def exprSuffix (e : Tree) (items : List Item) : Tree := suffixLoop e [] items

end JrsVerif.Suffix

namespace JrsVerif.Spec
open JrsVerif.Suffix

/-- the longest prefix of index suffixes, and what follows it -/
def takeParts : List Item → List String × List Item
  | .part p :: r => let (ps, rest) := takeParts r; (p :: ps, rest)
  | l => ([], l)

theorem takeParts_length (l : List Item) : (takeParts l).2.length ≤ l.length := by
  induction l with
  | nil => simp [takeParts]
  | cons a r ih => cases a <;> simp [takeParts] <;> omega

/-- postfix chain, left to right: a maximal run of index suffixes is ONE index node over everything
    to its left; slice / call / object extension apply to everything to their left -/
def applyChain (e : Tree) (items : List Item) : Tree :=
  match h : takeParts items with
  | (ps, rest) =>
    let e' := if ps.isEmpty then e else Tree.index e ps
    match rest with
    | [] => e'
    | .slice d :: r => applyChain (.slice e' d) r
    | .call a :: r => applyChain (.apply e' a) r
    | .ext b :: r => applyChain (.ext e' b) r
    | .part _ :: r => applyChain e' r   -- unreachable: `rest` never starts with a part
termination_by items.length
decreasing_by
  all_goals
    have := takeParts_length items
    simp only [h] at this
    simp_all only [List.length_cons]
    omega

end JrsVerif.Spec
