/- C05 Model side: `manifest_json_ex_buf` of crates/jrsonnet-evaluator/src/manifest.rs.

   `MV` is a jsonnet value as the manifester meets it (object fields in any order, with their
   hidden flag; functions).  `canon` is the part done by `obj.iter()` + the `Val::Func` arm:
   visible fields in ascending key order, a function in a visited position is an error.
   `wVal` is the recursive writer with the threaded `cur_padding`, the four `JsonFormatting`
   modes and the caller-supplied `padding`/`newline`/`key_val_sep`.
   Numbers: the writer calls `write!(buf, "{n}")` (Rust's `Display for f64`); that printer is a
   parameter `fmt` of the model (see `NumOK` in Props/C05.lean). -/
import JrsVerif.Model.JsonR

namespace JrsVerif.Json
open JrsVerif.Escape JrsVerif.Generated.Escape

/-- a jsonnet value handed to a manifest format -/
inductive MV where
  | null
  | bool (b : Bool)
  | num (bits : Nat)
  | str (s : List UInt8)
  | arr (xs : List MV)
  | obj (fields : List (List UInt8 × Bool × MV))   -- key, hidden?, value
  | func
  deriving Inhabited

/-- byte-lexicographic order on keys (= `str` order on valid UTF-8 = code point order) -/
def keyLt : List UInt8 → List UInt8 → Bool
  | [], [] => false
  | [], _ :: _ => true
  | _ :: _, [] => false
  | a :: as, b :: bs => if a < b then true else if b < a then false else keyLt as bs

def keyLe (a b : List UInt8) : Bool := !keyLt b a

def insertKV (k : List UInt8) (v : J) : List (List UInt8 × J) → List (List UInt8 × J)
  | [] => [(k, v)]
  | (k', v') :: tl => if keyLe k k' then (k, v) :: (k', v') :: tl else (k', v') :: insertKV k v tl

def sortKV : List (List UInt8 × J) → List (List UInt8 × J)
  | [] => []
  | (k, v) :: tl => insertKV k v (sortKV tl)

mutual
/-- what the manifester sees: hidden fields dropped (their values are never looked at), the
    rest in ascending key order; `none` = "tried to manifest function" -/
def canon : MV → Option J
  | .null => some .null
  | .bool b => some (.bool b)
  | .num d => some (.num d)
  | .str s => some (.str s)
  | .arr xs => (canonL xs).map J.arr
  | .obj fs => (canonF fs).map (fun kvs => J.obj (sortKV kvs))
  | .func => none
def canonL : List MV → Option (List J)
  | [] => some []
  | x :: tl =>
    match canon x, canonL tl with
    | some j, some js => some (j :: js)
    | _, _ => none
def canonF : List (List UInt8 × Bool × MV) → Option (List (List UInt8 × J))
  | [] => some []
  | (k, hidden, v) :: tl =>
    if hidden then canonF tl
    else
      match canon v, canonF tl with
      | some j, some js => some ((k, j) :: js)
      | _, _ => none
end

/-- `JsonFormat` (the fields that matter without the experimental features) -/
structure Opts where
  kind : Kind
  padding : List UInt8
  newline : List UInt8
  kvsep : List UInt8

/-- emitted before element/field number `i` (`first` = `i == 0`); `cur` is `cur_padding` inside
    the container -/
def sepSeq (o : Opts) (cur : List UInt8) (first : Bool) : List UInt8 :=
  (if first then [] else [0x2C]) ++
  match o.kind with
  | .manifest | .std => o.newline ++ cur
  | .toString => if first then [] else [0x20]
  | .minify => []

/-- emitted between the last element and the closing bracket; `cur` is the outer `cur_padding` -/
def closeSeq (o : Opts) (cur : List UInt8) (empty : Bool) : List UInt8 :=
  match o.kind with
  | .manifest => if empty then [0x20] else o.newline ++ cur
  | .toString => if empty then [0x20] else []
  | .std => (if empty then o.newline else []) ++ o.newline ++ cur
  | .minify => []

mutual
def wVal (o : Opts) (fmt : Nat → List UInt8) (cur : List UInt8) : J → List UInt8
  | .null => [0x6E, 0x75, 0x6C, 0x6C]
  | .bool true => [0x74, 0x72, 0x75, 0x65]
  | .bool false => [0x66, 0x61, 0x6C, 0x73, 0x65]
  | .str s => escapeD s
  | .num d => fmt d
  | .arr xs =>
    0x5B :: (wElems o fmt (cur ++ o.padding) true xs ++ (closeSeq o cur xs.isEmpty ++ [0x5D]))
  | .obj kvs =>
    0x7B :: (wFields o fmt (cur ++ o.padding) true kvs ++ (closeSeq o cur kvs.isEmpty ++ [0x7D]))
def wElems (o : Opts) (fmt : Nat → List UInt8) (cur : List UInt8) (first : Bool) : List J → List UInt8
  | [] => []
  | x :: tl => sepSeq o cur first ++ (wVal o fmt cur x ++ wElems o fmt cur false tl)
def wFields (o : Opts) (fmt : Nat → List UInt8) (cur : List UInt8) (first : Bool) :
    List (List UInt8 × J) → List UInt8
  | [] => []
  | (k, v) :: tl =>
    sepSeq o cur first ++ (escapeD k ++ (o.kvsep ++ (wVal o fmt cur v ++ wFields o fmt cur false tl)))
end

/-- `manifest_json_ex(val, options)` -/
def manifest (o : Opts) (fmt : Nat → List UInt8) (v : MV) : Option (List UInt8) :=
  (canon v).map (wVal o fmt [])

/-- `ToStringFormat`: a top-level string is passed through, everything else is the ToString mode -/
def toStringOpts : Opts := ⟨toStringKind, toStringPadding, toStringNewline, toStringKeyValSep⟩
def minifyOpts : Opts := ⟨minifyKind, minifyPadding, minifyNewline, minifyKeyValSep⟩
def defaultOpts : Opts := ⟨dfltKind, dfltPadding, dfltNewline, dfltKeyValSep⟩
/-- `JsonFormat::cli(n)`: `n == 0` is the minifier -/
def cliOpts (n : Nat) : Opts :=
  if n == 0 then minifyOpts else ⟨cliKind, List.replicate n 0x20, cliNewline, cliKeyValSep⟩
/-- `JsonFormat::std_to_json(padding, newline, key_val_sep)` (`std.manifestJsonEx`) -/
def stdOpts (padding newline kvsep : List UInt8) : Opts := ⟨stdToJsonKind, padding, newline, kvsep⟩

def toStringManifest (fmt : Nat → List UInt8) (v : MV) : Option (List UInt8) :=
  match v with
  | .str s => some s
  | v => manifest toStringOpts fmt v

end JrsVerif.Json
