/-
  Model of `crates/jrsonnet-evaluator/src/obj/{mod,oop}.rs`: an object is a vector of cores
  (`ObjValueInner.cores`, bottom layer first).  Four independent loops walk that vector from the
  top with a saturating skip counter fed by `OmitFieldsCore.prev_layers`:
    `get_idx_uncached`, `has_field_include_hidden_idx`, `field_visibility_idx`, `fields_visibility`.
  They are transliterated here (`collect`, `hasGo`, `visGo`, `visAllGo`), together with the builder
  operations that produce core vectors (`ObjValueBuilder::{build,with_super,with_fields_omitted}`,
  `ObjValue::extend_from`) as `compile : OT → List Core`.

  Companion files: Model/ObjLit.lean (the read loop and the value cache as written, proved equal to
  `collect`), Model/ObjAssert.lean (`has_assertions`, `run_assertions`), Model/ObjSuper.lean
  (`StandaloneSuperCore`).  A core carries `asrt` = its literal has `assert`s: a literal commits a
  core iff it has fields or an assertion; the walkers ignore the flag.

  Import-free.  Field *values* are opaque payload ids: what is modelled is WHICH layers contribute
  to a read, in which order they are folded with `+`, and with which `super` index each is bound.
-/
namespace JrsVerif.Obj

abbrev Name := Nat

inductive Vis where
  | normal | hidden | unhide
  deriving Repr, DecidableEq, Inhabited

/-- `ObjMember` : name, `+:` flag, visibility, payload (stands for the field body) -/
structure Field where
  name : Name
  add : Bool
  vis : Vis
  val : Nat
  deriving Repr, DecidableEq, Inhabited

/-- `OopObject` (a literal's own fields, `asrt` = its `assertion` is `Some`) / `OmitFieldsCore` -/
inductive Core where
  | oop (fields : List Field) (asrt : Bool)
  | omitC (names : List Name) (prev : Nat)
  deriving Repr, Inhabited

def lookup (fs : List Field) (n : Name) : Option Field := fs.find? (fun f => f.name == n)

/-! ### The four walkers.  All take the core vector REVERSED (top layer first), as the Rust loops
    iterate `cores[..idx].iter().rev()`; the `sup` index of the head core is `rest.length`. -/

/-- `get_idx_uncached`: the contributions to a read, top-most first, each with the `sup` index its
    body is evaluated with.  A plain (`:`) field ends the walk; `+:` fields accumulate
    (`first_add` then `add_stack`).  The caller folds the reversed list with `+`. -/
def collect : List Core → Nat → Name → List (Field × Nat)
  | [], _, _ => []
  | .oop fs _ :: rest, skip, n =>
      match (if skip == 0 then lookup fs n else none) with     -- `omit_only` = skip != 0
      | some f => if f.add then (f, rest.length) :: collect rest (skip - 1) n else [(f, rest.length)]
      | none => collect rest (skip - 1) n
  | .omitC ns k :: rest, skip, n =>
      let skip' := if ns.contains n then max skip (k + 1) else skip
      collect rest (skip' - 1) n

/-- `has_field_include_hidden_idx` -/
def hasGo : List Core → Nat → Name → Bool
  | [], _, _ => false
  | .oop fs _ :: rest, skip, n =>
      if (lookup fs n).isSome && skip == 0 then true else hasGo rest (skip - 1) n
  | .omitC ns k :: rest, skip, n =>
      let skip' := if ns.contains n then max skip (k + 1) else skip
      hasGo rest (skip' - 1) n

/-- `field_visibility_idx` (`exists` is the accumulator for `Found(Normal)`) -/
def visGo : List Core → Nat → Bool → Name → Option Vis
  | [], _, ex, _ => if ex then some .normal else none
  | .oop fs _ :: rest, skip, ex, n =>
      match lookup fs n with
      | some f =>
          if skip == 0 then
            match f.vis with
            | .normal => visGo rest (skip - 1) true n
            | v => some v
          else visGo rest (skip - 1) ex n
      | none => visGo rest (skip - 1) ex n
  | .omitC ns k :: rest, skip, ex, n =>
      let skip' := if ns.contains n then max skip (k + 1) else skip
      visGo rest (skip' - 1) ex n

/-- `fields_visibility`, the part of the per-name entry that decides the answer:
    `i` = `omit_index`, `ou` = `omitted_until`, `cur` = `exists_visible`. -/
def visAllGo : List Core → Nat → Nat → Option Vis → Name → Option Vis
  | [], _, _, cur, _ => cur
  | .oop fs _ :: rest, i, ou, cur, n =>
      match lookup fs n with
      | some f =>
          let cur' :=
            if ou ≤ i then
              match f.vis with
              | .normal => (match cur with | none => some .normal | c => c)
              | .hidden => (match cur with | some .unhide => some .unhide | _ => some .hidden)
              | .unhide => (match cur with | some .hidden => some .hidden | _ => some .unhide)
            else cur
          visAllGo rest (i + 1) ou cur' n
      | none => visAllGo rest (i + 1) ou cur n
  | .omitC ns k :: rest, i, ou, cur, n =>
      let ou' := if ns.contains n then max ou (i + k + 1) else ou
      visAllGo rest (i + 1) ou' cur n

/-! ### Entry points on a core vector (bottom first) and a start index (`CoreIdx`) -/

def getIdx (cores : List Core) (idx : Nat) (n : Name) : List (Field × Nat) :=
  collect (cores.take idx).reverse 0 n
def hasIdx (cores : List Core) (idx : Nat) (n : Name) : Bool :=
  hasGo (cores.take idx).reverse 0 n
def visIdx (cores : List Core) (idx : Nat) (n : Name) : Option Vis :=
  visGo (cores.take idx).reverse 0 false n
def visAll (cores : List Core) (n : Name) : Option Vis :=
  visAllGo cores.reverse 0 0 none n

def Vis.visible : Vis → Bool
  | .hidden => false
  | _ => true

/-- names occurring in any core -/
def coreNames : List Core → List Name
  | [] => []
  | .oop fs _ :: r => fs.map (·.name) ++ coreNames r
  | .omitC ns _ :: r => ns ++ coreNames r

def insertSorted (n : Nat) : List Nat → List Nat
  | [] => [n]
  | m :: r => if n < m then n :: m :: r else if n = m then m :: r else m :: insertSorted n r

def sortDedup : List Nat → List Nat
  | [] => []
  | n :: r => insertSorted n (sortDedup r)

/-- `fields_ex(include_hidden)` : keys of `fields_visibility()` filtered and sorted -/
def fieldsEx (cores : List Core) (includeHidden : Bool) : List Name :=
  (sortDedup (coreNames cores)).filter (fun n =>
    match visAll cores n with
    | some v => includeHidden || v.visible
    | none => false)

/-! ### Object terms and the builder -/

/-- objects as the language builds them -/
inductive OT where
  | lit (fs : List Field) (asrt : Bool)   -- `{ ... }`; `asrt` = the literal has `assert`s
  | add (a b : OT)                 -- `a + b`, `a { ... }`
  | rm (o : OT) (ns : List Name)   -- `std.objectRemoveKey(o, n)` (`with_fields_omitted`)
  deriving Repr, Inhabited

/-- `ObjValueBuilder::build` (`commit`: a literal with neither fields nor an assertion commits no
    core — `OopObject::is_empty`), `extend_from`, `with_super(o).with_fields_omitted(ns)` -/
def compile : OT → List Core
  | .lit fs a => if fs.isEmpty && !a then [] else [.oop fs a]
  | .add a b => compile a ++ compile b
  | .rm o ns => compile o ++ [.omitC ns (compile o).length]

/-- the object made of the first `l` layers of `t` ("the layers left of layer `l`" = `super` there) -/
def takeTerm : OT → Nat → OT
  | .lit fs a, l => if l = 0 then .lit [] false else .lit fs a
  | .add a b, l => .add (takeTerm a l) (takeTerm b (l - (compile a).length))
  | .rm o ns, l => if l ≤ (compile o).length then takeTerm o l else .rm o ns

/-! ### Reference meaning on terms (the Jsonnet object model) -/

/-- every definition of `n` that is not masked, right-most (top-most) first -/
def defs : OT → Name → List Field
  | .lit fs _, n => (lookup fs n).toList
  | .add a b, n => defs b n ++ defs a n
  | .rm o ns, n => if ns.contains n then [] else defs o n

/-- a read takes the definitions from the top down to the first plain (`:`) one; these are folded
    with `+`, deepest first -/
def chain : List Field → List Field
  | [] => []
  | f :: r => if f.add then f :: chain r else [f]

/-- visibility: the top-most non-default marker wins, otherwise visible -/
def visSpec : List Field → Option Vis
  | [] => none
  | f :: r =>
      match f.vis with
      | .normal => (match visSpec r with | none => some .normal | v => v)
      | v => some v

def specGet (t : OT) (n : Name) : List Field := chain (defs t n)
def specHas (t : OT) (n : Name) : Bool := !(defs t n).isEmpty
def specVis (t : OT) (n : Name) : Option Vis := visSpec (defs t n)

/-- names mentioned anywhere in a term -/
def termNames : OT → List Name
  | .lit fs _ => fs.map (·.name)
  | .add a b => termNames a ++ termNames b
  | .rm o ns => termNames o ++ ns

def specFields (t : OT) (includeHidden : Bool) : List Name :=
  (sortDedup (termNames t)).filter (fun n =>
    match specVis t n with
    | some v => includeHidden || v.visible
    | none => false)

end JrsVerif.Obj
