/-
  Spec-side definitional interpreter for the Jsonnet core language ("the Jsonnet operational
  semantics" of C01/C03), written from the language definition — NOT transliterated from
  `evaluate/mod.rs`.  Call-by-need with an explicit store (thunk cells, object field cache), so that
  the multiset of `std.trace` labels is the call-by-need one.  Total: every function is
  structurally recursive on a fuel argument; running out of fuel is the outcome `undecided`.

  Import-free.  `Float` is used for numbers (driver-only arithmetic; no theorem reasons about it).
-/
namespace JrsVerif.Eval

inductive UOp where | plus | minus | bitnot | not
  deriving Repr, DecidableEq, Inhabited
inductive BOp where
  | mul | div | mod | add | sub | shl | shr | lt | gt | le | ge | band | bor | bxor | eq | ne
  | and | or | in_
  deriving Repr, DecidableEq, Inhabited
inductive Vis where | normal | hidden | unhide
  deriving Repr, DecidableEq, Inhabited

mutual
inductive Expr where
  | null | tru | fals | self | super | dollar
  | str (s : String) | num (f : Float) | var (n : String)
  | arr (es : List Expr)
  | arrComp (body : Expr) (specs : List CompSpec)
  | obj (b : ObjBody) | objExt (base : Expr) (b : ObjBody)
  | unary (op : UOp) (e : Expr) | binary (op : BOp) (a b : Expr)
  | assertE (cond : Expr) (msg : Option Expr) (rest : Expr)
  | localE (binds : List Bind) (body : Expr)
  | errorE (e : Expr)
  | apply (f : Expr) (pos : List Expr) (named : List (String × Expr)) (ts : Bool)
  | index (e : Expr) (parts : List Expr)
  | func (ps : List Param) (body : Expr)
  | ifE (c t : Expr) (e : Option Expr)
  | slice (e : Expr) (a b c : Option Expr)
  | unsupported (what : String)
inductive Param where | mk (name : String) (dflt : Option Expr)
inductive Bind where
  | val (name : String) (e : Expr)
  | fn (name : String) (ps : List Param) (e : Expr)
inductive CompSpec where | forS (v : String) (e : Expr) | ifS (e : Expr)
inductive FieldName where | fixed (s : String) | dyn (e : Expr)
inductive Field where
  | mk (name : FieldName) (plus : Bool) (ps : Option (List Param)) (vis : Vis) (value : Expr)
inductive ObjBody where
  | members (locals : List Bind) (asserts : List (Expr × Option Expr)) (fields : List Field)
  | comp (locals : List Bind) (field : Field) (specs : List CompSpec)
end

instance : Inhabited Expr := ⟨.null⟩

abbrev Ref := Nat
abbrev ObjId := Nat
abbrev Env := List (String × Ref)

structure Ctx where
  env : Env
  this : Option (ObjId × Nat)      -- object and the layer index of the defining layer (= `sup`)
  dollar : Option ObjId
  deriving Inhabited

structure FieldDef where
  name : String
  plus : Bool
  vis : Vis
  env : Env
  body : Expr
  deriving Inhabited

structure Layer where
  /-- `some (names, n)`: a key-removal marker (std.objectRemoveKey): the `names` defined in the `n`
      layers below it are masked for reads from above; it defines nothing itself -/
  mask : Option (List String × Nat) := none
  dollar : Option ObjId            -- enclosing `$`; none = this object is the root
  locals : List Bind
  asserts : List (Expr × Option Expr)
  assertEnv : Env
  fields : List FieldDef
  deriving Inhabited

inductive Val where
  | null | bool (b : Bool) | num (f : Float) | str (s : String)
  | arr (elems : List Ref)
  | obj (id : ObjId)
  | func (c : Ctx) (ps : List Param) (body : Expr)
  | builtin (name : String)
  deriving Inhabited

structure Err where
  cls : String
  msg : String
  deriving Repr, Inhabited

inductive Cell where
  | waiting (c : Ctx) (e : Expr)
  | app (f : Val) (args : List Ref)
  | pending
  | done (v : Val)
  | failed (e : Err)
  deriving Inhabited

inductive CacheV where | pending | val (v : Option Val) | failed (e : Err)
  deriving Inhabited

structure St where
  cells : Array Cell := #[]
  objs : Array (List Layer) := #[]
  cache : List ((ObjId × String × Nat) × CacheV) := []
  /-- object-level locals are bound once per (object, layer) and shared by its fields and asserts -/
  layerEnvs : List ((ObjId × Nat) × Env) := []
  asserted : List ObjId := []
  asserting : List ObjId := []
  trace : List String := []
  deriving Inhabited

/-- why evaluation stopped without a value -/
inductive Stop where
  | err (e : Err)
  | undecided (why : String)     -- out of fuel / construct outside the modelled fragment
  deriving Inhabited

abbrev M := ExceptT Stop (StateM St)

def fail {α} (cls msg : String) : M α := throw (.err ⟨cls, msg⟩)
def undecided {α} (why : String) : M α := throw (.undecided why)

def alloc (c : Cell) : M Ref := do
  let s ← get
  set { s with cells := s.cells.push c }
  pure s.cells.size

def setCell (r : Ref) (c : Cell) : M Unit :=
  modify fun s => { s with cells := s.cells.setIfInBounds r c }

def allocObj (ls : List Layer) : M ObjId := do
  let s ← get
  set { s with objs := s.objs.push ls }
  pure s.objs.size

def layersOf (o : ObjId) : M (List Layer) := do
  pure ((← get).objs.getD o [])

inductive JV where
  | null | bool (b : Bool) | num (f : Float) | str (s : String)
  | arr (xs : List JV) | obj (kvs : List (String × JV))
  deriving Inhabited

inductive Task where
  | eval (c : Ctx) (e : Expr)
  | force (r : Ref)
  | field (o : ObjId) (name : String) (idx : Nat)
  | call (f : Val) (pos : List Ref) (named : List (String × Ref))
  | manifest (v : Val)
  | equals (a b : Val)
  | compare (a b : Val)
  | toStr (v : Val)
  | comp (c : Ctx) (specs : List CompSpec)
  | asserts (o : ObjId)

inductive Out where
  | val (v : Val) | oval (v : Option Val) | json (j : JV) | bool (b : Bool) | ord (o : Ordering)
  | str (s : String) | ctxs (cs : List Ctx) | unit
  deriving Inhabited

/-! ### pure helpers -/

def typeName : Val → String
  | .null => "null" | .bool _ => "boolean" | .num _ => "number" | .str _ => "string"
  | .arr _ => "array" | .obj _ => "object" | .func .. => "function" | .builtin _ => "function"

def isInt (f : Float) : Bool := f.floor == f && f.abs < 9007199254740992.0

def toInt (f : Float) : Int :=
  if f < 0 then - ((0 - f).toUInt64.toNat : Int) else (f.toUInt64.toNat : Int)

def ofInt (i : Int) : Float :=
  if i < 0 then 0 - (Float.ofNat (-i).toNat) else Float.ofNat i.toNat

/-- `fmod` on integer-valued doubles (sign of the dividend, also for a zero result) -/
def fmodInt (x y : Float) : Float :=
  let r := ofInt (Int.tmod (toInt x) (toInt y))
  if r == 0 && (x < 0 || (x == 0 && (1 / x) < 0)) then -r else r

def finite (f : Float) : Bool := !f.isNaN && !f.isInf

def numStr (f : Float) : M String :=
  if isInt f && !(f == 0 && (1 / f) < 0) then pure (toString (toInt f))
  else undecided "non-integer number to string"

def hex4 (n : Nat) : String :=
  let d := fun (k : Nat) => "0123456789abcdef".toList.getD (k % 16) '0'
  String.ofList [d (n / 4096), d (n / 256), d (n / 16), d n]

def escapeJson (s : String) : String :=
  "\"" ++ String.join (s.toList.map fun c =>
    if c == '"' then "\\\"" else if c == '\\' then "\\\\"
    else if c == '\n' then "\\n" else if c == '\t' then "\\t" else if c == '\r' then "\\r"
    else if c == '\x08' then "\\b" else if c == '\x0c' then "\\f"
    else if c.toNat < 0x20 then "\\u" ++ hex4 c.toNat
    else String.singleton c) ++ "\""

def lookupEnv (env : Env) (n : String) : Option Ref :=
  match env.find? (fun p => p.1 == n) with
  | some p => some p.2
  | none => none

def findField (fs : List FieldDef) (n : String) : Option FieldDef := fs.find? (fun f => f.name == n)

def insertSortedS (n : String) : List String → List String
  | [] => [n]
  | m :: r => if n < m then n :: m :: r else if n == m then m :: r else m :: insertSortedS n r

def sortDedupS (l : List String) : List String := l.foldr insertSortedS []

/-- the definitions of `n` among the first `upTo` layers that a read from above sees, top-most
    first, each with its layer index: a key-removal marker at position `p` with `(names, k)` masks
    the definitions of those names in layers `[p-k, p)` -/
def findDefs (layers : List Layer) (upTo : Nat) (n : String) : List (Nat × FieldDef) :=
  let rec go : List Layer → Nat → Nat → List (Nat × FieldDef)
    | [], _, _ => []
    | l :: below, i, maskLow =>          -- `l` is layer `i`; `below` are layers `i-1 … 0`
      match l.mask with
      | some (names, k) =>
        let maskLow' := if names.contains n then min maskLow (i - k) else maskLow
        go below (i - 1) maskLow'
      | none =>
        match findField l.fields n with
        | some f => if i ≥ maskLow then go below (i - 1) maskLow else (i, f) :: go below (i - 1) maskLow
        | none => go below (i - 1) maskLow
  go (layers.take upTo).reverse ((layers.take upTo).length - 1) (layers.take upTo).length

/-- visibility of `n` by the language rule: top-most `::`/`:::` marker wins, else visible -/
def visOf (layers : List Layer) (n : String) : Option Vis :=
  let defs := (findDefs layers layers.length n).map (·.2)
  let rec go : List FieldDef → Option Vis
    | [] => none
    | f :: r => match f.vis with
      | .normal => (match go r with | none => some .normal | v => v)
      | v => some v
  go defs

def fieldNames (layers : List Layer) (includeHidden : Bool) : List String :=
  (sortDedupS (layers.flatMap (fun l => l.fields.map (·.name)))).filter fun n =>
    match visOf layers n with
    | some .hidden => includeHidden
    | some _ => true
    | none => false

def hasFieldAll (layers : List Layer) (n : String) : Bool :=
  !(findDefs layers layers.length n).isEmpty

def paramName : Param → String | .mk n _ => n
def paramDflt : Param → Option Expr | .mk _ d => d

/-- argument binding as the language defines it: positional prefix, then named, then defaults;
    the error cases are: too many positional, unknown name, bound twice, unbound without default -/
inductive Src where | arg (r : Ref) | dflt (e : Expr)

def hasName (acc : List (String × Src)) (n : String) : Bool := acc.any (fun p => p.1 == n)

def addNamed (names : List String) (acc : List (String × Src)) :
    List (String × Ref) → Except Err (List (String × Src))
  | [] => .ok acc
  | (n, r) :: rest =>
    if !names.contains n then .error ⟨"arity", "unknown parameter " ++ n⟩
    else if hasName acc n then .error ⟨"arity", "parameter bound twice " ++ n⟩
    else addNamed names (acc ++ [(n, .arg r)]) rest

def fillDefaults (acc : List (String × Src)) : List Param → Except Err (List (String × Src))
  | [] => .ok acc
  | p :: rest =>
    if hasName acc (paramName p) then fillDefaults acc rest
    else match paramDflt p with
      | some d => fillDefaults (acc ++ [(paramName p, .dflt d)]) rest
      | none => .error ⟨"arity", "parameter not bound " ++ paramName p⟩

def bindArgs (ps : List Param) (pos : List Ref) (named : List (String × Ref)) :
    Except Err (List (String × Src)) :=
  if pos.length > ps.length then .error ⟨"arity", "too many args"⟩ else
  let names := ps.map paramName
  let posB : List (String × Src) := (names.zip pos).map (fun p => (p.1, Src.arg p.2))
  match addNamed names posB named with
  | .error e => .error e
  | .ok acc => fillDefaults acc ps

def builtinArity : String → Option Nat
  | "length" | "type" | "objectFields" | "objectFieldsAll" | "toString"
  | "reverse" | "objectValues" | "objectValuesAll" | "flattenArrays" => some 1
  | "trace" | "objectHas" | "objectHasAll" | "makeArray" | "range" | "map" | "filter" | "mod"
  | "objectRemoveKey" | "join" => some 2
  | "foldl" | "foldr" => some 3
  | "slice" => some 4
  | _ => none

def normIdx (p : Option Int) (n : Nat) (d : Nat) : Nat :=
  match p with
  | none => d
  | some v => if v < 0 then ((n : Int) + v).toNat else min v.toNat n

def everyNth {α} (st : Nat) : Nat → List α → List α
  | _, [] => []
  | 0, x :: r => x :: everyNth st (st - 1) r
  | k + 1, _ :: r => everyNth st k r

def sliceList {α} (xs : List α) (s e : Option Int) (st : Nat) : List α :=
  let n := xs.length
  let f := normIdx s n 0
  let t := normIdx e n n
  everyNth st 0 ((xs.take t).drop f)

/-- `&`, `|`, `^` on integers through their 64-bit two's complement (operands are safe integers) -/
def bitOp (op : BOp) (x y : Int) : Int :=
  let a := BitVec.ofInt 64 x
  let b := BitVec.ofInt 64 y
  match op with
  | .band => (a &&& b).toInt
  | .bor => (a ||| b).toInt
  | _ => (a ^^^ b).toInt

/-- a safe integer: what `truncate_for_bitwise` accepts without truncating -/
def isSafeInt (f : Float) : Bool := isInt f && f.abs ≤ 9007199254740991.0

def repeatStr (s : String) : Nat → String
  | 0 => ""
  | k + 1 => s ++ repeatStr s k

/-! ### the interpreter -/

def expectVal : Out → M Val
  | .val v => pure v
  | _ => undecided "internal: expected value"

def wrapParams (ps : Option (List Param)) (e : Expr) : Expr :=
  match ps with
  | some ps => .func ps e
  | none => e

/-- bind a group of (mutually recursive) locals lazily in `c` -/
def bindLocals (c : Ctx) (binds : List Bind) (thisFor : Option (ObjId × Nat)) (dollar : Option ObjId) : M Ctx := do
  let s ← get
  let base := s.cells.size
  let names := binds.map fun b => match b with | .val n _ => n | .fn n _ _ => n
  let env' : Env := (names.zip (List.range names.length |>.map (· + base))).reverse ++ c.env
  let c' : Ctx := { env := env', this := thisFor, dollar := dollar }
  for b in binds do
    match b with
    | .val _ e => let _ ← alloc (.waiting c' e)
    | .fn _ ps e => let _ ← alloc (.waiting c' (.func ps e))
  pure c'

def run : Nat → Task → M Out
  | 0, _ => undecided "fuel"
  | n + 1, task =>
    let evalV (c : Ctx) (e : Expr) : M Val := do expectVal (← run n (.eval c e))
    let forceV (r : Ref) : M Val := do expectVal (← run n (.force r))
    -- `a.iter().zip(b.iter())` forces the element of BOTH arrays before either result is inspected
    let forcePair (x y : Ref) : M (Val × Val) := do
      let xr : Except Stop Val ← tryCatch (do pure (.ok (← forceV x))) (fun st => pure (.error st))
      let yr : Except Stop Val ← tryCatch (do pure (.ok (← forceV y))) (fun st => pure (.error st))
      -- "undecided" (out of fuel / outside the fragment) on either side wins over an error of the
      -- other side: the real evaluator runs BOTH to completion, so nothing is known about the store
      -- (trace) until both are decided (needed for `run_fuel_mono`, Proofs/EvalMono.lean)
      match xr, yr with
      | .error (.undecided w), _ => throw (.undecided w)
      | _, .error (.undecided w) => throw (.undecided w)
      | .error st, _ => throw st
      | _, .error st => throw st
      | .ok xv, .ok yv => pure (xv, yv)
    -- the context of a member of layer `i` of object `o`: the layer's environment extended with the
    -- object-level locals, bound once per (object, layer) when the member's environment is the
    -- layer's own (object comprehensions carry a per-field environment and bind afresh)
    let layerCtx (o : ObjId) (i : Nat) (l : Layer) (fenv : Env) : M Ctx := do
      let c0 : Ctx := { env := fenv, this := some (o, i), dollar := some (l.dollar.getD o) }
      if l.locals.isEmpty then pure c0 else
      if fenv == l.assertEnv then
        let s ← get
        match s.layerEnvs.find? (fun p => p.1.1 == o && p.1.2 == i) with
        | some (_, env) => pure { c0 with env := env }
        | none =>
          let c ← bindLocals c0 l.locals (some (o, i)) (some (l.dollar.getD o))
          modify fun s => { s with layerEnvs := ((o, i), c.env) :: s.layerEnvs }
          pure c
      else bindLocals c0 l.locals (some (o, i)) (some (l.dollar.getD o))
    let thunk (c : Ctx) (e : Expr) : M Ref := alloc (.waiting c e)
    let toStrM (v : Val) : M String := do
      match ← run n (.toStr v) with | .str s => pure s | _ => undecided "internal: toStr"
    let equalsM (a b : Val) : M Bool := do
      match ← run n (.equals a b) with | .bool b => pure b | _ => undecided "internal: equals"
    let compareM (a b : Val) : M Ordering := do
      match ← run n (.compare a b) with | .ord o => pure o | _ => undecided "internal: compare"
    let fieldM (o : ObjId) (name : String) (idx : Nat) : M (Option Val) := do
      match ← run n (.field o name idx) with | .oval v => pure v | _ => undecided "internal: field"
    let tryNum (f : Float) : M Val :=
      if finite f then pure (.num f) else fail "other" "overflow"
    match task with
    | .force r => do
      let s ← get
      match s.cells.getD r .pending with
      | .done v => pure (.val v)
      | .failed e => throw (.err e)
      | .pending => fail "infrec" "infinite recursion detected"
      | .waiting c e =>
        setCell r .pending
        try
          let v ← evalV c e
          setCell r (.done v)
          pure (.val v)
        catch stop =>
          match stop with
          | .err er => do setCell r (.failed er); throw (.err er)
          | stop => throw stop
      | .app f args =>
        setCell r .pending
        try
          let v ← expectVal (← run n (.call f args []))
          setCell r (.done v)
          pure (.val v)
        catch stop =>
          match stop with
          | .err er => do setCell r (.failed er); throw (.err er)
          | stop => throw stop
    | .asserts o => do
      let s ← get
      if s.asserted.contains o || s.asserting.contains o then pure .unit else
      let layers ← layersOf o
      if layers.all (fun l => l.asserts.isEmpty) then pure .unit else
      modify fun s => { s with asserting := o :: s.asserting }
      try
        let mut idx := 0
        for l in layers do
          for (cond, msg) in l.asserts do
            let c ← layerCtx o idx l l.assertEnv
            match ← evalV c cond with
            | .bool true => pure ()
            | .bool false =>
              match msg with
              | none => fail "assert" "assertion failed"
              | some m => do
                let mv ← evalV c m
                fail "assert" (← toStrM mv)
            | _ => fail "type" "assert condition must be boolean"
          idx := idx + 1
        modify fun s => { s with asserting := s.asserting.erase o, asserted := o :: s.asserted }
        pure .unit
      catch stop => do
        modify fun s => { s with asserting := s.asserting.erase o }
        throw stop
    | .field o name idx => do
      let key := (o, name, idx)
      -- the object's assertions come first: one of them may read (and cache) this very field
      let _ ← run n (.asserts o)
      let s ← get
      let cached := s.cache.find? (fun p => p.1.1 == o && p.1.2.1 == name && p.1.2.2 == idx)
      let proceed : Bool ← match cached with
        | some (_, .val v) => return (.oval v)
        | some (_, .failed e) => throw (.err e)
        | some (_, .pending) => fail "infrec" "infinite recursion detected"
        | none => pure true
      if !proceed then undecided "internal" else
      modify fun s => { s with cache := (key, .pending) :: s.cache }
      let setCache (v : CacheV) : M Unit :=
        modify fun s => { s with cache := (key, v) :: s.cache.filter (fun p => !(p.1.1 == o && p.1.2.1 == name && p.1.2.2 == idx)) }
      try
        let layers ← layersOf o
        -- the unmasked definitions below `idx`, top-most first, down to the first plain one
        let mut vals : List Val := []
        let mut stop := false
        for (i, f) in findDefs layers idx name do
          if !stop then
            match layers[i]? with
            | none => pure ()
            | some l =>
              let c ← layerCtx o i l f.env
              let v ← evalV c f.body
              vals := vals ++ [v]
              if !f.plus then stop := true
        match vals.reverse with
        | [] => setCache (.val none); pure (.oval none)
        | deepest :: rest =>
          -- fold with `+`, deepest first
          let mut acc2 := deepest
          for v in rest do
            let ra ← alloc (.done acc2)
            let rb ← alloc (.done v)
            acc2 ← evalV { env := [("a", ra), ("b", rb)], this := none, dollar := none }
              (.binary .add (.var "a") (.var "b"))
          setCache (.val (some acc2)); pure (.oval (some acc2))
      catch stop =>
        match stop with
        | .err er => do setCache (.failed er); throw (.err er)
        | stop => throw stop
    | .comp c specs => do
      match specs with
      | [] => pure (.ctxs [c])
      | .ifS e :: rest =>
        match ← evalV c e with
        | .bool true => run n (.comp c rest)
        | .bool false => pure (.ctxs [])
        | _ => fail "type" "comprehension condition must be boolean"
      | .forS x e :: rest =>
        match ← evalV c e with
        | .arr elems =>
          let mut out : List Ctx := []
          for r in elems do
            match ← run n (.comp { c with env := (x, r) :: c.env } rest) with
            | .ctxs cs => out := out ++ cs
            | _ => undecided "internal: comp"
          pure (.ctxs out)
        | _ => fail "other" "for loop can only iterate over arrays"
    | .toStr v => do
      match v with
      | .str s => pure (.str s)
      | v =>
        match ← run n (.manifest v) with
        | .json j =>
          let rec render : Nat → JV → M String
            | 0, _ => undecided "fuel"
            | k + 1, j => match j with
              | .null => pure "null" | .bool true => pure "true" | .bool false => pure "false"
              | .num f => numStr f
              | .str s => pure (escapeJson s)
              | .arr [] => pure "[ ]"
              | .arr xs => do
                let parts ← xs.mapM (render k)
                pure ("[" ++ ", ".intercalate parts ++ "]")
              | .obj [] => pure "{ }"
              | .obj kvs => do
                let parts ← kvs.mapM (fun (kk, vv) => do pure (escapeJson kk ++ ": " ++ (← render k vv)))
                pure ("{" ++ ", ".intercalate parts ++ "}")
          pure (.str (← render n j))
        | _ => undecided "internal: manifest"
    | .manifest v => do
      match v with
      | .null => pure (.json .null)
      | .bool b => pure (.json (.bool b))
      | .num f => pure (.json (.num f))
      | .str s => pure (.json (.str s))
      | .func .. | .builtin _ => fail "user" "tried to manifest function"
      | .arr elems =>
        let mut out : List JV := []
        for r in elems do
          let ev ← forceV r
          match ← run n (.manifest ev) with
          | .json j => out := out ++ [j]
          | _ => undecided "internal: manifest"
        pure (.json (.arr out))
      | .obj o =>
        let _ ← run n (.asserts o)
        let layers ← layersOf o
        let mut out : List (String × JV) := []
        for name in fieldNames layers false do
          match ← fieldM o name layers.length with
          | some fv =>
            match ← run n (.manifest fv) with
            | .json j => out := out ++ [(name, j)]
            | _ => undecided "internal: manifest"
          | none => undecided "internal: listed field missing"
        pure (.json (.obj out))
    | .equals a b => do
      match a, b with
      | .null, .null => pure (.bool true)
      | .bool x, .bool y => pure (.bool (x == y))
      | .num x, .num y => pure (.bool (x == y))
      | .str x, .str y => pure (.bool (x == y))
      | .arr xs, .arr ys =>
        if xs.length != ys.length then pure (.bool false) else
        let mut res := true
        for (x, y) in xs.zip ys do
          if res then
            let (xv, yv) ← forcePair x y
            if !(← equalsM xv yv) then res := false
        pure (.bool res)
      | .obj x, .obj y =>
        let lx ← layersOf x
        let ly ← layersOf y
        let fx := fieldNames lx false
        let fy := fieldNames ly false
        if fx != fy then pure (.bool false) else
        let mut res := true
        for name in fx do
          if res then
            match ← fieldM x name lx.length, ← fieldM y name ly.length with
            | some xv, some yv => if !(← equalsM xv yv) then res := false
            | _, _ => undecided "internal: equals field"
        pure (.bool res)
      -- values of different types are unequal (std.equals compares std.type first); only two
      -- FUNCTIONS cannot be compared
      | .func .., .func .. | .func .., .builtin _ | .builtin _, .func .. | .builtin _, .builtin _ =>
        fail "user" "cannot test equality of functions"
      | _, _ => pure (.bool false)
    | .compare a b => do
      match a, b with
      | .num x, .num y => pure (.ord (if x < y then .lt else if x == y then .eq else .gt))
      | .str x, .str y => pure (.ord (compare x y))
      | .arr xs, .arr ys =>
        let mut res : Ordering := .eq
        for (x, y) in xs.zip ys do
          if res == .eq then
            let (xv, yv) ← forcePair x y
            res ← compareM xv yv
        if res != .eq then pure (.ord res) else pure (.ord (compare xs.length ys.length))
      | _, _ => fail "type" "values are not comparable"
    | .call f pos named => do
      match f with
      | .func fc ps body =>
        match bindArgs ps pos named with
        | .error e => throw (.err e)
        | .ok bs =>
          -- defaults are evaluated lazily in the callee environment extended with ALL parameters
          let s ← get
          let base := s.cells.size
          let ndef := (bs.filter (fun b => match b.2 with | .dflt _ => true | _ => false)).length
          let _ := ndef
          -- allocate cells for defaults first (refs base ..), so that the environment is known
          let mut env' : Env := fc.env
          let mut k := 0
          for (nm, src) in bs do
            match src with
            | .arg r => env' := (nm, r) :: env'
            | .dflt _ => env' := (nm, base + k) :: env'; k := k + 1
          let c' : Ctx := { fc with env := env' }
          for (_, src) in bs do
            match src with
            | .dflt d => let _ ← alloc (.waiting c' d)
            | .arg _ => pure ()
          pure (.val (← evalV c' body))
      | .builtin name =>
        if !named.isEmpty then undecided "named arguments to builtins" else
        match builtinArity name with
        | none => undecided ("builtin " ++ name)
        | some ar =>
          if pos.length > ar then fail "arity" "too many args" else
          if pos.length < ar then
            -- slice has optional trailing args in the real stdlib? no: all four are required
            fail "arity" "parameter not bound"
          else
          let arg (i : Nat) : M Val := forceV (pos.getD i 0)
          match name with
          | "length" => do
            match ← arg 0 with
            | .str s => pure (.val (.num (Float.ofNat s.length)))
            | .arr xs => pure (.val (.num (Float.ofNat xs.length)))
            | .obj o => do
              let ls ← layersOf o
              pure (.val (.num (Float.ofNat (fieldNames ls false).length)))
            | .func _ ps _ => pure (.val (.num (Float.ofNat ps.length)))
            | .builtin b => match builtinArity b with
              | some k => pure (.val (.num (Float.ofNat k)))
              | none => undecided "builtin arity"
            | _ => fail "type" "length operates on strings, arrays, objects and functions"
          | "type" => do pure (.val (.str (typeName (← arg 0))))
          | "toString" => do pure (.val (.str (← toStrM (← arg 0))))
          | "trace" => do
            match ← arg 0 with
            | .str s =>
              modify fun st => { st with trace := st.trace ++ [s] }
              pure (.val (← arg 1))
            | v =>
              let s ← toStrM v
              modify fun st => { st with trace := st.trace ++ [s] }
              pure (.val (← arg 1))
          | "objectFields" | "objectFieldsAll" => do
            match ← arg 0 with
            | .obj o =>
              let ls ← layersOf o
              let names := fieldNames ls (name == "objectFieldsAll")
              let mut refs : List Ref := []
              for nm in names do
                refs := refs ++ [← alloc (.done (.str nm))]
              pure (.val (.arr refs))
            | _ => fail "type" "expected object"
          | "objectHas" | "objectHasAll" => do
            match ← arg 0, ← arg 1 with
            | .obj o, .str f =>
              let ls ← layersOf o
              if name == "objectHasAll" then pure (.val (.bool (hasFieldAll ls f)))
              else pure (.val (.bool (match visOf ls f with | some .hidden => false | some _ => true | none => false)))
            | _, _ => fail "type" "expected object and string"
          | "objectRemoveKey" => do
            match ← arg 0, ← arg 1 with
            | .obj o, .str f =>
              let ls ← layersOf o
              let marker : Layer := { mask := some ([f], ls.length), dollar := none, locals := [],
                                      asserts := [], assertEnv := [], fields := [] }
              pure (.val (.obj (← allocObj (ls ++ [marker]))))
            | _, _ => fail "type" "objectRemoveKey(object, string)"
          | "makeArray" => do
            match ← arg 0, ← arg 1 with
            | .num sz, fv@(.func ..) =>
              if !isInt sz || sz < 0 then fail "type" "makeArray size" else
              let mut refs : List Ref := []
              for i in List.range (toInt sz).toNat do
                let ri ← alloc (.done (.num (Float.ofNat i)))
                refs := refs ++ [← alloc (.app fv [ri])]
              pure (.val (.arr refs))
            | .num _, .builtin _ => undecided "makeArray with builtin"
            | _, _ => fail "type" "makeArray(number, function)"
          | "range" => do
            match ← arg 0, ← arg 1 with
            | .num a, .num b =>
              if !isInt a || !isInt b then fail "type" "range bounds" else
              let ia := toInt a
              let ib := toInt b
              let mut refs : List Ref := []
              for i in List.range (ib - ia + 1).toNat do
                refs := refs ++ [← alloc (.done (.num (ofInt (ia + i))))]
              pure (.val (.arr refs))
            | _, _ => fail "type" "range(number, number)"
          | "map" => do
            match ← arg 0, ← arg 1 with
            | fv@(.func ..), .arr xs =>
              let mut refs : List Ref := []
              for x in xs do
                refs := refs ++ [← alloc (.app fv [x])]
              pure (.val (.arr refs))
            | fv@(.func ..), .str str =>
              let mut refs : List Ref := []
              for ch in str.toList do
                let rc ← alloc (.done (.str (String.singleton ch)))
                refs := refs ++ [← alloc (.app fv [rc])]
              pure (.val (.arr refs))
            | .builtin _, _ => undecided "map with builtin"
            | _, _ => fail "type" "map(function, array)"
          | "filter" => do
            match ← arg 0, ← arg 1 with
            | fv@(.func ..), .arr xs =>
              let mut refs : List Ref := []
              for x in xs do
                match ← expectVal (← run n (.call fv [x] [])) with
                | .bool true => refs := refs ++ [x]
                | .bool false => pure ()
                | _ => fail "type" "filter predicate must return boolean"
              pure (.val (.arr refs))
            | .builtin _, .arr _ => undecided "filter with builtin"
            | _, _ => fail "type" "filter(function, array)"
          | "foldl" => do
            match ← arg 0, ← arg 1 with
            | fv@(.func ..), .arr xs =>
              let mut acc := pos.getD 2 0
              for x in xs do
                let v ← expectVal (← run n (.call fv [acc, x] []))
                acc ← alloc (.done v)
              pure (.val (← forceV acc))
            | fv@(.func ..), .str str =>
              let mut acc := pos.getD 2 0
              for ch in str.toList do
                let rc ← alloc (.done (.str (String.singleton ch)))
                let v ← expectVal (← run n (.call fv [acc, rc] []))
                acc ← alloc (.done v)
              pure (.val (← forceV acc))
            | .builtin _, _ => undecided "foldl with builtin"
            | _, _ => fail "type" "foldl(function, array, init)"
          | "mod" => do
            match ← arg 0, ← arg 1 with
            | .num a, .num b =>
              if b == 0 then fail "div0" "division by zero" else
              if isInt a && isInt b then
                pure (.val (.num (fmodInt a b)))
              else undecided "non-integer modulo"
            | .str _, _ => undecided "string formatting"
            | _, _ => fail "type" "mod"
          | "reverse" => do
            match ← arg 0 with
            | .arr xs => pure (.val (.arr xs.reverse))
            | _ => fail "type" "reverse(array)"
          | "objectValues" | "objectValuesAll" => do
            match ← arg 0 with
            | .obj o =>
              let ls ← layersOf o
              let ro ← alloc (.done (.obj o))
              let mut refs : List Ref := []
              for nm in fieldNames ls (name == "objectValuesAll") do
                refs := refs ++ [← alloc (.waiting { env := [("o", ro)], this := none, dollar := none }
                  (.index (.var "o") [.str nm]))]
              pure (.val (.arr refs))
            | _ => fail "type" "expected object"
          | "flattenArrays" => do
            match ← arg 0 with
            | .arr xs =>
              let mut refs : List Ref := []
              for x in xs do
                match ← forceV x with
                | .arr ys => refs := refs ++ ys
                | _ => fail "type" "flattenArrays(array of arrays)"
              pure (.val (.arr refs))
            | _ => fail "type" "flattenArrays(array)"
          | "join" => do
            match ← arg 0 with
            | .str sep =>
              match ← arg 1 with
              | .arr xs =>
                let mut out := ""
                let mut first := true
                for x in xs do
                  match ← forceV x with
                  | .str item =>
                    out := if first then item else out ++ sep ++ item
                    first := false
                  | .null => pure ()
                  | _ => fail "user" "in std.join all items should be strings"
                pure (.val (.str out))
              | _ => fail "type" "join(sep, array)"
            | .arr _ => undecided "join with an array separator"
            | _ => fail "type" "join(string or array, array)"
          | "foldr" => do
            match ← arg 0, ← arg 1 with
            | fv@(.func ..), .arr xs =>
              let mut acc := pos.getD 2 0
              for x in xs.reverse do
                let v ← expectVal (← run n (.call fv [x, acc] []))
                acc ← alloc (.done v)
              pure (.val (← forceV acc))
            | fv@(.func ..), .str str =>
              let mut acc := pos.getD 2 0
              for ch in str.toList.reverse do
                let rc ← alloc (.done (.str (String.singleton ch)))
                let v ← expectVal (← run n (.call fv [rc, acc] []))
                acc ← alloc (.done v)
              pure (.val (← forceV acc))
            | .builtin _, _ => undecided "foldr with builtin"
            | _, _ => fail "type" "foldr(function, array, init)"
          | "slice" => do
            let optInt (v : Val) : M (Option Int) := match v with
              | .null => pure none
              | .num f => if isInt f then pure (some (toInt f)) else fail "type" "slice index"
              | _ => fail "type" "slice index"
            let s ← optInt (← arg 1)
            let e ← optInt (← arg 2)
            let st ← optInt (← arg 3)
            let stN ← match st with
              | none => pure 1
              | some k => if k ≥ 1 then pure k.toNat else fail "type" "slice step"
            match ← arg 0 with
            | .arr xs => pure (.val (.arr (sliceList xs s e stN)))
            | .str str => pure (.val (.str (String.ofList (sliceList str.toList s e stN))))
            | _ => fail "type" "slice of non-indexable"
          | _ => undecided ("builtin " ++ name)
      | _ => fail "other" "only functions can be called"
    | .eval c e => do
      match e with
      | .null => pure (.val .null)
      | .tru => pure (.val (.bool true))
      | .fals => pure (.val (.bool false))
      | .num f => pure (.val (.num f))
      | .str s => pure (.val (.str s))
      | .self => match c.this with
        | some (o, _) => pure (.val (.obj o))
        | none => fail "other" "self outside of object"
      | .dollar => match c.dollar with
        | some o => pure (.val (.obj o))
        | none => fail "other" "$ outside of object"
      | .super => undecided "standalone super"
      | .unsupported w => undecided w
      | .var nm =>
        match lookupEnv c.env nm with
        | some r => pure (.val (← forceV r))
        | none =>
          if nm == "std" then undecided "std as a value"
          else fail "other" ("variable is not defined: " ++ nm)
      | .arr es => do
        let mut refs : List Ref := []
        for x in es do
          refs := refs ++ [← thunk c x]
        pure (.val (.arr refs))
      | .arrComp body specs => do
        match ← run n (.comp c specs) with
        | .ctxs cs =>
          let mut refs : List Ref := []
          for c' in cs do
            refs := refs ++ [← thunk c' body]
          pure (.val (.arr refs))
        | _ => undecided "internal: comp"
      | .func ps body => pure (.val (.func c ps body))
      | .ifE cnd t el => do
        match ← evalV c cnd with
        | .bool true => pure (.val (← evalV c t))
        | .bool false =>
          match el with
          | some e' => pure (.val (← evalV c e'))
          | none => pure (.val .null)
        | _ => fail "type" "if condition must be boolean"
      | .errorE m => do
        let mv ← evalV c m
        fail "user" (← toStrM mv)
      | .assertE cnd msg rest => do
        match ← evalV c cnd with
        | .bool true => pure (.val (← evalV c rest))
        | .bool false =>
          match msg with
          | none => fail "assert" "assertion failed"
          | some m => do
            let mv ← evalV c m
            fail "assert" (← toStrM mv)
        | _ => fail "type" "assert condition must be boolean"
      | .localE binds body => do
        let names := binds.map fun b => match b with | .val nm _ => nm | .fn nm _ _ => nm
        if names.eraseDups.length != names.length then fail "other" "duplicate local" else
        let c' ← bindLocals c binds c.this c.dollar
        pure (.val (← evalV c' body))
      | .unary op x => do
        match op, ← evalV c x with
        | .plus, .num f => pure (.val (.num f))
        | .minus, .num f => pure (.val (.num (-f)))
        | .not, .bool b => pure (.val (.bool !b))
        | .bitnot, .num f =>
          if isInt f then pure (.val (.num (ofInt (-(toInt f) - 1)))) else undecided "bitnot of non-integer"
        | _, _ => fail "type" "unary operator type"
      | .binary .and a b => do
        match ← evalV c a with
        | .bool false => pure (.val (.bool false))
        | av =>
          match av, ← evalV c b with
          | .bool x, .bool y => pure (.val (.bool (x && y)))
          | _, _ => fail "type" "&& operands"
      | .binary .or a b => do
        match ← evalV c a with
        | .bool true => pure (.val (.bool true))
        | av =>
          match av, ← evalV c b with
          | .bool x, .bool y => pure (.val (.bool (x || y)))
          | _, _ => fail "type" "|| operands"
      | .binary .in_ a .super => do
        match ← evalV c a with
        | .str f =>
          match c.this with
          | none => fail "other" "super outside of object"
          | some (o, sup) =>
            let ls ← layersOf o
            pure (.val (.bool (!(findDefs ls sup f).isEmpty)))
        | _ => fail "type" "in super needs a string"
      | .binary op a b => do
        let av ← evalV c a
        let bv ← evalV c b
        match op with
        | .eq => pure (.val (.bool (← equalsM av bv)))
        | .ne => pure (.val (.bool !(← equalsM av bv)))
        | .lt => pure (.val (.bool ((← compareM av bv) == .lt)))
        | .gt => pure (.val (.bool ((← compareM av bv) == .gt)))
        | .le => pure (.val (.bool ((← compareM av bv) != .gt)))
        | .ge => pure (.val (.bool ((← compareM av bv) != .lt)))
        | .in_ =>
          match av, bv with
          | .str f, .obj o => do pure (.val (.bool (hasFieldAll (← layersOf o) f)))
          | _, _ => fail "type" "in operands"
        | .add =>
          match av, bv with
          | .str x, .str y => pure (.val (.str (x ++ y)))
          | .num x, .str y => do pure (.val (.str ((← numStr x) ++ y)))
          | .str x, .num y => do pure (.val (.str (x ++ (← numStr y))))
          | .str x, o => do pure (.val (.str (x ++ (← toStrM o))))
          | o, .str y => do pure (.val (.str ((← toStrM o) ++ y)))
          | .num x, .num y => pure (.val (← tryNum (x + y)))
          | .arr x, .arr y => pure (.val (.arr (x ++ y)))
          | .obj x, .obj y => do
            let lx ← layersOf x
            let ly ← layersOf y
            pure (.val (.obj (← allocObj (lx ++ ly))))
          | _, _ => fail "type" "+ operands"
        | .sub => match av, bv with
          | .num x, .num y => pure (.val (← tryNum (x - y)))
          | _, _ => fail "type" "- operands"
        | .mul => match av, bv with
          | .num x, .num y => pure (.val (← tryNum (x * y)))
          | .str x, .num k | .num k, .str x =>
            -- jrsonnet extension: repetition, the count truncated to an unsigned integer
            if !isInt k then undecided "string repetition by a non-integer" else
            if k > 1000 then undecided "long string repetition" else
            pure (.val (.str (repeatStr x (toInt k).toNat)))
          | _, _ => fail "type" "* operands"
        | .div => match av, bv with
          | .str _, _ => fail "type" "/ operands"
          | _, .num y =>
            if y == 0 then fail "div0" "division by zero" else
            match av with
            | .num x => pure (.val (← tryNum (x / y)))
            | _ => fail "type" "/ operands"
          | _, _ => fail "type" "/ operands"
        | .mod => match av, bv with
          | .str _, _ => undecided "string formatting"
          | _, .num y =>
            if y == 0 then fail "div0" "division by zero" else
            match av with
            | .num x =>
              if isInt x && isInt y then pure (.val (.num (fmodInt x y)))
              else undecided "non-integer modulo"
            | _ => fail "type" "% operands"
          | _, _ => fail "type" "% operands"
        | .band | .bor | .bxor | .shl | .shr =>
          match av, bv with
          | .num x, .num y =>
            -- guards as in `NumValue::truncate_for_bitwise` / the shift arms of operator.rs (C09)
            if !finite x || !finite y then undecided "bitwise on non-finite" else
            let shift := op == .shl || op == .shr
            if shift && y < 0 then fail "user" "shift by negative exponent" else
            if x.abs > 9007199254740991.0 || y.abs > 9007199254740991.0 then
              fail "user" "numberic value outside of safe integer range for bitwise operation" else
            if !isSafeInt x || !isSafeInt y then undecided "bitwise on non-integers (C09)" else
            let a := toInt x
            let e := (toInt y).toNat % 64
            match op with
            | .shl =>
              if e ≥ 1 && (a ≥ 2 ^ (63 - e) || a < -(2 ^ (63 - e) : Int)) then
                fail "user" "left shift would overflow"
              else
                -- a safe integer times a power of two below 2^63 is exactly representable
                pure (.val (.num (ofInt (a * 2 ^ e))))
            | .shr => pure (.val (.num (ofInt (a / 2 ^ e))))
            | _ => pure (.val (.num (ofInt (bitOp op a (toInt y)))))
          | _, _ => fail "type" "bitwise operands"
        | .and | .or => undecided "internal: and/or"
      | .apply f pos named ts => do
        let fv ← evalV c f
        let mut prefs : List Ref := []
        for a in pos do
          if ts then
            let v ← evalV c a
            prefs := prefs ++ [← alloc (.done v)]
          else prefs := prefs ++ [← thunk c a]
        let mut nrefs : List (String × Ref) := []
        for (nm, a) in named do
          if ts then
            let v ← evalV c a
            nrefs := nrefs ++ [(nm, ← alloc (.done v))]
          else nrefs := nrefs ++ [(nm, ← thunk c a)]
        run n (.call fv prefs nrefs)
      | .slice x a b st => do
        let xv ← evalV c x
        let opt (o : Option Expr) : M Ref := match o with
          | none => alloc (.done .null)
          | some e' => do alloc (.done (← evalV c e'))
        let rx ← alloc (.done xv)
        let ra ← opt a
        let rb ← opt b
        let rs ← opt st
        run n (.call (.builtin "slice") [rx, ra, rb, rs] [])
      | .index (.var "std") (.str name :: rest) =>
        if (lookupEnv c.env "std").isSome then undecided "shadowed std" else
        if !rest.isEmpty then undecided "index into builtin" else
        match builtinArity name with
        | some _ => pure (.val (.builtin name))
        | none => undecided ("builtin " ++ name)
      | .index .super parts => do
        match c.this, parts with
        | none, _ => fail "other" "super outside of object"
        | some (o, sup), p :: rest =>
          if sup == 0 then fail "other" "no super found" else
          match ← evalV c p with
          | .str f =>
            match ← fieldM o f sup with
            | some v =>
              let r ← alloc (.done v)
              if rest.isEmpty then pure (.val v)
              else run n (.eval { c with env := ("$ix", r) :: c.env } (.index (.var "$ix") rest))
            | none => fail "nofield" ("no such field: " ++ f)
          | _ => fail "type" "super index must be a string"
        | _, [] => undecided "standalone super"
      | .index x parts => do
        let mut cur ← evalV c x
        for p in parts do
          let pv ← evalV c p
          match cur, pv with
          | .obj o, .str f =>
            let ls ← layersOf o
            match ← fieldM o f ls.length with
            | some v => cur := v
            | none => fail "nofield" ("no such field: " ++ f)
          | .obj _, _ => fail "type" "object index must be a string"
          | .arr xs, .num i =>
            if !isInt i then fail "type" "fractional index" else
            if i < 0 then fail "bounds" "array out of bounds" else
            match xs[(toInt i).toNat]? with
            | some r => cur ← forceV r
            | none => fail "bounds" "array out of bounds"
          | .arr _, _ => fail "type" "array index must be a number"
          | .str s, .num i =>
            if !isInt i then fail "type" "fractional index" else
            if i < 0 then fail "bounds" "string out of bounds" else
            match s.toList[(toInt i).toNat]? with
            | some ch => cur := .str (String.singleton ch)
            | none => fail "bounds" "string out of bounds"
          | .str _, _ => fail "type" "string index must be a number"
          | _, _ => fail "type" "cannot index into value"
        pure (.val cur)
      | .obj body | .objExt _ body => do
        let base : Option Val ← match e with
          | .objExt b _ => do pure (some (← evalV c b))
          | _ => pure none
        let baseLayers : List Layer ← match base with
          | none => pure []
          | some (.obj o) => layersOf o
          | some _ => pure []   -- `e { … }` is `e + { … }`: the object is built without a super, then added
        let mkField (fc : Ctx) (f : Field) : M (Option FieldDef) := do
          match f with
          | .mk nm plus ps vis value =>
            let name? : Option String ← match nm with
              | .fixed s => pure (some s)
              | .dyn ne => do
                match ← evalV fc ne with
                | .str s => pure (some s)
                | .null => pure none
                | _ => fail "type" "field name must be a string or null"
            match name? with
            | none => pure none
            | some name => pure (some { name := name, plus := plus, vis := vis, env := fc.env, body := wrapParams ps value })
        let layer : Layer ← match body with
          | .members locals asserts fields => do
            let mut fds : List FieldDef := []
            for f in fields do
              match ← mkField c f with
              | some fd =>
                if fds.any (fun g => g.name == fd.name) then fail "other" ("duplicate field name: " ++ fd.name)
                fds := fds ++ [fd]
              | none => pure ()
            pure { dollar := c.dollar, locals := locals, asserts := asserts, assertEnv := c.env, fields := fds }
          | .comp locals field specs => do
            match ← run n (.comp c specs) with
            | .ctxs cs =>
              let mut fds : List FieldDef := []
              for c' in cs do
                match ← mkField c' field with
                | some fd =>
                  if fds.any (fun g => g.name == fd.name) then fail "other" ("duplicate field name: " ++ fd.name)
                  fds := fds ++ [fd]
                | none => pure ()
              pure { dollar := c.dollar, locals := locals, asserts := [], assertEnv := c.env, fields := fds }
            | _ => undecided "internal: comp"
        let isEmpty := layer.fields.isEmpty && layer.asserts.isEmpty
        let ls := if isEmpty then baseLayers else baseLayers ++ [layer]
        let o ← allocObj ls
        match base with
        | none | some (.obj _) => pure (.val (.obj o))
        | some (.str x) => do pure (.val (.str (x ++ (← toStrM (.obj o)))))
        | some _ => fail "type" "+ operands"

/-- out of fuel.  (Also makes Lean generate the equation lemmas `run.eq_*` / `run.render.eq_*` HERE:
    generated lazily in two downstream proof modules they clash as soon as both are imported.) -/
theorem run_zero (t : Task) : run 0 t = undecided "fuel" := by simp only [run]
theorem run_render_zero (j : JV) : run.render 0 j = undecided "fuel" := by simp only [run.render]

/-- outcome of a whole program -/
inductive Outcome where
  | value (j : JV) (trace : List String)
  | error (cls msg : String) (trace : List String)
  | undecided (why : String)
  deriving Inhabited

def evalProgram (fuel : Nat) (e : Expr) : Outcome :=
  let prog : M JV := do
    let v ← expectVal (← run fuel (.eval { env := [], this := none, dollar := none } e))
    match ← run fuel (.manifest v) with
    | .json j => pure j
    | _ => undecided "internal"
  match prog.run.run {} with
  | (.ok j, s) => .value j s.trace
  | (.error (.err e), s) => .error e.cls e.msg s.trace
  | (.error (.undecided w), _) => .undecided w

end JrsVerif.Eval
