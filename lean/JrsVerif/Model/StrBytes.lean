/- C11 (round 3) — the string builtins that Rust executes on the UTF-8 BYTES of a `str`
   (`split`/`splitn`/`rsplitn`/`replace`/`ends_with`/`chars().count()`/`is_empty`/`chars()`/
   `escape_string_json_buf`/`escape_string_xml_buf`), modelled on byte lists (`List Nat`, the
   `enc` of Model/Str.lean), and `trim_matches` with the closure of `builtin_trim`.
   The searcher is modelled as what `StrSearcher` computes — the leftmost (from the back: the
   rightmost) occurrence of the needle among ALL byte offsets — not as the Two-Way algorithm
   that computes it (core library, trusted; reached through the correspondence run).
   Import-free apart from the extracted escape table (the driver links against this file). -/
import JrsVerif.Model.Str
import JrsVerif.Generated.Escape

namespace JrsVerif.Str
namespace Model

/-! ### `str::find`-style searchers over byte offsets -/

/-- `Searcher::next_match` for a non-empty needle: leftmost occurrence among all byte offsets;
    result = (`hay[..a]`, `hay[b..]`) for the match `(a, b)` -/
def nextMatch (pat : List Nat) : List Nat → Option (List Nat × List Nat)
  | [] => none
  | b :: t =>
    if pat.isPrefixOf (b :: t) then some ([], (b :: t).drop pat.length)
    else
      match nextMatch pat t with
      | some (p, q) => some (b :: p, q)
      | none => none

/-- `ReverseSearcher::next_match_back`: rightmost occurrence among all byte offsets -/
def nextMatchBack (pat : List Nat) : List Nat → Option (List Nat × List Nat)
  | [] => none
  | b :: t =>
    match nextMatchBack pat t with
    | some (p, q) => some (b :: p, q)
    | none => if pat.isPrefixOf (b :: t) then some ([], (b :: t).drop pat.length) else none

/-- `SplitN::next` driven to exhaustion (`count = none`: plain `Split`).
    `count == 1` → `get_end()` (the rest, unsearched); otherwise `Split::next`:
    `haystack[start..a]`, `start = b`; no further match → `get_end()`.
    Fuel: every match of a non-empty needle shortens the rest. -/
def splitnF (pat : List Nat) : Nat → Option Nat → List Nat → List (List Nat)
  | 0, _, bs => [bs]
  | f + 1, count, bs =>
    if count == some 0 then []
    else if count == some 1 then [bs]
    else
      match nextMatch pat bs with
      | none => [bs]
      | some (p, q) => p :: splitnF pat f (count.map (· - 1)) q

/-- `RSplitN::next` driven to exhaustion: pieces from the back (`haystack[b..end]`, `end = a`) -/
def rsplitnF (pat : List Nat) : Nat → Nat → List Nat → List (List Nat)
  | 0, _, bs => [bs]
  | f + 1, count, bs =>
    if count == 0 then []
    else if count == 1 then [bs]
    else
      match nextMatchBack pat bs with
      | none => [bs]
      | some (p, q) => q :: rsplitnF pat f (count - 1) p

/-- `builtin_splitlimit` on the bytes of its arguments (non-empty separator):
    `A(n) => str.splitn(n + 1, c)`, `B(_) => str.split(c)`; the pieces are byte slices -/
def splitLimitBytes (s sep : List Nat) (lim : Option Nat) : List (List Nat) :=
  splitnF (enc sep) ((enc s).length + 1) (lim.map (· + 1)) (enc s)

/-- `builtin_splitlimitr`: `A(n) => str.rsplitn(n + 1, c) … .rev()`, `B(_) => str.split(c)` -/
def splitLimitRBytes (s sep : List Nat) (lim : Option Nat) : List (List Nat) :=
  match lim with
  | none => splitnF (enc sep) ((enc s).length + 1) none (enc s)
  | some n => (rsplitnF (enc sep) ((enc s).length + 1) (n + 1) (enc s)).reverse

/-- `str::replace`: `for (start, part) in match_indices(from) { push(self[last_end..start]);
    push(to); last_end = start + part.len() }; push(self[last_end..])` -/
def replaceF (pat to : List Nat) : Nat → List Nat → List Nat
  | 0, bs => bs
  | f + 1, bs =>
    match nextMatch pat bs with
    | none => bs
    | some (p, q) => p ++ to ++ replaceF pat to f q

/-- `builtin_str_replace` on bytes, with its `from.is_empty()` guard -/
def strReplaceBytes (s from_ to : List Nat) : Option (List Nat) :=
  if from_.isEmpty then none
  else some (replaceF (enc from_) (enc to) ((enc s).length + 1) (enc s))

/-- `a.ends_with(b)` on `str`: `len ≥ pat.len && pat == self[len - pat.len ..]` on bytes -/
def endsWith (a b : List Nat) : Bool :=
  let ab := enc a
  let pb := enc b
  pb.length ≤ ab.length && ab.drop (ab.length - pb.length) == pb

/-- `str.chars().count()`: counts the bytes that are not continuation bytes -/
def lengthBytes (s : List Nat) : Nat := (enc s).countP (fun b => !isCont b)

/-- `str.is_empty()`: byte length zero -/
def isEmptyBytes (s : List Nat) : Bool := (enc s).length == 0

/-- `ArrValue::chars(str.chars())`: decode, one single-character string per `char` -/
def stringChars (s : List Nat) : Option (List (List Nat)) := (dec (enc s)).map (·.map ([·]))

/-- the closure of `builtin_trim` -/
def trimPred (v : Nat) : Bool :=
  v == 0x20 || v == 0x09 || v == 0x0A || v == 0x0C || v == 0x0D || v == 0x85 || v == 0xA0

/-- `str.trim_matches(filter)`: first non-matching char from the front, then from the back -/
def trim (s : List Nat) : List Nat :=
  ((s.dropWhile trimPred).reverse.dropWhile trimPred).reverse

/-! ### escapers on bytes -/

/-- `ESCAPE[byte as usize]` of crates/jrsonnet-evaluator/src/manifest.rs (extracted table) -/
def escRow (b : Nat) : Nat := (JrsVerif.Generated.Escape.ESCAPE.getD b 0).toNat

def hexDigitB (n : Nat) : Nat := (JrsVerif.Generated.Escape.HEX_DIGITS.getD n 0).toNat

/-- what `escape_string_json_buf` emits for one byte (run copying flattened; the loop itself with
    `start`/`i` is modelled and proved equal to this per-byte reading in C05's Model/Escape.lean) -/
def escJsonByte (b : Nat) : List Nat :=
  let e := escRow b
  if e == 0 then [b]
  else if e == 117 then [92, 117, 48, 48, hexDigitB (b / 16), hexDigitB (b % 16)]
  else [92, e]

/-- `escape_string_json(s)` over the bytes of `s` -/
def escapeJsonBytes (s : List Nat) : List Nat := [34] ++ (enc s).flatMap escJsonByte ++ [34]

/-- `xml_escape(c, XmlContext::Plain)` -/
def xmlEscByte (b : Nat) : List Nat :=
  if b == 60 then [38, 108, 116, 59]
  else if b == 62 then [38, 103, 116, 59]
  else if b == 38 then [38, 97, 109, 112, 59]
  else if b == 34 then [38, 113, 117, 111, 116, 59]
  else if b == 39 then [38, 97, 112, 111, 115, 59]
  else [b]

/-- `escape_string_xml_buf(str, Plain, out)`: the `bytes().find_map` / `split_at` loop flattened -/
def escapeXmlBytes (s : List Nat) : List Nat := (enc s).flatMap xmlEscByte

/-- `builtin_escape_string_bash`: `str.replace('\'', "'\"'\"'")`, then the two quotes -/
def escapeBashBytes (s : List Nat) : List Nat :=
  [39] ++ replaceF [39] [39, 34, 39, 34, 39] ((enc s).length + 1) (enc s) ++ [39]

/-- `builtin_escape_string_dollars`: `str.replace('$', "$$")` -/
def escapeDollarsBytes (s : List Nat) : List Nat :=
  replaceF [36] [36, 36] ((enc s).length + 1) (enc s)

/-! ### base64 crate, `STANDARD.decode` (canonical padding required, trailing bits rejected) is
    `Spec.b64Dec`; what is added here is the reference reading: a text decodes iff it is the
    encoding of its result (Props: `base64_decode_sound`). -/

/-! ### `parse_nat` with the f64 range: `mul_add` overflows to +∞, which stays +∞ and which
    `Val::Num` refuses (`NumValue::new` → "overflow"-class error) -/

/-- largest finite double as a natural -/
def f64Max : Nat := (2 ^ 53 - 1) * 2 ^ 971

/-- `base.mul_add(agg, digit)` on integer-valued doubles; `none` = +∞ -/
def fmaStep (base : Nat) (acc : Option Nat) (d : Nat) : Option Nat :=
  match acc with
  | none => none
  | some a =>
    let r := roundF64 (base * a + d)
    if r > f64Max then none else some r

/-- result of the fold: `none` = rejected digit, `some none` = +∞, `some (some v)` = finite -/
def parseNatGoX (base : Nat) : List Nat → Option Nat → Option (Option Nat)
  | [], acc => some acc
  | c :: cs, acc =>
    let d := digitOf base c
    if d < base then parseNatGoX base cs (fmaStep base acc d) else none

/-- outcome of `std.parseOctal/parseHex` (and the magnitude of `parseInt`): value or error;
    an infinite fold result is an error when the number is turned into a `Val` -/
def parseNatX (base : Nat) (s : List Nat) : Option Nat :=
  if s.isEmpty then none
  else
    match parseNatGoX base s (some 0) with
    | some (some v) => some v
    | _ => none

def parseIntX (s : List Nat) : Option Int :=
  match s with
  | 45 :: r => if r.isEmpty then none else Spec.negOf (parseNatX 10 r)
  | _ => Spec.posOf (parseNatX 10 s)

end Model

namespace Spec

/-- reference for `std.strReplace` that does not go through split: scan left to right, at an
    occurrence emit `to` and jump over it, otherwise copy one code point -/
def replaceScan (from_ to : List Nat) (s : List Nat) : List Nat :=
  match s with
  | [] => []
  | c :: t =>
    if from_.isPrefixOf (c :: t) then to ++ replaceScan from_ to (t.drop (from_.length - 1))
    else c :: replaceScan from_ to t
termination_by s.length
decreasing_by
  all_goals simp only [List.length_cons, List.length_drop]
  all_goals omega

/-- right-to-left split on code points: at most `n` splits, taken from the end -/
def rsplitGo (sep : List Nat) (n : Nat) (s : List Nat) : List (List Nat) :=
  ((splitGo sep.reverse (some n) s.reverse []).map List.reverse).reverse

end Spec

end JrsVerif.Str
