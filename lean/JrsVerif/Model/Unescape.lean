/- C06 — string escape decoding: `Unescape.unescape` mirrors crates/jrsonnet-ir/src/unescape.rs
   (iterator consumption order, u16/u32 accumulators with shifts, `char::from_u32`), with the shift
   amounts and escape letters EXTRACTED from the source; `Spec.decode` is the Jsonnet/JSON escape
   definition written arithmetically.  Strings are lists of code points. -/
import JrsVerif.Generated.Prec

namespace JrsVerif.Unescape
open JrsVerif.Generated

/-- `char::to_digit(16)` -/
def hexVal (c : Nat) : Option Nat :=
  if 48 ≤ c ∧ c ≤ 57 then some (c - 48)
  else if 97 ≤ c ∧ c ≤ 102 then some (c - 87)
  else if 65 ≤ c ∧ c ≤ 70 then some (c - 55)
  else none

/-- `char::from_u32(n).is_some()` -/
def isScalar (n : Nat) : Bool := n < 0xD800 || (0xE000 ≤ n && n < 0x110000)

/-- `decode_unicode`: four chars, each a hex digit, folded into a u16 -/
def hex4 (cs : List Nat) : Option Nat :=
  match cs with
  | a :: b :: c :: d :: _ =>
    match hexVal a, hexVal b, hexVal c, hexVal d with
    | some a, some b, some c, some d =>
      some ([a, b, c, d].foldl (fun acc v => ((acc <<< unescUShift) ||| v) % 65536) 0)
    | _, _, _, _ => none
  | _ => none

/-- the `'x'` arm: two chars, each a hex digit, folded into a u32 -/
def hex2 (cs : List Nat) : Option Nat :=
  match cs with
  | a :: b :: _ =>
    match hexVal a, hexVal b with
    | some a, some b => some ([a, b].foldl (fun acc v => ((acc <<< unescXShift) ||| v) % 4294967296) 0)
    | _, _ => none
  | _ => none

def lookup (k : Nat) : List (Nat × Nat) → Option Nat
  | [] => none
  | (a, v) :: r => if a = k then some v else lookup k r

def push (v : Nat) (r : Option (List Nat)) : Option (List Nat) := r.map (v :: ·)

def unescape (s : List Nat) : Option (List Nat) :=
  match s with
  | [] => some []
  | c :: rest =>
    if c ≠ 92 then push c (unescape rest)
    else
      match rest with
      | [] => none
      | e :: rest =>
        if unescSelf.contains e then push e (unescape rest)
        else
          match lookup e unescLetters with
          | some v => push v (unescape rest)
          | none =>
            if e = 117 then
              match hex4 rest with
              | none => none
              | some n1 =>
                if 0xDC00 ≤ n1 ∧ n1 ≤ 0xDFFF then none
                else if 0xD800 ≤ n1 ∧ n1 ≤ 0xDBFF then
                  match rest.drop 4 with
                  | 92 :: 117 :: rest2 =>
                    match hex4 rest2 with
                    | none => none
                    | some n2 =>
                      if 0xDC00 ≤ n2 ∧ n2 ≤ 0xDFFF then
                        let n := (((n1 - 0xD800) <<< 10) ||| (n2 - 0xDC00)) + 0x10000
                        if isScalar n then push n (unescape (rest.drop 10)) else none
                      else none
                  | _ => none
                else if isScalar n1 then push n1 (unescape (rest.drop 4)) else none
            else if e = 120 then
              match hex2 rest with
              | none => none
              | some c => if isScalar c then push c (unescape (rest.drop 2)) else none
            else none
termination_by s.length
decreasing_by all_goals (simp only [List.length_cons, List.length_drop]; omega)

end JrsVerif.Unescape

namespace JrsVerif.Spec
open JrsVerif.Unescape

/-- single-character escapes of the Jsonnet string grammar (JSON's, plus `\'`) -/
def simpleEscapes : List (Nat × Nat) :=
  [(34, 34), (39, 39), (92, 92), (47, 47), (98, 8), (102, 12), (110, 10), (114, 13), (116, 9)]

/-- value of exactly `n` hexadecimal digits at the head of `cs` -/
def hexNum : Nat → List Nat → Option Nat
  | 0, _ => some 0
  | _ + 1, [] => none
  | n + 1, c :: cs =>
    match hexVal c, hexNum n cs with
    | some d, some v => some (d * 16 ^ n + v)
    | _, _ => none

/-- the escape sequence following a backslash: (code point, number of characters consumed).
    `\uD800`–`\uDBFF` must be followed by `\uDC00`–`\uDFFF` (one supplementary code point); a lone
    low surrogate is an error; `\xHH` (jrsonnet extension) is the code point 0xHH. -/
def escape (cs : List Nat) : Option (Nat × Nat) :=
  match cs with
  | [] => none
  | e :: r =>
    match lookup e simpleEscapes with
    | some v => some (v, 1)
    | none =>
      if e = 117 then
        match hexNum 4 r with
        | none => none
        | some hi =>
          if 0xD800 ≤ hi ∧ hi < 0xDC00 then
            match r.drop 4 with
            | 92 :: 117 :: r2 =>
              match hexNum 4 r2 with
              | some lo =>
                if 0xDC00 ≤ lo ∧ lo < 0xE000 then
                  some (0x10000 + (hi - 0xD800) * 0x400 + (lo - 0xDC00), 11)
                else none
              | none => none
            | _ => none
          else if 0xDC00 ≤ hi ∧ hi < 0xE000 then none
          else some (hi, 5)
      else if e = 120 then
        match hexNum 2 r with
        | some v => some (v, 3)
        | none => none
      else none

def decode (s : List Nat) : Option (List Nat) :=
  match s with
  | [] => some []
  | c :: rest =>
    if c ≠ 92 then push c (decode rest)
    else
      match escape rest with
      | none => none
      | some (v, k) => if k = 0 then none else push v (decode (rest.drop k))
termination_by s.length
decreasing_by all_goals (simp only [List.length_cons, List.length_drop]; omega)

end JrsVerif.Spec
