/-
  Model of `crates/jrsonnet-interner/src/{lib,inner}.rs`: the thread-local pool of interned byte
  strings with the hand-written reference-count header, as coded.

  `Model` side (this file, namespace `JrsVerif.Intern`): allocations with their header
  (`rc`, `utf8` flag), the pool (one `Inner` per entry, each holding one reference), the
  handles (`IStr`/`IBytes` values the client holds), and every public operation decomposed into
  the same micro steps as the Rust code: `Inner::clone` (`incr`), `maybe_unpool`, `Inner::drop`
  (`decr`, frees at zero), `check_utf8`/`assume_utf8`, `intern_bytes` (lookup by contents, insert
  on miss, clone), `cast_str`/`cast_bytes` (clone first, then the consumed value drops).
  `none` = the Rust code would panic or touch freed memory here (refcount underflow, refcount
  overflow into the UTF-8 bit, the `pool.is_empty()` assertion, use after free).

  `Spec` side (namespace `JrsVerif.Intern.Spec`): the client's view — a list of live handles with
  their contents; equality is equality of contents; the pool is the set of contents of live handles.

  Import-free (core Lean + Generated constants) so that the driver links.
-/
import JrsVerif.Generated.Consts

namespace JrsVerif.Intern
open JrsVerif.Generated

abbrev Bytes := List Nat

/-! ### UTF-8 validity (Unicode 15 table 3-7), the meaning of `str::from_utf8(..).is_ok()` -/

def inR (b lo hi : Nat) : Bool := lo ≤ b && b ≤ hi

def validUtf8 : List Nat → Bool
  | [] => true
  | b0 :: rest =>
    if b0 < 0x80 then validUtf8 rest
    else match rest with
      | [] => false
      | b1 :: r1 =>
        if inR b0 0xC2 0xDF then inR b1 0x80 0xBF && validUtf8 r1
        else match r1 with
          | [] => false
          | b2 :: r2 =>
            if b0 == 0xE0 then inR b1 0xA0 0xBF && inR b2 0x80 0xBF && validUtf8 r2
            else if inR b0 0xE1 0xEC || inR b0 0xEE 0xEF then
              inR b1 0x80 0xBF && inR b2 0x80 0xBF && validUtf8 r2
            else if b0 == 0xED then inR b1 0x80 0x9F && inR b2 0x80 0xBF && validUtf8 r2
            else match r2 with
              | [] => false
              | b3 :: r3 =>
                if b0 == 0xF0 then
                  inR b1 0x90 0xBF && inR b2 0x80 0xBF && inR b3 0x80 0xBF && validUtf8 r3
                else if inR b0 0xF1 0xF3 then
                  inR b1 0x80 0xBF && inR b2 0x80 0xBF && inR b3 0x80 0xBF && validUtf8 r3
                else if b0 == 0xF4 then
                  inR b1 0x80 0x8F && inR b2 0x80 0xBF && inR b3 0x80 0xBF && validUtf8 r3
                else false

/-! ### State -/

inductive Kind where
  | str | bytes
  deriving DecidableEq, Repr, Inhabited

/-- one `alloc::alloc`ed block: header + data.  `live = false` after `dealloc`. -/
structure Alloc where
  data : Bytes
  rc : Nat
  utf8 : Bool
  live : Bool
  deriving Repr, Inhabited

/-- largest storable reference count (`REFCNT_MASK`): `set_refcnt` asserts `cnt & UTF8_MASK == 0` -/
def REFCNT_MAX : Nat := 2 ^ INTERN_REFCNT_BITS - 1

structure St where
  /-- address ↦ block; addresses are never reused in the model (a real allocator may reuse the
      address of a freed block, which cannot be confused with a live one) -/
  heap : Nat → Alloc
  next : Nat
  /-- keys of `POOL` (each key is an `Inner`, i.e. holds one reference) -/
  pool : List Nat
  /-- the client's live `IStr`/`IBytes` values: address + static type -/
  hs : List (Nat × Kind)

def upd (h : Nat → Alloc) (p : Nat) (a : Alloc) : Nat → Alloc := fun q => if q = p then a else h q

def init : St := { heap := fun _ => ⟨[], 0, false, false⟩, next := 0, pool := [], hs := [] }

/-! ### Micro steps (one per Rust function) -/

/-- `Inner::clone` -/
def incr (s : St) (p : Nat) : Option St :=
  let a := s.heap p
  if !a.live then none
  else if a.rc + 1 > REFCNT_MAX then none
  else some { s with heap := upd s.heap p { a with rc := a.rc + 1 } }

/-- `impl Drop for Inner` -/
def decr (s : St) (p : Nat) : Option St :=
  let a := s.heap p
  if !a.live then none
  else if a.rc = 0 then none
  else some { s with heap := upd s.heap p { a with rc := a.rc - 1, live := a.rc - 1 != 0 } }

/-- `impl PartialEq for Inner` : same address or same bytes -/
def keyEq (s : St) (q p : Nat) : Bool := q == p || (s.heap q).data == (s.heap p).data

/-- every key the hash map may compare against is readable -/
def poolLive (s : St) : Bool := s.pool.all (fun q => (s.heap q).live)

/-- `maybe_unpool` -/
def maybeUnpool (s : St) (p : Nat) : Option St :=
  let a := s.heap p
  if !a.live then none
  else if a.rc ≤ INTERN_UNPOOL_THRESHOLD then
    if !poolLive s then none
    else match s.pool.find? (fun q => keyEq s q p) with
      | some q => decr { s with pool := s.pool.erase q } q       -- `remove` drops the stored key
      | none => if s.pool.isEmpty then some s else none          -- `assert!(pool.is_empty(), ..)`
  else some s

/-- `impl Drop for IStr/IBytes` followed by the drop of the field -/
def dropInner (s : St) (p : Nat) : Option St :=
  (maybeUnpool s p).bind (fun s => decr s p)

/-- `intern_bytes` up to the returned (not yet stored) `IBytes` -/
def internInner (s : St) (b : Bytes) : Option (St × Nat) :=
  if !poolLive s then none
  else match s.pool.find? (fun q => (s.heap q).data == b) with
    | some q => (incr s q).map (fun s => (s, q))
    | none =>
      let p := s.next
      let s1 : St := { s with heap := upd s.heap p ⟨b, INTERN_INIT_REFCNT, false, true⟩,
                              next := p + 1, pool := p :: s.pool }
      (incr s1 p).map (fun s => (s, p))

def setUtf8 (s : St) (p : Nat) : St :=
  { s with heap := upd s.heap p { s.heap p with utf8 := true } }

/-- `Inner::check_utf8` (positive results are cached in the header) -/
def checkUtf8 (s : St) (p : Nat) : Option (St × Bool) :=
  let a := s.heap p
  if !a.live then none
  else if a.utf8 then some (s, true)
  else if validUtf8 a.data then some (setUtf8 s p, true)
  else some (s, false)

/-! ### Client operations -/

inductive Op where
  | internStr (b : Bytes)      -- `IStr::from(&str)`; `b` is the UTF-8 encoding
  | internBytes (b : Bytes)    -- `IBytes::from(&[u8])`
  | clone (i : Nat)
  | drop (i : Nat)
  | castStr (i : Nat)          -- `IBytes::cast_str(self)`; the value is consumed either way
  | castBytes (i : Nat)        -- `IStr::cast_bytes(self)`
  | handover                   -- `interop::exit_thread()`, then `reenter_thread` on a fresh thread
  deriving Repr, Inhabited

/-- `reenter_thread`: the receiving thread's current pool is dropped, the parked one installed -/
def reenter (s : St) (parked : List Nat) : Option St :=
  (s.pool.foldlM (fun s q => decr s q) s).map (fun s => { s with pool := parked })

def step (s : St) : Op → Option St
  | .internBytes b => do
      let (s1, p) ← internInner s b
      some { s1 with hs := s1.hs ++ [(p, .bytes)] }
  | .internStr b => do
      -- `intern_bytes(str.as_bytes()).cast_str_unchecked()`
      let (s1, p) ← internInner s b
      let s2 := setUtf8 s1 p
      let s3 ← incr s2 p
      let s4 ← dropInner s3 p
      some { s4 with hs := s4.hs ++ [(p, .str)] }
  | .clone i =>
      match s.hs[i]? with
      | none => none
      | some (p, k) => (incr s p).map (fun s1 => { s1 with hs := s1.hs ++ [(p, k)] })
  | .drop i =>
      match s.hs[i]? with
      | none => none
      | some (p, _) => (dropInner s p).map (fun s1 => { s1 with hs := s1.hs.eraseIdx i })
  | .castBytes i =>
      match s.hs[i]? with
      | some (p, .str) => do
          let s1 ← incr s p
          let s2 ← dropInner s1 p
          some { s2 with hs := s2.hs.set i (p, .bytes) }
      | _ => none
  | .castStr i =>
      match s.hs[i]? with
      | some (p, .bytes) => do
          let (s1, ok) ← checkUtf8 s p
          if ok then
            let s2 ← incr s1 p
            let s3 ← dropInner s2 p
            some { s3 with hs := s3.hs.set i (p, .str) }
          else
            let s2 ← dropInner s1 p
            some { s2 with hs := s2.hs.eraseIdx i }
      | _ => none
  | .handover =>
      -- exit_thread: the pool is taken (`mem::take`); a fresh thread starts with an empty pool
      reenter { s with pool := [] } s.pool

def run (s : St) : List Op → Option St
  | [] => some s
  | op :: ops => (step s op).bind (fun s' => run s' ops)

/-! ### What the harness can observe of a state -/

structure HObs where
  data : Bytes
  isStr : Bool
  rc : Nat          -- `verif_refcnt`
  cls : Nat         -- index of the first live handle that is `==` (pointer-equal) to this one
  pooled : Bool     -- the pool entry for these contents is this very allocation
  deriving Repr, DecidableEq

structure Obs where
  poolLen : Nat
  hs : List HObs
  deriving Repr, DecidableEq

def obs (s : St) : Obs :=
  { poolLen := s.pool.length,
    hs := s.hs.map (fun h =>
      { data := (s.heap h.1).data,
        isStr := h.2 == .str,
        rc := (s.heap h.1).rc,
        cls := s.hs.findIdx (fun g => g.1 == h.1),
        pooled := s.pool.find? (fun q => (s.heap q).data == (s.heap h.1).data) == some h.1 }) }

/-! ### Reference meaning -/
namespace Spec

abbrev SSt := List (Bytes × Kind)

def step (s : SSt) : Op → Option SSt
  | .internBytes b => some (s ++ [(b, .bytes)])
  | .internStr b => some (s ++ [(b, .str)])
  | .clone i => match s[i]? with
      | some h => some (s ++ [h])
      | none => none
  | .drop i => match s[i]? with
      | some _ => some (s.eraseIdx i)
      | none => none
  | .castBytes i => match s[i]? with
      | some (b, .str) => some (s.set i (b, .bytes))
      | _ => none
  | .castStr i => match s[i]? with
      | some (b, .bytes) => if validUtf8 b then some (s.set i (b, .str)) else some (s.eraseIdx i)
      | _ => none
  | .handover => some s

def run (s : SSt) : List Op → Option SSt
  | [] => some s
  | op :: ops => (step s op).bind (fun s' => run s' ops)

/-- distinct elements, first occurrences kept -/
def distinct : List Bytes → List Bytes
  | [] => []
  | b :: bs => if bs.contains b then distinct bs else b :: distinct bs

def obs (s : SSt) : Obs :=
  { poolLen := (distinct (s.map (·.1))).length,
    hs := s.map (fun h =>
      { data := h.1,
        isStr := h.2 == .str,
        rc := s.countP (fun g => g.1 == h.1) + 1,
        cls := s.findIdx (fun g => g.1 == h.1),
        pooled := true }) }

end Spec

/-- abstraction: what the client holds -/
def abs (s : St) : Spec.SSt := s.hs.map (fun h => ((s.heap h.1).data, h.2))

/-- operations the Rust types allow: indices of live values of the right static type, and
    `&str` arguments that are UTF-8 -/
def Op.valid (s : St) : Op → Bool
  | .internStr b => validUtf8 b
  | .internBytes _ => true
  | .clone i => i < s.hs.length
  | .drop i => i < s.hs.length
  | .castStr i => match s.hs[i]? with | some (_, .bytes) => true | _ => false
  | .castBytes i => match s.hs[i]? with | some (_, .str) => true | _ => false
  | .handover => true

end JrsVerif.Intern
