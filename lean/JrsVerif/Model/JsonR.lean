/- C05 Spec side: JSON values and an RFC 8259 reader written independently of the writer
   (string-token decoder incl. `\uXXXX` and surrogate pairs, number-token grammar with exact
   decimal → IEEE-754 double rounding, arrays/objects with arbitrary whitespace).
   Numbers are carried as their 64-bit IEEE pattern (`Nat`). -/
import JrsVerif.Model.Escape

namespace JrsVerif.Json
open JrsVerif.Escape

/-- JSON values as an independent reader sees them; object members in textual order -/
inductive J where
  | null
  | bool (b : Bool)
  | num (bits : Nat)
  | str (s : List UInt8)
  | arr (xs : List J)
  | obj (kvs : List (List UInt8 × J))
  deriving Inhabited

mutual
def J.beq : J → J → Bool
  | .null, .null => true
  | .bool a, .bool b => a == b
  | .num a, .num b => a == b
  | .str a, .str b => a == b
  | .arr a, .arr b => J.beqL a b
  | .obj a, .obj b => J.beqO a b
  | _, _ => false
def J.beqL : List J → List J → Bool
  | [], [] => true
  | x :: xs, y :: ys => J.beq x y && J.beqL xs ys
  | _, _ => false
def J.beqO : List (List UInt8 × J) → List (List UInt8 × J) → Bool
  | [], [] => true
  | (k, x) :: xs, (l, y) :: ys => k == l && J.beq x y && J.beqO xs ys
  | _, _ => false
end

/-! ### lexical helpers -/

def isWs (b : UInt8) : Bool := b == 0x20 || b == 0x0A || b == 0x0D || b == 0x09

def skipWs : List UInt8 → List UInt8
  | [] => []
  | b :: r => if isWs b then skipWs r else b :: r

def isDigit (b : UInt8) : Bool := 0x30 ≤ b && b ≤ 0x39

/-- bytes that may occur in a number token -/
def numChar (b : UInt8) : Bool :=
  isDigit b || b == 0x2D || b == 0x2B || b == 0x2E || b == 0x65 || b == 0x45

def stripPrefix : List UInt8 → List UInt8 → Option (List UInt8)
  | [], inp => some inp
  | _ :: _, [] => none
  | p :: ps, b :: r => if p == b then stripPrefix ps r else none

/-! ### string tokens -/

def hexVal (b : UInt8) : Option Nat :=
  if 0x30 ≤ b && b ≤ 0x39 then some (b.toNat - 0x30)
  else if 0x61 ≤ b && b ≤ 0x66 then some (b.toNat - 0x61 + 10)
  else if 0x41 ≤ b && b ≤ 0x46 then some (b.toNat - 0x41 + 10)
  else none

def hex4 (a b c d : UInt8) : Option Nat :=
  match hexVal a, hexVal b, hexVal c, hexVal d with
  | some a, some b, some c, some d => some (((a * 16 + b) * 16 + c) * 16 + d)
  | _, _, _, _ => none

/-- the character denoted by the letter after a backslash (other than `u`) -/
def simpleEsc (e : UInt8) : Option UInt8 :=
  if e == 0x22 then some 0x22        -- \"
  else if e == 0x5C then some 0x5C   -- \\
  else if e == 0x2F then some 0x2F   -- \/
  else if e == 0x62 then some 0x08   -- \b
  else if e == 0x66 then some 0x0C   -- \f
  else if e == 0x6E then some 0x0A   -- \n
  else if e == 0x72 then some 0x0D   -- \r
  else if e == 0x74 then some 0x09   -- \t
  else none

def consTo (pre : List UInt8) : Option (List UInt8 × List UInt8) → Option (List UInt8 × List UInt8)
  | some (s, rest) => some (pre ++ s, rest)
  | none => none

/-- result of decoding one item of a string body -/
inductive StrTok where
  | close (rest : List UInt8)                       -- the closing quote
  | chunk (bs : List UInt8) (rest : List UInt8)     -- decoded bytes (UTF-8) of one character
  | bad

/-- low half of a surrogate pair: `\uDC00`..`\uDFFF` must follow -/
def decodeLow (hi : Nat) : List UInt8 → StrTok
  | x :: y :: a :: b :: c :: d :: r =>
    if x == 0x5C && y == 0x75 then
      match hex4 a b c d with
      | none => .bad
      | some lo =>
        if 0xDC00 ≤ lo && lo < 0xE000 then
          .chunk (utf8 (0x10000 + (hi - 0xD800) * 1024 + (lo - 0xDC00))) r
        else .bad
    else .bad
  | _ => .bad

/-- after `\u` -/
def decodeU : List UInt8 → StrTok
  | a :: b :: c :: d :: r =>
    match hex4 a b c d with
    | none => .bad
    | some cp =>
      if 0xD800 ≤ cp && cp < 0xDC00 then decodeLow cp r
      else if 0xDC00 ≤ cp && cp < 0xE000 then .bad
      else .chunk (utf8 cp) r
  | _ => .bad

/-- after a backslash -/
def decodeEsc : List UInt8 → StrTok
  | [] => .bad
  | e :: r =>
    if e == 0x75 then decodeU r
    else
      match simpleEsc e with
      | none => .bad
      | some ch => .chunk [ch] r

/-- one item of a string body; raw bytes below 0x20 are rejected -/
def decodeOne : List UInt8 → StrTok
  | [] => .bad
  | b :: r =>
    if b == 0x22 then .close r
    else if b == 0x5C then decodeEsc r
    else if b < 0x20 then .bad
    else .chunk [b] r

/-- body of a string token (after the opening quote) up to and including the closing quote:
    decoded content (UTF-8 bytes) and the remaining input (fuel: one unit per item). -/
def pStrBodyF : Nat → List UInt8 → Option (List UInt8 × List UInt8)
  | 0, _ => none
  | f + 1, inp =>
    match decodeOne inp with
    | .close r => some ([], r)
    | .chunk bs r => consTo bs (pStrBodyF f r)
    | .bad => none

def pStrBody (inp : List UInt8) : Option (List UInt8 × List UInt8) := pStrBodyF inp.length inp

/-- a complete string token: `"` body `"` -/
def pString : List UInt8 → Option (List UInt8 × List UInt8)
  | [] => none
  | b :: r => if b == 0x22 then pStrBody r else none

/-! ### number tokens -/

def natOfDigits (ds : List UInt8) : Nat := ds.foldl (fun acc d => acc * 10 + (d.toNat - 0x30)) 0

/-- grammar `-? (0|[1-9][0-9]*) (\.[0-9]+)? ([eE][+-]?[0-9]+)?`; result: sign, m, e with value m·10^e -/
def parseNumTok (t : List UInt8) : Option (Bool × Nat × Int) :=
  let (neg, t) := match t with
    | [] => (false, t)
    | b :: r => if b == 0x2D then (true, r) else (false, t)
  let ip := t.takeWhile isDigit
  let t := t.dropWhile isDigit
  if ip.isEmpty then none
  else if ip.length > 1 && ip.head? == some 0x30 then none
  else
    let fr : Option (List UInt8 × List UInt8) := match t with
      | [] => some ([], t)
      | b :: r =>
        if b == 0x2E then
          let fp := r.takeWhile isDigit
          if fp.isEmpty then none else some (fp, r.dropWhile isDigit)
        else some ([], t)
    match fr with
    | none => none
    | some (fp, t) =>
      let ex : Option (Int × List UInt8) := match t with
        | [] => some (0, t)
        | b :: r =>
          if b == 0x65 || b == 0x45 then
            let (eneg, r) := match r with
              | [] => (false, r)
              | s :: r' => if s == 0x2D then (true, r') else if s == 0x2B then (false, r') else (false, r)
            let ds := r.takeWhile isDigit
            if ds.isEmpty then none
            else
              let v : Int := natOfDigits ds
              some (if eneg then -v else v, r.dropWhile isDigit)
          else some (0, t)
      match ex with
      | none => none
      | some (e, t) =>
        if t.isEmpty then some (neg, natOfDigits (ip ++ fp), e - fp.length) else none

/-- `n/d ≥ 2^k` -/
def geP2 (n d : Nat) (k : Int) : Bool :=
  if k ≥ 0 then n ≥ d * 2 ^ k.toNat else n * 2 ^ (-k).toNat ≥ d

/-- IEEE-754 binary64 pattern (without sign) nearest to the positive rational `n/d`,
    ties to even; `none` when it rounds to infinity -/
def roundToBits (n d : Nat) : Option Nat :=
  let e0 : Int := (Nat.log2 n : Int) - (Nat.log2 d : Int)
  let e2 : Int := if geP2 n d e0 then e0 else e0 - 1
  let shift : Int := if e2 < -1022 then 1074 else 52 - e2
  let n' := if shift ≥ 0 then n * 2 ^ shift.toNat else n
  let d' := if shift ≥ 0 then d else d * 2 ^ (-shift).toNat
  let q := n' / d'
  let r := n' % d'
  let q := if 2 * r > d' || (2 * r == d' && q % 2 == 1) then q + 1 else q
  let bits := if e2 < -1022 then q else (e2 + 1022).toNat * 2 ^ 52 + q
  if bits ≥ 0x7FF0000000000000 then none else some bits

/-- the double a JSON number token denotes -/
def numVal (t : List UInt8) : Option Nat :=
  match parseNumTok t with
  | none => none
  | some (neg, m, e) =>
    let mag : Option Nat :=
      if m == 0 then some 0
      else if e ≥ 0 then roundToBits (m * 10 ^ e.toNat) 1
      else roundToBits m (10 ^ (-e).toNat)
    match mag with
    | none => none
    | some b => some (if neg then b + 2 ^ 63 else b)

/-- number token = maximal run of number bytes -/
def pNum (inp : List UInt8) : Option (J × List UInt8) :=
  match numVal (inp.takeWhile numChar) with
  | none => none
  | some d => some (.num d, inp.dropWhile numChar)

/-! ### values -/

def mapFst {α β γ : Type} (f : α → β) : Option (α × γ) → Option (β × γ)
  | some (a, r) => some (f a, r)
  | none => none

def lit (v : J) : Option (List UInt8) → Option (J × List UInt8)
  | some r => some (v, r)
  | none => none

mutual
/-- one value at the head of the input (no leading whitespace) -/
def pVal : Nat → List UInt8 → Option (J × List UInt8)
  | 0, _ => none
  | f + 1, inp =>
    match inp with
    | [] => none
    | b :: r =>
      if b == 0x22 then mapFst J.str (pStrBody r)
      else if b == 0x5B then
        match skipWs r with
        | [] => none
        | c :: r' => if c == 0x5D then some (.arr [], r') else mapFst J.arr (pElems f (c :: r'))
      else if b == 0x7B then
        match skipWs r with
        | [] => none
        | c :: r' => if c == 0x7D then some (.obj [], r') else mapFst J.obj (pFields f (c :: r'))
      else if b == 0x6E then lit J.null (stripPrefix [0x75, 0x6C, 0x6C] r)
      else if b == 0x74 then lit (J.bool true) (stripPrefix [0x72, 0x75, 0x65] r)
      else if b == 0x66 then lit (J.bool false) (stripPrefix [0x61, 0x6C, 0x73, 0x65] r)
      else if b == 0x2D || isDigit b then pNum inp
      else none
/-- `value (ws , ws value)* ws ]` -/
def pElems : Nat → List UInt8 → Option (List J × List UInt8)
  | 0, _ => none
  | f + 1, inp =>
    match pVal f inp with
    | none => none
    | some (v, r) =>
      match skipWs r with
      | [] => none
      | c :: r' =>
        if c == 0x2C then mapFst (fun tl => v :: tl) (pElems f (skipWs r'))
        else if c == 0x5D then some ([v], r')
        else none
/-- `string ws : ws value (ws , ws string ws : ws value)* ws }` -/
def pFields : Nat → List UInt8 → Option (List (List UInt8 × J) × List UInt8)
  | 0, _ => none
  | f + 1, inp =>
    match pString inp with
    | none => none
    | some (k, r1) =>
      match skipWs r1 with
      | [] => none
      | c1 :: r2 =>
        if c1 == 0x3A then
          match pVal f (skipWs r2) with
          | none => none
          | some (v, r3) =>
            match skipWs r3 with
            | [] => none
            | c :: r4 =>
              if c == 0x2C then mapFst (fun tl => (k, v) :: tl) (pFields f (skipWs r4))
              else if c == 0x7D then some ([(k, v)], r4)
              else none
        else none
end

/-- a whole JSON text: ws value ws, nothing else -/
def read (inp : List UInt8) : Option J :=
  match pVal (inp.length + 1) (skipWs inp) with
  | none => none
  | some (v, r) => if (skipWs r).isEmpty then some v else none

end JrsVerif.Json
