/- C20 — formatter: the parts of "formatting never crashes / is a fixed point" that are logic.

   * `Fmt`     : the diagnostic branch of `jrsonnet_formatter::format` (lib.rs): for every parse
                 error the annotated byte range is computed by `error_annotation_range`
                 (translated from the source into `Generated.FmtRange`) and handed to hi-doc's
                 `AnnotationBuilder::range`, which asserts `*range.end() < src.len()`.
   * `FmtMain` : `cmds/jrsonnet-fmt/src/main.rs: main_result` — the convergence loop, the
                 `--conv-limit` assertion and the `--test` decision, as a function of an abstract
                 `ft : Text → Option Text` (= `format(..)` followed by `.trim()`; `none` = parse
                 error) — the layout engine itself is NOT modelled.
   No Mathlib (the driver links this file). -/
import JrsVerif.Generated.FmtRange

namespace JrsVerif.FmtDiag
open JrsVerif.Generated.FmtRange

/-- what one `format` call does -/
inductive Res where
  | formatted   -- no parse error: the printers run (not modelled)
  | diag        -- `Err(SnippetBuilder)`: a diagnostic is reported
  | panic
deriving Repr, DecidableEq

/-- hi-doc 0.3.0 `AnnotationBuilder::range`: `assert!(*range.end() < self.snippet.src.len())` -/
def hiDocAccepts (len : Nat) (r : Nat × Nat) : Bool := decide (r.2 < len)

/-- one iteration of `for error in errors { .. }` -/
def annotate (len : Nat) (err : Nat × Nat) : Res :=
  match errorAnnotationRange err.1 err.2 len with
  | .panic => .panic
  | .ok none => .diag                      -- annotation without a range
  | .ok (some r) => if hiDocAccepts len r then .diag else .panic

/-- the error branch: the first panicking annotation aborts -/
def annotateAll (len : Nat) : List (Nat × Nat) → Res
  | [] => .diag
  | e :: es => match annotate len e with
    | .panic => .panic
    | _ => annotateAll len es

/-- `format` as far as it is modelled: `errs` = ranges of the parser's `LocatedSyntaxError`s -/
def format (len : Nat) (errs : List (Nat × Nat)) : Res :=
  if errs.isEmpty then .formatted else annotateAll len errs

/-- reference meaning: valid text is formatted, invalid text gets a diagnostic, nothing panics -/
def formatSpec (errs : List (Nat × Nat)) : Res :=
  if errs.isEmpty then .formatted else .diag

/-- ranges the tree builder (`Sink::finish`) produces: ordered and inside the text -/
def RangeWF (len : Nat) (e : Nat × Nat) : Prop := e.1 ≤ e.2 ∧ e.2 ≤ len

end JrsVerif.FmtDiag

namespace JrsVerif.FmtMain

abbrev Text := List Char

inductive Outcome where
  | parseError                 -- `return Err(Error::Parse)`  → exit code 1
  | notConverged               -- `assert!(iteration <= opts.conv_limit)` fails → panic
  | done (formatted : Text)
deriving Repr, DecidableEq

/-- the `loop { .. }` of `main_result`.  `iteration` = value of the variable on loop entry.
    Returns the outcome and the number of `format` calls made. -/
def loop (ft : Text → Option Text) (limit : Nat) (formatted : Text) (iteration : Nat) :
    Outcome × Nat :=
  match ft formatted with
  | none => (.parseError, 1)
  | some tmp =>
    if formatted == tmp then (.done formatted, 1)
    else if limit == 0 then (.done tmp, 1)
    else if limit < iteration + 1 then (.notConverged, 1)
    else
      let r := loop ft limit tmp (iteration + 1)
      (r.1, r.2 + 1)
termination_by limit - iteration
decreasing_by omega

/-- `opts.indent == 0 → hard_tabs`, then `FormatOptions.indent` (0 = hard tabs) -/
def effIndent (indent : Nat) (hardTabs : Bool) : Nat :=
  if indent == 0 || hardTabs then 0 else indent

structure Exit where
  code : Nat          -- 0, 1, or 101 (panic)
  stdout : Text
deriving Repr, DecidableEq

/-- `main_result` + `main` for `-e`/file input without `--in-place` -/
def main (ft : Text → Option Text) (limit : Nat) (test : Bool) (input : Text) : Exit :=
  match (loop ft limit input 0).1 with
  | .parseError => ⟨1, []⟩
  | .notConverged => ⟨101, []⟩
  | .done f =>
    let out := f ++ ['\n']
    if test && out != input then ⟨1, []⟩ else ⟨0, out⟩

end JrsVerif.FmtMain
