/-
  C19 — translation validation of the formatter.

  The formatter itself (900 lines of printers over dprint-core) is NOT modelled.  What is modelled
  is the *validator* that every formatter output is run through:

  * `Tree`      : the serialised abstract syntax tree of the evaluator's parser (spans erased);
                  produced by the harness walker `c19.rs: tree` over `jrsonnet_ir::Expr`.
  * `norm`      : the documented sugar normal form
                    local f = function(ps) e  ↦  local f(ps) = e
                    f: function(ps) e         ↦  f(ps): e          (only without `+`)
  * `validate`  : `norm i = norm o`.
  * `Alg`/`fold`: an arbitrary *compositional* semantics of serialised programs (the meaning of a
                  node is a function of its label and the meanings of its children);
                  `SugarLaws` says that it gives both members of each sugar pair the same meaning.
  * `comments`  : projection of a token stream (real lexer) onto its comments.
  * `wf` (Model/FmtWf.lean) : the shape grammar of the serialisation (what the walker can emit).

  Import-free apart from the generated comment-kind table.
-/
import JrsVerif.Generated.FmtKinds

namespace JrsVerif.Fmt

inductive Tree where
  | atom (s : String)
  | node (label : String) (kids : List Tree)
  deriving Inhabited, Repr

mutual
def Tree.decEq : (a b : Tree) → Decidable (a = b)
  | .atom s, .atom t =>
    if h : s = t then isTrue (by rw [h]) else isFalse (by intro e; cases e; exact h rfl)
  | .atom _, .node .. => isFalse (by intro e; cases e)
  | .node .., .atom _ => isFalse (by intro e; cases e)
  | .node l ks, .node l' ks' =>
    if h : l = l' then
      match Tree.decEqList ks ks' with
      | isTrue h2 => isTrue (by rw [h, h2])
      | isFalse h2 => isFalse (by intro e; cases e; exact h2 rfl)
    else isFalse (by intro e; cases e; exact h rfl)
def Tree.decEqList : (a b : List Tree) → Decidable (a = b)
  | [], [] => isTrue rfl
  | [], _ :: _ => isFalse (by intro e; cases e)
  | _ :: _, [] => isFalse (by intro e; cases e)
  | a :: as, b :: bs =>
    match Tree.decEq a b, Tree.decEqList as bs with
    | isTrue h1, isTrue h2 => isTrue (by rw [h1, h2])
    | isFalse h1, _ => isFalse (by intro e; cases e; exact h1 rfl)
    | _, isFalse h2 => isFalse (by intro e; cases e; exact h2 rfl)
end
instance : DecidableEq Tree := Tree.decEq

/-! ### sugar normal form -/

/-- rewrite of the two documented sugar pairs at the root of a tree (children untouched) -/
def sugarHead : Tree → Tree
  | .node "bind" [.node "dfull" [n], .node "func" [.node "params" ps, body]] =>
      .node "fn" [.node "dfull" [n], .node "params" ps, body]
  | .node "field" [nm, .atom "false", .node "none" [], vis, .node "func" [.node "params" ps, body]] =>
      .node "field" [nm, .atom "false", .node "params" ps, vis, body]
  | t => t

mutual
def norm : Tree → Tree
  | .atom s => .atom s
  | .node l ks => sugarHead (.node l (normList ks))
def normList : List Tree → List Tree
  | [] => []
  | t :: ts => norm t :: normList ts
end

/-- the validator: equal normal forms -/
def validate (i o : Tree) : Prop := norm i = norm o

instance (i o : Tree) : Decidable (validate i o) := inferInstanceAs (Decidable (norm i = norm o))

/-! ### compositional semantics -/

structure Alg (α : Type) where
  atom : String → α
  node : String → List α → α

mutual
def fold {α : Type} (A : Alg α) : Tree → α
  | .atom s => A.atom s
  | .node l ks => A.node l (foldList A ks)
def foldList {α : Type} (A : Alg α) : List Tree → List α
  | [] => []
  | t :: ts => fold A t :: foldList A ts
end

/-- the semantics gives both members of each documented sugar pair the same meaning -/
structure SugarLaws {α : Type} (A : Alg α) : Prop where
  local_fn : ∀ (n body : α) (ps : List α),
    A.node "bind" [A.node "dfull" [n], A.node "func" [A.node "params" ps, body]]
      = A.node "fn" [A.node "dfull" [n], A.node "params" ps, body]
  field_fn : ∀ (nm vis body : α) (ps : List α),
    A.node "field" [nm, A.atom "false", A.node "none" [], vis, A.node "func" [A.node "params" ps, body]]
      = A.node "field" [nm, A.atom "false", A.node "params" ps, vis, body]

/-- the reverse reading of the sugar (expand `fn` binds and methods into explicit functions) as an
    algebra: a semantics that is NOT the identity and satisfies the laws -/
def expandAlg : Alg Tree where
  atom := .atom
  node := fun l ks =>
    match l, ks with
    | "fn", [.node "dfull" [n], ps, body] => .node "bind" [.node "dfull" [n], .node "func" [ps, body]]
    | "field", [nm, .atom "false", .node "params" ps, vis, body] =>
        .node "field" [nm, .atom "false", .node "none" [], vis, .node "func" [.node "params" ps, body]]
    | l, ks => .node l ks

/-! ### comments -/

structure Tok where
  kind : String
  text : String
  deriving Repr, DecidableEq, Inhabited

def isComment (t : Tok) : Bool := Generated.FmtKinds.commentKinds.contains t.kind
def isTrivia (t : Tok) : Bool := Generated.FmtKinds.triviaKinds.contains t.kind

def dropPrefix (p : List Char) (s : List Char) : List Char :=
  if p.isPrefixOf s then s.drop p.length else s

def isWs (c : Char) : Bool := c == ' ' || c == '\n' || c == '\t' || c == '\r'

/-- split on white space -/
def wordsAux : List Char → List Char → List (List Char) → List (List Char)
  | [], cur, acc => (if cur.isEmpty then acc else cur.reverse :: acc).reverse
  | c :: r, cur, acc =>
    if isWs c then wordsAux r [] (if cur.isEmpty then acc else cur.reverse :: acc)
    else wordsAux r (c :: cur) acc

/-- the text of a comment up to layout: the markers of ITS kind (`/*` and `*/`, or `#`, or `//`)
    removed - one marker, not every marker-like prefix: `#//x` is a hash comment with the text
    `//x`, `/*#x*/` a block comment with the text `#x` -, split on white space, words made of `*`
    only (doc-comment gutters) dropped -/
def commentWords (text : String) : List String :=
  let cs := text.toList
  let cs :=
    if ['/', '*'].isPrefixOf cs then (dropPrefix ['/', '*'] (cs.drop 2).reverse).reverse
    else if ['#'].isPrefixOf cs then cs.drop 1
    else dropPrefix ['/', '/'] cs
  ((wordsAux cs [] []).filter (fun w => !(w.all (· == '*')))).map String.ofList

/-- comment sequence of a token stream: kind and text-up-to-layout, in order -/
def comments (ts : List Tok) : List (String × List String) :=
  ts.filterMap fun t => if isComment t then some (t.kind, commentWords t.text) else none

def isSubseq {α} [DecidableEq α] : List α → List α → Bool
  | [], _ => true
  | _ :: _, [] => false
  | a :: as, b :: bs => if a = b then isSubseq as bs else isSubseq (a :: as) bs

/-! ### the per-case verdict evaluated by the driver -/

structure Case where
  declined : Bool
  panicked : Bool
  inAst : Tree
  outAst : Option Tree          -- none: the evaluator's parser rejected the output
  inToks : List Tok
  outToks : List Tok
  evalSame : Bool               -- harness: real evaluator gave the same result for both texts
  binSame : Bool                -- harness: jrsonnet-fmt binary printed what the library returned

def Case.astOk (c : Case) : Bool :=
  match c.outAst with
  | some o => decide (validate c.inAst o)
  | none => false

def Case.commentsOk (c : Case) : Bool := comments c.inToks == comments c.outToks

def accept (c : Case) : Bool :=
  !c.panicked && (c.declined || (c.astOk && c.commentsOk && c.evalSame && c.binSame))

end JrsVerif.Fmt
