/-
  Literal transliteration of `ObjValue::get_idx_uncached` and `ObjValue::get_idx`
  (`crates/jrsonnet-evaluator/src/obj/mod.rs`), statement by statement, so that the refactored
  walker `Obj.collect` can be PROVED equal to the loop that exists (Proofs/ObjLit.lean) instead of
  being trusted as a hand translation.

    let mut first_add = None; let mut add_stack = Vec::new(); let mut skip = Saturating(0);
    for (sup, core) in self.0.cores[..core.idx].iter().enumerate().rev() {
        match core.0.get_for_core(key, sup_this, skip.0 != 0)? {
            GetFor::Final(val) if first_add.is_none() => { if skip.0 == 0 { return Ok(Some(val)); } }
            GetFor::Final(val) => { if skip.0 == 0 { add_stack.push(val); break; } }
            GetFor::SuperPlus(val) => { if skip.0 == 0 { if first_add.is_none() { first_add = Some(val) }
                                                          else { add_stack.push(val) } } }
            GetFor::Omit(new_skip) => { skip = skip.max(new_skip + Saturating(1)); }
            GetFor::NotFound => {}
        }
        skip -= 1;
    }
    let Some(first) = first_add else { if add_stack.is_empty() { return Ok(None) }
                                       return Ok(Some(add_stack.pop().expect(..))) };
    if add_stack.is_empty() { return Ok(Some(first)) }
    add_stack.insert(0, first);
    let mut values = add_stack.into_iter().rev();
    let init = values.next().expect(..);
    values.try_fold(init, |a, b| evaluate_add_op(&a, &b)).map(Some)

  A member body evaluated with `sup` is the opaque pair `(field, sup)`; the result of the function
  is the list of such values in the order in which `try_fold` adds them up (`none` = `Ok(None)`).
  Import-free (core Lean + Model/Obj).
-/
import JrsVerif.Model.Obj

namespace JrsVerif.Obj

/-- `usize::MAX` (64-bit targets): `Skip = Saturating<usize>` -/
def USIZE_MAX : Nat := 2 ^ 64 - 1
/-- `Saturating<usize> + Saturating<usize>` -/
def satAdd (a b : Nat) : Nat := min (a + b) USIZE_MAX
/-- `Saturating<usize> -= 1` -/
def satDec (a : Nat) : Nat := a - 1

/-- a member body evaluated with `SupThis { sup, this }` -/
abbrev Contrib := Field × Nat

/-- `enum GetFor` -/
inductive GetFor where
  | final (v : Contrib)
  | superPlus (v : Contrib)
  | omit (k : Nat)
  | notFound
  deriving Repr, DecidableEq

/-- `ObjectCore::get_for_core` for `OopObject` (obj/oop.rs) and `OmitFieldsCore` (obj/mod.rs) -/
def getForCore (c : Core) (sup : Nat) (n : Name) (omitOnly : Bool) : GetFor :=
  match c with
  | .oop fs _ =>
      if omitOnly then .notFound
      else match lookup fs n with
        | some f => if f.add then .superPlus (f, sup) else .final (f, sup)
        | none => .notFound
  | .omitC ns k => if ns.contains n then .omit k else .notFound

/-- the three `let mut` of the loop -/
structure LoopSt where
  firstAdd : Option Contrib
  addStack : List Contrib      -- `Vec`: `push` appends at the end
  skip : Nat
  deriving Repr, DecidableEq

def LoopSt.init : LoopSt := ⟨none, [], 0⟩

/-- what one execution of the loop body does to the control flow -/
inductive Flow where
  | ret (v : Contrib)          -- `return Ok(Some(val))`
  | brk (st : LoopSt)          -- `break`
  | next (st : LoopSt)         -- fall through to `skip -= 1` and the next iteration

/-- one iteration, arm by arm -/
def loopBody (st : LoopSt) (c : Core) (sup : Nat) (n : Name) : Flow :=
  match getForCore c sup n (st.skip != 0) with
  | .final v =>
      if st.firstAdd.isNone then
        if st.skip == 0 then .ret v
        else .next { st with skip := satDec st.skip }
      else
        if st.skip == 0 then .brk { st with addStack := st.addStack ++ [v] }
        else .next { st with skip := satDec st.skip }
  | .superPlus v =>
      let st1 :=
        if st.skip == 0 then
          if st.firstAdd.isNone then { st with firstAdd := some v }
          else { st with addStack := st.addStack ++ [v] }
        else st
      .next { st1 with skip := satDec st1.skip }
  | .omit k =>
      .next { st with skip := satDec (max st.skip (satAdd k 1)) }
  | .notFound => .next { st with skip := satDec st.skip }

/-- the code after the loop -/
def afterLoop (st : LoopSt) : Option (List Contrib) :=
  match st.firstAdd with
  | none =>
      if st.addStack.isEmpty then none
      else (match st.addStack.getLast? with       -- `add_stack.pop().expect("single element on stack")`
            | some v => some [v]
            | none => none)
  | some first =>
      if st.addStack.isEmpty then some [first]
      else
        let stack := first :: st.addStack          -- `add_stack.insert(0, first)`
        some stack.reverse                         -- `into_iter().rev()`: `next()` = init, rest `try_fold`

/-- the `for` loop over the items of `cores[..idx].iter().enumerate().rev()` -/
def loopLit : List (Core × Nat) → LoopSt → Name → Option (List Contrib)
  | [], st, _ => afterLoop st
  | (c, sup) :: items, st, n =>
      match loopBody st c sup n with
      | .ret v => some [v]
      | .brk st' => afterLoop st'
      | .next st' => loopLit items st' n

/-- `get_idx_uncached(key, CoreIdx { idx })` after `run_assertions()?` -/
def getIdxLit (cores : List Core) (idx : Nat) (n : Name) : Option (List Contrib) :=
  loopLit ((cores.take idx).zipIdx).reverse LoopSt.init n

/-- the fold order of a top-most-first contribution list: deepest first -/
def foldOrder (l : List Contrib) : Option (List Contrib) :=
  if l.isEmpty then none else some l.reverse

/-! ### `get_idx`: the per-object value cache  `value_cache : (IStr, CoreIdx) ↦ Pending | Cached(r)`

    let cache_key = (key.clone(), core);
    match cache.entry(cache_key.clone()) {
        Entry::Occupied(v) => match v.get() {
            CacheValue::Cached(v) => return v.clone(),
            CacheValue::Pending => { if !is_asserting(self) { bail!(InfiniteRecursionDetected); } }
        },
        Entry::Vacant(v) => { v.insert(CacheValue::Pending); }
    };
    let result = self.get_idx_uncached(key, core);
    cache.insert(cache_key, CacheValue::Cached(result.clone()));
    result

  `unc` stands for `get_idx_uncached`: it may re-enter `get_idx` (bodies read fields), therefore it
  is a state transformer on the cache.  `R` = `Result<Option<Val>>`. -/

inductive CacheValue (R : Type) where
  | cached (r : R)
  | pending
  deriving Repr, DecidableEq

/-- `FxHashMap<K, CacheValue>` as an association list, newest binding first -/
abbrev Cache (K R : Type) := List (K × CacheValue R)

def Cache.find {K R} [DecidableEq K] (c : Cache K R) (k : K) : Option (CacheValue R) :=
  match c with
  | [] => none
  | (k', v) :: r => if k' = k then some v else Cache.find r k

/-- `HashMap::insert` (overwrites) -/
def Cache.insert {K R} (c : Cache K R) (k : K) (v : CacheValue R) : Cache K R := (k, v) :: c

inductive GetOut (R : Type) where
  | ok (r : R)          -- the (cached or fresh) result of `get_idx_uncached`
  | infrec              -- `bail!(InfiniteRecursionDetected)`: returned WITHOUT touching the cache
  deriving Repr, DecidableEq

def getIdxCached {K R} [DecidableEq K] (unc : K → Cache K R → R × Cache K R) (asserting : Bool)
    (k : K) (c : Cache K R) : GetOut R × Cache K R :=
  match c.find k with
  | some (.cached v) => (.ok v, c)
  | some .pending =>
      if !asserting then (.infrec, c)
      else
        let (r, c') := unc k c
        (.ok r, c'.insert k (.cached r))
  | none =>
      let (r, c') := unc k (c.insert k .pending)
      (.ok r, c'.insert k (.cached r))

end JrsVerif.Obj
