/- C05 (shared with C14): `escape_string_json_buf` of crates/jrsonnet-evaluator/src/manifest.rs
   over bytes, driven by the extracted 256-row table `Generated.Escape.ESCAPE`.

   Model side: `escapeBuf` mirrors the Rust loop (run copying with `start`/`i`, table lookup, the
   three match arms incl. `unreachable!()` = `none`).  `escByte`/`escapeFlat` is the per-byte
   reading of the same table that the loop is proved equal to (Proofs/Escape.lean). -/
import JrsVerif.Generated.Escape

namespace JrsVerif.Escape
open JrsVerif.Generated.Escape

/-- `ESCAPE[byte as usize]` -/
def row (b : UInt8) : UInt8 := ESCAPE.getD b.toNat 0

/-- the `match escape { .. }` of the loop body for a byte whose row is `e ≠ 0`;
    `none` is the `_ => unreachable!()` arm (a panic). -/
def escSeq (b e : UInt8) : Option (List UInt8) :=
  if SHORT.contains e then some [0x5C, e]
  else if e == UU then
    some [0x5C, 0x75, 0x30, 0x30, HEX_DIGITS.getD (b >>> 4).toNat 0, HEX_DIGITS.getD (b &&& 0xF).toNat 0]
  else none

/-- what one input byte contributes to the output -/
def escByte (b : UInt8) : Option (List UInt8) :=
  if row b == 0 then some [b] else escSeq b (row b)

/-- `bytes[start..i]` -/
def slice (bytes : List UInt8) (start i : Nat) : List UInt8 := (bytes.take i).drop start

/-- the `for (i, &byte) in bytes.iter().enumerate()` loop: `rem` = bytes not yet visited,
    `i` = index of the head of `rem`; returns the buffer and the final `start`. -/
def loop (bytes : List UInt8) : List UInt8 → Nat → Nat → List UInt8 → Option (List UInt8 × Nat)
  | [], _, start, buf => some (buf, start)
  | b :: rest, i, start, buf =>
    if row b == 0 then loop bytes rest (i + 1) start buf
    else
      let buf := if start < i then buf ++ slice bytes start i else buf
      match escSeq b (row b) with
      | none => none
      | some s => loop bytes rest (i + 1) (i + 1) (buf ++ s)

/-- `escape_string_json_buf(value, buf)` -/
def escapeBuf (value buf : List UInt8) : Option (List UInt8) :=
  match loop value value 0 0 (buf ++ [0x22]) with
  | none => none
  | some (buf, start) =>
    if start == value.length then some (buf ++ [0x22])
    else some (buf ++ value.drop start ++ [0x22])

/-- per-byte reading: every byte replaced by its `escByte` -/
def escapeBody : List UInt8 → Option (List UInt8)
  | [] => some []
  | b :: rest =>
    match escByte b, escapeBody rest with
    | some s, some r => some (s ++ r)
    | _, _ => none

/-- `escape_string_json(value)` = `"` body `"` -/
def escape (value : List UInt8) : Option (List UInt8) := escapeBuf value []

/-- total version used by the JSON writer once `escape_total` is known (a panic, which the table
    theorem excludes, would show as the empty token and be rejected by every reader) -/
def escapeD (value : List UInt8) : List UInt8 := (escape value).getD []

/-! ### Spec side: RFC 8259 §7 written without the table -/

/-- reference meaning of the table (RFC 8259 §7 + the short forms): independent of the table -/
def specRow (b : UInt8) : UInt8 :=
  if b == 0x08 then 0x62 else if b == 0x09 then 0x74 else if b == 0x0A then 0x6E
  else if b == 0x0C then 0x66 else if b == 0x0D then 0x72
  else if b == 0x22 then 0x22 else if b == 0x5C then 0x5C
  else if b < 0x20 then 0x75 else 0

def hexDigit (n : UInt8) : UInt8 := if n < 10 then 0x30 + n else 0x61 + (n - 10)

/-- reference escape of one byte -/
def specEsc (b : UInt8) : List UInt8 :=
  if b == 0x22 then [0x5C, 0x22] else if b == 0x5C then [0x5C, 0x5C]
  else if b == 0x08 then [0x5C, 0x62] else if b == 0x09 then [0x5C, 0x74]
  else if b == 0x0A then [0x5C, 0x6E] else if b == 0x0C then [0x5C, 0x66]
  else if b == 0x0D then [0x5C, 0x72]
  else if b < 0x20 then [0x5C, 0x75, 0x30, 0x30, hexDigit (b / 16), hexDigit (b % 16)]
  else [b]

/-- `"` · per-byte escapes · `"` -/
def specEscape (s : List UInt8) : List UInt8 := 0x22 :: (s.flatMap specEsc ++ [0x22])

/-- UTF-8 encoding of one Unicode scalar value (spec side; used to state that escaping acts
    character by character) -/
def utf8 (c : Nat) : List UInt8 :=
  if c < 0x80 then [UInt8.ofNat c]
  else if c < 0x800 then [UInt8.ofNat (0xC0 + c / 64), UInt8.ofNat (0x80 + c % 64)]
  else if c < 0x10000 then
    [UInt8.ofNat (0xE0 + c / 4096), UInt8.ofNat (0x80 + c / 64 % 64), UInt8.ofNat (0x80 + c % 64)]
  else
    [UInt8.ofNat (0xF0 + c / 262144 % 8), UInt8.ofNat (0x80 + c / 4096 % 64),
     UInt8.ofNat (0x80 + c / 64 % 64), UInt8.ofNat (0x80 + c % 64)]

def utf8s (cs : List Nat) : List UInt8 := cs.flatMap utf8

end JrsVerif.Escape
