/- C17 — byte offset → line/column mapping and span printing.

   `Model` side: `offsetToLocation` mirrors `crates/jrsonnet-ir/src/location.rs: offset_to_location`
   (after the three `fix:` commits: `char_indices`, byte `file_end`, `while let` pop loop) statement
   by statement: sorted offset stack, one pass over `(byte position, char)` pairs plus the
   `(file.len(), ' ')` sentinel, `column += 1` before the comparison, line-end bookkeeping through
   `with_no_known_line_ending`, the early `break`.  `printCodeLocation` mirrors
   `crates/jrsonnet-evaluator/src/trace/mod.rs: print_code_location`.

   `Spec` side: `Spec.locate pre post` is the reference meaning for the offset that sits between
   `pre` and `post` (`text = pre ++ post`, offset = UTF-8 length of `pre`): line = 1 + number of
   newlines before the offset, column = number of characters since the last newline + 1.

   Text is a `List Char`; byte positions come from `Char.utf8Size` (core Lean's UTF-8 length). -/

namespace JrsVerif.Loc

structure CodeLocation where
  offset : Nat := 0
  line : Nat := 0
  column : Nat := 0
  lineStart : Nat := 0
  lineEnd : Nat := 0
deriving DecidableEq, Repr, Inhabited

/-- `str.len()` : number of UTF-8 bytes -/
def byteLen : List Char → Nat
  | [] => 0
  | c :: cs => c.utf8Size + byteLen cs

/-- walker state: the local variables of `offset_to_location` -/
structure St where
  line : Nat
  column : Nat
  thisLine : Nat
  /-- `offset_map`, top of the stack (`.last()`) first: `(offset, output index)` -/
  pending : List (Nat × Nat)
  /-- `with_no_known_line_ending` -/
  noEnd : List Nat
  /-- `out`, as a function of the output index -/
  out : Nat → CodeLocation

/-- the `while let Some(x) = offset_map.last() { if x.0 != pos {break}; …; offset_map.pop() }` loop -/
def popAll (pos line column thisLine : Nat) :
    List (Nat × Nat) → List Nat → (Nat → CodeLocation) → List (Nat × Nat) × List Nat × (Nat → CodeLocation)
  | [], noEnd, out => ([], noEnd, out)
  | (o, idx) :: ps, noEnd, out =>
    if o = pos then
      popAll pos line column thisLine ps (noEnd ++ [idx])
        (fun i => if i = idx then
          { out i with offset := pos, line := line, column := column, lineStart := thisLine } else out i)
    else ((o, idx) :: ps, noEnd, out)

/-- `for idx in with_no_known_line_ending.drain(..) { out[idx].line_end_offset = pos }` -/
def setEnds (pos : Nat) : List Nat → (Nat → CodeLocation) → (Nat → CodeLocation)
  | [], out => out
  | idx :: rest, out => setEnds pos rest (fun i => if i = idx then { out i with lineEnd := pos } else out i)

/-- loop body for one `(pos, ch)`; the `Bool` is the `break` -/
def step (maxOff pos : Nat) (ch : Char) (s : St) : St × Bool :=
  let column := s.column + 1
  let r := popAll pos s.line column s.thisLine s.pending s.noEnd s.out
  if ch = '\n' then
    ({ line := s.line + 1, column := 1, thisLine := pos + 1, pending := r.1, noEnd := [],
       out := setEnds pos r.2.1 r.2.2 }, pos == maxOff + 1)
  else
    ({ s with column := column, pending := r.1, noEnd := r.2.1, out := r.2.2 }, false)

/-- `for (pos, ch) in file.char_indices().chain(once((file.len(), ' ')))` -/
def walk (maxOff : Nat) : Nat → List Char → St → St
  | pos, [], s => (step maxOff pos ' ' s).1
  | pos, c :: cs, s =>
    let r := step maxOff pos c s
    if r.2 then r.1 else walk maxOff (pos + c.utf8Size) cs r.1

/-- `for idx in with_no_known_line_ending { out[idx].line_end_offset = file_end }` -/
def finish (fileEnd : Nat) (s : St) : Nat → CodeLocation := setEnds fileEnd s.noEnd s.out

/-- `offsets.iter().max()` -/
def maxOf : List Nat → Nat
  | [] => 0
  | x :: xs => max x (maxOf xs)

/-- `offset_map`: pairs `(offset, index)`, stably sorted by offset; `.last()` after the `reverse()`
    is the head here -/
def offsetMap (offs : List Nat) : List (Nat × Nat) :=
  offs.zipIdx.mergeSort (fun a b => decide (a.1 ≤ b.1))

def initSt (offs : List Nat) : St :=
  { line := 1, column := 1, thisLine := 0, pending := offsetMap offs, noEnd := [], out := fun _ => {} }

/-- `offset_to_location(file, offsets)` as a function of the output index -/
def locFn (text : List Char) (offs : List Nat) : Nat → CodeLocation :=
  if offs.isEmpty then fun _ => {}
  else finish (byteLen text) (walk (maxOf offs) 0 text (initSt offs))

/-- `offset_to_location(file, offsets)` -/
def offsetToLocation (text : List Char) (offs : List Nat) : List CodeLocation :=
  (List.range offs.length).map (locFn text offs)

/-! ### print_code_location -/

/-- the four numbers `print_code_location` writes: `l:c`, `l:c-c2` or `l:c-l2:c2` -/
inductive Printed where
  | point (line col : Nat)
  | sameLine (line col endCol : Nat)
  | multi (line col endLine endCol : Nat)
deriving DecidableEq, Repr

def printCodeLocation (s e : CodeLocation) : Printed :=
  if s.line = e.line then
    if s.column = e.column then .point s.line (e.column - 1)
    else .sameLine s.line (s.column - 1) e.column
  else .multi s.line (s.column - 1) e.line e.column

def Printed.render : Printed → String
  | .point l c => s!"{l}:{c}"
  | .sameLine l c e => s!"{l}:{c}-{e}"
  | .multi l c l2 e => s!"{l}:{c}-{l2}:{e}"

def Printed.startLine : Printed → Nat
  | .point l _ | .sameLine l _ _ | .multi l _ _ _ => l
def Printed.startCol : Printed → Nat
  | .point _ c | .sameLine _ c _ | .multi _ c _ _ => c

/-! ### reference meaning -/
namespace Spec

def isNl (c : Char) : Bool := c == '\n'

/-- characters of `pre` after its last newline (the part of the offset's own line before it) -/
def linePrefix (pre : List Char) : List Char := (pre.reverse.takeWhile (fun c => !isNl c)).reverse

/-- characters of `post` up to its first newline (the rest of the offset's own line) -/
def lineRest (post : List Char) : List Char := post.takeWhile (fun c => !isNl c)

/-- 1-based line of the offset between `pre` and `post` -/
def line (pre : List Char) : Nat := 1 + pre.count '\n'
/-- 1-based column (in characters) of the offset between `pre` and `post` -/
def column (pre : List Char) : Nat := (linePrefix pre).length + 1

/-- reference `CodeLocation` (the record's `column` is one more than the 1-based column: the
    convention `print_code_location` undoes with its `- 1`) -/
def locate (pre post : List Char) : CodeLocation :=
  { offset := byteLen pre, line := line pre, column := column pre + 1,
    lineStart := byteLen pre - byteLen (linePrefix pre),
    lineEnd := byteLen pre + byteLen (lineRest post) }

/-- byte-level reading of "line": 1 + number of 0x0A bytes among the first `o` bytes of the UTF-8
    encoding (used by the driver as a second oracle; no theorem depends on it) -/
def lineBytes (text : List Char) (o : Nat) : Nat :=
  1 + (((text.flatMap String.utf8EncodeChar).take o).filter (· == 10)).length

/-- split `text` at byte offset `o` if it is a character boundary -/
def splitAt? : List Char → Nat → Option (List Char × List Char)
  | cs, 0 => some ([], cs)
  | [], _ + 1 => none
  | c :: cs, o + 1 =>
    if c.utf8Size ≤ o + 1 then
      (splitAt? cs (o + 1 - c.utf8Size)).map (fun p => (c :: p.1, p.2))
    else none

end Spec

end JrsVerif.Loc
