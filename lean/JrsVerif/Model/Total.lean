/-
  C04 kernels with checked machine arithmetic (`none` / `.panic` = the Rust code would panic).

  1. `prepareCall`  — crates/jrsonnet-evaluator/src/function/prepared.rs::prepare_call
     (arity arithmetic, the named-argument loop, the defaults loop, the `unreachable!()` site).
  2. `clamp`        — crates/jrsonnet-stdlib/src/math.rs::builtin_clamp on order keys of finite
     doubles (the harness maps a finite f64 to an integer key monotonically, ±0 ↦ 0).
  3. `truncateDebug` — the `debug_truncate_strings` branch of manifest_json_ex_buf
     (crates/jrsonnet-evaluator/src/manifest.rs): byte offsets into a UTF-8 string, slicing panics
     off a character boundary.  Strings are lists of code points.

  `…Orig` are the same kernels as they were before the `fix:` commits (kept to state the defects).
  Import-free.
-/
namespace JrsVerif.Total

def USIZE : Nat := 2 ^ 64

def uadd (a b : Nat) : Option Nat := if a + b < USIZE then some (a + b) else none
def usub (a b : Nat) : Option Nat := if b ≤ a then some (a - b) else none

/-! ## 1. prepare_call -/

structure Param where
  name : Option String      -- `none`: anonymous (destructuring) parameter, never equal to a name
  dflt : Bool               -- `has_default()`
  deriving Repr, DecidableEq, Inhabited

inductive BErr where
  | tooMany
  | unknown (n : String)
  | twice (n : String)
  | unbound (n : Option String)
  deriving Repr, DecidableEq, Inhabited

inductive PR where
  | ok (named : List (Nat × Nat)) (defaults : List Nat)   -- (param, named input) pairs; default ids
  | err (e : BErr)
  | panic (why : String)
  deriving Repr, DecidableEq, Inhabited

/-- `params.iter().position(|p| p.name() == name)` -/
def position : List Param → String → Option Nat
  | [], _ => none
  | p :: ps, n => if p.name = some n then some 0 else (position ps n).map (· + 1)

/-- `for (input_id, name) in named.iter().enumerate()`; `passed` is the `FxHashSet<usize>` -/
def namedLoop (ps : List Param) :
    List Nat → List (Nat × Nat) → List String → Nat → Except BErr (List Nat × List (Nat × Nat))
  | passed, ops, [], _ => .ok (passed, ops)
  | passed, ops, n :: rest, j =>
    match position ps n with
    | none => .error (.unknown n)
    | some idx =>
      if passed.contains idx then .error (.twice n)
      else namedLoop ps (idx :: passed) (ops ++ [(idx, j)]) rest (j + 1)

/-- `params.iter().enumerate().skip(unnamed).filter(|p| p.1.has_default())`, skipping passed ones -/
def defaultsLoop (passed : List Nat) : List Param → Nat → List Nat
  | [], _ => []
  | p :: ps, i =>
    if p.dflt && !(p.name.isSome && passed.contains i) then i :: defaultsLoop passed ps (i + 1)
    else defaultsLoop passed ps (i + 1)

/-- the search that ends in `FunctionParameterNotBoundInCall` or falls through to `unreachable!()` -/
def firstUnbound (named : List String) : List Param → Option (Option String)
  | [] => none
  | p :: ps =>
    match p.name with
    | some n => if named.contains n then firstUnbound named ps else some (some n)
    | none => some none

def prepareTail (ps : List Param) (unnamed : Nat) (named : List String) (tot expected : Nat) : PR :=
  match namedLoop ps (List.range unnamed) [] named 0 with
  | .error e => .err e
  | .ok (passed, ops) =>
    if tot < ps.length then
      let defaults := defaultsLoop passed (ps.drop unnamed) unnamed
      if defaults.length != expected then
        match firstUnbound named (ps.drop unnamed) with
        | some n => .err (.unbound n)
        | none => .panic "unreachable"
      else .ok ops defaults
    else .ok ops []

/-- the code as it is now: `params.len().saturating_sub(unnamed + named.len())` -/
def prepareCall (ps : List Param) (unnamed : Nat) (named : List String) : PR :=
  if unnamed > ps.length then .err .tooMany else
  match uadd unnamed named.length with
  | none => .panic "unnamed + named.len() overflows"
  | some tot => prepareTail ps unnamed named tot (ps.length - tot)

/-- before the repair: `params.len() - unnamed - named.len()` -/
def prepareCallOrig (ps : List Param) (unnamed : Nat) (named : List String) : PR :=
  if unnamed > ps.length then .err .tooMany else
  match usub ps.length unnamed with
  | none => .panic "params.len() - unnamed"
  | some a =>
    match usub a named.length with
    | none => .panic "params.len() - unnamed - named.len() underflows"
    | some expected => prepareTail ps unnamed named (unnamed + named.length) expected

/-- parameter names are pairwise different (what the language requires of a function literal) -/
def NodupNames (ps : List Param) : Prop := (ps.filterMap (·.name)).Nodup

/-! ## 2. clamp -/

/-- the code as it is now -/
def clamp (x lo hi : Int) : Option Int :=
  some (if x < lo then lo else if x > hi then hi else x)

/-- before the repair: `f64::clamp` asserts `min <= max` -/
def clampOrig (x lo hi : Int) : Option Int :=
  if lo > hi then none else some (if x < lo then lo else if x > hi then hi else x)

/-- std.jsonnet: `if x < minVal then minVal else if x > maxVal then maxVal else x` -/
def Spec.clamp (x lo hi : Int) : Int :=
  if x < lo then lo else if x > hi then hi else x

/-! ## 3. debug truncation of long strings -/

/-- UTF-8 length of a code point -/
def width (c : Nat) : Nat :=
  if c < 0x80 then 1 else if c < 0x800 then 2 else if c < 0x10000 then 3 else 4

def byteLen : List Nat → Nat
  | [] => 0
  | c :: cs => width c + byteLen cs

/-- `str::is_char_boundary(i)`: start, end, or the first byte of a character; false past the end -/
def isBoundary : List Nat → Nat → Bool
  | _, 0 => true
  | [], _ + 1 => false
  | c :: cs, i + 1 => if i + 1 < width c then false else isBoundary cs (i + 1 - width c)

/-- `&s[..i]` (panics off a boundary or past the end) -/
def takeBytes : List Nat → Nat → Option (List Nat)
  | _, 0 => some []
  | [], _ + 1 => none
  | c :: cs, i + 1 =>
    if i + 1 < width c then none else (takeBytes cs (i + 1 - width c)).map (c :: ·)

/-- `&s[i..]` -/
def dropBytes : List Nat → Nat → Option (List Nat)
  | cs, 0 => some cs
  | [], _ + 1 => none
  | c :: cs, i + 1 => if i + 1 < width c then none else dropBytes cs (i + 1 - width c)

/-- `while !flat.is_char_boundary(head) { head -= 1; }` (`none`: `0 - 1`) -/
def floorB (cs : List Nat) : Nat → Option Nat
  | 0 => if isBoundary cs 0 then some 0 else none
  | i + 1 => if isBoundary cs (i + 1) then some (i + 1) else floorB cs i

/-- `while !flat.is_char_boundary(tail) { tail += 1; }`; `fuel` bounds the iterations
    (`none`: the loop would run past the end of the string, where no boundary exists) -/
def ceilB (cs : List Nat) : Nat → Nat → Option Nat
  | i, 0 => if isBoundary cs i then some i else none
  | i, fuel + 1 => if isBoundary cs i then some i else ceilB cs (i + 1) fuel

def dots : List Nat := [46, 46]

/-- the code as it is now -/
def truncateDebug (cs : List Nat) (t : Nat) : Option (List Nat) :=
  if byteLen cs > t then
    match floorB cs (t / 2) with
    | none => none
    | some head =>
      match usub (byteLen cs) (t / 2) with
      | none => none
      | some tail0 =>
        match ceilB cs tail0 (byteLen cs) with
        | none => none
        | some tail =>
          match takeBytes cs head, dropBytes cs tail with
          | some s, some e => some (s ++ dots ++ e)
          | _, _ => none
  else some cs

/-- before the repair: `flat.split_at(truncate / 2)`, `end.split_at(end.len() - truncate / 2)` -/
def truncateDebugOrig (cs : List Nat) (t : Nat) : Option (List Nat) :=
  if byteLen cs > t then
    match takeBytes cs (t / 2), dropBytes cs (t / 2) with
    | some s, some e =>
      match usub (byteLen e) (t / 2) with
      | none => none
      | some k =>
        match dropBytes e k with
        | some e' => some (s ++ dots ++ e')
        | none => none
    | _, _ => none
  else some cs

/-- reference meaning: the longest prefix of at most `b` bytes … -/
def Spec.prefixFit : List Nat → Nat → List Nat
  | [], _ => []
  | c :: cs, b => if width c ≤ b then c :: Spec.prefixFit cs (b - width c) else []

/-- … and the longest suffix of at most `b` bytes -/
def Spec.suffixFit : List Nat → Nat → List Nat
  | [], _ => []
  | c :: cs, b => if byteLen (c :: cs) ≤ b then c :: cs else Spec.suffixFit cs b

def Spec.truncate (cs : List Nat) (t : Nat) : List Nat :=
  if byteLen cs > t then Spec.prefixFit cs (t / 2) ++ dots ++ Spec.suffixFit cs (t / 2) else cs

end JrsVerif.Total
