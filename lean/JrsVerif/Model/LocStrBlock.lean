/- C17 — the hand-written `|||` text-block scanner (`crates/jrsonnet-lexer/src/string_block.rs`).

   `Model` side: `scan src` mirrors `lex_str_block` run on `src = lex.remainder()` (everything after
   the `|||` logos has matched), statement by statement, for BOTH contexts at once: the logos lexer
   (`bump`: how many bytes the token is extended by — `bump_pos` on success, `eat_error` on failure)
   and `CollectStrBlock` (`truncate`, `lines`).  The scanner's position `ctx.index` is a BYTE count;
   every place where the Rust code does byte arithmetic on it or slices by a byte count
   (`eat_if`: `+ 1`; `skip(num_whitespace)`; `&rest[..num_whitespace]`; `index += nl_pos + 1`;
   `skip(3)`; the final `lex.bump(n)`) goes through `dropB`, which is `none` exactly where Rust's
   `str` slicing / logos' `bump` panics: inside a UTF-8 sequence or past the end.  `none` = panic.

   `check_whitespace` compares BYTES with `b' '`/`b'\t'`; it is modelled on characters (the bytes
   0x20 and 0x09 occur in UTF-8 only as the characters space and tab, so the byte index it returns
   is the number of leading space/tab characters).

   `Spec` side: the reference meaning of a text block is a grammar, not a scanner:
   `Spec.encode W items` is the text of the content lines (`"\n"` for a blank line, `W ++ t ++ "\n"`
   for a line with text `t`), and `Spec.contents` is the string the block denotes. -/
import JrsVerif.Model.Loc

namespace JrsVerif.StrBlock
open JrsVerif.Loc (byteLen)

inductive Err where
  | unexpectedEnd | missingNewLine | missingTermination | missingIndent
deriving DecidableEq, Repr

structure Out where
  /-- `Ok(())` = `none` -/
  res : Option Err
  /-- total number of bytes the logos lexer is bumped by -/
  bump : Nat
  /-- `|||-` -/
  truncate : Bool
  /-- `CollectStrBlock::lines` -/
  lines : List (List Char)
deriving DecidableEq, Repr

def isWs (c : Char) : Bool := c == ' ' || c == '\t'
def isHdr (c : Char) : Bool := c == ' ' || c == '\t' || c == '\r'
def bars : List Char := ['|', '|', '|']

/-- `&s[n..]` : `none` where Rust panics (past the end or inside a UTF-8 sequence) -/
def dropB : List Char → Nat → Option (List Char)
  | cs, 0 => some cs
  | [], _ + 1 => none
  | c :: cs, n + 1 => if c.utf8Size ≤ n + 1 then dropB cs (n + 1 - c.utf8Size) else none

/-- `Context::skip(len)` : clamps to the end; returns the new rest and the bytes advanced -/
def skipB (rest : List Char) (n : Nat) : Option (List Char × Nat) :=
  if n > byteLen rest then some ([], byteLen rest) else (dropB rest n).map (fun r => (r, n))

/-- `rest.find("|||")` : byte position of the first occurrence -/
def findBars : List Char → Option Nat
  | [] => none
  | c :: cs => if (c :: cs).take 3 = bars then some 0 else (findBars cs).map (· + c.utf8Size)

/-- `<Lexer as StrBlockLexCtx>::eat_error` : `bump(ctx.index + end_index)` -/
def eatError (idx : Nat) (rest : List Char) : Nat :=
  idx + match findBars rest with
        | some v => v + 3
        | none => byteLen rest

/-- `check_whitespace(a, b)`, started with `i = 0` -/
def checkWs : List Char → List Char → Nat → Nat
  | [], _, i => i
  | x :: a, b, i =>
    if !isWs x then i
    else match b with
      | [] => 0
      | y :: b => if x ≠ y then 0 else checkWs a b (i + 1)

/-- `while ctx.peek() == Some('\n') { lex.mark_line(""); ctx.next(); }` : (number of lines, rest) -/
def blanks : List Char → Nat × List Char
  | [] => (0, [])
  | c :: cs => if c = '\n' then ((blanks cs).1 + 1, (blanks cs).2) else (0, c :: cs)

/-- `rest.find('\n')` : the text before the first newline (`None` if there is none) -/
def cutLine : List Char → Option (List Char)
  | [] => none
  | c :: cs => if c = '\n' then some [] else (cutLine cs).map (c :: ·)

/-- the `loop { … }` of `lex_str_block`; `fuel` bounds the number of iterations (each consumes at
    least a newline) -/
def loop : Nat → Nat → List Char → List Char → Nat → List (List Char) → Bool → Option Out
  | 0, _, _, _, _, _, _ => none
  | fuel + 1, idx, rest, indent, numWs, lines, tr =>
    -- ctx.skip(num_whitespace)
    match skipB rest numWs with
    | none => none
    | some (rest1, adv) =>
      let idx1 := idx + adv
      match cutLine rest1 with
      | none =>
        -- ctx.index = ctx.source.len(); lex.eat_error(&ctx)
        some ⟨some .unexpectedEnd, eatError (idx1 + byteLen rest1) [], tr, lines⟩
      | some line =>
        -- lex.mark_line(&rest[..nl_pos]); ctx.index += nl_pos + 1
        match dropB rest1 (byteLen line + 1) with
        | none => none
        | some rest2 =>
          let idx2 := idx1 + (byteLen line + 1)
          let b := blanks rest2
          let idx3 := idx2 + b.1
          let lines := lines ++ [line] ++ List.replicate b.1 []
          let nw := checkWs indent b.2 0
          if nw = 0 then
            -- while let Some(' ' | '\t') = ctx.peek() { ctx.next() }
            let t := b.2.dropWhile isWs
            let idx4 := idx3 + byteLen (b.2.takeWhile isWs)
            if t.take 3 = bars then
              (skipB t 3).map (fun p => ⟨none, idx4 + p.2, tr, lines⟩)
            else if t.isEmpty then some ⟨some .unexpectedEnd, idx4, tr, lines⟩
            else some ⟨some .missingTermination, eatError idx4 t, tr, lines⟩
          else loop fuel idx3 b.2 indent nw lines tr

/-- `lex_str_block` after the `eat_if('-')` (position `i0`, rest `s0`) -/
def scanBody (s0 : List Char) (i0 : Nat) (tr : Bool) : Option Out :=
  -- ctx.eat_while(|r| r == ' ' || r == '\t' || r == '\r')
  let s1 := s0.dropWhile isHdr
  let i1 := i0 + byteLen (s0.takeWhile isHdr)
  -- match ctx.next()
  match s1 with
  | [] => some ⟨some .unexpectedEnd, eatError i1 [], tr, []⟩
  | c :: s2 =>
    let i2 := i1 + c.utf8Size
    if c ≠ '\n' then some ⟨some .missingNewLine, eatError i2 s2, tr, []⟩
    else
      let b := blanks s2
      let i3 := i2 + b.1
      let lines : List (List Char) := List.replicate b.1 []
      let nw := checkWs b.2 b.2 0
      if nw = 0 then some ⟨some .missingIndent, eatError i3 b.2, tr, lines⟩
      else
        -- let str_block_indent = &ctx.rest()[..num_whitespace];
        match dropB b.2 nw with
        | none => none
        | some _ => loop (b.2.length + 1) i3 b.2 (b.2.take nw) nw lines tr

/-- `lex_str_block` before logos' own check of the bump -/
def scanRaw (src : List Char) : Option Out :=
  -- if ctx.eat_if(|v| v == '-') != 0 { lex.mark_truncating() }   (`eat_if` adds ONE byte)
  match src with
  | c :: _ =>
    if c = '-' then
      match dropB src 1 with
      | none => none
      | some s0 => scanBody s0 1 true
    else scanBody src 0 false
  | [] => scanBody src 0 false

/-- `lex_str_block` on the logos lexer: `Lexer::bump(n)` panics past the end / inside a character -/
def scan (src : List Char) : Option Out :=
  match scanRaw src with
  | none => none
  | some o => if (dropB src o.bump).isSome then some o else none

/-- the string `parse_string` (jrsonnet-ir-parser) builds from a collected block -/
def value (lines : List (List Char)) (truncate : Bool) : List Char :=
  let joined := match lines with
    | [] => []
    | l :: ls => ls.foldl (fun acc x => acc ++ ['\n'] ++ x) l
  if truncate then joined else joined ++ ['\n']

/-! ### reference meaning -/
namespace Spec

/-- a content line of a text block: blank (just a newline, no indent needed) or `W ++ text ++ "\n"` -/
inductive Item where
  | blank
  | line (text : List Char)
deriving DecidableEq, Repr

def Item.text : Item → List Char
  | .blank => []
  | .line t => t

/-- how an item is written in the source, for indent `W` -/
def Item.enc (W : List Char) : Item → List Char
  | .blank => ['\n']
  | .line t => W ++ t ++ ['\n']

def encode (W : List Char) (items : List Item) : List Char := (items.map (Item.enc W)).flatten

/-- the string a text block denotes: every content line without its indent, each followed by a
    newline; `|||-` strips the final newline -/
def contents (items : List Item) (truncate : Bool) : List Char :=
  let s := (items.map (fun i => i.text ++ ['\n'])).flatten
  if truncate then s.dropLast else s

end Spec

end JrsVerif.StrBlock
