/-
  C13 — standard-library object and type functions.

  Values are *lazy trees*: a `V` is a jsonnet value whose array elements and object field values
  are unevaluated thunks; the leaf `.err` is a thunk whose evaluation fails (`error "x"`).  A
  function that needs a member *forces* it (`force`), which fails on `.err`; a member that is only
  passed through stays as it is.  Laziness claims are therefore ordinary equations: "the result
  still contains `.err` at this position and the call succeeded".

  An object is the flattened view the object layer (property C02) offers to the standard library:
  an association list of (name, hidden?, value thunk); the first entry for a name wins (later
  entries are shadowed super fields).  `Model` side = the native code of
  `crates/jrsonnet-stdlib/src/{objects,misc,types,operator,arrays}.rs`, `val.rs: equals`,
  `arr/spec.rs: PickObjectValues/PickObjectKeyValues` (as repaired by the C13 `fix:` commits).
  `Spec` side = the documented definitions (std.jsonnet comprehensions, RFC 7396).

  Import-free (core Lean only) so that the driver links.
-/
namespace JrsVerif.StdObj

mutual
inductive V where
  | null
  | bool (b : Bool)
  | num (n : Int)
  | str (s : String)
  | arr (xs : VL)
  | obj (fs : FL)
  | func (params : Nat)
  | err
inductive VL where
  | nil
  | cons (v : V) (vs : VL)
inductive FL where
  | nil
  | cons (name : String) (hidden : Bool) (v : V) (rest : FL)
end

mutual
def V.beq : V → V → Bool
  | .null, .null => true
  | .bool a, .bool b => a == b
  | .num a, .num b => a == b
  | .str a, .str b => a == b
  | .arr a, .arr b => VL.beq a b
  | .obj a, .obj b => FL.beq a b
  | .func a, .func b => a == b
  | .err, .err => true
  | _, _ => false
def VL.beq : VL → VL → Bool
  | .nil, .nil => true
  | .cons x xs, .cons y ys => V.beq x y && VL.beq xs ys
  | _, _ => false
def FL.beq : FL → FL → Bool
  | .nil, .nil => true
  | .cons n h v r, .cons n' h' v' r' => n == n' && h == h' && V.beq v v' && FL.beq r r'
  | _, _ => false
end

namespace VL
def ofList : List V → VL
  | [] => .nil
  | x :: xs => .cons x (ofList xs)
def toList : VL → List V
  | .nil => []
  | .cons x xs => x :: toList xs
def length : VL → Nat
  | .nil => 0
  | .cons _ xs => length xs + 1
def append : VL → VL → VL
  | .nil, ys => ys
  | .cons x xs, ys => .cons x (append xs ys)
end VL

/-- evaluating a thunk: fails on the failing leaf -/
def force : V → Option V
  | .err => none
  | v => some v

/-! ## the object interface (`ObjValue::{get, has_field*, fields_ex, len, get_lazy}`) -/

namespace FL
/-- first entry for the name: (hidden?, value thunk) -/
def find? : FL → String → Option (Bool × V)
  | .nil, _ => none
  | .cons n h v rest, k => if n = k then some (h, v) else find? rest k
def names : FL → List String
  | .nil => []
  | .cons n _ _ rest => n :: names rest
/-- `with_fields_omitted` over `with_super`: every entry of that name disappears -/
def erase : FL → String → FL
  | .nil, _ => .nil
  | .cons n h v rest, k => if n = k then erase rest k else .cons n h v (erase rest k)
def ofList : List (String × Bool × V) → FL
  | [] => .nil
  | (n, h, v) :: r => .cons n h v (ofList r)
end FL

/-- `has_field_include_hidden` -/
def hasAll (o : FL) (k : String) : Bool := (o.find? k).isSome
/-- `has_field` : visibility `Normal | Unhide` -/
def has (o : FL) (k : String) : Bool :=
  match o.find? k with
  | some (false, _) => true
  | _ => false
/-- `has_field_ex` -/
def hasEx (o : FL) (k : String) (hidden : Bool) : Bool := if hidden then hasAll o k else has o k

/-- insertion into a strictly ascending list (`sort_unstable` over the unique keys of the
    `fields_visibility` hash map; `IStr` orders by bytes = by code points = Lean's `String.<`) -/
def insertU (k : String) : List String → List String
  | [] => [k]
  | x :: xs => if k < x then k :: x :: xs else if k = x then x :: xs else x :: insertU k xs
def sortU (l : List String) : List String := l.foldr insertU []

/-- `fields_ex(include_hidden)` : names that exist (visibly), ascending, each once -/
def fieldsEx (o : FL) (hidden : Bool) : List String :=
  sortU (o.names.filter (fun k => hasEx o k hidden))

/-- `ObjValue::len` : number of visible fields -/
def len (o : FL) : Nat := (fieldsEx o false).length

/-- `get_lazy_or_bail` : the thunk of a field (a failing thunk — "no such field" — if absent) -/
def getLazy (o : FL) (k : String) : V :=
  match o.find? k with
  | some (_, v) => v
  | none => .err

/-! ## std.objectFields*, objectHas*, objectValues*, objectKeysValues*, get, objectRemoveKey -/

def strArr (l : List String) : V := .arr (VL.ofList (l.map V.str))

namespace Model
def objectFieldsEx (o : FL) (hidden : Bool) : V := strArr (fieldsEx o hidden)
def objectHasEx (o : FL) (k : String) (hidden : Bool) : Bool := hasEx o k hidden
/-- `PickObjectValues` : a lazy array view, element i = thunk of field keys[i] -/
def objectValuesEx (o : FL) (hidden : Bool) : V :=
  .arr (VL.ofList ((fieldsEx o hidden).map (getLazy o)))
/-- `PickObjectKeyValues` : element i = `{key: keys[i], value: <thunk of the field>}` -/
def kv (o : FL) (k : String) : V :=
  .obj (.cons "key" false (.str k) (.cons "value" false (getLazy o k) .nil))
def objectKeysValuesEx (o : FL) (hidden : Bool) : V :=
  .arr (VL.ofList ((fieldsEx o hidden).map (kv o)))

/-- `builtin_get(o, f, default, inc_hidden)`; `d` is the default thunk (`.null` when omitted) -/
def get (o : FL) (k : String) (d : V) (incHidden : Bool) : Option V :=
  if !incHidden && !hasEx o k false then force d
  else
    match o.find? k with
    | none => force d
    | some (_, v) => force v

/-- `builtin_object_remove_key` : super = obj, one omitted name -/
def objectRemoveKey (o : FL) (k : String) : V := .obj (o.erase k)

/-- `builtin_length` -/
def length : V → Option Nat
  | .str s => some s.length
  | .arr xs => some xs.length
  | .obj o => some (len o)
  | .func n => some n
  | _ => none
end Model

namespace Spec
/-- reference enumeration, computed independently: distinct existing names, merge-sorted -/
def fieldsByMergeSort (o : FL) (hidden : Bool) : List String :=
  ((o.names.filter (fun k => hasEx o k hidden)).eraseDups).mergeSort (fun a b => decide (a ≤ b))
/-- `objectValues(o) = [o[k] for k in objectFields(o)]` -/
def objectValuesEx (o : FL) (hidden : Bool) : V :=
  .arr (VL.ofList ((fieldsEx o hidden).map (fun k => getLazy o k)))
/-- `objectKeysValues(o) = [{key: k, value: o[k]} for k in objectFields(o)]` -/
def objectKeysValuesEx (o : FL) (hidden : Bool) : V :=
  .arr (VL.ofList ((fieldsEx o hidden).map (fun k =>
    .obj (.cons "key" false (.str k) (.cons "value" false (getLazy o k) .nil)))))
/-- "a new object after removing the given key": every other field as it was -/
def objectRemoveKey (o : FL) (k : String) : V :=
  .obj (FL.ofList (((fieldsEx o true).filter (· ≠ k)).map (fun n => (n, !has o n, getLazy o n))))
/-- documented: `objectHasEx(o, k, hidden)` iff `k` is among `objectFieldsEx(o, hidden)` -/
def objectHasEx (o : FL) (k : String) (hidden : Bool) : Bool := (fieldsEx o hidden).contains k
/-- `std.get` : `if objectHasEx(o, f, inc_hidden) then o[f] else default` -/
def get (o : FL) (k : String) (d : V) (incHidden : Bool) : Option V :=
  if hasEx o k incHidden then force (getLazy o k) else force d
end Spec

/-! ## std.type, std.is*, std.xor/xnor -/

def typeName : V → String
  | .null => "null"
  | .bool _ => "boolean"
  | .num _ => "number"
  | .str _ => "string"
  | .arr _ => "array"
  | .obj _ => "object"
  | .func _ => "function"
  | .err => "error"

def isType (t : String) (v : V) : Bool := typeName v = t

def xor (x y : Bool) : Bool := x ^^ y
def xnor (x y : Bool) : Bool := x == y

/-! ## std.primitiveEquals / std.equals / std.assertEqual (`val.rs`) -/

/-- `primitive_equals` : `none` = error (containers of the same kind, two functions) -/
def primitiveEquals : V → V → Option Bool
  | .err, _ => none
  | _, .err => none
  | .bool a, .bool b => some (a == b)
  | .null, .null => some true
  | .str a, .str b => some (a == b)
  | .num a, .num b => some (a == b)
  | .arr _, .arr _ => none
  | .obj _, .obj _ => none
  | .func _, .func _ => none
  | _, _ => some false

/-- sequential conjunction over per-field outcomes, in the order of `names`; stops at the first
    `false`, fails at the first failure -/
def eqLoop (outs : List (String × Option Bool)) : List String → Option Bool
  | [] => some true
  | k :: ks =>
    match outs.lookup k with
    | some (some true) => eqLoop outs ks
    | some (some false) => some false
    | _ => none

mutual
/-- `equals` : type check first, arrays by length then element-wise in order, objects by visible
    field names then field-wise in ascending name order (both sides forced), else primitive -/
def equals : V → V → Option Bool
  | .err, _ => none
  | .arr xs, b =>
    match b with
    | .err => none
    | .arr ys => if xs.length ≠ ys.length then some false else eqL xs ys
    | _ => some false
  | .obj fs, b =>
    match b with
    | .err => none
    | .obj gs =>
      if fieldsEx fs false ≠ fieldsEx gs false then some false
      else eqLoop (eqOuts fs gs) (fieldsEx fs false)
    | _ => some false
  | .null, b => primitiveEquals .null b
  | .bool x, b => primitiveEquals (.bool x) b
  | .num x, b => primitiveEquals (.num x) b
  | .str x, b => primitiveEquals (.str x) b
  | .func x, b => primitiveEquals (.func x) b
def eqL : VL → VL → Option Bool
  | .nil, _ => some true
  | .cons _ _, .nil => some true
  | .cons x xs, .cons y ys =>
    match equals x y with
    | none => none
    | some false => some false
    | some true => eqL xs ys
/-- outcome of comparing each entry of the left object with the right object's field of that name -/
def eqOuts : FL → FL → List (String × Option Bool)
  | .nil, _ => []
  | .cons n _ v rest, gs => (n, equals v (getLazy gs n)) :: eqOuts rest gs
end

def assertEqual (a b : V) : Option Bool :=
  match equals a b with
  | some true => some true
  | _ => none

/-- `a == a` through one shared pointer: `equals` answers `true` for an array/object compared with
    itself without looking inside (`ArrValue::ptr_eq` / `ObjValue::ptr_eq` shortcut) -/
def equalsSame : V → Option Bool
  | .arr _ => some true
  | .obj _ => some true
  | v => equals v v

/-! ## std.mapWithKey — named function pool (jsonnet text in `harness/src/engines/c13.rs`) -/

/-- application of a pool function to (key, value thunk): `none` = the call fails -/
def fn2 (name : String) (k : String) (v : V) : Option V :=
  match name with
  | "key" => some (.str k)
  | "val" => force v
  | "pair" => some (.arr (.cons (.str k) (.cons v .nil)))
  | "fail" => none
  | "isnull" => (force v).map (fun x => .bool (isType "null" x))
  | "wrap" => some (.obj (.cons k true v (.cons "~" false (.str k) .nil)))
  | _ => none

/-- a deferred computation as a thunk: failing computation = failing thunk -/
def thunkOf : Option V → V
  | some v => v
  | none => .err

namespace Model
/-- `builtin_map_with_key` (repaired): one visible field per visible field, value = deferred call
    on the key and the field's thunk -/
def mapWithKey (f : String) (o : FL) : V :=
  .obj (FL.ofList ((fieldsEx o false).map (fun k => (k, false, thunkOf (fn2 f k (getLazy o k))))))
end Model

namespace Spec
/-- `mapWithKey(func, obj) = {[k]: func(k, obj[k]) for k in objectFields(obj)}` -/
def mapWithKey (f : String) (o : FL) : V :=
  .obj (FL.ofList ((fieldsEx o false).map (fun k => (k, false, thunkOf (fn2 f k (getLazy o k))))))
end Spec

/-! ## std.mergePatch (`builtin_merge_patch`, repaired to look at visible fields only) -/

inductive Outcome where
  | fail
  | delete
  | set (v : V)

/-- `BTreeSet::union` of two ascending name lists -/
def unionS (a b : List String) : List String := sortU (a ++ b)

/-- the `for field in target_fields.union(&patch_fields)` loop.  `outs` holds, for every entry of
    the patch, what evaluating and merging that entry gives; it is consulted (first entry for the
    name, like `patch.get`) only for names visible in the patch. -/
def mpLoop (tf : FL) (pn : List String) (outs : List (String × Outcome)) : List String → Option FL
  | [] => some .nil
  | k :: ks =>
    match (if pn.contains k then outs.lookup k else none) with
    | none =>
      -- not in the patch: the target's field is carried over as a thunk, not evaluated
      (mpLoop tf pn outs ks).map (.cons k false (getLazy tf k))
    | some .fail => none
    | some .delete => mpLoop tf pn outs ks
    | some (.set r) => (mpLoop tf pn outs ks).map (.cons k false r)

def targetFields : V → FL
  | .obj tf => tf
  | _ => .nil

mutual
def Model.mergePatch (t : V) : V → Option V
  | .err => none
  | .obj pf =>
    let tf := targetFields t
    let tn := fieldsEx tf false
    let pn := fieldsEx pf false
    (mpLoop tf pn (Model.mpOuts tf tn pf) (unionS tn pn)).map V.obj
  | .null => some .null
  | .bool b => some (.bool b)
  | .num n => some (.num n)
  | .str s => some (.str s)
  | .arr xs => some (.arr xs)
  | .func n => some (.func n)
/-- per patch entry: `patch.get(field)?` (forces the value), `null` deletes, otherwise the target's
    field is forced when it is visible there (else `null`) and the merge recurses -/
def Model.mpOuts (tf : FL) (tn : List String) : FL → List (String × Outcome)
  | .nil => []
  | .cons n _ v rest =>
    (n, match v with
        | .err => Outcome.fail
        | .null => Outcome.delete
        | _ =>
          match (if tn.contains n then force (getLazy tf n) else some V.null) with
          | none => Outcome.fail
          | some tv =>
            match Model.mergePatch tv v with
            | none => Outcome.fail
            | some r => Outcome.set r)
      :: Model.mpOuts tf tn rest
end

def isErr : V → Bool
  | .err => true
  | _ => false
def isNull : V → Bool
  | .null => true
  | _ => false

/-- all-or-nothing evaluation of a list of deferred values -/
def sequence : List (String × Option V) → Option FL
  | [] => some .nil
  | (k, some v) :: r => (sequence r).map (.cons k false v)
  | (_, none) :: _ => none

mutual
/-- the documented definition (std.jsonnet), evaluated at call time:
    ```
    if isObject(patch) then
      local t = if isObject(target) then target else {};
      local null_fields = [k for k in objectFields(patch) if patch[k] == null];
      { [k]: if !objectHas(patch, k) then t[k]
             else if !objectHas(t, k) then mergePatch(null, patch[k])
             else mergePatch(t[k], patch[k])
        for k in setDiff(setUnion(objectFields(t), objectFields(patch)), null_fields) }
    else patch
    ``` -/
def Spec.mergePatch (t : V) : V → Option V
  | .err => none
  | .obj pf =>
    let to := targetFields t
    let merged := Spec.mpVals to pf
    -- `patch[k] == null` evaluates every visible patch field
    if (fieldsEx pf false).any (fun k => isErr (getLazy pf k)) then none
    else
      let nullFields := (fieldsEx pf false).filter (fun k => isNull (getLazy pf k))
      let keys := (sortU (fieldsEx to false ++ fieldsEx pf false)).filter (fun k => !nullFields.contains k)
      (sequence (keys.map (fun k =>
        (k, if !has pf k then some (getLazy to k) else (merged.lookup k).join)))).map V.obj
  | .null => some .null
  | .bool b => some (.bool b)
  | .num n => some (.num n)
  | .str s => some (.str s)
  | .arr xs => some (.arr xs)
  | .func n => some (.func n)
/-- for every patch entry: `mergePatch(if objectHas(t, k) then t[k] else null, patch[k])` -/
def Spec.mpVals (to : FL) : FL → List (String × Option V)
  | .nil => []
  | .cons n _ v rest =>
    (n, match (if has to n then force (getLazy to n) else some V.null) with
        | none => none
        | some tv => Spec.mergePatch tv v)
      :: Spec.mpVals to rest
end

/-! ## std.prune (`builtin_prune`) -/

/-- `is_content` -/
def isContent : V → Bool
  | .null => false
  | .arr .nil => false
  | .obj o => len o != 0
  | _ => true

/-- the `for (name, value) in o.iter()` loop over the visible names, consulting the per-entry
    pruning outcome (first entry for the name, like `o.get`) -/
def pruneLoop (outs : List (String × Option V)) : List String → Option FL
  | [] => some .nil
  | k :: ks =>
    match outs.lookup k with
    | some (some r) =>
      if isContent r then (pruneLoop outs ks).map (.cons k false r) else pruneLoop outs ks
    | _ => none

mutual
def Model.prune : V → Option V
  | .err => none
  | .arr xs => (Model.pruneL xs).map (fun l => .arr (VL.ofList l))
  | .obj fs => (pruneLoop (Model.pruneOuts fs) (fieldsEx fs false)).map V.obj
  | .null => some .null
  | .bool b => some (.bool b)
  | .num n => some (.num n)
  | .str s => some (.str s)
  | .func n => some (.func n)
def Model.pruneL : VL → Option (List V)
  | .nil => some []
  | .cons v vs =>
    match Model.prune v with
    | none => none
    | some r =>
      match Model.pruneL vs with
      | none => none
      | some rs => some (if isContent r then r :: rs else rs)
def Model.pruneOuts : FL → List (String × Option V)
  | .nil => []
  | .cons n _ v rest => (n, Model.prune v) :: Model.pruneOuts rest
end

/-- keep the entries whose value is content -/
def filterContent : FL → FL
  | .nil => .nil
  | .cons n h v rest => if isContent v then .cons n h v (filterContent rest) else filterContent rest

/-- all-or-nothing -/
def allSome : List (Option V) → Option (List V)
  | [] => some []
  | some v :: r => (allSome r).map (v :: ·)
  | none :: _ => none

mutual
/-- documented definition:
    `if isArray(a) then [prune(x) for x in a if isContent(prune(x))]
     else if isObject(a) then {[x]: prune(a[x]) for x in objectFields(a) if isContent(prune(a[x]))}
     else a` -/
def Spec.prune : V → Option V
  | .err => none
  | .arr xs => (allSome (Spec.pruneL xs)).map (fun l => .arr (VL.ofList (l.filter isContent)))
  | .obj fs =>
    let outs := Spec.pruneF fs
    (sequence ((fieldsEx fs false).map (fun k => (k, (outs.lookup k).join)))).map
      (fun r => .obj (filterContent r))
  | .null => some .null
  | .bool b => some (.bool b)
  | .num n => some (.num n)
  | .str s => some (.str s)
  | .func n => some (.func n)
def Spec.pruneL : VL → List (Option V)
  | .nil => []
  | .cons v vs => Spec.prune v :: Spec.pruneL vs
def Spec.pruneF : FL → List (String × Option V)
  | .nil => []
  | .cons n _ v rest => (n, Spec.prune v) :: Spec.pruneF rest
end

/-! ## flattening an inheritance chain (input side of the correspondence)

`{…} + {…} + …` over closed field values: a later field replaces an earlier one; `::` hides, `:::`
unhides, `:` keeps the visibility the field had below (visible if new); `f+: v` is `super.f + v`
when `super` has `f`. -/

inductive Vis where
  | normal
  | hidden
  | unhide

structure LField where
  name : String
  vis : Vis
  plus : Bool
  val : V

/-- `+` on the value kinds the generator uses for `+:` fields (anything else: a failing thunk) -/
def addV : V → V → V
  | .num a, .num b => .num (a + b)
  | .str a, .str b => .str (a ++ b)
  | .arr a, .arr b => .arr (a.append b)
  | _, _ => .err

def extend1 (sup : FL) (f : LField) : FL :=
  let below := sup.find? f.name
  let hid := match f.vis with
    | .hidden => true
    | .unhide => false
    | .normal => match below with | some (h, _) => h | none => false
  let v := if f.plus then (match below with | some (_, sv) => addV sv f.val | none => f.val) else f.val
  .cons f.name hid v sup

def flatten (layers : List (List LField)) : FL :=
  layers.foldl (fun acc layer => layer.foldl extend1 acc) .nil

end JrsVerif.StdObj
