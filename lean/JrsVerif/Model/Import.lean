/- C07 — imports: resolution order, the per-state file cache, and an interpreter that drives both.

   Model side (mirrors the code that exists):
   * `resolve`  = `FileImportResolver::resolve_from` + `check_path`
                  (crates/jrsonnet-evaluator/src/import.rs): importer directory first, then every
                  library path in order; the first candidate that is not "not found" decides
                  (regular file -> its canonical path; directory/special file -> error; any other
                  metadata error -> I/O error).
   * `searchPath` = `MiscOpts::import_resolver` (crates/jrsonnet-cli/src/lib.rs).
   * `cellStep`/`step` = `State::import_resolved_str / _bin / import_resolved`
                  (crates/jrsonnet-evaluator/src/lib.rs) on ONE `FileData` cell: the three entry
                  points share the "occupied, or load and insert" prefix; `begin` stops where the
                  Rust code calls `evaluate`, `finish` is the code after that call.
   * `evalE`/`runOp` = the `Expr::Import` arm of `evaluate` (evaluate/mod.rs) for a four-form
                  expression language, every state change going through `step` (the record `Run`
                  carries the proof that its state is `run init hist`).
   Spec side: `walk` (POSIX path resolution over a finite tree with symlinks — what the OS does for
   `metadata`/`canonicalize`) and `specE` (cache-free meaning of an import graph).
   Core Lean only. -/

namespace JrsVerif.Import

abbrev Path := List String
abbrev Bytes := List Nat

/-! ## Resolution -/

/-- a path as written in the source: `PathBuf::push` replaces the base when it is absolute -/
structure Spelling where
  abs : Bool
  comps : List String
deriving DecidableEq, Repr

/-- what `fs::metadata` + `canonicalize` say about one candidate (`check_path`) -/
inductive Probe where
  | missing                 -- ErrorKind::NotFound
  | file (canon : Path)     -- regular file (after following links), with its canonical path
  | special                 -- directory or other non-regular file
  | ioerr                   -- any other metadata error (ENOTDIR, ELOOP, EACCES ...)
deriving DecidableEq, Repr

inductive Err where
  | notfound | special | io | load (cls : String) | utf8 | syntax | infrec | noFrame | fuel | panic
deriving DecidableEq, Repr

def push (base : Path) (sp : Spelling) : Path := if sp.abs then sp.comps else base ++ sp.comps

/-- importer directory first, then the library paths in the order stored in the resolver -/
def candidates (dir : Path) (jpaths : List Path) (sp : Spelling) : List Path :=
  push dir sp :: jpaths.map (fun j => push j sp)

def firstHit (probe : Path → Probe) : List Path → Except Err Path
  | [] => .error .notfound
  | c :: cs =>
    match probe c with
    | .missing => firstHit probe cs
    | .file q => .ok q
    | .special => .error .special
    | .ioerr => .error .io

def resolve (probe : Path → Probe) (dir : Path) (jpaths : List Path) (sp : Spelling) :
    Except Err Path :=
  firstHit probe (candidates dir jpaths sp)

/-- `-J` flags in command-line order and `JSONNET_PATH` entries -> the resolver's library paths -/
def searchPath (jflags env : List Path) : List Path := jflags.reverse ++ env

/-! ## The per-state file cache (one `FileData` per resolved path) -/

structure Cell where
  str : Option Bytes        -- `string`  (validated UTF-8; IStr and IBytes share their storage)
  bytes : Option Bytes      -- `bytes`
  parsed : Bool
  evaluated : Option Nat
  evaluating : Bool
deriving DecidableEq, Repr

def Cell.newString (b : Bytes) : Cell := ⟨some b, none, false, none, false⟩
def Cell.newBytes (b : Bytes) : Cell := ⟨none, some b, false, none, false⟩

/-- what `load_file_contents` answers if it is called -/
inductive LoadRes where
  | ok (b : Bytes)
  | err (cls : String)
deriving DecidableEq, Repr

inductive Ev where
  | str (p : Path) (ld : LoadRes)                       -- import_resolved_str
  | bin (p : Path) (ld : LoadRes)                       -- import_resolved_bin
  | begin (p : Path) (ld : LoadRes) (parseOk : Bool)    -- import_resolved up to `evaluate(..)`
  | finish (r : Option Nat)                             -- import_resolved after `evaluate(..)`
deriving DecidableEq, Repr

inductive Out where
  | strVal (b : Bytes) | binVal (b : Bytes) | val (v : Nat) | entered
  | finished (p : Path) (r : Option Nat) | err (e : Err)
deriving DecidableEq, Repr

structure Obs where
  loaded : Bool      -- the resolver's loader was called
  out : Out
deriving DecidableEq, Repr

inductive StackOp where
  | keep | push | pop
deriving DecidableEq, Repr

section machine
variable (valid : Bytes → Bool)

/-- `FileData::get_string` -/
def getString (c : Cell) : Except Err (Cell × Bytes) :=
  match c.str with
  | some s => .ok (c, s)
  | none =>
    match c.bytes with
    | some b => if valid b then .ok ({ c with str := some b }, b) else .error .utf8
    | none => .error .panic          -- expect("either string or bytes should be set")

/-- `match file { Occupied(d) => d, Vacant(v) => { load ..; v.insert(..) } }` -/
def obtain (asString : Bool) (c : Option Cell) (ld : LoadRes) : Except Err Cell × Bool :=
  match c with
  | some c => (.ok c, false)
  | none =>
    match ld with
    | .err cls => (.error (.load cls), true)
    | .ok b =>
      if asString then
        if valid b then (.ok (.newString b), true) else (.error .utf8, true)
      else (.ok (.newBytes b), true)

/-- the transition of the ONE cell an event addresses -/
def cellStep (c : Option Cell) (p : Path) : Ev → Option Cell × StackOp × Obs
  | .str _ ld =>
    match obtain valid true c ld with
    | (.error e, l) => (c, .keep, ⟨l, .err e⟩)
    | (.ok cell, l) =>
      match getString valid cell with
      | .ok (cell', s) => (some cell', .keep, ⟨l, .strVal s⟩)
      | .error e => (some cell, .keep, ⟨l, .err e⟩)
  | .bin _ ld =>
    match obtain valid false c ld with
    | (.error e, l) => (c, .keep, ⟨l, .err e⟩)
    | (.ok cell, l) =>
      match cell.bytes with
      | some b => (some cell, .keep, ⟨l, .binVal b⟩)
      | none =>
        match cell.str with
        | some s => (some { cell with bytes := some s }, .keep, ⟨l, .binVal s⟩)
        | none => (some cell, .keep, ⟨l, .err .panic⟩)
  | .begin _ ld parseOk =>
    match obtain valid true c ld with
    | (.error e, l) => (c, .keep, ⟨l, .err e⟩)
    | (.ok cell, l) =>
      match cell.evaluated with
      | some v => (some cell, .keep, ⟨l, .val v⟩)
      | none =>
        match getString valid cell with
        | .error e => (some cell, .keep, ⟨l, .err e⟩)
        | .ok (cell1, _) =>
          if !cell1.parsed && !parseOk then (some cell1, .keep, ⟨l, .err .syntax⟩)
          else
            let cell2 : Cell := { cell1 with parsed := true }
            if cell2.evaluating then (some cell2, .keep, ⟨l, .err .infrec⟩)
            else (some { cell2 with evaluating := true }, .push, ⟨l, .entered⟩)
  | .finish r =>
    match c with
    | none => (none, .pop, ⟨false, .err .panic⟩)      -- unreachable!("this file was just here")
    | some cell =>
      (some { cell with evaluating := false,
                        evaluated := match r with | some v => some v | none => cell.evaluated },
       .pop, ⟨false, .finished p r⟩)

structure St where
  cache : Path → Option Cell
  stack : List Path        -- files between `begin` and `finish` (the Rust call stack), innermost first

def init : St := ⟨fun _ => none, []⟩

def Ev.target (stack : List Path) : Ev → Option Path
  | .str p _ | .bin p _ | .begin p _ _ => some p
  | .finish _ => stack.head?

def applyOp : StackOp → Path → List Path → List Path
  | .keep, _, s => s
  | .push, p, s => p :: s
  | .pop, _, s => s.tail

def step (s : St) (ev : Ev) : St × Obs :=
  match ev.target s.stack with
  | none => (s, ⟨false, .err .noFrame⟩)
  | some p =>
    let r := cellStep valid (s.cache p) p ev
    (⟨fun q => if q = p then r.1 else s.cache q, applyOp r.2.1 p s.stack⟩, r.2.2)

def run (s : St) : List Ev → St × List Obs
  | [] => (s, [])
  | e :: es =>
    let r := step valid s e
    let rs := run r.1 es
    (rs.1, r.2 :: rs.2)

theorem run_snoc (s : St) (evs : List Ev) (e : Ev) :
    (run valid s (evs ++ [e])).1 = (step valid (run valid s evs).1 e).1 := by
  induction evs generalizing s with
  | nil => simp [run]
  | cons x xs ih => simp [run, ih]

end machine

/-! ## A finite file tree with symlinks: the reference meaning of `metadata`/`canonicalize` -/

inductive Kind where
  | imp | str | bin
deriving DecidableEq, Repr

inductive E where
  | lit (n : Nat)
  | imp (k : Kind) (sp : Spelling)
  | add (a b : E)        -- strict in both operands, left first
  | pick (a b : E)       -- `{ u: a, v: b }.u` : `b` is never evaluated
deriving Repr

/-- what the parser makes of a file's text -/
inductive Code where
  | expr (e : E)
  | syntaxErr
deriving Repr

inductive Node where
  | file (bytes : Bytes) (code : Code)
  | dir
  | link (target : Path)      -- absolute (sandbox-rooted) target
deriving Repr

abbrev FS := List (Path × Node)

def FS.get (fs : FS) (p : Path) : Option Node :=
  if p = [] then some .dir else (fs.find? (fun e => e.1 == p)).map (·.2)

/-- POSIX path resolution from directory `cur`; fuel bounds link chains (ELOOP) -/
def walk (fs : FS) : Nat → Path → List String → Probe
  | 0, _, _ => .ioerr
  | _ + 1, _, [] => .special
  | fuel + 1, cur, c :: rest =>
    if c = "." ∨ c = "" then walk fs fuel cur rest
    else if c = ".." then walk fs fuel cur.dropLast rest
    else
      match fs.get (cur ++ [c]) with
      | none => .missing
      | some .dir => walk fs fuel (cur ++ [c]) rest
      | some (.file _ _) => if rest = [] then .file (cur ++ [c]) else .ioerr
      | some (.link t) => walk fs fuel [] (t ++ rest)

def probeFS (fs : FS) (p : Path) : Probe := walk fs 256 [] p

def fileOf (fs : FS) (p : Path) : Option (Bytes × Code) :=
  match fs.get p with
  | some (.file b c) => some (b, c)
  | _ => none

/-! ## Interpreter over the machine (Model) -/

structure World where
  fs : FS
  jpaths : List Path
  valid : Bytes → Bool
  decode : Bytes → List Nat      -- code points of valid UTF-8 text

def checksum (xs : List Nat) : Nat := xs.foldl (fun a c => (a * 31 + c) % 65521) 7

inductive LogEntry where
  | resolve (src : String) (sp : Spelling) (res : Except Err Path)
  | load (p : Path) (res : Option String)      -- none = ok
deriving Repr

/-- fault: the `k`-th resolver call of the operation; `vanish` = the file is removed before a load
    (a resolve call is not disturbed), otherwise the call fails with an I/O error -/
structure Fault where
  k : Nat
  vanish : Bool

/-- machine state reached by the recorded history, plus the per-operation call counter and log -/
structure Run (valid : Bytes → Bool) where
  hist : List Ev
  st : St
  ok : st = (run valid init hist).1
  calls : Nat
  log : List LogEntry

def Run.fresh (valid : Bytes → Bool) : Run valid := ⟨[], init, by simp [run], 0, []⟩

def Run.fire {valid : Bytes → Bool} (r : Run valid) (ev : Ev) : Run valid × Obs :=
  let res := step valid r.st ev
  (⟨r.hist ++ [ev], res.1, by rw [run_snoc, ← r.ok], r.calls, r.log⟩, res.2)

def showPath (p : Path) : String := "/".intercalate p

def doResolve (w : World) (fault : Option Fault) (r : Run w.valid) (srcName : String) (dir : Path)
    (sp : Spelling) : Run w.valid × Except Err Path :=
  let n := r.calls + 1
  let res : Except Err Path :=
    match fault with
    | some f => if f.k = n ∧ !f.vanish then .error .io else resolve (probeFS w.fs) dir w.jpaths sp
    | none => resolve (probeFS w.fs) dir w.jpaths sp
  ({ r with calls := n, log := r.log ++ [.resolve srcName sp res] }, res)

/-- the loader is consulted only when the cell is vacant -/
def loadIfVacant (w : World) (fault : Option Fault) (r : Run w.valid) (p : Path) :
    Run w.valid × LoadRes :=
  match r.st.cache p with
  | some _ => (r, .err "unused")
  | none =>
    let n := r.calls + 1
    let real : LoadRes :=
      match fileOf w.fs p with
      | some (b, _) => .ok b
      | none => .err "resolved-missing"
    let res : LoadRes :=
      match fault with
      | some f => if f.k = n then (if f.vanish then .err "resolved-missing" else .err "io") else real
      | none => real
    let shown := match res with | .ok _ => none | .err c => some c
    ({ r with calls := n, log := r.log ++ [.load p shown] }, res)

def parseOkOf (fs : FS) (p : Path) : Bool :=
  match fileOf fs p with
  | some (_, .expr _) => true
  | _ => false

def codeOf (fs : FS) (p : Path) : Option E :=
  match fileOf fs p with
  | some (_, .expr e) => some e
  | _ => none

def outErr : Out → Err
  | .err e => e
  | _ => .panic

mutual
/-- `evaluate` on the four expression forms, inside file `file` -/
def evalE (w : World) (fault : Option Fault) :
    Nat → Run w.valid → Path → E → Run w.valid × Except Err Nat
  | 0, r, _, _ => (r, .error .fuel)
  | _ + 1, r, _, .lit k => (r, .ok k)
  | n + 1, r, f, .add a b =>
    match evalE w fault n r f a with
    | (r, .error e) => (r, .error e)
    | (r, .ok x) =>
      match evalE w fault n r f b with
      | (r, .error e) => (r, .error e)
      | (r, .ok y) => (r, .ok (x + y))
  | n + 1, r, f, .pick a _ => evalE w fault n r f a
  | n + 1, r, f, .imp k sp =>
    match doResolve w fault r ("f:" ++ showPath f) f.dropLast sp with
    | (r, .error e) => (r, .error e)
    | (r, .ok p) =>
      match importAs w fault n r p k with
      | (r, .error e) => (r, .error e)
      | (r, .ok (v, bs)) =>
        match k with
        | .imp => (r, .ok v)
        | .str => (r, .ok (checksum (w.decode bs)))
        | .bin => (r, .ok (checksum bs))

/-- `import_resolved` / `_str` / `_bin` on an already resolved path -/
def importAs (w : World) (fault : Option Fault) :
    Nat → Run w.valid → Path → Kind → Run w.valid × Except Err (Nat × Bytes)
  | 0, r, _, _ => (r, .error .fuel)
  | n + 1, r, p, k =>
    match loadIfVacant w fault r p with
    | (r, ld) =>
      match k with
      | .str =>
        match r.fire (.str p ld) with
        | (r, ⟨_, .strVal b⟩) => (r, .ok (0, b))
        | (r, ob) => (r, .error (outErr ob.out))
      | .bin =>
        match r.fire (.bin p ld) with
        | (r, ⟨_, .binVal b⟩) => (r, .ok (0, b))
        | (r, ob) => (r, .error (outErr ob.out))
      | .imp =>
        match r.fire (.begin p ld (parseOkOf w.fs p)) with
        | (r, ⟨_, .val v⟩) => (r, .ok (v, []))
        | (r, ⟨_, .entered⟩) =>
          match codeOf w.fs p with
          | none => ((r.fire (.finish none)).1, .error .panic)
          | some e =>
            match evalE w fault n r p e with
            | (r, res) =>
              let fin := r.fire (.finish (match res with | .ok v => some v | .error _ => none))
              (fin.1, match res with | .ok v => .ok (v, []) | .error e => .error e)
        | (r, ob) => (r, .error (outErr ob.out))
end

inductive Outcome where
  | num (n : Nat) | str (cps : List Nat) | bin (b : Bytes) | err (e : Err)
deriving Repr

structure Op where
  kind : Kind
  sp : Spelling
  fault : Option Fault

def fuelTop : Nat := 400

/-- one top-level operation issued from directory `dir` (`State::import_from` /
    `resolve_from` + `import_resolved_str/_bin`) -/
def runOp (w : World) (dir : Path) (r : Run w.valid) (op : Op) :
    Run w.valid × Outcome × List LogEntry :=
  let r0 : Run w.valid := { r with calls := 0, log := [] }
  match doResolve w op.fault r0 ("d:" ++ showPath dir) dir op.sp with
  | (r, .error e) => (r, .err e, r.log)
  | (r, .ok p) =>
    match importAs w op.fault fuelTop r p op.kind with
    | (r, .error e) => (r, .err e, r.log)
    | (r, .ok (v, bs)) =>
      match op.kind with
      | .imp => (r, .num v, r.log)
      | .str => (r, .str (w.decode bs), r.log)
      | .bin => (r, .bin bs, r.log)

def runOps (w : World) (dir : Path) : Run w.valid → List Op → List (Outcome × List LogEntry)
  | _, [] => []
  | r, op :: ops =>
    match runOp w dir r op with
    | (r, o, l) => (o, l) :: runOps w dir r ops

/-! ## Cache-free reference meaning (Spec): what an import graph denotes in a fresh state -/

mutual
def specE (w : World) : Nat → List Path → Path → E → Except Err Nat
  | 0, _, _, _ => .error .fuel
  | _ + 1, _, _, .lit k => .ok k
  | n + 1, vis, f, .add a b =>
    match specE w n vis f a with
    | .error e => .error e
    | .ok x =>
      match specE w n vis f b with
      | .error e => .error e
      | .ok y => .ok (x + y)
  | n + 1, vis, f, .pick a _ => specE w n vis f a
  | n + 1, vis, f, .imp k sp =>
    match resolve (probeFS w.fs) f.dropLast w.jpaths sp with
    | .error e => .error e
    | .ok p =>
      match specImport w n vis p k with
      | .error e => .error e
      | .ok (v, bs) =>
        match k with
        | .imp => .ok v
        | .str => .ok (checksum (w.decode bs))
        | .bin => .ok (checksum bs)

def specImport (w : World) : Nat → List Path → Path → Kind → Except Err (Nat × Bytes)
  | 0, _, _, _ => .error .fuel
  | n + 1, vis, p, k =>
    match fileOf w.fs p with
    | none => .error (.load "resolved-missing")
    | some (b, code) =>
      match k with
      | .bin => .ok (0, b)
      | .str => if w.valid b then .ok (0, b) else .error .utf8
      | .imp =>
        if !w.valid b then .error .utf8
        else
          match code with
          | .syntaxErr => .error .syntax
          | .expr e =>
            if vis.contains p then .error .infrec
            else
              match specE w n (p :: vis) p e with
              | .error e => .error e
              | .ok v => .ok (v, [])
end

def specOp (w : World) (dir : Path) (op : Op) : Outcome :=
  match resolve (probeFS w.fs) dir w.jpaths op.sp with
  | .error e => .err e
  | .ok p =>
    match specImport w fuelTop [] p op.kind with
    | .error e => .err e
    | .ok (v, bs) =>
      match op.kind with
      | .imp => .num v
      | .str => .str (w.decode bs)
      | .bin => .bin bs

end JrsVerif.Import
