/-
  Reference meaning of `std.format` / `str % vals`: Python's printf-style `%` formatting as adopted
  by Jsonnet's `std.format`, written from the language descriptions (Python "printf-style String
  Formatting", Jsonnet std.format), NOT from the Rust code:

  * conversion specifier grammar:  `%` [`(` key `)`] flags* [width | `*`] [`.` [precision | `*`]]
    [h|l|L]* conversion
  * integer conversions: digits of |trunc v| in the base, at least `precision` digits (zero filled),
    `#` = leading `0` for octal (C/Jsonnet form) and `0x`/`0X` for hex, sign `-`/`+`/` `, then the
    field is filled to `width`: `-` → spaces on the right, else `0` → zeros between sign/prefix
    and digits, else spaces on the left.  Width counts characters.
  * values are consumed left to right; each `*` consumes one value before the converted value,
    `%%` consumes none; the number of values must match exactly.
  * adopted-by-Jsonnet deviations from CPython that are part of this reference: `%#o` writes `0`
    not `0o`; `%s` ignores precision; `%%` honours width; numbers are doubles and the integer
    conversions truncate them toward zero; parse errors are reported before any value is looked
    at; `%g` counts the significant digits of |v| < 1 from the units digit; widths/precisions above
    65535 and float precisions above 308 are errors; `-0.0` is printed without a sign.
  * float conversions e E f F g G print the EXACT decimal expansion of the double, correctly
    rounded (round half to even on the exact value) to the requested number of places; the
    exponent of e/E/g/G is the one of the ROUNDED value (9.5 with precision 0 is 1e+01), and `%g`
    chooses between the two forms by that exponent (C, Python).  Written here in exact integer
    arithmetic on |v| · 2^1074 (`fixDigits`, `sciDigits`) — no floating point, no library call.

  Shares only the data types (`Code`, `Val`, `Err` …) with the model.
-/
import JrsVerif.Model.Format

namespace JrsVerif.FormatSpec
open JrsVerif.Format

/-! ## grammar of a conversion specifier, by maximal munch -/

def isFlagChar (c : Char) : Bool := c = '#' || c = '0' || c = '-' || c = ' ' || c = '+'
def isDigitChar (c : Char) : Bool := '0' ≤ c && c ≤ '9'
def isLenMod (c : Char) : Bool := c = 'h' || c = 'l' || c = 'L'

def flagsOf (cs : List Char) : Flags :=
  { alt := cs.contains '#', zero := cs.contains '0', left := cs.contains '-',
    blank := cs.contains ' ', sign := cs.contains '+' }

/-- value of a decimal digit string -/
def decVal (cs : List Char) : Nat := cs.foldl (fun a c => a * 10 + (c.toNat - 48)) 0

def convTable : List (Char × Conv × Bool) :=
  [('d', .dec, false), ('i', .dec, false), ('u', .dec, false), ('o', .oct, false),
   ('x', .hex, false), ('X', .hex, true), ('e', .sci, false), ('E', .sci, true),
   ('f', .flt, false), ('F', .flt, true), ('g', .shorter, false), ('G', .shorter, true),
   ('c', .chr, false), ('s', .str, false), ('%', .pct, false)]

/-- a number field: `*` or a (possibly empty) digit string; values above 65535 are rejected -/
def numField (s : List Char) : R (Width × List Char) :=
  match s with
  | '*' :: r => .ok (.star, r)
  | _ =>
    let ds := s.takeWhile isDigitChar
    if decVal ds > 65535 then .error .tooLarge else .ok (.fixed (decVal ds), s.dropWhile isDigitChar)

/-- optional mapping key `(key)`: the text up to the first `)` -/
def keyField (s : List Char) : R (List Char × List Char) :=
  match s with
  | '(' :: r =>
    if r.contains ')' then .ok (r.takeWhile (· ≠ ')'), (r.dropWhile (· ≠ ')')).drop 1)
    else .error .truncated
  | _ => .ok ([], s)

/-- optional precision: `.` followed by a number field -/
def precField (s : List Char) : R (Option Width × List Char) :=
  match s with
  | '.' :: r =>
    match numField r with
    | .ok (p, r') => .ok (some p, r')
    | .error e => .error e
  | _ => .ok (none, s)

/-- length modifiers (ignored) and the conversion character -/
def convField (key : List Char) (fl : Flags) (w : Width) (p : Option Width) (s : List Char) :
    R (Code × List Char) :=
  match s.dropWhile isLenMod with
  | [] => .error .truncated
  | c :: rest =>
    match convTable.lookup c with
    | none => .error .unknownConv
    | some (cv, caps) =>
      .ok ({ mkey := key, flags := fl, width := w, prec := p, conv := cv, caps := caps }, rest)

/-- one conversion specifier (text after `%`).  Running out of text anywhere is `truncated`. -/
def parseSpec (s : List Char) : R (Code × List Char) := do
  let (key, s1) ← keyField s
  let (w, s3) ← numField (s1.dropWhile isFlagChar)
  let (p, s4) ← precField s3
  convField key (flagsOf (s1.takeWhile isFlagChar)) w p s4

/-- the whole format string: literal runs (never empty, never containing `%`) and specifiers -/
def parseFmtF : Nat → List Char → R (List Elem)
  | 0, _ => .ok []
  | fuel + 1, s =>
    let lit := s.takeWhile (· ≠ '%')
    let pre := if lit = [] then [] else [Elem.lit lit]
    match s.dropWhile (· ≠ '%') with
    | [] => .ok pre
    | _ :: r => do
      let (c, r') ← parseSpec r
      let es ← parseFmtF fuel r'
      pure (pre ++ Elem.code c :: es)

def parseFmt (s : List Char) : R (List Elem) := parseFmtF (s.length + 1) s

/-! ## conversions -/

/-- positional digits of `n` in base `b`, most significant first (`fuel` bounds the recursion) -/
def digitsF : Nat → Nat → Nat → List Nat
  | 0, _, n => [n]
  | fuel + 1, b, n => if n < b then [n] else digitsF fuel b (n / b) ++ [n % b]

def digits (b n : Nat) : List Nat := digitsF n b n

def digitChar (upper : Bool) (d : Nat) : Char :=
  let lower := "0123456789abcdefghijklmnopqrstuvwxyz".toList.getD d '?'
  if upper then lower.toUpper else lower

def base : Conv → Nat
  | .oct => 8 | .hex => 16 | _ => 10

def zeros (n : Nat) : List Char := List.replicate n '0'
def spaces (n : Nat) : List Char := List.replicate n ' '

def signText (negative : Bool) (fl : Flags) : List Char :=
  if negative then ['-'] else if fl.sign then ['+'] else if fl.blank then [' '] else []

/-- fill `sgn ++ pre ++ body` to `width` characters -/
def fill (fl : Flags) (width : Nat) (sgn pre body : List Char) : List Char :=
  let len := sgn.length + pre.length + body.length
  if fl.left then sgn ++ pre ++ body ++ spaces (width - len)
  else if fl.zero then sgn ++ pre ++ zeros (width - len) ++ body
  else spaces (width - len) ++ sgn ++ pre ++ body

/-- `%d %i %u %o %x %X` of the integer `n` -/
def intConv (fl : Flags) (width : Nat) (prec : Option Nat) (cv : Conv) (caps : Bool) (n : Int) :
    List Char :=
  let mag := n.natAbs
  let ds := (digits (base cv) mag).map (digitChar (cv = .hex && caps))
  let ds := if cv = .oct && fl.alt && mag ≠ 0 then '0' :: ds else ds
  let ds := zeros (prec.getD 0 - ds.length) ++ ds
  let pre := if cv = .hex && fl.alt then (if caps then ['0', 'X'] else ['0', 'x']) else []
  fill fl width (signText (n < 0) fl) pre ds

/-- plain padding (`%s`, `%c`, `%%`): the `0` flag does not apply -/
def padText (fl : Flags) (width : Nat) (s : List Char) : List Char :=
  if fl.left then s ++ spaces (width - s.length) else spaces (width - s.length) ++ s

def stripZeros (s : List Char) : List Char := (s.reverse.dropWhile (· = '0')).reverse

/-- `[-]ddd.ddd` from decimal digit data: `whole` and the `prec`-digit fraction `frac` -/
def fixedText (d : FDig) (prec : Nat) (alt keepZeros : Bool) : List Char :=
  let w := (digits 10 d.whole).map (digitChar false)
  let f := (digits 10 d.frac).map (digitChar false)
  let f := if prec = 0 then [] else zeros (prec - f.length) ++ f
  let f := if keepZeros then f else stripZeros f
  if f ≠ [] || alt then w ++ ['.'] ++ f else w

def expText (caps : Bool) (e : Int) : List Char :=
  let ds := (digits 10 e.natAbs).map (digitChar false)
  [if caps then 'E' else 'e'] ++ [if e < 0 then '-' else '+'] ++ zeros (2 - ds.length) ++ ds

/-- sign, zero/space filling to `width` of a float text `body ++ suffix` -/
def floatConv (fl : Flags) (width : Nat) (neg : Bool) (body suffix : List Char) : List Char :=
  let sgn := signText neg fl
  let len := sgn.length + body.length + suffix.length
  if fl.left then sgn ++ body ++ suffix ++ spaces (width - len)
  else if fl.zero then sgn ++ zeros (width - len) ++ body ++ suffix
  else spaces (width - len) ++ sgn ++ body ++ suffix

/-! ## exact decimal digits of a double (|v| = mag / 2^1074) -/

/-- the fraction `n / d` (d > 0) rounded to the nearest integer, ties to the even one -/
def roundHalfEven (n d : Nat) : Nat :=
  let q := n / d
  let r := n % d
  if 2 * r < d then q else if 2 * r > d then q + 1 else if q % 2 = 0 then q else q + 1

/-- |v| rounded to `p` decimal places, counted in units of 10^-p -/
def fixedUnits (mag p : Nat) : Nat := roundHalfEven (mag * 10 ^ p) U

/-- `%f`: integer part and `p`-digit fraction of |v| rounded to `p` places -/
def fixDigits (mag p : Nat) : FDig :=
  { whole := fixedUnits mag p / 10 ^ p, frac := fixedUnits mag p % 10 ^ p }

/-- least `j ≥ start` with `mag · 10^j ≥ 2^1074` (`fuel` bounds the search; 10^324 > 2^1074) -/
def lowExpF : Nat → Nat → Nat → Nat
  | 0, j, _ => j
  | fuel + 1, j, mag => if mag * 10 ^ j ≥ U then j else lowExpF fuel (j + 1) mag

/-- floor(log10 |v|): the decimal exponent of the leading digit of |v| (0 for zero) -/
def exp10 (mag : Nat) : Int :=
  if mag = 0 then 0
  else if mag ≥ U then (((digits 10 (mag / U)).length - 1 : Nat) : Int)
  else -((lowExpF 400 1 mag : Nat) : Int)

/-- |v| / 10^(x-p) rounded to an integer: |v| in units of the `p`-th place after the leading
    digit when the leading digit has decimal exponent `x` -/
def sciUnits (mag p : Nat) (x : Int) : Nat :=
  if x ≤ (p : Int) then roundHalfEven (mag * 10 ^ ((p : Int) - x).toNat) U
  else roundHalfEven mag (U * 10 ^ (x - (p : Int)).toNat)

/-- `%e`: decimal exponent and mantissa digits (leading digit, `p`-digit fraction) of |v| rounded
    to `p + 1` significant digits; when rounding carries into a new leading digit (9.99… → 10.0…)
    the exponent is one larger and the mantissa is 1.00…0 -/
def sciDigits (mag p : Nat) : Int × FDig :=
  let x := exp10 mag
  let u := sciUnits mag p x
  if u ≥ 10 ^ (p + 1) then (x + 1, { whole := 1, frac := 0 })
  else (x, { whole := u / 10 ^ p, frac := u % 10 ^ p })

/-- decimal text of a natural number -/
def decText (n : Nat) : List Char := (digits 10 n).map (digitChar false)

/-- the `q`-digit fraction as text -/
def fracText (q : Nat) (d : FDig) : List Char := zeros (q - (decText d.frac).length) ++ decText d.frac

/-- `ddd.ddd` (`ddd` for q = 0): the plain decimal notation of digit data, which is what Rust's
    `format!("{:.*}", q, x)` is assumed to return for the exact digit data of `x` -/
def plainText (q : Nat) (d : FDig) : List Char :=
  decText d.whole ++ (if q = 0 then [] else '.' :: fracText q d)

/-- decimal text of an integer as Rust's `{:e}` writes the exponent: `-` or nothing, digits -/
def intText (x : Int) : List Char := (if x < 0 then ['-'] else []) ++ decText x.natAbs

/-- the exact, correctly rounded text that `format!("{:.*}", q, |v|)` is assumed to return -/
def rustFixed (mag q : Nat) : List Char := plainText q (fixDigits mag q)

/-- the exact, correctly rounded text that `format!("{:.*e}", q, |v|)` is assumed to return -/
def rustSci (mag q : Nat) : List Char :=
  plainText q (sciDigits mag q).2 ++ 'e' :: intText (sciDigits mag q).1

/-- adopted limit: the decimal expansion of a double is generated to at most 308 places; a larger
    precision of an e/E/f/F/g/G conversion is a "width or precision too large" error, whatever
    the value -/
def maxFloatPrec : Nat := 308

def isScalar (n : Nat) : Bool := n < 0xD800 || (0xE000 ≤ n && n ≤ 0x10FFFF)

def needNum : Val → R Num
  | .num n _ => .ok n
  | _ => .error .type

/-- the truncated integer value of a number -/
def truncInt (n : Num) : Int := if n.neg then -(n.whole : Int) else (n.whole : Int)

/-- one conversion applied to one value with resolved width/precision -/
def conv (c : Code) (width : Nat) (prec : Option Nat) (v : Val) : R (List Char) :=
  let fl := c.flags
  match c.conv with
  | .pct => .ok (padText fl width ['%'])
  | .str => .ok (padText fl width v.disp)
  | .chr =>
    match v with
    | .num n _ =>
      if truncInt n < 0 then .error .codepoint
      else if isScalar n.whole then .ok (padText fl width [Char.ofNat n.whole])
      else .error .codepoint
    | .str s => if s.length = 1 then .ok (padText fl width s) else .error .type
    | _ => .error .type
  | .dec | .oct | .hex => do
    let n ← needNum v
    pure (intConv fl width prec c.conv c.caps (truncInt n))
  | .flt => do
    let p := prec.getD 6
    if p > maxFloatPrec then throw Err.tooLarge
    let n ← needNum v
    pure (floatConv fl width n.neg (fixedText (fixDigits n.mag p) p fl.alt true) [])
  | .sci => do
    let p := prec.getD 6
    if p > maxFloatPrec then throw Err.tooLarge
    let n ← needNum v
    let (x, d) := sciDigits n.mag p
    pure (floatConv fl width n.neg (fixedText d p fl.alt true) (expText c.caps x))
  | .shorter => do
    if prec.getD 6 > maxFloatPrec then throw Err.tooLarge
    let n ← needNum v
    let p := max (prec.getD 6) 1
    -- the value rounded to `p` significant digits, and its decimal exponent
    let (x, d) := sciDigits n.mag (p - 1)
    if x < -4 || x ≥ (p : Int) then
      pure (floatConv fl width n.neg (fixedText d (p - 1) fl.alt fl.alt) (expText c.caps x))
    else
      let q := p - max 1 (x.toNat + 1)
      pure (floatConv fl width n.neg (fixedText (fixDigits n.mag q) q fl.alt fl.alt) [])

/-! ## argument consumption -/

/-- a `*` argument: an integer in `0 ..= 65535` -/
def starArg : Val → R Nat
  | .num n _ => if n.neg || n.fracNZ || n.whole > 65535 then .error .type else .ok n.whole
  | _ => .error .type

/-- number of values a specifier consumes -/
def need (c : Code) : Nat :=
  (if c.width = .star then 1 else 0) + (if c.prec = some .star then 1 else 0)
    + (if c.conv = .pct then 0 else 1)

/-- one specifier applied to exactly its own window of arguments (`args.length ≤ need c`;
    shorter means the value list ran out) -/
def convArgs (c : Code) (args : List Val) : R (List Char) := do
  let (w, args) ←
    match c.width, args with
    | .fixed n, as => pure (n, as)
    | .star, [] => throw Err.notEnough
    | .star, a :: as => do let n ← starArg a; pure (n, as)
  let (p, args) ←
    match c.prec, args with
    | none, as => pure (none, as)
    | some (.fixed n), as => pure (some n, as)
    | some .star, [] => throw Err.notEnough
    | some .star, a :: as => do let n ← starArg a; pure (some n, as)
  if c.conv = .pct then conv c w p (.other [])
  else
    match args with
    | [] => throw Err.notEnough
    | v :: _ => conv c w p v

/-- the elements applied to `vals`, the `k`-th specifier seeing exactly the window of `vals`
    that starts where the windows of the earlier specifiers end -/
def elemsAt (vals : List Val) : List Elem → Nat → R (List Char)
  | [], off => if vals.length ≤ off then .ok [] else .error .tooMany
  | .lit s :: es, off => do let r ← elemsAt vals es off; pure (s ++ r)
  | .code c :: es, off => do
    let s ← convArgs c ((vals.drop off).take (need c))
    let r ← elemsAt vals es (off + need c)
    pure (s ++ r)

def formatArr (fmt : List Char) (vals : List Val) : R (List Char) := do
  let es ← parseFmt fmt
  elemsAt vals es 0

/-- object mode: `%(key)…`; `*` is not available, every specifier except `%%` needs a key; the key
    names a field, or (jrsonnet extension) a dotted path through nested objects -/
def path (k : List Char) : List (List Char) :=
  k.foldr (fun c acc => match acc with
    | [] => [[c]]
    | h :: t => if c = '.' then [] :: h :: t else (c :: h) :: t) [[]]

def walk : Val → List (List Char) → R Val
  | v, [] => .ok v
  | .obj fs _, k :: ks => match fs.lookup k with
    | some v => walk v ks
    | none => .error .noField
  | _, _ :: _ => .error .notObj

def lookupKey (fields : List (List Char × Val)) (disp : List Char) (k : List Char) : R Val :=
  match fields.lookup k with
  | some v => .ok v
  | none => walk (.obj fields disp) (path k)

/-- object mode for one specifier; `cv` = the conversion of one value -/
def convObjWith (cv : Code → Nat → Option Nat → Val → R (List Char))
    (fields : List (List Char × Val)) (disp : List Char) (c : Code) : R (List Char) :=
  match c.width, c.prec with
  | .star, _ => .error .starObj
  | .fixed _, some .star => .error .starObj
  | .fixed w, p =>
    let p' := match p with | some (.fixed n) => some n | _ => none
    if c.conv = .pct then cv c w p' (.other [])
    else if c.mkey = [] then .error .keysRequired
    else
      match lookupKey fields disp c.mkey with
      | .ok v => cv c w p' v
      | .error e => .error e

def elemTextWith (cv : Code → Nat → Option Nat → Val → R (List Char))
    (fields : List (List Char × Val)) (disp : List Char) : Elem → R (List Char)
  | .lit s => .ok s
  | .code c => convObjWith cv fields disp c

/-- the text is the concatenation of the elements' texts; the first failing element fails it -/
def elemsObjWith (cv : Code → Nat → Option Nat → Val → R (List Char))
    (fields : List (List Char × Val)) (disp : List Char) : List Elem → R (List Char)
  | [] => .ok []
  | e :: es =>
    match elemTextWith cv fields disp e with
    | .error x => .error x
    | .ok s =>
      match elemsObjWith cv fields disp es with
      | .error x => .error x
      | .ok r => .ok (s ++ r)

def formatObj (fmt : List Char) (fields : List (List Char × Val)) (disp : List Char) : R (List Char) := do
  let es ← parseFmt fmt
  elemsObjWith conv fields disp es

def stdFormat (fmt : List Char) : Args → R (List Char)
  | .arr vs => formatArr fmt vs
  | .single (.obj fs d) => formatObj fmt fs d
  | .single v => formatArr fmt [v]

end JrsVerif.FormatSpec
