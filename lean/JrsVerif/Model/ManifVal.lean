/- C14 — JSON-like values plus functions, shared by the Model and Spec side of the domain claims. -/

namespace JrsVerif.ManifVal

inductive V
  | null
  | bool (b : Bool)
  | num (text : List Char)
  | str (s : List Char)
  | func
  | arr (xs : List V)
  | obj (kvs : List (List Char × V))

def V.isFunc : V → Bool | .func => true | _ => false
def V.isNull : V → Bool | .null => true | _ => false
def V.isObj : V → Bool | .obj _ => true | _ => false
def V.isArr : V → Bool | .arr _ => true | _ => false

end JrsVerif.ManifVal
