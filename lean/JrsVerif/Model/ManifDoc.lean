/- C14 — whole-document writers (Model side): TOML, Python, PythonVars, INI.

   Mirrors the code that exists in
     crates/jrsonnet-stdlib/src/manifest/toml.rs    is_section, manifest_value, manifest_table_internal,
                                                    manifest_table (skip_empty_sections guard), manifest_table_array
     crates/jrsonnet-stdlib/src/manifest/python.rs  PythonFormat, PythonVarsFormat
     crates/jrsonnet-stdlib/src/manifest/ini.rs     manifest_ini_body, manifest_ini_obj
     crates/jrsonnet-evaluator/src/manifest.rs      ToStringFormat (JsonFormatting::ToString)
   A value `V` is the value as the writer meets it: object fields in the order `obj.iter()` yields
   them, numbers as the text `write!(buf, "{n}")` prints (that printer is C05's subject).

   TOML is written in two steps that together are the Rust control flow: `items` walks the value
   exactly like manifest_table_internal / manifest_table / manifest_table_array do (first loop: the
   non-section fields, second loop: the sections; the `skip_empty_sections && !obj.is_empty() && all
   sections` guard; the `obj.is_empty()` early return) and records every line the code starts
   (key/value line, `[table]` header, `[[array]]` header) with its padding depth; `render` is the
   `buf.push` side: the `first` flag separators (`\n`, `\n\n`), `cur_padding`, keys and values.
   `none` = the writer returns an error. -/
import JrsVerif.Model.Manif

namespace JrsVerif.ManifDoc
open JrsVerif.Manif JrsVerif.ManifVal

structure TomlOpts where
  /-- `options.padding` -/
  pad : List Char
  /-- `options.skip_empty_sections` (true for the CLI format, false for std.manifestToml) -/
  skip : Bool

/-- `is_section` -/
def isSection : V → Bool
  | .arr xs => !xs.isEmpty && xs.all V.isObj
  | .obj _ => true
  | _ => false

/-! ### `manifest_value` -/

mutual
def tomlValue (pad : List Char) (inline : Bool) (cur : List Char) : V → Option (List Char)
  | .bool true => some "true".toList
  | .bool false => some "false".toList
  | .str s => some (escToml s)
  | .num t => some t
  | .arr xs =>
    match tomlElems pad inline cur true xs with
    | none => none
    | some body =>
      some ('[' :: (body ++ ((if xs.isEmpty then [] else if inline then [' '] else '\n' :: cur) ++ [']'])))
  | .obj kvs =>
    match tomlInline pad true kvs with
    | none => none
    | some body => some ('{' :: (body ++ ((if kvs.isEmpty then [] else [' ']) ++ ['}'])))
  | .null => none
  | .func => none
def tomlElems (pad : List Char) (inline : Bool) (cur : List Char) (first : Bool) : List V → Option (List Char)
  | [] => some []
  | x :: xs =>
    match tomlValue pad true [] x, tomlElems pad inline cur false xs with
    | some a, some b =>
      some ((if first then [] else [',']) ++ ((if inline then [' '] else '\n' :: (cur ++ pad)) ++ (a ++ b)))
    | _, _ => none
def tomlInline (pad : List Char) (first : Bool) : List (List Char × V) → Option (List Char)
  | [] => some []
  | kv :: r =>
    match tomlValue pad true [] kv.2, tomlInline pad false r with
    | some a, some b =>
      some ((if first then [] else [',']) ++ (' ' :: (Manif.tomlKey kv.1 ++ (" = ".toList ++ (a ++ b)))))
    | _, _ => none
end

/-! ### the table walk -/

/-- one line the table writers start -/
inductive Item
  /-- `key = value` of the first loop of manifest_table_internal, at `cur_padding = pad^depth` -/
  | kv (depth : Nat) (k : List Char) (v : V)
  /-- `[path]` (`arr = false`, manifest_table) or `[[path]]` (`arr = true`, manifest_table_array);
      `more` = the table is not empty, so the code pushes `\n` and descends -/
  | hdr (depth : Nat) (arr : Bool) (path : List (List Char)) (more : Bool)

/-- the guard of manifest_table: the table header is left out -/
def skipHeader (skip : Bool) (kvs : List (List Char × V)) : Bool :=
  skip && !kvs.isEmpty && kvs.all (fun kv => isSection kv.2)

/-- first loop of manifest_table_internal -/
def plains (depth : Nat) : List (List Char × V) → List Item
  | [] => []
  | kv :: r => if isSection kv.2 then plains depth r else .kv depth kv.1 kv.2 :: plains depth r

mutual
/-- second loop of manifest_table_internal (`for (k, v) in sections`) -/
def secs (skip : Bool) (path : List (List Char)) (depth : Nat) : List (List Char × V) → List Item
  | [] => []
  | kv :: r =>
    if isSection kv.2 then sect skip (path ++ [kv.1]) depth kv.2 ++ secs skip path depth r
    else secs skip path depth r
/-- manifest_table / manifest_table_array (the `match v` of the second loop) -/
def sect (skip : Bool) (path : List (List Char)) (depth : Nat) : V → List Item
  | .obj kvs =>
    if skipHeader skip kvs then plains depth kvs ++ secs skip path depth kvs
    else if kvs.isEmpty then [.hdr depth false path false]
    else .hdr depth false path true :: (plains (depth + 1) kvs ++ secs skip path (depth + 1) kvs)
  | .arr xs => tables skip path depth xs
  | _ => []
/-- the element loop of manifest_table_array -/
def tables (skip : Bool) (path : List (List Char)) (depth : Nat) : List V → List Item
  | [] => []
  | x :: xs =>
    (match x with
     | .obj kvs =>
       if kvs.isEmpty then [.hdr depth true path false]
       else .hdr depth true path true :: (plains (depth + 1) kvs ++ secs skip path (depth + 1) kvs)
     | _ => []) ++ tables skip path depth xs
end

/-- manifest_table_internal at the root -/
def items (skip : Bool) (kvs : List (List Char × V)) : List Item := plains 0 kvs ++ secs skip [] 0 kvs

/-! ### the `buf.push` side -/

def padOf (pad : List Char) : Nat → List Char
  | 0 => []
  | n + 1 => padOf pad n ++ pad

/-- `for (i, k) in path.iter().enumerate() { if i != 0 { '.' }; escape_key_toml_buf(k) }` -/
def joinPath : List (List Char) → List Char
  | [] => []
  | [k] => Manif.tomlKey k
  | k :: r => Manif.tomlKey k ++ '.' :: joinPath r

def itemText (pad : List Char) : Item → Option (List Char)
  | .kv d k v =>
    match tomlValue pad false (padOf pad d) v with
    | some t => some (padOf pad d ++ (Manif.tomlKey k ++ (" = ".toList ++ t)))
    | none => none
  | .hdr d false path _ => some (padOf pad d ++ ('[' :: (joinPath path ++ [']'])))
  | .hdr d true path _ => some (padOf pad d ++ ("[[".toList ++ (joinPath path ++ "]]".toList)))

/-- what the `first` flags and the `\n` after a non-empty table's header amount to: nothing before
    the first line; `\n` before a key/value line and before a header that directly follows the
    header of the non-empty table it is in; `\n\n` before every other header -/
def sepBefore (prev : Option Item) (it : Item) : List Char :=
  match prev, it with
  | none, _ => []
  | some _, .kv _ _ _ => ['\n']
  | some (.hdr _ _ _ true), .hdr _ _ _ _ => ['\n']
  | some _, .hdr _ _ _ _ => "\n\n".toList

def render (pad : List Char) : Option Item → List Item → Option (List Char)
  | _, [] => some []
  | prev, it :: r =>
    match itemText pad it, render pad (some it) r with
    | some a, some b => some (sepBefore prev it ++ (a ++ b))
    | _, _ => none

/-- `TomlFormat::manifest_buf` -/
def tomlDoc (o : TomlOpts) : V → Option (List Char)
  | .obj kvs => render o.pad none (items o.skip kvs)
  | _ => none

/-! ### Python -/

mutual
/-- `PythonFormat::manifest_buf` -/
def pyValue : V → Option (List Char)
  | .bool true => some "True".toList
  | .bool false => some "False".toList
  | .null => some "None".toList
  | .str s => some (pyStr s)
  | .num t => some t
  | .arr xs => match pyElems true xs with
    | some b => some ('[' :: (b ++ [']']))
    | none => none
  | .obj kvs => match pyFields true kvs with
    | some b => some ('{' :: (b ++ ['}']))
    | none => none
  | .func => none
def pyElems (first : Bool) : List V → Option (List Char)
  | [] => some []
  | x :: xs =>
    match pyValue x, pyElems false xs with
    | some a, some b => some ((if first then [] else ", ".toList) ++ (a ++ b))
    | _, _ => none
def pyFields (first : Bool) : List (List Char × V) → Option (List Char)
  | [] => some []
  | kv :: r =>
    match pyValue kv.2, pyFields false r with
    | some a, some b => some ((if first then [] else ", ".toList) ++ (pyStr kv.1 ++ (": ".toList ++ (a ++ b))))
    | _, _ => none
end

def pyVarsGo : List (List Char × V) → Option (List Char)
  | [] => some []
  | kv :: r =>
    match pyValue kv.2, pyVarsGo r with
    | some a, some b => some (kv.1 ++ (" = ".toList ++ (a ++ ('\n' :: b))))
    | _, _ => none

/-- `PythonVarsFormat::manifest_buf` ("Yep, no escaping" of the names) -/
def pyVars : V → Option (List Char)
  | .obj kvs => pyVarsGo kvs
  | _ => none

/-! ### INI -/

mutual
/-- `manifest_json_ex_buf` with `JsonFormatting::ToString`, empty padding, `key_val_sep = ": "` -/
def jsonStr : V → Option (List Char)
  | .null => some "null".toList
  | .bool true => some "true".toList
  | .bool false => some "false".toList
  | .str s => some (escJson s)
  | .num t => some t
  | .arr xs => match jsonElems true xs with
    | some b => some ('[' :: (b ++ ((if xs.isEmpty then [' '] else []) ++ [']'])))
    | none => none
  | .obj kvs => match jsonFields true kvs with
    | some b => some ('{' :: (b ++ ((if kvs.isEmpty then [' '] else []) ++ ['}'])))
    | none => none
  | .func => none
def jsonElems (first : Bool) : List V → Option (List Char)
  | [] => some []
  | x :: xs =>
    match jsonStr x, jsonElems false xs with
    | some a, some b => some ((if first then [] else ", ".toList) ++ (a ++ b))
    | _, _ => none
def jsonFields (first : Bool) : List (List Char × V) → Option (List Char)
  | [] => some []
  | kv :: r =>
    match jsonStr kv.2, jsonFields false r with
    | some a, some b => some ((if first then [] else ", ".toList) ++ (escJson kv.1 ++ (": ".toList ++ (a ++ b))))
    | _, _ => none
end

/-- `ToStringFormat::manifest_buf`: a top-level string as it is -/
def toStr : V → Option (List Char)
  | .str s => some s
  | v => jsonStr v

/-- the element loop of manifest_ini_body for an array value -/
def iniArr (key : List Char) (first : Bool) (out : List Char) : List V → Option (List Char)
  | [] => some out
  | x :: xs =>
    match toStr x with
    | none => none
    | some t => iniArr key false (out ++ ((if first then [] else ['\n']) ++ (key ++ (" = ".toList ++ t)))) xs

/-- manifest_ini_body; `out` is the buffer so far (`i != 0 || !out.is_empty()`) -/
def iniBody (first : Bool) (out : List Char) : List (List Char × V) → Option (List Char)
  | [] => some out
  | kv :: r =>
    let out1 := if !first || !out.isEmpty then out ++ ['\n'] else out
    match kv.2 with
    | .arr xs =>
      match iniArr kv.1 true out1 xs with
      | some out2 => iniBody false out2 r
      | none => none
    | v =>
      match toStr v with
      | some t => iniBody false (out1 ++ (kv.1 ++ (" = ".toList ++ t))) r
      | none => none

def iniSections (first : Bool) (out : List Char) : List (List Char × V) → Option (List Char)
  | [] => some out
  | kv :: r =>
    let out1 := if !first || !out.isEmpty then out ++ ['\n'] else out
    let out2 := out1 ++ ('[' :: (kv.1 ++ [']']))
    match kv.2 with
    | .obj b =>
      match iniBody true out2 b with
      | some out3 => iniSections false out3 r
      | none => none
    | _ => none

/-- `IniObj::from_untyped` + manifest_ini_obj (`sections` arrives in BTreeMap order) -/
def iniDoc (finalNewline : Bool) : V → Option (List Char)
  | .obj kvs =>
    let main : Option (List Char) :=
      match lookup "main".toList kvs with
      | none => some []
      | some (.obj b) => iniBody true [] b
      | some _ => none
    match main, lookup "sections".toList kvs with
    | some out, some (.obj ss) =>
      (match iniSections true out ss with
       | some out' => some (if finalNewline then out' ++ ['\n'] else out')
       | none => none)
    | _, _ => none
  | _ => none

end JrsVerif.ManifDoc
