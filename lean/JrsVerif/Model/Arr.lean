/-
  Model of `crates/jrsonnet-evaluator/src/arr/{mod,spec}.rs`: the array representations
  (`ArrayLike` impls) with their `len`/`get`, and the smart constructors
  `ArrValue::{slice,extended,repeated,reversed,range_*,map,filter}` as coded.

  Import-free (core Lean only) so that the driver links as a `lean_exe`.

  Elements are `Int`s; the harness uses number arrays.  `R.panic` is "the Rust code would hit a
  panic site here" (`expect("index checked")`, usize underflow in an overflow-checked build, `% 0`).
-/
import JrsVerif.Generated.Consts

namespace JrsVerif.Arr

/-- result of `ArrayLike::get` : `Ok(Some v)` / `Ok(None)` / a Rust panic -/
inductive R where
  | val (x : Int)
  | oob
  | panic
  deriving Repr, DecidableEq, Inhabited

/-- the two fixed mapper functions used by model and harness (`function(x) x*3+1`,
    `function(i,x) x*3+i`) -/
def mapF (withIndex : Bool) (i : Nat) (x : Int) : Int :=
  if withIndex then x * 3 + (i : Int) else x * 3 + 1

/-- the fixed filter predicate (`function(x) x % 2 == 0`) -/
def filtP (x : Int) : Bool := x % 2 == 0

/-- `ArrayLike` implementors (the element-carrying ones are all `vec`: Eager/Lazy/Expr/Char/Bytes
    share `self.0.get(index)` on a `Vec`) -/
inductive View where
  | vec (xs : List Int)
  | range (s e : Int)                          -- RangeArray {start,end}, inclusive
  | slice (inner : View) (frm to step : Nat)   -- SliceArray
  | ext (a b : View) (split len : Nat)         -- ExtendedArray
  | rev (inner : View)                         -- ReverseArray
  | rep (data : View) (repeats total : Nat)    -- RepeatedArray
  | mapped (inner : View) (len : Nat) (withIndex : Bool)   -- MappedArray
  | poison                                     -- a constructor panicked
  deriving Repr, Inhabited

/-- `RangeArray::range().len()` :
    `(end as usize).wrapping_sub(start as usize).wrapping_add(1)` -/
def rangeLen (s e : Int) : Nat := ((e - s + 1) % (2 ^ 64 : Int)).toNat

def len : View → Nat
  | .vec xs => xs.length
  | .range s e => rangeLen s e
  | .slice _ frm to step => (to - frm + step - 1) / step      -- (to-from).div_ceil(step)
  | .ext _ _ _ l => l
  | .rev i => len i
  | .rep _ _ total => total
  | .mapped _ l _ => l
  | .poison => 0

def get : View → Nat → R
  | .vec xs, i => match xs[i]? with | some x => .val x | none => .oob
  | .range s e, i =>                                           -- (start..=end).nth(index)
      if s + (i : Int) ≤ e then .val (s + i) else .oob
  | .slice inner frm to step, i =>
      if i ≥ (to - frm + step - 1) / step then .oob            -- bound check against own length
      else get inner (frm + step * i)
  | .ext a b split _, i =>
      if split > i then get a i else get b (i - split)
  | .rev inner, i =>
      if i ≥ len inner then .oob
      else get inner (len inner - i - 1)
  | .rep data _ total, i =>
      if i ≥ total then .oob
      else if len data = 0 then .panic                         -- `index % 0`
      else get data (i % len data)
  | .mapped inner l wi, i =>
      if i ≥ l then .oob
      else match get inner i with
        | .val x => .val (mapF wi i x)
        | .oob => .panic                                       -- expect("index checked")
        | .panic => .panic
  | .poison, _ => .panic

/-- `iter()` / `iter_lazy()` : `(0..len).map(|i| get(i).expect("length checked"))` -/
def materialize (v : View) : Option (List Int) :=
  (List.range (len v)).mapM (fun i => match get v i with | .val x => some x | _ => none)

/-- `RangeArray::empty()` = `new_exclusive(0,0)` = `{start:0,end:-1}` -/
def emptyView : View := .range 0 (-1)

/-- `ArrValue::slice(self, index, end, step)` -/
def getIdx (pos : Option Int) (n : Nat) (dflt : Nat) : Nat :=
  match pos with
  | some v => if v < 0 then n - (-v).toNat else min v.toNat n
  | none => dflt

def mkSlice (v : View) (s e : Option Int) (step : Option Nat) : View :=
  let n := len v
  let index := getIdx s n 0
  let end_ := getIdx e n n
  let st := step.getD 1
  if index ≥ end_ then emptyView else .slice v index end_ st

/-- `ArrValue::extended(a,b)` -/
def mkExt (a b : View) : View :=
  if len a = 0 then b
  else if len b = 0 then a
  else if len a + len b > Generated.ARR_EXTEND_THRESHOLD then .ext a b (len a) (len a + len b)
  else match materialize a, materialize b with
    | some xs, some ys => .vec (xs ++ ys)
    | _, _ => .poison

/-- `ArrValue::repeated(data, repeats)` (the `checked_mul` overflow is out of the modelled range) -/
def mkRep (v : View) (n : Nat) : View := .rep v n (len v * n)

def mkRev (v : View) : View := .rev v

/-- `builtin_range(from,to)` : `to < from` is the empty array, else `range_inclusive` -/
def mkRange (a b : Int) : View := if b < a then emptyView else .range a b

def mkMap (v : View) (wi : Bool) : View := .mapped v (len v) wi

/-- `ArrValue::filter` : both paths collect `iter()` in order -/
def mkFilter (v : View) : View :=
  match materialize v with
  | some xs => .vec (xs.filter filtP)
  | none => .poison

/-- array-valued expressions the generator composes -/
inductive T where
  | lit (xs : List Int)
  | range (a b : Int)
  | slice (t : T) (s e : Option Int) (step : Option Nat)
  | cat (a b : T)
  | rev (t : T)
  | rep (t : T) (n : Nat)
  | map (t : T) (withIndex : Bool)
  | filter (t : T)
  deriving Repr, Inhabited

def build : T → View
  | .lit xs => .vec xs
  | .range a b => mkRange a b
  | .slice t s e st => mkSlice (build t) s e st
  | .cat a b => mkExt (build a) (build b)
  | .rev t => mkRev (build t)
  | .rep t n => mkRep (build t) n
  | .map t wi => mkMap (build t) wi
  | .filter t => mkFilter (build t)

/-! ### Reference meaning: plain lists -/

/-- every `st`-th element, starting after skipping `k` -/
def everyNth (st : Nat) : Nat → List Int → List Int
  | _, [] => []
  | 0, x :: r => x :: everyNth st (st - 1) r
  | k + 1, _ :: r => everyNth st k r

/-- Python / Jsonnet `xs[s:e:step]` with negative indices counted from the end and clamping -/
def normIdx (p : Option Int) (n : Nat) (d : Nat) : Nat :=
  match p with
  | none => d
  | some v => if v < 0 then ((n : Int) + v).toNat else min v.toNat n

def sliceSpec (xs : List Int) (s e : Option Int) (step : Option Nat) : List Int :=
  let n := xs.length
  let f := normIdx s n 0
  let t := normIdx e n n
  everyNth (step.getD 1) 0 ((xs.take t).drop f)

def rangeSpec (a b : Int) : List Int :=
  (List.range (b - a + 1).toNat).map (fun (i : Nat) => a + (i : Int))

def mapIdxSpec (wi : Bool) : Nat → List Int → List Int
  | _, [] => []
  | i, x :: r => mapF wi i x :: mapIdxSpec wi (i + 1) r

def repSpec (xs : List Int) : Nat → List Int
  | 0 => []
  | n + 1 => xs ++ repSpec xs n

def denote : T → List Int
  | .lit xs => xs
  | .range a b => rangeSpec a b
  | .slice t s e st => sliceSpec (denote t) s e st
  | .cat a b => denote a ++ denote b
  | .rev t => (denote t).reverse
  | .rep t n => repSpec (denote t) n
  | .map t wi => mapIdxSpec wi 0 (denote t)
  | .filter t => (denote t).filter filtP

/-- what the language prescribes for `arr[i]` / `ArrValue::get(i)` -/
def specGet (xs : List Int) (i : Nat) : R :=
  match xs[i]? with | some x => .val x | none => .oob

/-- side conditions under which the `i32`/`u32`/`usize` arithmetic of the code coincides with the
    unbounded arithmetic of the model: range bounds are `i32`, steps are positive -/
def T.WF : T → Prop
  | .lit _ => True
  | .range a b => -(2 ^ 31 : Int) ≤ a ∧ a < 2 ^ 31 ∧ -(2 ^ 31 : Int) ≤ b ∧ b < 2 ^ 31
  | .slice t _ _ st => t.WF ∧ (∀ k, st = some k → 0 < k)
  | .cat a b => a.WF ∧ b.WF
  | .rev t => t.WF
  | .rep t _ => t.WF
  | .map t _ => t.WF
  | .filter t => t.WF

end JrsVerif.Arr
