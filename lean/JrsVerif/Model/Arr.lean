/-
  Model of `crates/jrsonnet-evaluator/src/arr/{mod,spec}.rs`: the array representations
  (`ArrayLike` impls) with their `len` and their THREE accessors `get` / `get_lazy` / `get_cheap`
  (+ `is_cheap`), and the smart constructors
  `ArrValue::{slice,extended,repeated,reversed,range_*,map,filter}` as coded, the two stdlib
  callers of the range constructors (`builtin_range`, `builtin_make_array`) with their guards, and
  the `Expr::Index` arm of `evaluate/mod.rs` for `(Val::Arr, Val::Num)`.

  Import-free (core Lean only) so that the driver links as a `lean_exe`.

  Elements are `Int`s; the harness uses number arrays (one-character strings of `CharArray` travel
  as tagged code points).  `R.panic` is "the Rust code would hit a panic site here"
  (`expect("index checked")`, usize underflow in an overflow-checked build, `% 0`).
-/
import JrsVerif.Generated.Consts

namespace JrsVerif.Arr

/-- result of an accessor: `Some v` / `None` / a Rust panic.
    * `get`      : `Ok(Some v)` / `Ok(None)`
    * `get_lazy` : `Some(thunk)` with the thunk forced (`thunk.evaluate()`) / `None`
    * `get_cheap`: `Some v` / `None` (`None` also means "this representation is not cheap") -/
inductive R where
  | val (x : Int)
  | oob
  | panic
  deriving Repr, DecidableEq, Inhabited

/-- the two fixed mapper functions used by model and harness (`function(x) x*3+1`,
    `function(i,x) x*3+i`) -/
def mapF (withIndex : Bool) (i : Nat) (x : Int) : Int :=
  if withIndex then x * 3 + (i : Int) else x * 3 + 1

/-- the fixed filter predicate (`function(x) x % 2 == 0`) -/
def filtP (x : Int) : Bool := x % 2 == 0

/-- `ArrayLike` implementors.  The element-carrying ones are all `vec` (they share
    `self.0.get(index)` on a `Vec`); the flag is their `is_cheap()`:
    `true` = EagerArray / CharArray / BytesArray, `false` = LazyArray / ExprArray /
    PickObjectValues (whose `get_cheap` is the constant `None`). -/
inductive View where
  | vec (xs : List Int) (cheap : Bool)
  | range (s e : Int)                          -- RangeArray {start,end}, inclusive
  | slice (inner : View) (frm to step : Nat)   -- SliceArray
  | ext (a b : View) (split len : Nat)         -- ExtendedArray
  | rev (inner : View)                         -- ReverseArray
  | rep (data : View) (repeats total : Nat)    -- RepeatedArray
  | mapped (inner : View) (len : Nat) (withIndex : Bool)   -- MappedArray
  | poison                                     -- a constructor panicked
  deriving Repr, Inhabited

/-- `RangeArray::range().len()` :
    `(end as usize).wrapping_sub(start as usize).wrapping_add(1)` -/
def rangeLen (s e : Int) : Nat := ((e - s + 1) % (2 ^ 64 : Int)).toNat

def len : View → Nat
  | .vec xs _ => xs.length
  | .range s e => rangeLen s e
  | .slice _ frm to step => (to - frm + step - 1) / step      -- (to-from).div_ceil(step)
  | .ext _ _ _ l => l
  | .rev i => len i
  | .rep _ _ total => total
  | .mapped _ l _ => l
  | .poison => 0

/-- `is_cheap()` per representation -/
def isCheap : View → Bool
  | .vec _ c => c
  | .range _ _ => true
  | .slice inner _ _ _ => isCheap inner
  | .ext a b _ _ => isCheap a && isCheap b
  | .rev inner => isCheap inner
  | .rep data _ _ => isCheap data
  | .mapped _ _ _ => false
  | .poison => false

/-- `Option::expect(..)` on an accessor result: `None` is a panic -/
def expectSome : R → R
  | .val x => .val x
  | _ => .panic

/-- `MappedArray::evaluate(index, inner.get_lazy(index).expect("index checked"))` with the fixed
    mappers (both force their argument) -/
def mapApply (wi : Bool) (i : Nat) : R → R
  | .val x => .val (mapF wi i x)
  | _ => .panic

mutual
/-- `ArrayLike::get` -/
def get : View → Nat → R
  | .vec xs _, i => match xs[i]? with | some x => .val x | none => .oob
  | .range s e, i =>                                           -- (start..=end).nth(index)
      if s + (i : Int) ≤ e then .val (s + i) else .oob
  | .slice inner frm to step, i =>
      if i ≥ (to - frm + step - 1) / step then .oob            -- bound check against own length
      else get inner (frm + step * i)
  | .ext a b split _, i =>
      if split > i then get a i else get b (i - split)
  | .rev inner, i =>
      if i ≥ len inner then .oob
      else get inner (len inner - i - 1)
  | .rep data _ total, i =>
      if i ≥ total then .oob
      else if len data = 0 then .panic                         -- `index % 0`
      else get data (i % len data)
  | .mapped inner l wi, i =>                                   -- reads the inner array LAZILY
      if i ≥ l then .oob
      else mapApply wi i (getLazy inner i)
  | .poison, _ => .panic

/-- `ArrayLike::get_lazy(i).map(|t| t.evaluate())` -/
def getLazy : View → Nat → R
  | .vec xs _, i => match xs[i]? with | some x => .val x | none => .oob
  | .range s e, i =>                                           -- get_cheap(i).map(Thunk::evaluated)
      if s + (i : Int) ≤ e then .val (s + i) else .oob
  | .slice inner frm to step, i =>
      if i ≥ (to - frm + step - 1) / step then .oob
      else getLazy inner (frm + step * i)
  | .ext a b split _, i =>
      if split > i then getLazy a i else getLazy b (i - split)
  | .rev inner, i =>
      if i ≥ len inner then .oob
      else getLazy inner (len inner - i - 1)
  | .rep data _ total, i =>
      if i ≥ total then .oob
      else if len data = 0 then .panic
      else getLazy data (i % len data)
  | .mapped inner l wi, i =>
      -- `MappedArrayThunk::get` = `self.arr.get(index).transpose().expect("index checked")`
      -- (the body of `get` for this representation is repeated here, see `getLazy_mapped`)
      if i ≥ l then .oob
      else expectSome (if i ≥ l then .oob else mapApply wi i (getLazy inner i))
  | .poison, _ => .panic
end

/-- `ArrayLike::get_cheap` -/
def getCheap : View → Nat → R
  | .vec xs c, i => if c then (match xs[i]? with | some x => .val x | none => .oob) else .oob
  | .range s e, i =>
      if s + (i : Int) ≤ e then .val (s + i) else .oob
  | .slice inner frm to step, i =>
      if i ≥ (to - frm + step - 1) / step then .oob
      else getCheap inner (frm + step * i)
  | .ext a b split _, i =>
      if split > i then getCheap a i else getCheap b (i - split)
  | .rev inner, i =>
      if i ≥ len inner then .oob
      else getCheap inner (len inner - i - 1)
  | .rep data _ total, i =>
      if i ≥ total then .oob
      else if len data = 0 then .panic
      else getCheap data (i % len data)
  | .mapped _ _ _, _ => .oob
  | .poison, _ => .panic

/-- `(0..len).map(|i| acc(i).expect(..))` collected: `none` = one of the `expect`s failed -/
def collect (acc : Nat → R) (n : Nat) : Option (List Int) :=
  (List.range n).mapM (fun i => match acc i with | .val x => some x | _ => none)

/-- `iter()` : `(0..len).map(|i| get(i).transpose().expect("length checked"))` -/
def materialize (v : View) : Option (List Int) := collect (get v) (len v)

/-- `iter_lazy()` : `(0..len).map(|i| get_lazy(i).expect("length checked"))`, thunks forced
    (a thunk that would panic when forced poisons the copy here rather than at first access;
    that only differs on states `build_good` proves unreachable) -/
def materializeLazy (v : View) : Option (List Int) := collect (getLazy v) (len v)

/-- `iter_cheap()` : `None` unless `is_cheap()`, then
    `(0..len).map(|i| get_cheap(i).expect("length and is_cheap checked"))` -/
def iterCheap (v : View) : Option (Option (List Int)) :=
  if isCheap v then some (collect (getCheap v) (len v)) else none

/-- `RangeArray::empty()` = `new_exclusive(0,0)` = `{start:0,end:-1}` -/
def emptyView : View := .range 0 (-1)

/-- `ArrValue::slice(self, index, end, step)` -/
def getIdx (pos : Option Int) (n : Nat) (dflt : Nat) : Nat :=
  match pos with
  | some v => if v < 0 then n - (-v).toNat else min v.toNat n
  | none => dflt

def mkSlice (v : View) (s e : Option Int) (step : Option Nat) : View :=
  let n := len v
  let index := getIdx s n 0
  let end_ := getIdx e n n
  let st := step.getD 1
  if index ≥ end_ then emptyView else .slice v index end_ st

/-- `ArrValue::extended(a,b)` : empty shortcuts, link above the threshold, else copy — through
    `iter_cheap` into an EagerArray when both sides are cheap, through `iter_lazy` into a
    LazyArray otherwise -/
def mkExt (a b : View) : View :=
  if len a = 0 then b
  else if len b = 0 then a
  else if len a + len b > Generated.ARR_EXTEND_THRESHOLD then .ext a b (len a) (len a + len b)
  else match iterCheap a, iterCheap b with
    | some ra, some rb =>
        (match ra, rb with
         | some xs, some ys => .vec (xs ++ ys) true
         | _, _ => .poison)
    | _, _ =>
        (match materializeLazy a, materializeLazy b with
         | some xs, some ys => .vec (xs ++ ys) false
         | _, _ => .poison)

/-- `ArrValue::repeated(data, repeats)` (the `checked_mul` overflow is out of the modelled range) -/
def mkRep (v : View) (n : Nat) : View := .rep v n (len v * n)

def mkRev (v : View) : View := .rev v

/-- `RangeArray::new_exclusive(start,end)` : `end.checked_sub(1)`, `None` → `empty()` -/
def newExclusive (s e : Int) : View :=
  if e - 1 < -(2 ^ 31 : Int) then emptyView else .range s (e - 1)

/-- `builtin_range(from,to)` : `to < from` is the empty array, else `range_inclusive` -/
def mkRange (a b : Int) : View := if b < a then emptyView else .range a b

def mkMap (v : View) (wi : Bool) : View := .mapped v (len v) wi

/-- `builtin_make_array(sz: BoundedI32<0, i32::MAX>, func)` : the typed argument rejects sizes
    outside `0..=i32::MAX` (`none`); `0` is the empty array; a function with a trivial (constant)
    body gives an EagerArray of copies; otherwise `range_exclusive(0, sz).map(func)`.
    `triv = some c` : the function is `function(i) c`; `none` : it is `function(i) i*3+1`. -/
def mkMakeArray (sz : Int) (triv : Option Int) : Option View :=
  if sz < 0 ∨ sz > 2 ^ 31 - 1 then none
  else if sz = 0 then some emptyView
  else match triv with
    | none => some (mkMap (newExclusive 0 sz) false)
    | some c => some (.vec (List.replicate sz.toNat c) true)

/-- `ArrValue::filter` : through `iter_cheap` into an EagerArray when the source is cheap (its
    elements are values already), through `iter_lazy` into a LazyArray otherwise (no element is
    evaluated unless the filter function does it) -/
def mkFilter (v : View) : View :=
  match iterCheap v with
  | some r =>
      (match r with
       | some xs => .vec (xs.filter filtP) true
       | none => .poison)
  | none =>
      (match materializeLazy v with
       | some xs => .vec (xs.filter filtP) false
       | none => .poison)

/-- which `Vec`-backed representation a literal is realised as -/
inductive LitKind where
  | eager      -- ArrValue::eager
  | lazy       -- ArrValue::lazy (also: array comprehension)
  | expr       -- array literal in source: `[]` is `ArrValue::empty()`, otherwise ExprArray
  deriving Repr, DecidableEq, Inhabited

/-- array-valued expressions the generator composes -/
inductive T where
  | lit (xs : List Int) (k : LitKind)
  | range (a b : Int)
  | slice (t : T) (s e : Option Int) (step : Option Nat)
  | cat (a b : T)
  | rev (t : T)
  | rep (t : T) (n : Nat)
  | map (t : T) (withIndex : Bool)
  | filter (t : T)
  | chars (cps : List Int)                 -- std.stringChars(s) : CharArray  (elements given)
  | bytes (bs : List Int)                  -- std.encodeUTF8(s)  : BytesArray (elements given)
  | objvals (xs : List Int)                -- std.objectValues(o) : PickObjectValues
  | mkarr (n : Nat) (triv : Option Int)    -- std.makeArray(n, f)
  deriving Repr, Inhabited

def build : T → View
  | .lit xs .eager => .vec xs true
  | .lit xs .lazy => .vec xs false
  | .lit xs .expr => if xs.isEmpty then emptyView else .vec xs false
  | .range a b => mkRange a b
  | .slice t s e st => mkSlice (build t) s e st
  | .cat a b => mkExt (build a) (build b)
  | .rev t => mkRev (build t)
  | .rep t n => mkRep (build t) n
  | .map t wi => mkMap (build t) wi
  | .filter t => mkFilter (build t)
  | .chars cps => .vec cps true
  | .bytes bs => .vec bs true
  | .objvals xs => .vec xs false
  | .mkarr n triv => match mkMakeArray n triv with | some v => v | none => .poison

/-! ### The `Expr::Index` arm for `(Val::Arr(v), Val::Num(n))` -/

inductive IdxR where
  | val (x : Int)
  | bounds            -- ArrayBoundsError
  | fractional        -- FractionalIndex
  | panic
  deriving Repr, DecidableEq, Inhabited

/-- numerator (over `2^e`) of `n.fract()` for the double `n = m / 2^e` : `n - n.trunc()`, exact,
    carries the sign of `n` -/
def fractNum (m : Int) (e : Nat) : Int :=
  if m ≥ 0 then m % (2 ^ e : Int) else -((-m) % (2 ^ e : Int))

/-- `n as usize` for `n ≥ 0` : truncation, saturating at `usize::MAX` -/
def asUsize (m : Int) (e : Nat) : Nat := min (m / (2 ^ e : Int)).toNat (2 ^ 64 - 1)

/-- the arm as coded, the index being the double `m / 2^e`:
    `if n.fract() > f64::EPSILON {FractionalIndex}; if n < 0.0 {ArrayBoundsError};
     v.get(n as usize)?.ok_or_else(ArrayBoundsError)` -/
def indexExpr (v : View) (m : Int) (e : Nat) : IdxR :=
  if fractNum m e * (2 ^ 52 : Int) > (2 ^ e : Int) then .fractional
  else if m < 0 then .bounds
  else match get v (asUsize m e) with
    | .val x => .val x
    | .oob => .bounds
    | .panic => .panic

/-! ### Reference meaning: plain lists -/

/-- every `st`-th element, starting after skipping `k` -/
def everyNth (st : Nat) : Nat → List Int → List Int
  | _, [] => []
  | 0, x :: r => x :: everyNth st (st - 1) r
  | k + 1, _ :: r => everyNth st k r

/-- Python / Jsonnet `xs[s:e:step]` with negative indices counted from the end and clamping -/
def normIdx (p : Option Int) (n : Nat) (d : Nat) : Nat :=
  match p with
  | none => d
  | some v => if v < 0 then ((n : Int) + v).toNat else min v.toNat n

def sliceSpec (xs : List Int) (s e : Option Int) (step : Option Nat) : List Int :=
  let n := xs.length
  let f := normIdx s n 0
  let t := normIdx e n n
  everyNth (step.getD 1) 0 ((xs.take t).drop f)

def rangeSpec (a b : Int) : List Int :=
  (List.range (b - a + 1).toNat).map (fun (i : Nat) => a + (i : Int))

def mapIdxSpec (wi : Bool) : Nat → List Int → List Int
  | _, [] => []
  | i, x :: r => mapF wi i x :: mapIdxSpec wi (i + 1) r

def repSpec (xs : List Int) : Nat → List Int
  | 0 => []
  | n + 1 => xs ++ repSpec xs n

/-- `std.makeArray(n, f)` = `[f(0), …, f(n-1)]` -/
def makeArraySpec (n : Nat) (triv : Option Int) : List Int :=
  match triv with
  | none => (List.range n).map (fun (i : Nat) => (i : Int) * 3 + 1)
  | some c => List.replicate n c

def denote : T → List Int
  | .lit xs _ => xs
  | .range a b => rangeSpec a b
  | .slice t s e st => sliceSpec (denote t) s e st
  | .cat a b => denote a ++ denote b
  | .rev t => (denote t).reverse
  | .rep t n => repSpec (denote t) n
  | .map t wi => mapIdxSpec wi 0 (denote t)
  | .filter t => (denote t).filter filtP
  | .chars cps => cps
  | .bytes bs => bs
  | .objvals xs => xs
  | .mkarr n triv => makeArraySpec n triv

/-- what the language prescribes for `arr[i]` / `ArrValue::get(i)` -/
def specGet (xs : List Int) (i : Nat) : R :=
  match xs[i]? with | some x => .val x | none => .oob

/-- what the language prescribes for `arr[n]` with a number `n = m / 2^e` (read with the
    implementation's tolerance for a fractional part of at most `f64::EPSILON`): a fractional
    index is an error, an index below zero or at/after the length is a bounds error -/
def specIndex (xs : List Int) (m : Int) (e : Nat) : IdxR :=
  if 0 < m ∧ (m % (2 ^ e : Int)) * (2 ^ 52 : Int) > (2 ^ e : Int) then .fractional
  else if m < 0 then .bounds
  else match xs[(m / (2 ^ e : Int)).toNat]? with
    | some x => .val x
    | none => .bounds

def I32 (x : Int) : Prop := -(2 ^ 31 : Int) ≤ x ∧ x < 2 ^ 31

/-- side conditions under which the `i32`/`u32`/`usize` arithmetic of the code coincides with the
    unbounded arithmetic of the model: range bounds are `i32`, steps are positive, makeArray sizes
    passed the `BoundedI32<0, i32::MAX>` argument check -/
def T.WF : T → Prop
  | .lit _ _ => True
  | .range a b => -(2 ^ 31 : Int) ≤ a ∧ a < 2 ^ 31 ∧ -(2 ^ 31 : Int) ≤ b ∧ b < 2 ^ 31
  | .slice t _ _ st => t.WF ∧ (∀ k, st = some k → 0 < k)
  | .cat a b => a.WF ∧ b.WF
  | .rev t => t.WF
  | .rep t _ => t.WF
  | .map t _ => t.WF
  | .filter t => t.WF
  | .chars _ => True
  | .bytes _ => True
  | .objvals _ => True
  | .mkarr n _ => n < 2 ^ 31

/-- the domain on which `RangeArray::len` (wrapping arithmetic) is the true length of
    `start..=end` : both ends `i32` and `start ≤ end + 1` -/
def RangeDom : View → Prop
  | .vec _ _ => True
  | .range s e => I32 s ∧ I32 e ∧ s ≤ e + 1
  | .slice inner _ _ _ => RangeDom inner
  | .ext a b _ _ => RangeDom a ∧ RangeDom b
  | .rev inner => RangeDom inner
  | .rep data _ _ => RangeDom data
  | .mapped inner _ _ => RangeDom inner
  | .poison => True

end JrsVerif.Arr
