/-
  Object assertions: the builder's `has_assertions` flag and the `run_assertions` protocol
  (`crates/jrsonnet-evaluator/src/obj/{mod,oop}.rs`).

  Part 1 — the builder, operation by operation (`ObjValueBuilder::{new,with_super,assert,commit,
  with_fields_omitted,build}`, `ObjValue::extend_from`, `ObjValue::empty`), and the three ways the
  language builds objects from them (`evaluate_member_list_object`, `evaluate_add_op`,
  `builtin_object_remove_key`).

  Part 2 — `run_assertions` with `assertions_ran : Cell<bool>` per object and the thread-local
  `RUNNING_ASSERTIONS` set, re-entrant: an assertion body may read fields of any object, which
  runs that object's assertions first (`get_idx_uncached` starts with `self.run_assertions()?`).

  Import-free (core Lean + Model/Obj).
-/
import JrsVerif.Model.Obj

namespace JrsVerif.Obj

/-! ### Part 1: builder -/

/-- `ObjValueInner` without the caches: `cores`, `has_assertions`
    (`assertions_ran` starts as `!has_assertions` in every constructor) -/
structure ObjV where
  cores : List Core
  hasAssertions : Bool
  deriving Repr, Inhabited

/-- `EMPTY_OBJ` -/
def ObjV.empty : ObjV := ⟨[], false⟩

/-- initial value of `assertions_ran` (`Cell::new(!has_assertions)`, `EMPTY_OBJ`: `true`) -/
def ObjV.assertionsRan0 (o : ObjV) : Bool := !o.hasAssertions

/-- `ObjValueBuilder { sup, has_assertions, new: OopObject { assertion, this_entries } }` -/
structure Builder where
  sup : List Core
  hasAssertions : Bool
  newFields : List Field
  newAssert : Bool
  deriving Repr

def Builder.new : Builder := ⟨[], false, [], false⟩

/-- `with_super`: `self.has_assertions |= super_obj.0.has_assertions; self.sup.clone_from(&super_obj.0.cores)` -/
def Builder.withSuper (b : Builder) (o : ObjV) : Builder :=
  { b with hasAssertions := b.hasAssertions || o.hasAssertions, sup := o.cores }

/-- `assert`: `self.has_assertions = true; self.new.assertion = Some(..)` -/
def Builder.assert (b : Builder) : Builder :=
  { b with hasAssertions := true, newAssert := true }

/-- `field(..).binding(..)` for all members of a literal -/
def Builder.fields (b : Builder) (fs : List Field) : Builder :=
  { b with newFields := b.newFields ++ fs }

/-- `commit`: `if !self.new.is_empty() { self.sup.push(mem::take(&mut self.new)) }` with
    `OopObject::is_empty = assertion.is_none() && this_entries.is_empty()` -/
def Builder.commit (b : Builder) : Builder :=
  if !(!b.newAssert && b.newFields.isEmpty) then
    { b with sup := b.sup ++ [.oop b.newFields b.newAssert], newFields := [], newAssert := false }
  else b

/-- `with_fields_omitted` -/
def Builder.withFieldsOmitted (b : Builder) (ns : List Name) : Builder :=
  let b := b.commit
  { b with sup := b.sup ++ [.omitC ns b.sup.length] }

/-- `build` -/
def Builder.build (b : Builder) : ObjV :=
  let b := b.commit
  if b.sup.isEmpty then ObjV.empty else ⟨b.sup, b.hasAssertions⟩

/-- `self.extend_from(sup)` -/
def ObjV.extendFrom (self sup : ObjV) : ObjV :=
  ⟨sup.cores ++ self.cores, sup.hasAssertions || self.hasAssertions⟩

/-- `evaluate_member_list_object(super_obj, ..)`: `{ fs }` and `sup { fs }` -/
def evalLiteral (sup : Option ObjV) (fs : List Field) (asrt : Bool) : ObjV :=
  let b := Builder.new
  let b := match sup with | some s => b.withSuper s | none => b
  let b := b.fields fs
  let b := if asrt then b.assert else b
  b.build

/-- `builtin_object_remove_key` -/
def removeKeys (o : ObjV) (ns : List Name) : ObjV :=
  ((Builder.new.withSuper o).withFieldsOmitted ns).build

/-- the object value the evaluator builds for a term (`a + b` = `b.extend_from(a)`) -/
def buildT : OT → ObjV
  | .lit fs a => evalLiteral none fs a
  | .add x y => (buildT y).extendFrom (buildT x)
  | .rm o ns => removeKeys (buildT o) ns

/-- does some layer of the term carry an assertion -/
def anyAssert : OT → Bool
  | .lit _ a => a
  | .add x y => anyAssert x || anyAssert y
  | .rm o _ => anyAssert o

def Core.hasAssert : Core → Bool
  | .oop _ a => a
  | .omitC _ _ => false

/-! ### Part 2: `run_assertions`

    pub fn run_assertions(&self) -> Result<()> {
        if self.0.assertions_ran.get() { return Ok(()); }
        if !start_asserting(self) { return Ok(()); }
        for (idx, ele) in self.0.cores.iter().enumerate() {
            ele.0.run_assertions_core(sup_this).inspect_err(|_e| { finish_asserting(self); })?;
        }
        finish_asserting(self);
        self.0.assertions_ran.set(true);
        Ok(())
    }
-/

abbrev ObjId := Nat

/-- what one layer's assertion does when run: it reads fields of these objects (each read runs that
    object's assertions first and propagates its failure), then holds or fails -/
structure Body where
  reads : List ObjId
  ok : Bool
  deriving Repr

/-- the assertion of each core of each object (`none`: the core has none — `OmitFieldsCore`,
    an `OopObject` without `assert`) -/
abbrev World := ObjId → List (Option Body)

structure ASt where
  ran : List ObjId                 -- objects whose `assertions_ran` is `true`
  running : List ObjId             -- `RUNNING_ASSERTIONS`
  log : List (ObjId × Nat)         -- assertion bodies executed: (object, core index), newest first
  deriving Repr

/-- the reads of one body, given the recursive call -/
def runReads (rec : ObjId → ASt → Option (Bool × ASt)) : List ObjId → ASt → Option (Bool × ASt)
  | [], st => some (true, st)
  | o :: r, st =>
      match rec o st with
      | some (true, st') => runReads rec r st'
      | other => other

/-- the `for (idx, ele) in cores.iter().enumerate()` loop; stops at the first `Err` -/
def runCores (rec : ObjId → ASt → Option (Bool × ASt)) (o : ObjId) :
    List (Option Body) → Nat → ASt → Option (Bool × ASt)
  | [], _, st => some (true, st)
  | none :: r, idx, st => runCores rec o r (idx + 1) st
  | some b :: r, idx, st =>
      match runReads rec b.reads { st with log := (o, idx) :: st.log } with
      | some (true, st') => if b.ok then runCores rec o r (idx + 1) st' else some (false, st')
      | other => other

/-- `run_assertions`; `none` = out of fuel (the real recursion is bounded by the number of objects
    not yet in `RUNNING_ASSERTIONS`; every theorem holds for every fuel) -/
def runAssertions (w : World) : Nat → ObjId → ASt → Option (Bool × ASt)
  | 0, _, _ => none
  | fuel + 1, o, st =>
      if st.ran.contains o then some (true, st)
      else if st.running.contains o then some (true, st)                 -- `!start_asserting(self)`
      else
        let st1 := { st with running := o :: st.running }                 -- `start_asserting`
        match runCores (runAssertions w fuel) o (w o) 0 st1 with
        | none => none
        | some (true, st2) =>
            some (true, { st2 with running := st2.running.erase o, ran := o :: st2.ran })
        | some (false, st2) =>
            some (false, { st2 with running := st2.running.erase o })      -- `inspect_err(finish_asserting)`

/-- the world of a compiled object: one body per assertion-carrying core -/
def worldOf (cores : List Core) (body : Nat → Body) : List (Option Body) :=
  cores.zipIdx.map (fun (c, i) => if c.hasAssert then some (body i) else none)

end JrsVerif.Obj
