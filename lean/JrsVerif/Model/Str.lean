/- C11 — stdlib string / encoding / parsing functions.
   Strings are lists of code points (`Nat`), byte strings are lists of `Nat` (< 256).
   `Spec.*`  : the documented definitions, by code point.
   `Model.*` : what crates/jrsonnet-stdlib/src/{strings,encoding,misc}.rs does (byte slices,
               `char_indices`, `checked_sub` cascades, f64 `mul_add`, early-return guards).
   Import-free (core Lean only): the driver links against this file. -/

namespace JrsVerif.Str

/-! ## UTF-8 -/

/-- Unicode scalar value (what a Rust `char` can hold) -/
def isScalar (c : Nat) : Bool := c < 0xD800 || (0xE000 ≤ c && c < 0x110000)

/-- UTF-8 encoding of one code point -/
def enc1 (c : Nat) : List Nat :=
  if c < 0x80 then [c]
  else if c < 0x800 then [0xC0 + c / 64, 0x80 + c % 64]
  else if c < 0x10000 then [0xE0 + c / 4096, 0x80 + c / 64 % 64, 0x80 + c % 64]
  else [0xF0 + c / 262144, 0x80 + c / 4096 % 64, 0x80 + c / 64 % 64, 0x80 + c % 64]

/-- `str.as_bytes()` -/
def enc : List Nat → List Nat
  | [] => []
  | c :: s => enc1 c ++ enc s

def isCont (b : Nat) : Bool := 0x80 ≤ b && b < 0xC0

/-- decode one well-formed UTF-8 sequence (Unicode table 3-7, as `core::str::from_utf8`) -/
def dec1 : List Nat → Option (Nat × List Nat)
  | [] => none
  | b0 :: r =>
    if b0 < 0x80 then some (b0, r)
    else if b0 < 0xC2 then none
    else if b0 < 0xE0 then
      match r with
      | b1 :: r1 => if isCont b1 then some ((b0 - 0xC0) * 64 + (b1 - 0x80), r1) else none
      | _ => none
    else if b0 < 0xF0 then
      match r with
      | b1 :: b2 :: r2 =>
        let c := (b0 - 0xE0) * 4096 + (b1 - 0x80) * 64 + (b2 - 0x80)
        if isCont b1 && isCont b2 && 0x800 ≤ c && isScalar c then some (c, r2) else none
      | _ => none
    else if b0 < 0xF5 then
      match r with
      | b1 :: b2 :: b3 :: r3 =>
        let c := (b0 - 0xF0) * 262144 + (b1 - 0x80) * 4096 + (b2 - 0x80) * 64 + (b3 - 0x80)
        if isCont b1 && isCont b2 && isCont b3 && 0x10000 ≤ c && c < 0x110000 then some (c, r3)
        else none
      | _ => none
    else none

/-- strict decoder, fuel = number of bytes (each step consumes at least one) -/
def decF : Nat → List Nat → Option (List Nat)
  | _, [] => some []
  | 0, _ :: _ => none
  | f + 1, b :: t =>
    match dec1 (b :: t) with
    | none => none
    | some (c, r) => (decF f r).map (c :: ·)

/-- `IBytes::cast_str` / `String::from_utf8` -/
def dec (bs : List Nat) : Option (List Nat) := decF bs.length bs

/-- allowed range of the second byte and total length for a lead byte -/
def secondRange (b0 : Nat) : Option (Nat × Nat × Nat) :=
  if 0xC2 ≤ b0 && b0 ≤ 0xDF then some (0x80, 0xBF, 2)
  else if b0 == 0xE0 then some (0xA0, 0xBF, 3)
  else if (0xE1 ≤ b0 && b0 ≤ 0xEC) || b0 == 0xEE || b0 == 0xEF then some (0x80, 0xBF, 3)
  else if b0 == 0xED then some (0x80, 0x9F, 3)
  else if b0 == 0xF0 then some (0x90, 0xBF, 4)
  else if 0xF1 ≤ b0 && b0 ≤ 0xF3 then some (0x80, 0xBF, 4)
  else if b0 == 0xF4 then some (0x80, 0x8F, 4)
  else none

/-- length of the maximal invalid prefix replaced by one U+FFFD (`Utf8Chunks`) -/
def badLen : List Nat → Nat
  | [] => 0
  | b0 :: r =>
    match secondRange b0 with
    | none => 1
    | some (lo, hi, n) =>
      match r with
      | [] => 1
      | b1 :: r1 =>
        if lo ≤ b1 && b1 ≤ hi then
          if n == 2 then 2
          else
            match r1 with
            | [] => 2
            | b2 :: r2 =>
              if isCont b2 then
                if n == 3 then 3
                else
                  match r2 with
                  | [] => 3
                  | b3 :: _ => if isCont b3 then 4 else 3
              else 2
        else 1

/-- `String::from_utf8_lossy` -/
def decLossyF : Nat → List Nat → List Nat
  | _, [] => []
  | 0, _ :: _ => []
  | f + 1, b :: t =>
    match dec1 (b :: t) with
    | some (c, r) => c :: decLossyF f r
    | none => 0xFFFD :: decLossyF f ((b :: t).drop (badLen (b :: t)))

def decLossy (bs : List Nat) : List Nat := decLossyF bs.length bs

/-! ## reference definitions by code point -/
namespace Spec

def substr (s : List Nat) (from_ len : Nat) : List Nat := (s.drop from_).take len

/-- code-point indices of all (possibly overlapping) occurrences; none for the empty pattern -/
def findSubstr (pat s : List Nat) : List Nat :=
  if pat.isEmpty then [] else (List.range s.length).filter (fun i => pat.isPrefixOf (s.drop i))

def startsWith (a b : List Nat) : Bool := b.isPrefixOf a
def endsWith (a b : List Nat) : Bool := b.isSuffixOf a

/-- left-to-right, non-overlapping split with at most `lim` splits (`none` = unlimited);
    `cur` is the current piece, reversed.  Meaningful for a non-empty separator. -/
def splitGo (sep : List Nat) (lim : Option Nat) (s cur : List Nat) : List (List Nat) :=
  match s with
  | [] => [cur.reverse]
  | c :: t =>
    if lim == some 0 then [cur.reverse ++ (c :: t)]
    else if sep.isPrefixOf (c :: t) then
      cur.reverse :: splitGo sep (lim.map (· - 1)) (t.drop (sep.length - 1)) []
    else splitGo sep lim t (c :: cur)
termination_by s.length
decreasing_by
  all_goals simp only [List.length_cons, List.length_drop]
  all_goals omega

def splitLimit (s sep : List Nat) (lim : Option Nat) : List (List Nat) := splitGo sep lim s []

/-- reference: `-1` splits forwards; otherwise reverse, split, reverse -/
def splitLimitR (s sep : List Nat) (lim : Option Nat) : List (List Nat) :=
  match lim with
  | none => splitLimit s sep none
  | some n => ((splitGo sep.reverse (some n) s.reverse []).map List.reverse).reverse

def strReplace (s from_ to : List Nat) : List Nat :=
  List.intercalate to (splitLimit s from_ none)

def lstrip (s cs : List Nat) : List Nat := s.dropWhile (cs.contains ·)
def rstrip (s cs : List Nat) : List Nat := (s.reverse.dropWhile (cs.contains ·)).reverse
def strip (s cs : List Nat) : List Nat := rstrip (lstrip s cs) cs

/-- the characters `std.trim` removes -/
def trimSet : List Nat := [0x20, 0x09, 0x0A, 0x0C, 0x0D, 0x85, 0xA0]

def upCp (c : Nat) : Nat := if 97 ≤ c ∧ c ≤ 122 then c - 32 else c
def lowCp (c : Nat) : Nat := if 65 ≤ c ∧ c ≤ 90 then c + 32 else c
def asciiUpper (s : List Nat) : List Nat := s.map upCp
def asciiLower (s : List Nat) : List Nat := s.map lowCp
def equalsIgnoreCase (a b : List Nat) : Bool := asciiLower a == asciiLower b

def stringChars (s : List Nat) : List (List Nat) := s.map ([·])

/-- value of a digit character in `base` (8, 10 or 16) -/
def digitVal (base c : Nat) : Option Nat :=
  if 48 ≤ c ∧ c ≤ 57 then (if c - 48 < base then some (c - 48) else none)
  else if base = 16 ∧ 97 ≤ c ∧ c ≤ 102 then some (c - 87)
  else if base = 16 ∧ 65 ≤ c ∧ c ≤ 70 then some (c - 55)
  else none

/-- Σ dᵢ·baseⁱ (most significant first), `none` when some character is not a digit -/
def natValue (base : Nat) : List Nat → Nat → Option Nat
  | [], acc => some acc
  | c :: cs, acc =>
    match digitVal base c with
    | none => none
    | some d => natValue base cs (base * acc + d)

def parseNat (base : Nat) (s : List Nat) : Option Nat :=
  if s.isEmpty then none else natValue base s 0

def negOf (o : Option Nat) : Option Int :=
  match o with | some v => some (- Int.ofNat v) | none => none
def posOf (o : Option Nat) : Option Int :=
  match o with | some v => some (Int.ofNat v) | none => none

def parseInt (s : List Nat) : Option Int :=
  match s with
  | 45 :: r => negOf (parseNat 10 r)
  | _ => posOf (parseNat 10 s)

def hexDigit (n : Nat) : Nat := if n < 10 then 48 + n else 87 + n

def escJson1 (c : Nat) : List Nat :=
  if c == 34 then [92, 34] else if c == 92 then [92, 92]
  else if c == 8 then [92, 98] else if c == 9 then [92, 116] else if c == 10 then [92, 110]
  else if c == 12 then [92, 102] else if c == 13 then [92, 114]
  else if c < 32 then [92, 117, 48, 48, hexDigit (c / 16), hexDigit (c % 16)]
  else [c]
def escapeStringJson (s : List Nat) : List Nat := [34] ++ s.flatMap escJson1 ++ [34]
def escapeStringBash (s : List Nat) : List Nat :=
  [39] ++ s.flatMap (fun c => if c == 39 then [39, 34, 39, 34, 39] else [c]) ++ [39]
def escapeStringDollars (s : List Nat) : List Nat :=
  s.flatMap (fun c => if c == 36 then [36, 36] else [c])
def escapeStringXml (s : List Nat) : List Nat :=
  s.flatMap (fun c =>
    if c == 60 then "&lt;".toList.map Char.toNat
    else if c == 62 then "&gt;".toList.map Char.toNat
    else if c == 38 then "&amp;".toList.map Char.toNat
    else if c == 34 then "&quot;".toList.map Char.toNat
    else if c == 39 then "&apos;".toList.map Char.toNat
    else [c])

/-! base64, RFC 4648 §4 (standard alphabet, canonical padding) -/
def b64Char (i : Nat) : Nat :=
  if i < 26 then 65 + i else if i < 52 then 71 + i else if i < 62 then i - 4
  else if i == 62 then 43 else 47

def b64Val (c : Nat) : Option Nat :=
  if 65 ≤ c ∧ c ≤ 90 then some (c - 65)
  else if 97 ≤ c ∧ c ≤ 122 then some (c - 71)
  else if 48 ≤ c ∧ c ≤ 57 then some (c + 4)
  else if c = 43 then some 62
  else if c = 47 then some 63
  else none

def b64Enc : List Nat → List Nat
  | [] => []
  | [a] => [b64Char (a / 4), b64Char (a % 4 * 16), 61, 61]
  | [a, b] => [b64Char (a / 4), b64Char (a % 4 * 16 + b / 16), b64Char (b % 16 * 4), 61]
  | a :: b :: c :: r =>
    b64Char (a / 4) :: b64Char (a % 4 * 16 + b / 16) :: b64Char (b % 16 * 4 + c / 64) ::
      b64Char (c % 64) :: b64Enc r

def b64Dec : List Nat → Option (List Nat)
  | [] => some []
  | c0 :: c1 :: c2 :: c3 :: r =>
    if r.isEmpty && c3 == 61 then
      if c2 == 61 then
        match b64Val c0, b64Val c1 with
        | some v0, some v1 => if v1 % 16 == 0 then some [v0 * 4 + v1 / 16] else none
        | _, _ => none
      else
        match b64Val c0, b64Val c1, b64Val c2 with
        | some v0, some v1, some v2 =>
          if v2 % 4 == 0 then some [v0 * 4 + v1 / 16, v1 % 16 * 16 + v2 / 4] else none
        | _, _, _ => none
    else
      match b64Val c0, b64Val c1, b64Val c2, b64Val c3, b64Dec r with
      | some v0, some v1, some v2, some v3, some rest =>
        some ((v0 * 4 + v1 / 16) :: (v1 % 16 * 16 + v2 / 4) :: (v2 % 4 * 64 + v3) :: rest)
      | _, _, _, _, _ => none
  | _ => none

end Spec

/-! ## the code as written -/
namespace Model

/-- `str.chars().skip(from).take(len).collect()` -/
def substr (s : List Nat) (from_ len : Nat) : List Nat := (s.drop from_).take len

/-- the `char_indices().take_while(i <= max_pos).enumerate()` loop of `builtin_find_substr`:
    `i` byte offset, `ch` char index, `strb[i..i+pat.len()] == pat` on byte slices -/
def findGo (sb pb : List Nat) (maxPos : Nat) : List Nat → Nat → Nat → List Nat
  | [], _, _ => []
  | c :: cs, i, ch =>
    if i ≤ maxPos then
      let rest := findGo sb pb maxPos cs (i + (enc1 c).length) (ch + 1)
      if (sb.drop i).take pb.length == pb then ch :: rest else rest
    else []

def findSubstr (pat s : List Nat) : List Nat :=
  let pb := enc pat
  let sb := enc s
  if pb.isEmpty || sb.isEmpty || pb.length > sb.length then []
  else findGo sb pb (sb.length - pb.length) s 0 0

/-- `a.starts_with(b)` on `str` compares bytes -/
def startsWith (a b : List Nat) : Bool := (enc b).isPrefixOf (enc a)

def upB (b : Nat) : Nat := if 97 ≤ b ∧ b ≤ 122 then b - 32 else b
def lowB (b : Nat) : Nat := if 65 ≤ b ∧ b ≤ 90 then b + 32 else b
/-- `str::to_ascii_uppercase` maps bytes -/
def asciiUpperBytes (s : List Nat) : List Nat := (enc s).map upB
def asciiLowerBytes (s : List Nat) : List Nat := (enc s).map lowB
/-- `eq_ignore_ascii_case` on the byte slices -/
def equalsIgnoreCase (a b : List Nat) : Bool := (enc a).map lowB == (enc b).map lowB

/-- `new_trim_pattern` + the `is_empty` guards + `trim_start_matches` -/
def lstrip (s cs : List Nat) : List Nat :=
  if s.isEmpty || cs.isEmpty then s else s.dropWhile (fun c => cs.contains c)
def rstrip (s cs : List Nat) : List Nat :=
  if s.isEmpty || cs.isEmpty then s else (s.reverse.dropWhile (fun c => cs.contains c)).reverse
def strip (s cs : List Nat) : List Nat :=
  if s.isEmpty || cs.isEmpty then s
  else ((s.dropWhile (fun c => cs.contains c)).reverse.dropWhile (fun c => cs.contains c)).reverse

/-- round a natural number to the nearest f64 (ties to even); exact below 2^53.
    Valid for n < 2^1024 (the harness stays far below). -/
def roundF64 (n : Nat) : Nat :=
  if n < 2 ^ 53 then n
  else
    let e := n.log2 - 52
    let q := n / 2 ^ e
    let r := n % 2 ^ e
    let half := 2 ^ (e - 1)
    let q' := if r > half || (r == half && q % 2 == 1) then q + 1 else q
    q' * 2 ^ e

/-- the digit computation of `parse_nat::<BASE>` (u32 `checked_sub` cascade) -/
def digitOf (base c : Nat) : Nat :=
  if base > 10 ∧ c ≥ 97 then c - 97 + 10
  else if base > 10 ∧ c ≥ 65 then c - 65 + 10
  else if c ≥ 48 ∧ c - 48 < 10 then c - 48
  else base

/-- `raw.chars().try_fold(0f64, |agg, digit| base.mul_add(agg, digit))` on integer-valued doubles -/
def parseNatGo (base : Nat) : List Nat → Nat → Option Nat
  | [], acc => some acc
  | c :: cs, acc =>
    let d := digitOf base c
    if d < base then parseNatGo base cs (roundF64 (base * acc + d)) else none

def parseNat (base : Nat) (s : List Nat) : Option Nat :=
  if s.isEmpty then none else parseNatGo base s 0

def parseInt (s : List Nat) : Option Int :=
  match s with
  | 45 :: r => if r.isEmpty then none else Spec.negOf (parseNatGo 10 r 0)
  | _ => if s.isEmpty then none else Spec.posOf (parseNatGo 10 s 0)

/-- `std::char::from_u32` after the `u32` argument check -/
def char (n : Int) : Option (List Nat) :=
  if 0 ≤ n ∧ n < 4294967296 then (if isScalar n.toNat then some [n.toNat] else none) else none

/-- `str as u32` after the single-`char` argument check -/
def codepoint (s : List Nat) : Option Nat :=
  match s with
  | [c] => some c
  | _ => none

/-- longest prefix of `s` whose UTF-8 encoding has at most `n` bytes -/
def takeBytes : Nat → List Nat → List Nat
  | _, [] => []
  | n, c :: s => if (enc1 c).length ≤ n then c :: takeBytes (n - (enc1 c).length) s else []

/-- `JsonFormat::debug()` (what `std.trace` prints for non-string values) shortens strings longer
    than 256 bytes to the first and last 128 bytes, cut back to character boundaries -/
def debugTrunc (s : List Nat) : List Nat :=
  if (enc s).length > 256 then takeBytes 128 s ++ [46, 46] ++ (takeBytes 128 s.reverse).reverse
  else s

end Model

end JrsVerif.Str
