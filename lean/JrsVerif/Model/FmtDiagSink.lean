/- C20 — the rowan parser's event protocol and tree builder.

   * `Event`                : crates/jrsonnet-rowan-parser/src/event.rs `enum Event` (`0` = `None` for the
                              `NonZeroUsize` offsets `forward_parent` / `wrapper`)
   * `Sink.go / finish`     : `Sink::finish` statement by statement — the `for idx in 0..events.len()` loop with
                              `mem::replace(&mut events[idx], Noop)`, the `forward_parent` walk, the `wrapper`
                              walk, `skip_whitespace`, `token`, `text_offset`, `error_starts_at`, `depth`
                              (an `i32` in the source: `Int` here) and every panic site as a `Panic` value
   * `Sink.build`           : rowan 0.16 `GreenNodeBuilder` (`start_node / token / finish_node / finish`)
   * `Marker.*`             : marker.rs / parser.rs `start`, `bump`, `complete_raw`, `forget`, `precede`,
                              `wrap_raw` as functions on the event list with their `assert!`/`unreachable!`
   * `ptrOK`, `wfb`         : static well-formedness of an event list (no mutation, no lexemes)
   * `SameTok`              : "same tokens" of two lexeme lists (equality modulo trivia) and the
                              two-pointer check the driver runs
   The trivia predicate of `skip_whitespace` is a parameter (`triv`): the two sites that must agree
   (`parse()`'s filter and `skip_whitespace`) are extracted separately into `Generated.FmtTrivia`.
   No Mathlib (the driver links this file). -/
import JrsVerif.Generated.FmtTrivia

namespace JrsVerif.FmtSink

inductive Event where
  | pending
  | start (kind : Nat) (fp : Nat)
  | token (kind : Nat)
  | finish (wrapper : Nat) (err : Bool)
  | noop
deriving Repr, DecidableEq, Inhabited

structure Lexeme where
  kind : Nat
  lo : Nat
  hi : Nat
deriving Repr, DecidableEq, Inhabited

/-- calls made on the `GreenNodeBuilder` -/
inductive Op where
  | opn (kind : Nat)
  | tok (kind : Nat) (lex : Nat)      -- `builder.token(kind, lexemes[lex].text)`
  | cls
deriving Repr, DecidableEq, Inhabited

inductive Panic where
  | pendingEvent        -- panic!("pending event should not appear in finished events")
  | unreachableStart    -- `unreachable!()` in the forward_parent walk
  | unreachableFinish   -- `unreachable!()` in the wrapper walk
  | eventIndex          -- `self.events[idx]` out of bounds
  | lexemeIndex         -- `self.lexemes[self.offset]` in `token`
  | hardOob             -- panic!("hard oob") in `text_offset`
  | startsFinishes      -- `error_starts_at.pop().expect("starts == finishes")`
  | builderPop          -- GreenNodeBuilder::finish_node: `self.parents.pop().unwrap()`
  | builderFinish       -- GreenNodeBuilder::finish: `assert_eq!(self.children.len(), 1)` / `Token => panic!()`
deriving Repr, DecidableEq, Inhabited

/-- mutable state of `Sink::finish` -/
structure St where
  off : Nat := 0                     -- self.offset
  depth : Int := 0                   -- `let mut depth = 0` (i32)
  eat : Bool := false                -- eat_start_whitespace
  starts : List Nat := []            -- error_starts_at (head = top of the Vec)
  ops : List Op := []                -- builder calls, most recent first
  errs : List (Nat × Nat) := []      -- self.errors (ranges), most recent first
deriving Repr, DecidableEq, Inhabited

section sink
variable (triv : Nat → Bool) (lex : List Lexeme)

/-- `fn token(&mut self, kind)` : `let lexeme = self.lexemes[self.offset]; builder.token(..); offset += 1` -/
def tokenOp (kind : Nat) (s : St) : Except Panic St :=
  match lex[s.off]? with
  | none => .error .lexemeIndex
  | some _ => .ok { s with ops := .tok kind s.off :: s.ops, off := s.off + 1 }

/-- `fn skip_whitespace`: `while let Some(lexeme) = lexemes.get(offset) { if !trivia { break } token(kind) }` -/
def skipWs (s : St) : St :=
  match h : lex[s.off]? with
  | none => s
  | some l =>
    if triv l.kind then skipWs { s with ops := .tok l.kind s.off :: s.ops, off := s.off + 1 } else s
termination_by lex.length - s.off
decreasing_by
  have := (List.getElem?_eq_some_iff.mp h).1
  omega

/-- `fn text_offset` -/
def textOffset (off : Nat) : Except Panic Nat :=
  if off = 0 then .ok 0 else
  match lex[off]? with
  | some l => .ok l.lo
  | none =>
    match lex[off - 1]? with
    | some l => .ok l.hi
    | none => .error .hardOob

/-- the `while let Some(fp) = forward_parent` walk; `kinds` = the Vec `kinds`, last pushed first -/
def walkStart (n : Nat) (evs : List Event) (idx fp : Nat) (kinds : List Nat) :
    Except Panic (List Nat × List Event) :=
  if fp = 0 then .ok (kinds, evs) else
  if idx + fp < n then
    match evs[idx + fp]? with
    | some (.start k fp') => walkStart n (evs.set (idx + fp) .noop) (idx + fp) fp' (k :: kinds)
    | some _ => .error .unreachableStart
    | none => .error .eventIndex
  else .error .eventIndex
termination_by n - idx
decreasing_by omega

/-- `for kind in kinds.into_iter().rev() { start_node; depth += 1; if depth == 1 { skip_whitespace }
    error_starts_at.push(text_offset()) }` -/
def openAll : List Nat → St → Except Panic St
  | [], s => .ok s
  | k :: ks, s =>
    let s1 : St := { s with ops := .opn k :: s.ops, depth := s.depth + 1 }
    let s2 := if s1.depth = 1 then skipWs triv lex s1 else s1
    match textOffset lex s2.off with
    | .error p => .error p
    | .ok t => openAll ks { s2 with starts := t :: s2.starts }

/-- body of the `Event::Finish` arm before the wrapper walk -/
def closeMain (err : Bool) (s : St) : Except Panic St :=
  let s1 := if s.depth = 1 then skipWs triv lex s else s
  match s1.starts with
  | [] => .error .startsFinishes
  | st :: rest =>
    match textOffset lex s1.off with
    | .error p => .error p
    | .ok t =>
      .ok { s1 with starts := rest, errs := if err then (st, t) :: s1.errs else s1.errs,
                    ops := .cls :: s1.ops, depth := s1.depth - 1 }

/-- body of one iteration of the `while let Some(w) = wrapper` walk (note: range first, THEN
    `skip_whitespace`, the other way round than in `closeMain`) -/
def closeWrapped (err : Bool) (s : St) : Except Panic St :=
  match s.starts with
  | [] => .error .startsFinishes
  | st :: rest =>
    match textOffset lex s.off with
    | .error p => .error p
    | .ok t =>
      let s1 : St := { s with starts := rest, errs := if err then (st, t) :: s.errs else s.errs }
      let s2 := if s1.depth = 1 then skipWs triv lex s1 else s1
      .ok { s2 with ops := .cls :: s2.ops, depth := s2.depth - 1 }

def walkFinish (n : Nat) (evs : List Event) (idx w : Nat) (s : St) : Except Panic (St × List Event) :=
  if w = 0 then .ok (s, evs) else
  if idx + w < n then
    match evs[idx + w]? with
    | some (.finish w' err) =>
      match closeWrapped triv lex err s with
      | .error p => .error p
      | .ok s' => walkFinish n (evs.set (idx + w) .noop) (idx + w) w' s'
    | some _ => .error .unreachableFinish
    | none => .error .eventIndex
  else .error .eventIndex
termination_by n - idx
decreasing_by omega

/-- `for idx in 0..self.events.len()`; `n` = `events.len()` evaluated once -/
def go (n : Nat) (evs : List Event) (idx : Nat) (s : St) : Except Panic St :=
  if idx < n then
    match evs[idx]? with
    | none => .error .eventIndex
    | some e =>
      match e with
      | .start k fp =>
        let s0 := if s.depth ≠ 0 then skipWs triv lex s else s
        match walkStart n (evs.set idx .noop) idx fp [k] with
        | .error p => .error p
        | .ok (kinds, evs') =>
          match openAll triv lex kinds s0 with
          | .error p => .error p
          | .ok s1 => go n evs' (idx + 1) { s1 with eat := false }
      | .token k =>
        let s0 := if s.eat then skipWs triv lex s else s
        match tokenOp lex k s0 with
        | .error p => .error p
        | .ok s1 => go n (evs.set idx .noop) (idx + 1) { s1 with eat := true }
      | .finish w err =>
        match closeMain triv lex err s with
        | .error p => .error p
        | .ok s1 =>
          match walkFinish triv lex n (evs.set idx .noop) idx w s1 with
          | .error p => .error p
          | .ok (s2, evs') => go n evs' (idx + 1) { s2 with eat := true }
      | .pending => .error .pendingEvent
      | .noop => go n (evs.set idx .noop) (idx + 1) s
  else .ok s
termination_by n - idx
decreasing_by all_goals omega

end sink

/-- green tree -/
inductive Tree where
  | node (kind : Nat) (children : List Tree)
  | leaf (kind : Nat) (lex : Nat)
deriving Repr, Inhabited

mutual
def Tree.leaves : Tree → List Nat
  | .node _ cs => Tree.leavesL cs
  | .leaf _ i => [i]
def Tree.leavesL : List Tree → List Nat
  | [] => []
  | t :: ts => t.leaves ++ Tree.leavesL ts
end

mutual
/-- pre-order serialisation, the shape the harness reads off the real tree -/
def Tree.flat : Tree → List Op
  | .node k cs => .opn k :: (Tree.flatL cs ++ [.cls])
  | .leaf k i => [.tok k i]
def Tree.flatL : List Tree → List Op
  | [] => []
  | t :: ts => t.flat ++ Tree.flatL ts
end

/-- `GreenNodeBuilder`: `stack` = `parents` (kind + the children collected before it at the outer
    level, most recent first), `cur` = children of the innermost open node, most recent first.
    The flat `children` Vec of rowan is `stack.reverse.flatMap (·.2.reverse) ++ cur.reverse`. -/
def build : List Op → List (Nat × List Tree) → List Tree → Except Panic Tree
  | [], stack, cur =>
    -- finish(): assert_eq!(children.len(), 1); Node => node, Token => panic!()
    match cur ++ stack.flatMap (·.2) with
    | [.node k cs] => .ok (.node k cs)
    | _ => .error .builderFinish
  | .opn k :: ops, stack, cur => build ops ((k, cur) :: stack) []
  | .tok k i :: ops, stack, cur => build ops stack (.leaf k i :: cur)
  | .cls :: ops, stack, cur =>
    match stack with
    | [] => .error .builderPop
    | (k, outer) :: st => build ops st (.node k cur.reverse :: outer)

structure Parse where
  tree : Tree
  errs : List (Nat × Nat)
  off : Nat               -- lexemes consumed
deriving Repr, Inhabited

/-- `Sink::finish` -/
def finish (triv : Nat → Bool) (evs : List Event) (lex : List Lexeme) : Except Panic Parse :=
  match go triv lex evs.length evs 0 {} with
  | .error p => .error p
  | .ok s =>
    match build s.ops.reverse [] [] with
    | .error p => .error p
    | .ok t => .ok ⟨t, s.errs.reverse, s.off⟩

/-! ### the two trivia sites -/
open JrsVerif.Generated.FmtTrivia in
/-- `Sink::skip_whitespace`'s predicate, as extracted -/
def sinkTriv (k : Nat) : Bool := sinkSiteTrivia.contains k
open JrsVerif.Generated.FmtTrivia in
/-- `parse()`'s filter, as extracted -/
def parseTriv (k : Nat) : Bool := parseSiteTrivia.contains k

/-- kinds the parser is given: `lexemes.iter().map(|l| l.kind).filter(|k| !trivia(k))` -/
def parserKinds (ptriv : Nat → Bool) (lex : List Lexeme) : List Nat :=
  (lex.map (·.kind)).filter (fun k => !ptriv k)

def Event.isToken : Event → Bool
  | .token _ => true
  | _ => false

def tokenKinds (evs : List Event) : List Nat :=
  evs.filterMap fun e => match e with | .token k => some k | _ => none

/-- indices of the lexemes given to `builder.token`, most recent first (for `St.ops`) -/
def tokIdxR : List Op → List Nat
  | [] => []
  | .tok _ i :: ops => i :: tokIdxR ops
  | _ :: ops => tokIdxR ops

/-! ### static well-formedness of an event list (nothing is mutated, no lexemes involved) -/

def Event.isStartLike : Event → Bool
  | .start _ _ => true
  | .pending => true      -- an uncompleted marker: becomes `start` on `complete`
  | _ => false

def Event.isFinish : Event → Bool
  | .finish _ _ => true
  | _ => false

/-- absolute target of the forward pointer of the event at `i` (none = no pointer) -/
def startTarget (evs : List Event) (i : Nat) : Option Nat :=
  match evs[i]? with
  | some (.start _ fp) => if fp = 0 then none else some (i + fp)
  | _ => none

def finishTarget (evs : List Event) (i : Nat) : Option Nat :=
  match evs[i]? with
  | some (.finish w _) => if w = 0 then none else some (i + w)
  | _ => none

/-- every `forward_parent` points to a `Start` (or a live marker), every `wrapper` to a `Finish`;
    no event is pointed to twice -/
def ptrOKb (evs : List Event) : Bool :=
  let n := evs.length
  let sT := (List.range n).filterMap (startTarget evs)
  let fT := (List.range n).filterMap (finishTarget evs)
  sT.all (fun t => match evs[t]? with | some e => e.isStartLike | none => false) &&
  fT.all (fun t => match evs[t]? with | some e => e.isFinish | none => false) &&
  decide sT.Nodup && decide fT.Nodup

def noPending (evs : List Event) : Bool := evs.all (· != .pending)

/-- static linearisation: an event that is pointed to emits nothing at its own place; an event that
    is not pointed to emits its whole chain (read, not consumed) -/
def chainKinds (evs : List Event) : Nat → Nat → List Nat → List Nat
  | 0, _, acc => acc
  | fuel + 1, i, acc =>
    match evs[i]? with
    | some (.start k fp) => if fp = 0 then k :: acc else chainKinds evs fuel (i + fp) (k :: acc)
    | _ => acc

def chainLen (evs : List Event) : Nat → Nat → Nat
  | 0, _ => 0
  | fuel + 1, i =>
    match evs[i]? with
    | some (.finish w _) => if w = 0 then 1 else 1 + chainLen evs fuel (i + w)
    | _ => 0

/-- effective sequence of (opens, closes, tokens) per position, as a depth walk: returns the final
    depth, or none when a close would find no open node / a token or a second root sits outside the
    root node -/
def balanceFrom (evs : List Event) (sT fT : List Nat) : Nat → Nat → Nat → Bool → Option Nat
  | 0, _, d, _ => some d
  | fuel + 1, i, d, rooted =>
    match evs[i]? with
    | none => some d
    | some (.start _ _) =>
      if sT.contains i then balanceFrom evs sT fT fuel (i + 1) d rooted
      else if d = 0 && rooted then none       -- a second root
      else balanceFrom evs sT fT fuel (i + 1) (d + (chainKinds evs evs.length i []).length) true
    | some (.finish _ _) =>
      if fT.contains i then balanceFrom evs sT fT fuel (i + 1) d rooted
      else
        let c := chainLen evs evs.length i
        if c ≤ d then balanceFrom evs sT fT fuel (i + 1) (d - c) rooted else none
    | some (.token _) => if d = 0 then none else balanceFrom evs sT fT fuel (i + 1) d rooted
    | some _ => balanceFrom evs sT fT fuel (i + 1) d rooted

/-- the model's `WF`: what `Sink::finish` needs of an event list and of the lexemes -/
def wfb (ptriv : Nat → Bool) (evs : List Event) (lex : List Lexeme) : Bool :=
  let n := evs.length
  let sT := (List.range n).filterMap (startTarget evs)
  let fT := (List.range n).filterMap (finishTarget evs)
  noPending evs && ptrOKb evs &&
  (match evs.head? with | some (.start _ _) => true | _ => false) &&
  (match evs.getLast? with | some (.finish 0 _) => true | _ => false) &&
  balanceFrom evs sT fT n 0 0 false == some 0 &&
  tokenKinds evs == parserKinds ptriv lex

/-! ### Marker API (marker.rs, parser.rs) on the event list; `none` = the assert / unreachable fires -/
namespace Marker

/-- `Parser::start`: returns the marker's `start_event_idx` -/
def start (evs : List Event) : List Event × Nat := (evs ++ [.pending], evs.length)

/-- `Parser::bump_remap` (event part) -/
def bump (evs : List Event) (k : Nat) : List Event := evs ++ [.token k]

/-- `Marker::complete_raw`: `assert!(matches!(event_at_pos, Event::Pending))`; returns
    (events, start_event_idx, finish_event_idx) -/
def complete (evs : List Event) (m : Nat) (kind : Nat) (err : Bool) : Option (List Event × Nat × Nat) :=
  match evs[m]? with
  | some .pending => some ((evs.set m (.start kind 0)) ++ [.finish 0 err], m, evs.length)
  | _ => none

/-- `Marker::forget` -/
def forget (evs : List Event) (m : Nat) : Option (List Event) :=
  match evs[m]? with
  | some .pending => some (evs.set m .noop)
  | _ => none

/-- `CompletedMarker::precede`: `NonZeroUsize::new(new - start).expect("!= 0")`, `_ => unreachable!()` -/
def precede (evs : List Event) (cmStart : Nat) : Option (List Event × Nat) :=
  let (evs1, new) := start evs
  match evs1[cmStart]? with
  | some (.start k _) =>
    if new - cmStart = 0 then none else some (evs1.set cmStart (.start k (new - cmStart)), new)
  | _ => none

/-- `CompletedMarker::wrap_raw` -/
def wrap (evs : List Event) (cmStart cmFinish : Nat) (kind : Nat) (err prev : Bool) :
    Option (List Event × Nat × Nat) :=
  match precede evs cmStart with
  | none => none
  | some (evs1, new) =>
    match complete evs1 new kind err with
    | none => none
    | some (evs2, s2, f2) =>
      if prev then
        match evs2[cmFinish]? with
        | some (.finish _ e) =>
          if f2 - cmFinish = 0 then none else some (evs2.set cmFinish (.finish (f2 - cmFinish) e), s2, f2)
        | _ => none
      else some (evs2, s2, f2)

end Marker

/-! ### "same tokens" (goal of the per-hunk layout classifiers) -/

/-- a lexeme as the classifier sees it: kind and text -/
abbrev KT := Nat × String

/-- the code tokens of a lexeme list: everything that is not trivia -/
def codeToks (triv : Nat → Bool) (l : List KT) : List KT := l.filter (fun x => !triv x.1)

/-- MEANING of "same tokens": the two texts have the same sequence of non-trivia lexemes
    (kind and text) — they differ in whitespace and comments only -/
def SameTok (triv : Nat → Bool) (a b : List KT) : Prop := codeToks triv a = codeToks triv b

/-- the check the driver runs: two cursors, each skipping trivia, compared token by token -/
def sameTokB (triv : Nat → Bool) : List KT → List KT → Bool
  | [], [] => true
  | [], y :: ys => if triv y.1 then sameTokB triv [] ys else false
  | x :: xs, [] => if triv x.1 then sameTokB triv xs [] else false
  | x :: xs, y :: ys =>
    if triv x.1 then sameTokB triv xs (y :: ys)
    else if triv y.1 then sameTokB triv (x :: xs) ys
    else x == y && sameTokB triv xs ys
termination_by a b => a.length + b.length

/-- drop a `,` that directly precedes a closing bracket (the printers add one when they expand a
    group and omit it when they join it; the parsers accept both) -/
def dropTrailingCommas (comma : Nat) (closers : List Nat) : List KT → List KT
  | [] => []
  | [x] => [x]
  | x :: y :: rest =>
    if x.1 == comma && closers.contains y.1 then dropTrailingCommas comma closers (y :: rest)
    else x :: dropTrailingCommas comma closers (y :: rest)

/-- MEANING of "same tokens up to trailing commas" -/
def SameTokC (triv : Nat → Bool) (comma : Nat) (closers : List Nat) (a b : List KT) : Prop :=
  dropTrailingCommas comma closers (codeToks triv a) = dropTrailingCommas comma closers (codeToks triv b)

/-- the check the driver runs for it: the two-cursor comparison on the comma-normalised code tokens -/
def sameTokCB (triv : Nat → Bool) (comma : Nat) (closers : List Nat) (a b : List KT) : Bool :=
  sameTokB (fun _ => false) (dropTrailingCommas comma closers (codeToks triv a))
    (dropTrailingCommas comma closers (codeToks triv b))

end JrsVerif.FmtSink
