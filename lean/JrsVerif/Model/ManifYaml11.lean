/- C14 — independent reference: the implicit-type resolver of YAML 1.1 as PyYAML has it.

   Written from `yaml/resolver.py` (PyYAML 5.x / 6.x, `Resolver.add_implicit_resolver` calls) and,
   for the two "Repo" variants, from the YAML 1.1 type repository (yaml.org/type/bool.html,
   yaml.org/type/float.html).  Nothing here mentions jrsonnet's `bare_safe`, its character classes
   or its word list: this file imports the Spec side only (for `yamlPlainSafeChar`).

   Every recogniser is a full-string match (`^(?: … )$`) over `List Char`.  They are written as
   direct, deterministic parsers: an optional sign is stripped, maximal runs of a character class
   are split off with `takeWhile` / `dropWhile`, the remainder is matched by shape.  Wherever a
   maximal run is used, the regex forces the character that follows the run to lie outside the
   class, so "maximal run" and "regex star" accept the same strings.

   regex (resolver.py)                                                    recogniser
   -------------------------------------------------------------------    ---------------
   bool   yes|Yes|YES|no|No|NO|true|True|TRUE|false|False|FALSE
          |on|On|ON|off|Off|OFF                                           isBool
   float  [-+]?([0-9][0-9_]*)\.[0-9_]*([eE][-+][0-9]+)?                   isFloatDec
          \.[0-9][0-9_]*([eE][-+][0-9]+)?                                 isFloatDot
          [-+]?[0-9][0-9_]*(:[0-5]?[0-9])+\.[0-9_]*                       isFloatSex
          [-+]?\.(inf|Inf|INF)                                            isFloatInf
          \.(nan|NaN|NAN)                                                 isFloatNan
   int    [-+]?0b[0-1_]+                                                  isIntBin
          [-+]?0[0-7_]+                                                   isIntOct
          [-+]?(0|[1-9][0-9_]*)                                           isIntDec
          [-+]?0x[0-9a-fA-F_]+                                            isIntHex
          [-+]?[1-9][0-9_]*(:[0-5]?[0-9])+                                isIntSex
   merge  <<                                                              isMerge
   null   ~|null|Null|NULL|(empty)                                        isNull
   timestamp  [0-9]{4}-[0-9]{2}-[0-9]{2}                                  isTimestampDate
          [0-9]{4}-[0-9][0-9]?-[0-9][0-9]?([Tt]|[ \t]+)[0-9][0-9]?
            :[0-9][0-9]:[0-9][0-9](\.[0-9]*)?
            ([ \t]*(Z|[-+][0-9][0-9]?(:[0-9][0-9])?))?                    isTimestampFull
   value  =                                                               isValue -/
import JrsVerif.Model.ManifSpec

namespace JrsVerif.ManifYaml11
open JrsVerif.ManifSpec

/-! ### character classes -/

/-- `[0-9]` -/
def isDigit (c : Char) : Bool := 48 ≤ c.toNat && c.toNat ≤ 57
/-- `[0-9_]` -/
def isDigitU (c : Char) : Bool := isDigit c || c == '_'
/-- `[0-1_]` -/
def isBinU (c : Char) : Bool := c == '0' || c == '1' || c == '_'
/-- `[0-7_]` -/
def isOctU (c : Char) : Bool := (48 ≤ c.toNat && c.toNat ≤ 55) || c == '_'
/-- `[0-9a-fA-F_]` -/
def isHexU (c : Char) : Bool :=
  isDigit c || (97 ≤ c.toNat && c.toNat ≤ 102) || (65 ≤ c.toNat && c.toNat ≤ 70) || c == '_'
/-- `[0-5]` -/
def is05 (c : Char) : Bool := 48 ≤ c.toNat && c.toNat ≤ 53
/-- `[1-9]` -/
def is19 (c : Char) : Bool := 49 ≤ c.toNat && c.toNat ≤ 57
/-- `[ \t]` -/
def isBlank (c : Char) : Bool := c == ' ' || c == '\t'
/-- `[0-9.]` (only in the type-repository float) -/
def isDigitDot (c : Char) : Bool := isDigit c || c == '.'

/-! ### small building blocks -/

/-- `[-+]?` : drop one leading sign if there is one -/
def stripSign : List Char → List Char
  | [] => []
  | c :: r => if c == '-' || c == '+' then r else c :: r

/-- the first character exists and satisfies `p` -/
def headIs (p : Char → Bool) : List Char → Bool
  | [] => false
  | c :: _ => p c

/-- `([eE][-+][0-9]+)?` as a full match of what is left -/
def isExpOpt : List Char → Bool
  | [] => true
  | e :: sg :: d :: ds => (e == 'e' || e == 'E') && (sg == '-' || sg == '+') && isDigit d && ds.all isDigit
  | _ => false

/-- split at every `sep` (always at least one piece; the pieces contain no `sep`) -/
def splitOn (sep : Char) : List Char → List (List Char)
  | [] => [[]]
  | c :: rest =>
    if c == sep then [] :: splitOn sep rest
    else match splitOn sep rest with
      | [] => [[c]]
      | h :: t => (c :: h) :: t

/-- `[0-5]?[0-9]` -/
def isSexGroup : List Char → Bool
  | [a] => isDigit a
  | [a, b] => is05 a && isDigit b
  | _ => false

/-- `H(:[0-5]?[0-9])+` where `H` is `first[0-9_]*`: split at the colons; there must be a head and at
    least one group -/
def isSexBody (first : Char → Bool) (t : List Char) : Bool :=
  match splitOn ':' t with
  | hd :: g :: gs => headIs first hd && hd.all isDigitU && isSexGroup g && gs.all isSexGroup
  | _ => false

/-! ### bool, null, merge, value, the float words: finite sets -/

def boolWords : List (List Char) :=
  ["yes", "Yes", "YES", "no", "No", "NO", "true", "True", "TRUE", "false", "False", "FALSE",
   "on", "On", "ON", "off", "Off", "OFF"].map String.toList

def isBool (s : List Char) : Bool := boolWords.contains s

/-- yaml.org/type/bool.html additionally lists `y|Y|n|N` -/
def boolRepoWords : List (List Char) := boolWords ++ ["y", "Y", "n", "N"].map String.toList

def isBoolRepo (s : List Char) : Bool := boolRepoWords.contains s

def nullWords : List (List Char) := ["~", "null", "Null", "NULL", ""].map String.toList

def isNull (s : List Char) : Bool := nullWords.contains s

def isMerge (s : List Char) : Bool := s == "<<".toList

def isValue (s : List Char) : Bool := s == "=".toList

/-- `[-+]?\.(inf|Inf|INF)` -/
def infWords : List (List Char) :=
  [".inf", ".Inf", ".INF", "-.inf", "-.Inf", "-.INF", "+.inf", "+.Inf", "+.INF"].map String.toList

def isFloatInf (s : List Char) : Bool := infWords.contains s

/-- `\.(nan|NaN|NAN)` -/
def nanWords : List (List Char) := [".nan", ".NaN", ".NAN"].map String.toList

def isFloatNan (s : List Char) : Bool := nanWords.contains s

/-! ### float -/

/-- `[-+]?([0-9][0-9_]*)\.[0-9_]*([eE][-+][0-9]+)?` -/
def isFloatDec (s : List Char) : Bool :=
  let t := stripSign s
  headIs isDigit t &&
  match t.dropWhile isDigitU with
  | [] => false
  | c :: r => c == '.' && isExpOpt (r.dropWhile isDigitU)

/-- `\.[0-9][0-9_]*([eE][-+][0-9]+)?` (no sign) -/
def isFloatDot (s : List Char) : Bool :=
  match s with
  | [] => false
  | c :: r => c == '.' && headIs isDigit r && isExpOpt (r.dropWhile isDigitU)

/-- `[-+]?[0-9][0-9_]*(:[0-5]?[0-9])+\.[0-9_]*` : everything before the first `.` is the
    sexagesimal part (it cannot contain a `.`), everything after it is `[0-9_]*` -/
def isFloatSex (s : List Char) : Bool :=
  let t := stripSign s
  isSexBody isDigit (t.takeWhile (fun c => c != '.')) &&
  match t.dropWhile (fun c => c != '.') with
  | [] => false
  | _ :: fp => fp.all isDigitU

def isFloat (s : List Char) : Bool :=
  isFloatDec s || isFloatDot s || isFloatSex s || isFloatInf s || isFloatNan s

/-- yaml.org/type/float.html, base 10: `[-+]?([0-9][0-9_]*)?\.[0-9.]*([eE][-+][0-9]+)?` -/
def isFloatDecRepo (s : List Char) : Bool :=
  let t := stripSign s
  (match t with
   | [] => false
   | c :: _ => isDigit c || c == '.') &&
  match t.dropWhile isDigitU with
  | [] => false
  | c :: r => c == '.' && isExpOpt (r.dropWhile isDigitDot)

/-- yaml.org/type/float.html: base 10 | base 60 | infinity | not-a-number (base 60, infinity and
    not-a-number are the same expressions as in PyYAML) -/
def isFloatRepo (s : List Char) : Bool :=
  isFloatDecRepo s || isFloatSex s || isFloatInf s || isFloatNan s

/-! ### int -/

/-- `[-+]?0b[0-1_]+` -/
def isIntBin (s : List Char) : Bool :=
  match stripSign s with
  | z :: b :: d :: ds => z == '0' && b == 'b' && isBinU d && ds.all isBinU
  | _ => false

/-- `[-+]?0[0-7_]+` -/
def isIntOct (s : List Char) : Bool :=
  match stripSign s with
  | z :: d :: ds => z == '0' && isOctU d && ds.all isOctU
  | _ => false

/-- `[-+]?(0|[1-9][0-9_]*)` -/
def isIntDec (s : List Char) : Bool :=
  match stripSign s with
  | [] => false
  | d :: ds => (d == '0' && ds.isEmpty) || (is19 d && ds.all isDigitU)

/-- `[-+]?0x[0-9a-fA-F_]+` -/
def isIntHex (s : List Char) : Bool :=
  match stripSign s with
  | z :: x :: d :: ds => z == '0' && x == 'x' && isHexU d && ds.all isHexU
  | _ => false

/-- `[-+]?[1-9][0-9_]*(:[0-5]?[0-9])+` -/
def isIntSex (s : List Char) : Bool := isSexBody is19 (stripSign s)

def isInt (s : List Char) : Bool := isIntBin s || isIntOct s || isIntDec s || isIntHex s || isIntSex s

/-! ### timestamp -/

/-- `[0-9]{4}-[0-9]{2}-[0-9]{2}` -/
def isTimestampDate (s : List Char) : Bool :=
  match s with
  | [y1, y2, y3, y4, m1, a, b, m2, c, d] =>
    isDigit y1 && isDigit y2 && isDigit y3 && isDigit y4 && m1 == '-' && isDigit a && isDigit b
      && m2 == '-' && isDigit c && isDigit d
  | _ => false

/-- a consumer takes a prefix off the input or fails -/
abbrev Eat := List Char → Option (List Char)

/-- `[0-9]{lo,hi}` where the regex forces a non-digit (or the end) to follow: the maximal run -/
def eatDigits (lo hi : Nat) : Eat := fun s =>
  let n := (s.takeWhile isDigit).length
  if lo ≤ n && n ≤ hi then some (s.dropWhile isDigit) else none

/-- one character satisfying `p` -/
def eatChar (p : Char → Bool) : Eat
  | [] => none
  | c :: r => if p c then some r else none

/-- `([Tt]|[ \t]+)` (what follows is a digit) -/
def eatSep : Eat
  | [] => none
  | c :: r => if c == 'T' || c == 't' then some r
              else if isBlank c then some (r.dropWhile isBlank) else none

/-- one after the other -/
def andThen (f g : Eat) : Eat := fun s => (f s).bind g

/-- `[0-9]{4}-[0-9][0-9]?-[0-9][0-9]?([Tt]|[ \t]+)[0-9][0-9]?` ; what is returned starts at the `:` -/
def eatDateHour : Eat :=
  andThen (eatDigits 4 4) <| andThen (eatChar (· == '-')) <| andThen (eatDigits 1 2) <|
  andThen (eatChar (· == '-')) <| andThen (eatDigits 1 2) <| andThen eatSep (eatDigits 1 2)

/-- `(Z|[-+][0-9][0-9]?(:[0-9][0-9])?)` -/
def isZone : List Char → Bool
  | [] => false
  | c :: r =>
    (c == 'Z' && r.isEmpty) ||
    ((c == '-' || c == '+') &&
      match eatDigits 1 2 r with
      | none => false
      | some [] => true
      | some [k, a, b] => k == ':' && isDigit a && isDigit b
      | some _ => false)

/-- `([ \t]*(Z|[-+][0-9][0-9]?(:[0-9][0-9])?))?` -/
def isZoneOpt (r : List Char) : Bool := r.isEmpty || isZone (r.dropWhile isBlank)

/-- `(\.[0-9]*)?` followed by the optional zone -/
def isFracZone : List Char → Bool
  | [] => true
  | c :: r => if c == '.' then isZoneOpt (r.dropWhile isDigit) else isZoneOpt (c :: r)

/-- `:[0-9][0-9]:[0-9][0-9](\.[0-9]*)?(zone)?` -/
def isTimeRest : List Char → Bool
  | k1 :: a :: b :: k2 :: c :: d :: r =>
    k1 == ':' && isDigit a && isDigit b && k2 == ':' && isDigit c && isDigit d && isFracZone r
  | _ => false

/-- the long form of the timestamp expression -/
def isTimestampFull (s : List Char) : Bool :=
  match eatDateHour s with
  | none => false
  | some r => isTimeRest r

def isTimestamp (s : List Char) : Bool := isTimestampDate s || isTimestampFull s

/-! ### the resolver -/

/-- PyYAML (and every YAML 1.1 processor that uses these expressions) loads the plain scalar `s`
    as a string: no implicit resolver matches -/
def resolvesToString (s : List Char) : Bool :=
  !(isBool s || isFloat s || isInt s || isMerge s || isNull s || isTimestamp s || isValue s)

/-- the same with the type-repository variants of bool and float -/
def resolvesToStringRepo (s : List Char) : Bool :=
  !(isBoolRepo s || isFloatRepo s || isInt s || isMerge s || isNull s || isTimestamp s || isValue s)

/-- `s` can be written as a plain scalar where the YAML writer puts keys and strings (block
    mapping key, block mapping value, block sequence entry): it is not empty, consists of letters,
    digits and `-_./` only — so it contains no indicator, no blank, no `#`, no `: ` and cannot be
    continued — and it is neither the lone indicator `-` nor a document marker. -/
def plainSyntaxOk (s : List Char) : Bool :=
  !s.isEmpty && s.all yamlPlainSafeChar && s != "-".toList && s != "---".toList && s != "...".toList

/-! ### the recognisers on typical members and on near misses -/

example : isInt "0x1F".toList = true := by decide
example : isInt "-0x_a".toList = true := by decide
example : isInt "1_000".toList = true := by decide
example : isInt "0b1_0".toList = true := by decide
example : isInt "017".toList = true := by decide
example : isInt "0".toList = true := by decide
example : isInt "+12".toList = true := by decide
example : isInt "1:30".toList = true := by decide
example : isInt "190:20:30".toList = true := by decide
example : isInt "0x".toList = false := by decide
example : isInt "0b".toList = false := by decide
example : isInt "0o17".toList = false := by decide
example : isInt "1e3".toList = false := by decide
example : isInt "0:30".toList = false := by decide
example : isInt "1:60".toList = false := by decide
example : isInt "1:".toList = false := by decide
example : isInt "018".toList = false := by decide
example : isInt "-".toList = false := by decide
example : isInt "0X1F".toList = false := by decide

example : isFloat "-1.5e+3".toList = true := by decide
example : isFloat "1.".toList = true := by decide
example : isFloat "1_0.0_".toList = true := by decide
example : isFloat ".5".toList = true := by decide
example : isFloat ".5e-1".toList = true := by decide
example : isFloat "190:20:30.15".toList = true := by decide
example : isFloat "0:5.".toList = true := by decide
example : isFloat ".NaN".toList = true := by decide
example : isFloat "-.INF".toList = true := by decide
example : isFloat "1e3".toList = false := by decide
example : isFloat "1.5e3".toList = false := by decide
example : isFloat "1.2.3".toList = false := by decide
example : isFloat ".".toList = false := by decide
example : isFloat "-.5".toList = false := by decide
example : isFloat "_1.0".toList = false := by decide
example : isFloat ".nAn".toList = false := by decide
example : isFloat "+.nan".toList = false := by decide
example : isFloat "1:30".toList = false := by decide

example : isFloatRepo "1.2.3".toList = true := by decide
example : isFloatRepo ".".toList = true := by decide
example : isFloatRepo "-.5".toList = true := by decide
example : isFloatRepo "1e3".toList = false := by decide

example : isTimestamp "2001-01-01".toList = true := by decide
example : isTimestamp "2001-12-14t21:59:43.10-05:00".toList = true := by decide
example : isTimestamp "2001-12-14 21:59:43.10 -5".toList = true := by decide
example : isTimestamp "2001-1-1 1:00:00Z".toList = true := by decide
example : isTimestamp "2001-12-15 2:59:43.10".toList = true := by decide
example : isTimestamp "2001-1-1".toList = false := by decide
example : isTimestamp "2001-01-01 ".toList = false := by decide
example : isTimestamp "2001-01-01T1:00".toList = false := by decide
example : isTimestamp "2001-01-01T1:00:00 ".toList = false := by decide
example : isTimestamp "20010-01-01".toList = false := by decide

example : isNull "~".toList = true := by decide
example : isNull [] = true := by decide
example : isNull "NULL".toList = true := by decide
example : isNull "nULL".toList = false := by decide
example : isMerge "<<".toList = true := by decide
example : isMerge "<".toList = false := by decide
example : isValue "=".toList = true := by decide
example : isBool "True".toList = true := by decide
example : isBool "OFF".toList = true := by decide
example : isBool "tRuE".toList = false := by decide
example : isBool "y".toList = false := by decide
example : isBoolRepo "y".toList = true := by decide

example : resolvesToString "hello".toList = true := by decide
example : resolvesToString "1.2.3".toList = true := by decide
example : resolvesToString "0o17".toList = true := by decide
example : resolvesToString "1e3".toList = true := by decide
example : resolvesToString "2001-1-1".toList = true := by decide
example : resolvesToString "1_000".toList = false := by decide

example : plainSyntaxOk "a-b.c/d_9".toList = true := by decide
example : plainSyntaxOk "---".toList = false := by decide
example : plainSyntaxOk "a b".toList = false := by decide
example : plainSyntaxOk "a:b".toList = false := by decide
example : plainSyntaxOk [] = false := by decide

end JrsVerif.ManifYaml11
