/-
  Model of jrsonnet's numbers (`crates/jrsonnet-evaluator/src/val.rs` : `NumValue`, `primitive_equals`;
  `evaluate/operator.rs` : comparison, arithmetic guards, bitwise and shift arms;
  `typed/conversions.rs` : `IntoUntyped for f64`; `jrsonnet-stdlib/src/{sort,sets}.rs` : the
  comparison-driven std functions).

  A finite double is decoded from its bit pattern to `D = (neg, mag)`: the value is
  `± mag · 2^-1074` (every finite double is an integer multiple of the smallest subnormal), so
  comparison and arithmetic on doubles become exact arithmetic on integers.  Import-free
  (core Lean only) so that the driver links.
-/
import JrsVerif.Generated.Consts

namespace JrsVerif.Num

/-- error classes of numeric operations -/
inductive Err where
  | div0        -- ErrorKind::DivisionByZero
  | nonfinite   -- ConvertNumValueError::NonFinite  (`NumValue::new` refused the result)
  | range       -- "numberic value outside of safe integer range for bitwise operation"
  | negshift    -- "shift by negative exponent"
  | overflow    -- "left shift would overflow"
  | type        -- a typed builtin argument check failed (e.g. `sqrt` of a negative)
  deriving Repr, DecidableEq, Inhabited

def Err.name : Err → String
  | .div0 => "div0" | .nonfinite => "nonfinite" | .range => "range"
  | .negshift => "negshift" | .overflow => "overflow" | .type => "type"

/-! ### Bit patterns and decoding -/

/-- `f64::is_finite` on a bit pattern: exponent field ≠ 0x7FF -/
def isFiniteBits (b : Nat) : Bool := (b / 2 ^ 52) % 2048 != 2047

/-- `x == 0.0` on a bit pattern (both zeros) -/
def isZeroBits (b : Nat) : Bool := b % 2 ^ 63 == 0

/-- a finite double: value = `± mag · 2^-1074` -/
structure D where
  neg : Bool
  mag : Nat
  deriving Repr, DecidableEq, Inhabited

/-- the value in units of `2^-1074` (both zeros are `0`) -/
def D.val (d : D) : Int := if d.neg then -(d.mag : Int) else (d.mag : Int)

/-- one unit: `1.0 = U · 2^-1074` -/
def U : Nat := 2 ^ 1074

def decode (b : Nat) : Option D :=
  let e := (b / 2 ^ 52) % 2048
  let f := b % 2 ^ 52
  if e = 2047 then none
  else some ⟨(b / 2 ^ 63) % 2 = 1, if e = 0 then f else (2 ^ 52 + f) * 2 ^ (e - 1)⟩

/-- exact encoder: `none` when the magnitude is not a double (needs rounding or is too large) -/
def encode (d : D) : Option Nat :=
  let s := if d.neg then 2 ^ 63 else 0
  if d.mag < 2 ^ 52 then some (s + d.mag)
  else
    let k := Nat.log2 d.mag - 52
    if d.mag % 2 ^ k ≠ 0 then none
    else if k + 1 ≥ 2047 then none
    else some (s + (k + 1) * 2 ^ 52 + (d.mag / 2 ^ k - 2 ^ 52))

/-- `NumValue::new` / `Val::try_num::<f64>` : only finite bit patterns become values -/
def tryNum (b : Nat) : Except Err Nat :=
  if isFiniteBits b then .ok b else .error .nonfinite

/-! ### Arithmetic operators as coded: guard, hardware operation, finite check -/

inductive AOp where
  | add | sub | mul | div | mod
  deriving Repr, DecidableEq

/-- `evaluate_{add,sub,mul,div,mod}_op` on two numbers, over an arbitrary hardware operation `hw`
    (whatever the FPU computes, including infinities and NaNs): `/` and `%` first test
    `is_attempt_to_divide_by_zero`, then every result goes through `Val::try_num`. -/
def arith (hw : AOp → Nat → Nat → Nat) (op : AOp) (a b : Nat) : Except Err Nat :=
  match op with
  | .div | .mod => if isZeroBits b then .error .div0 else tryNum (hw op a b)
  | _ => tryNum (hw op a b)

/-- unary minus: `Val::try_num(-n.get())` -/
def negOp (hw : Nat → Nat) (a : Nat) : Except Err Nat := tryNum (hw a)

/-- a `#[builtin] fn(..) -> f64`: the return value is converted by `IntoUntyped for f64`
    = `Val::try_num(value)` -/
def builtinRet (raw : Nat) : Except Err Nat := tryNum raw

/-! ### Comparison as coded -/

/-- `Ord for NumValue` : `partial_cmp` of two finite doubles = comparison of their values -/
def cmp (a b : D) : Ordering := compare a.val b.val

/-- numeric arm of `primitive_equals` (`a.get() == b.get()`), also reached from `equals` -/
def eqImpl (a b : D) : Bool :=
  if Generated.NUM_EQ_EXACT then a.val == b.val else false

def opLt (a b : D) : Bool := (cmp a b).isLT     -- `evaluate_compare_op(..)?.is_lt()`
def opGt (a b : D) : Bool := (cmp a b).isGT
def opLe (a b : D) : Bool := (cmp a b).isLE
def opGe (a b : D) : Bool := (cmp a b).isGE
def opEq (a b : D) : Bool := eqImpl a b         -- `Bool(equals(a, b)?)`
def opNe (a b : D) : Bool := !eqImpl a b

/-! ### Bitwise operators and shifts as coded (i64 arithmetic) -/

def MAXS : Int := (Generated.MAX_SAFE_INTEGER : Int)

/-- `NumValue::truncate_for_bitwise` : range guard against ±MAX_SAFE_INTEGER, then `as i64`
    (truncation toward zero) -/
def truncBitwise (a : D) : Except Err Int :=
  if a.val < -(MAXS * (U : Int)) ∨ a.val > MAXS * (U : Int) then .error .range
  else .ok (Int.tdiv a.val (U : Int))

/-- reinterpretation of an integer as `i64` (two's complement wrap) -/
def wrapI64 (x : Int) : Int := Int.bmod x (2 ^ 64)

/-- bit `i` of the two's-complement representation of `x` -/
def tbit (x : Int) (i : Nat) : Bool := (x >>> i) % 2 == 1

inductive BOp where
  | and | or | xor
  deriving Repr, DecidableEq

def BOp.onBool : BOp → Bool → Bool → Bool
  | .and => (· && ·) | .or => (· || ·) | .xor => (· != ·)

/-- `&`, `|`, `^` on `i64` : the operation on the 64-bit two's-complement patterns, read back
    as a signed integer -/
def i64Bit (op : BOp) (x y : Int) : Int :=
  match op with
  | .and => (BitVec.ofInt 64 x &&& BitVec.ofInt 64 y).toInt
  | .or => (BitVec.ofInt 64 x ||| BitVec.ofInt 64 y).toInt
  | .xor => (BitVec.ofInt 64 x ^^^ BitVec.ofInt 64 y).toInt

/-- `(Num, BitAnd|BitOr|BitXor, Num)` arms: both operands through `truncate_for_bitwise`
    (left first), result `as f64` -/
def bitOp (op : BOp) (a b : D) : Except Err Int := do
  let x ← truncBitwise a
  let y ← truncBitwise b
  pure (i64Bit op x y)

/-- `v2.get() < 0.0` -/
def isNegative (a : D) : Bool := a.val < 0

/-- `(Num, Lhs, Num)` arm -/
def shlOp (a b : D) : Except Err Int :=
  if isNegative b then .error .negshift
  else do
    let base ← truncBitwise a
    let e ← truncBitwise b
    let exp := (Int.tmod e (Generated.SHIFT_MOD : Int)).toNat
    if exp ≥ 1 ∧ (base ≥ 2 ^ (63 - exp) ∨ base < -(2 ^ (63 - exp))) then .error .overflow
    else pure (wrapI64 (base * 2 ^ exp))          -- `base.wrapping_shl(exp)`

/-- `(Num, Rhs, Num)` arm -/
def shrOp (a b : D) : Except Err Int :=
  if isNegative b then .error .negshift
  else do
    let base ← truncBitwise a
    let e ← truncBitwise b
    let exp := (Int.tmod e (Generated.SHIFT_MOD : Int)).toNat
    pure (base / (2 ^ exp : Int))                 -- `base.wrapping_shr(exp)` (arithmetic shift)

/-- `f64 as i64` : truncation, saturating at the `i64` bounds -/
def satI64 (a : D) : Int :=
  let t := Int.tdiv a.val (U : Int)
  if t < -(2 ^ 63) then -(2 ^ 63) else if t > 2 ^ 63 - 1 then 2 ^ 63 - 1 else t

/-- unary `~` : `!(n.get() as i64)` -/
def bitNot (a : D) : Int := -(satI64 a) - 1

/-! ### Reference meaning (independent of the code's structure) -/
namespace Spec

def lt (a b : D) : Bool := decide (a.val < b.val)
def eq (a b : D) : Bool := decide (a.val = b.val)

/-- integer value of an operand of a bitwise operator: defined for |v| ≤ 2^53−1 only -/
def intOf (a : D) : Except Err Int :=
  if a.val.natAbs > (2 ^ 53 - 1) * U then .error .range
  else .ok (Int.tdiv a.val (U : Int))

/-- two's-complement bitwise operation on integers, bit by bit (`n` low bits, then the sign) -/
def bitRec (f : Bool → Bool → Bool) : Nat → Int → Int → Int
  | 0, x, y => if f (decide (x < 0)) (decide (y < 0)) then -1 else 0
  | n + 1, x, y =>
      2 * bitRec f n (x / 2) (y / 2) + (if f (x % 2 == 1) (y % 2 == 1) then 1 else 0)

/-- `a & b`, `a | b`, `a ^ b` on the integer values of in-range operands -/
def bit (op : BOp) (a b : D) : Except Err Int := do
  let x ← intOf a
  let y ← intOf b
  pure (bitRec op.onBool 64 x y)

/-- does an integer fit `i64` -/
def fitsI64 (x : Int) : Bool := decide (-(2 ^ 63) ≤ x ∧ x < 2 ^ 63)

/-- `a << b` : negative count, then operand range, then overflow; count taken modulo 64 -/
def shl (a b : D) : Except Err Int :=
  if b.val < 0 then .error .negshift
  else do
    let x ← intOf a
    let n ← intOf b
    let r := x * 2 ^ (n.toNat % 64)
    if fitsI64 r then pure r else .error .overflow

/-- `a >> b` : arithmetic shift (floor division) -/
def shr (a b : D) : Except Err Int :=
  if b.val < 0 then .error .negshift
  else do
    let x ← intOf a
    let n ← intOf b
    pure (x >>> (n.toNat % 64))

/-! #### correctly rounded IEEE-754 arithmetic (round to nearest, ties to even) -/

/-- nearest integer to `n/d`, ties to even -/
def rne (n d : Nat) : Nat :=
  let q := n / d
  let r := n % d
  if 2 * r > d ∨ (2 * r = d ∧ q % 2 = 1) then q + 1 else q

/-- nearest double magnitude (in units, exponent unbounded above) to `n/d` units -/
def roundMag (n d : Nat) : Nat :=
  let q := n / d
  if q < 2 ^ 53 then rne n d
  else
    let k := Nat.log2 q - 52
    rne n (d * 2 ^ k) * 2 ^ k

/-- overflow threshold: 2^1024 in units -/
def HUGE : Nat := 2 ^ 2098

def finish (neg : Bool) (m : Nat) : Except Err D :=
  if m ≥ HUGE then .error .nonfinite else .ok ⟨neg, m⟩

def add (a b : D) : Except Err D :=
  let s := a.val + b.val
  if s = 0 then .ok ⟨a.neg && b.neg, 0⟩ else finish (decide (s < 0)) (roundMag s.natAbs 1)

def neg (a : D) : D := ⟨!a.neg, a.mag⟩

def sub (a b : D) : Except Err D := add a (neg b)

def mul (a b : D) : Except Err D := finish (a.neg != b.neg) (roundMag (a.mag * b.mag) U)

def div (a b : D) : Except Err D :=
  if b.mag = 0 then .error .div0 else finish (a.neg != b.neg) (roundMag (a.mag * U) b.mag)

/-- `%` : C `fmod`, exact, sign of the dividend -/
def mod (a b : D) : Except Err D :=
  if b.mag = 0 then .error .div0 else .ok ⟨a.neg, a.mag % b.mag⟩

/-- `std.modulo` has no zero test of its own: `x % 0` is NaN, refused by the finite check -/
def modulo (a b : D) : Except Err D :=
  if b.mag = 0 then .error .nonfinite else .ok ⟨a.neg, a.mag % b.mag⟩

def abs (a : D) : D := ⟨false, a.mag⟩

def sign (a : D) : D := if a.mag = 0 then ⟨false, 0⟩ else ⟨a.neg, U⟩

def ofInt (keepNeg : Bool) (i : Int) : D := ⟨if i = 0 then keepNeg else decide (i < 0), i.natAbs * U⟩

def floor (a : D) : D := ofInt a.neg (a.val / (U : Int))
def ceil (a : D) : D := ofInt a.neg (-((-a.val) / (U : Int)))
/-- round half away from zero -/
def round (a : D) : D := ⟨a.neg, ((2 * a.mag + U) / (2 * U)) * U⟩

def max (a b : D) : D := if a.val < b.val then b else a
def min (a b : D) : D := if b.val < a.val then b else a
def clamp (x lo hi : D) : D := if x.val < lo.val then lo else if x.val > hi.val then hi else x

/-- C `frexp` : `x = m · 2^e`, `0.5 ≤ |m| < 1` -/
def frexp (a : D) : D × Int :=
  if a.mag = 0 then (a, 0)
  else
    let l := Nat.log2 a.mag            -- 2^l ≤ mag < 2^(l+1)
    -- mag units = mag · 2^-1074 = (mag / 2^(l+1)) · 2^(l+1-1074)
    (⟨a.neg, if l + 1 ≤ 1074 then a.mag * 2 ^ (1074 - (l + 1)) else a.mag / 2 ^ (l + 1 - 1074)⟩,
     (l : Int) + 1 - 1074)

def isInteger (a : D) : Bool := a.mag % U == 0

/-- stable insertion sort by value -/
def insert (x : D) : List D → List D
  | [] => [x]
  | y :: ys => if x.val < y.val then x :: y :: ys else y :: insert x ys

def sort (xs : List D) : List D := xs.foldr insert []

def mem (x : D) (xs : List D) : Bool := xs.any (fun y => decide (y.val = x.val))

/-- the set of values of `xs` in ascending order: no duplicates by value -/
def set (xs : List D) : List D :=
  (sort xs).foldr (fun x acc => match acc with
    | y :: _ => if x.val = y.val then acc else x :: acc
    | [] => [x]) []

end Spec

/-! ### sort / uniq / set / setMember as coded (parameterised by the comparisons they call) -/

def insertBy (x : D) : List D → List D
  | [] => [x]
  | y :: ys => if (cmp x y).isLT then x :: y :: ys else y :: insertBy x ys

/-- `sort_identity` on numbers: a comparison sort by `Ord for NumValue` -/
def sortImpl (xs : List D) : List D := xs.foldr insertBy []

/-- `uniq_identity` : `last` is the previous element; `next` is kept iff `!equals(last, next)` -/
def uniqGo (last : D) : List D → List D
  | [] => []
  | n :: rest => if eqImpl last n then uniqGo n rest else n :: uniqGo n rest

def uniqImpl : List D → List D
  | [] => []
  | x :: rest => x :: uniqGo x rest

/-- `builtin_set` = `uniq_identity (sort_identity arr)` -/
def setImpl (xs : List D) : List D := uniqImpl (sortImpl xs)

/-- `builtin_set_member` : binary search driven by `evaluate_compare_op` -/
def memberGo (x : D) (arr : Array D) (low high : Nat) (fuel : Nat) : Bool :=
  match fuel with
  | 0 => false
  | fuel + 1 =>
    if low < high then
      let middle := (low + high) / 2
      match arr[middle]? with
      | none => false
      | some c =>
        match cmp c x with
        | .lt => memberGo x arr (middle + 1) high fuel
        | .eq => true
        | .gt => memberGo x arr low middle fuel
    else false

def setMemberImpl (x : D) (arr : List D) : Bool :=
  memberGo x arr.toArray 0 arr.length (arr.length + 1)

end JrsVerif.Num
