/-
  C10 (round 3) — code-shaped models of the *loops* of `crates/jrsonnet-stdlib/src/{arrays,math,sort}.rs`
  that round 1 compared with their reference definitions only:

    member/contains/find/count, foldl/foldr, map/mapWithIndex/filter/filterMap/flatMap, any/all,
    sum/avg/minArray/maxArray (keyF, onEmpty), range/repeat/slice(string path)/makeArray, deepJoin,
    flattenDeepArray, lines.

  An array argument is a list of *lazily evaluated* elements: `none` = evaluating the element raises
  (`arr.iter()` yields `Result<Val>`, `item?` propagates; `arr.iter_lazy()` yields the thunks
  themselves).  Callbacks may fail (`none`).  `Loop` definitions mirror the Rust loop statement by
  statement (accumulator, `enumerate` counter, early `return`); `Spec` definitions are the
  documented meaning.

  Round 4: the loops that hand an element to a jsonnet callback (`foldl`/`foldr`, `flatMap`,
  `minArray`/`maxArray`, `filter`) pass the THUNK, as the documented definitions pass `arr[i]`: such
  a callback has type `Option α → …` (`none` = the thunk fails when forced) and decides itself
  whether the element is evaluated.  A callback that uses its argument is `fun e => e.bind g`.

  Imports only Model/StdArr (core Lean) so that the driver links.
-/
import JrsVerif.Model.StdArr

namespace JrsVerif.StdArr

section GenericHof
variable {α β κ : Type}

/-- every element evaluates (`collect::<Result<Vec<_>>>()`) -/
def evalAll : List (Option α) → Option (List α)
  | [] => some []
  | none :: _ => none
  | some x :: r => (evalAll r).map (x :: ·)

/-! ### foldl / foldr — `builtin_foldl`, `builtin_foldr`

The callback receives two thunks: the running value and the element.  The running value is `init`
(unevaluated) in the first call and an evaluated result afterwards
(`acc = Thunk::evaluated(func.call(acc, i)?)`); the final `acc.evaluate()` forces `init` only when
the collection is empty. -/

/-- `for i in arr.iter_lazy() { acc = Thunk::evaluated(func.call(acc, i)?); } acc.evaluate()` -/
def foldlLoop (f : Option β → Option α → Option β) : Option β → List (Option α) → Option β
  | acc, [] => acc
  | acc, e :: r =>
    match f acc e with
    | none => none
    | some a => foldlLoop f (some a) r

/-- the body of `for i in arr.iter_lazy().rev() { acc = Thunk::evaluated(func.call(i, acc)?); }` over
    the already reversed sequence -/
def foldrGo (f : Option α → Option β → Option β) : Option β → List (Option α) → Option β
  | acc, [] => acc
  | acc, e :: r =>
    match f e acc with
    | none => none
    | some a => foldrGo f (some a) r

def foldrLoop (f : Option α → Option β → Option β) (init : Option β) (xs : List (Option α)) : Option β :=
  foldrGo f init xs.reverse

/-- one step of the documented recursion `aux(func, arr, func(running, arr[idx]), idx + 1) tailstrict`
    on the state "the call so far failed (`none`) / the thunk handed on as `running`": the call is
    evaluated (tailstrict), its arguments are not -/
def foldStep (f : Option β → Option α → Option β) (st : Option (Option β)) (e : Option α) :
    Option (Option β) :=
  st.bind (fun running => (f running e).map some)

/-- reference: `f(...f(f(init, x0), x1)..., xn)`, every call evaluated before the next, `init` and
    the elements handed over unevaluated; the result of the last call, or `init` itself -/
def foldlSpec (f : Option β → Option α → Option β) (init : Option β) (xs : List (Option α)) : Option β :=
  (xs.foldl (foldStep f) (some init)).bind id

/-- reference: `f(x0, f(x1, ... f(xn, init)))` in the same sense -/
def foldrSpec (f : Option α → Option β → Option β) (init : Option β) (xs : List (Option α)) : Option β :=
  (xs.foldr (fun e st => foldStep (fun acc x => f x acc) st e) (some init)).bind id

/-- a callback that uses both arguments (the shape `function(acc, x) … acc … x …`) -/
def strict2 (g : β → α → Option β) (acc : Option β) (e : Option α) : Option β :=
  acc.bind (fun a => e.bind (g a))

/-- the same for the argument order of `foldr` (`function(x, acc) …`) -/
def strict2r (g : α → β → Option β) (e : Option α) (acc : Option β) : Option β :=
  acc.bind (fun a => e.bind (fun x => g x a))

/-- round-3 reference for such callbacks, on evaluated elements: `f(...f(f(init, x0), x1)..., xn)` -/
def foldlStrict (f : β → α → Option β) : β → List α → Option β
  | acc, [] => some acc
  | acc, x :: r => (f acc x).bind (fun a => foldlStrict f a r)

/-- round-3 reference: `f(x0, f(x1, ... f(xn, init)))` -/
def foldrStrict (f : α → β → Option β) (init : β) : List α → Option β
  | [] => some init
  | x :: r => (foldrStrict f init r).bind (f x)

/-! ### any / all / member — loops with an early `return` -/

/-- `for v in arr.iter() { let v = bool::from_untyped(v?)?; if v { return Ok(true) } } Ok(false)`;
    `t` is the per-element test (`bool::from_untyped`, or `equals(&item, &x)` for `builtin_member`) -/
def anyLoop (t : α → Option Bool) : List (Option α) → Option Bool
  | [] => some false
  | none :: _ => none
  | some v :: r =>
    match t v with
    | none => none
    | some true => some true
    | some false => anyLoop t r

def allLoop (t : α → Option Bool) : List (Option α) → Option Bool
  | [] => some true
  | none :: _ => none
  | some v :: r =>
    match t v with
    | none => none
    | some false => some false
    | some true => allLoop t r

/-- what one element contributes: its evaluation, then the test -/
def verdict (t : α → Option Bool) (e : Option α) : Option Bool := e.bind t

/-- reference for `std.any`: look for the first element that is not `false`; none → `false`;
    it is `true` → `true`; anything else (failing element, non-boolean) → error.  Elements after it
    do not matter. -/
def anySpec (t : α → Option Bool) (xs : List (Option α)) : Option Bool :=
  match xs.find? (fun e => verdict t e != some false) with
  | none => some false
  | some e => if verdict t e = some true then some true else none

def allSpec (t : α → Option Bool) (xs : List (Option α)) : Option Bool :=
  match xs.find? (fun e => verdict t e != some true) with
  | none => some true
  | some e => if verdict t e = some false then some false else none

/-- `builtin_member`, array branch: `for item in a.iter() { if equals(&item?, &x)? { return Ok(true) } } Ok(false)` -/
def memberLoop (eq : α → α → Option Bool) (x : α) : List (Option α) → Option Bool
  | [] => some false
  | none :: _ => none
  | some item :: r =>
    match eq item x with
    | none => none
    | some true => some true
    | some false => memberLoop eq x r

/-! ### find / count — full passes with `enumerate` counter and accumulator -/

/-- `for (i, ele) in arr.iter().enumerate() { if equals(&ele?, &value)? { out.push(i) } }` -/
def findLoop (t : α → Option Bool) : Nat → List Nat → List (Option α) → Option (List Nat)
  | _, out, [] => some out
  | _, _, none :: _ => none
  | i, out, some y :: r =>
    match t y with
    | none => none
    | some b => findLoop t (i + 1) (if b then out ++ [i] else out) r

/-- `for item in arr.iter() { if equals(&item?, &x)? { count += 1 } }` -/
def countLoop (t : α → Option Bool) : Nat → List (Option α) → Option Nat
  | n, [] => some n
  | _, none :: _ => none
  | n, some y :: r =>
    match t y with
    | none => none
    | some b => countLoop t (if b then n + 1 else n) r

/-- all elements evaluate and all tests evaluate: the list of test results -/
def verdicts (t : α → Option Bool) (xs : List (Option α)) : Option (List Bool) :=
  (evalAll xs).bind (fun vs => evalAll (vs.map t))

/-- indices (counted from `i`) of the `true` entries -/
def idxTrue (bs : List Bool) (i : Nat) : List Nat :=
  (bs.zipIdx i).filterMap (fun p => if p.1 then some p.2 else none)

def findSpec (t : α → Option Bool) (xs : List (Option α)) : Option (List Nat) :=
  (verdicts t xs).map (fun bs => idxTrue bs 0)

def countSpec (t : α → Option Bool) (xs : List (Option α)) : Option Nat :=
  (verdicts t xs).map (fun bs => bs.count true)

/-! ### filter — `ArrValue::filter`: a value pass for arrays whose elements are values already
(`iter_cheap()`), otherwise one pass over the thunks

The predicate receives the element *thunk* (`Option α`): it may or may not force it. -/

/-- `if let Some(cheap) = self.iter_cheap() { for i in cheap { if filter.call(lazy(i))? { out.push(i) } } }` -/
def filterCheap (p : Option α → Option Bool) : List α → List α → Option (List α)
  | out, [] => some out
  | out, x :: r =>
    match p (some x) with
    | none => none
    | some b => filterCheap p (if b then out ++ [x] else out) r

/-- the loop over `iter_lazy()` -/
def filterLazy (p : Option α → Option Bool) : List (Option α) → List (Option α) → Option (List (Option α))
  | out, [] => some out
  | out, e :: r =>
    match p e with
    | none => none
    | some b => filterLazy p (if b then out ++ [e] else out) r

/-- `cheap` = `is_cheap()` of the array representation (eager, range, chars, bytes and views of
    those): then every element is a value and nothing is evaluated by reading it -/
def filterM (p : Option α → Option Bool) (cheap : Bool) (xs : List (Option α)) : Option (List (Option α)) :=
  match (if cheap then evalAll xs else none) with
  | some vs => (filterCheap p [] vs).map (fun out => out.map some)   -- `Self::eager(out)`
  | none => filterLazy p [] xs                                        -- `Self::lazy(out)`

/-- reference: keep the elements on which the predicate says `true`; the predicate must say
    `true`/`false` on every element -/
def filterSpec (p : Option α → Option Bool) : List (Option α) → Option (List (Option α))
  | [] => some []
  | e :: r =>
    match p e, filterSpec p r with
    | some true, some ys => some (e :: ys)
    | some false, some ys => some ys
    | _, _ => none

/-- `builtin_filter_map`: `arr.filter(filter_func)?.map(map_func)` — the map is a lazy view -/
def filterMapM (p : Option α → Option Bool) (g : Option α → Option β) (cheap : Bool)
    (xs : List (Option α)) : Option (List (Option β)) :=
  (filterM p cheap xs).map (fun ys => ys.map g)

/-- `MappedArray` with `ArrayMapper::WithIndex`: element `index` is `f.call(index as u32, thunk)` -/
def mapIdxLoop (f : Nat → Option α → Option β) : Nat → List (Option α) → List (Option β)
  | _, [] => []
  | i, e :: r => f (i % 2 ^ 32) e :: mapIdxLoop f (i + 1) r

/-! ### flatMap — `builtin_flatmap` (both branches have this shape)

The callback receives the element thunk.  `f e = none`: the call failed or returned something that
is neither null nor a sequence; `some none`: null (skipped); `some (some ys)`: the pieces to append
(for the array branch the pieces are the thunks of the returned array: `out.extend(o.iter_lazy())`,
so `β` is itself a type of lazily evaluated elements there). -/

def flatMapLoop (f : Option α → Option (Option (List β))) : List β → List (Option α) → Option (List β)
  | out, [] => some out
  | out, e :: r =>
    match f e with
    | none => none
    | some none => flatMapLoop f out r
    | some (some ys) => flatMapLoop f (out ++ ys) r

/-- reference `flattenArrays(makeArray(length(arr), function(i) func(arr[i])))`: every call
    succeeds with null or a sequence, result = concatenation of the non-null pieces -/
def flatMapSpec (f : Option α → Option (Option (List β))) (xs : List (Option α)) : Option (List β) :=
  (evalAll (xs.map f)).map (fun rs => (rs.filterMap id).flatten)

/-- round-3 reference for callbacks that use their argument, on evaluated elements -/
def flatMapStrict (f : α → Option (Option (List β))) (xs : List (Option α)) : Option (List β) :=
  (evalAll xs).bind (fun vs => (evalAll (vs.map f)).map (fun rs => (rs.filterMap id).flatten))

/-! ### minArray / maxArray — `array_top1` behind the `is_empty` / `onEmpty` guard -/

/-- `eval_on_empty`: absent → "expected non-empty array"; present → force the thunk -/
def evalOnEmpty (onEmpty : Option (Option α)) : Option α :=
  match onEmpty with
  | some t => t
  | none => none

/-- `for cur in iter { let cur_key = keyf.eval(cur.clone())?; if compare(cur_key, min_key)? == ordering
    { min = cur; min_key = cur_key } }  min.evaluate()` — the scan walks the thunks, `key` is the key
    function applied to a thunk -/
def top1Loop (key : Option α → Option κ) (cmp : κ → κ → Option Ordering) (want : Ordering) :
    Option α → κ → List (Option α) → Option α
  | m, _, [] => m
  | m, mk, c :: r =>
    match key c with
    | none => none
    | some ck =>
      match cmp ck mk with
      | none => none
      | some o => if o == want then top1Loop key cmp want c ck r else top1Loop key cmp want m mk r

def top1M (key : Option α → Option κ) (cmp : κ → κ → Option Ordering) (want : Ordering)
    (xs : List (Option α)) (onEmpty : Option (Option α)) : Option α :=
  match xs with
  | [] => evalOnEmpty onEmpty
  | m :: r =>
    match key m with
    | none => none
    | some mk => top1Loop key cmp want m mk r

/-- reference: scan keeping the best so far, replacing it only by a strictly better one (the
    documented `foldl(function(a, b) if __compare(keyF(a), keyF(b)) > 0 then b else a, arr, arr[0])`;
    polymorphic: the elements may be values or thunks) -/
def top1Spec (k : α → κ) (ord : κ → κ → Ordering) (want : Ordering) (m : α) (r : List α) : α :=
  r.foldl (fun best c => if ord (k c) (k best) == want then c else best) m

/-! ### sum / avg -/

/-- `arr.iter().fold(0.0, |acc, v| acc + v)` -/
def sumLoop : Int → List Int → Int
  | acc, [] => acc
  | acc, v :: r => sumLoop (acc + v) r

/-- `builtin_avg`: result as the exact pair (sum, count) — the division is one IEEE operation done
    by the driver -/
inductive Avg (α : Type) where
  | onEmpty (v : α)
  | quot (s : Int) (n : Nat)

def avgM (ns : List Int) (onEmpty : Option (Option α)) : Option (Avg α) :=
  if ns.isEmpty then (evalOnEmpty onEmpty).map Avg.onEmpty
  else some (.quot (sumLoop 0 ns) ns.length)

/-! ### range / repeat / makeArray / slice of a string -/

def inI32 (v : Int) : Bool := decide (-2147483648 ≤ v) && decide (v ≤ 2147483647)

/-- `v as usize` for an `i32` on a 64-bit target (sign extension) -/
def asUsize (v : Int) : Nat := (v % 18446744073709551616).toNat

/-- `RangeArray::range().len()` : `(end as usize).wrapping_sub(start as usize).wrapping_add(1)` -/
def rangeLen (a b : Int) : Nat :=
  ((asUsize b + 18446744073709551616 - asUsize a) % 18446744073709551616 + 1) % 18446744073709551616

/-- `(start..=end).nth(index)` -/
def rangeGet (a b : Int) (i : Nat) : Option Int :=
  if a + (i : Int) ≤ b then some (a + (i : Int)) else none

/-- `builtin_range(from: i32, to: i32)`; contents through `iter()` (`expect("length checked")`:
    `none` would be a panic) -/
def rangeM (a b : Int) : Option (List Int) :=
  if !(inI32 a && inI32 b) then none
  else if b < a then some []
  else evalAll ((List.range (rangeLen a b)).map (rangeGet a b))

def rangeSpec (a b : Int) : List Int :=
  (List.range (b - a + 1).toNat).map (fun (i : Nat) => a + (i : Int))

/-- `builtin_repeat`, array branch: `count: usize`, `RepeatedArray::new` (`checked_mul`), element
    `index` is `data.get(index % data.len())` -/
def repeatArrM (xs : List α) (n : Int) : Option (List α) :=
  if n < 0 ∨ n ≥ 18446744073709551616 then none
  else
    let total := xs.length * n.toNat
    if total ≥ 18446744073709551616 then none
    else evalAll ((List.range total).map (fun i => xs[i % xs.length]?))

/-- `builtin_repeat`, string branch: the guard is on the *byte* length; `str::repeat` itself is
    Rust's -/
def repeatStrM (cs : List α) (byteLen : Nat) (n : Int) : Option (List α) :=
  if n < 0 ∨ n ≥ 18446744073709551616 then none
  else if byteLen * n.toNat > 9223372036854775807 then none
  else some (Spec.repeatL cs n.toNat)

/-- `builtin_make_array(sz: BoundedI32<0, i32::MAX>, func)`; `trivial` = `func.evaluate_trivial()` -/
def makeArrayM (sz : Int) (f : Int → Option β) (trivial : Option β) : Option (List (Option β)) :=
  if sz < 0 ∨ sz > 2147483647 then none
  else if sz = 0 then some []
  else
    match trivial with
    | some t => some (List.replicate sz.toNat (some t))
    | none => (rangeM 0 (sz - 1)).map (fun is => is.map f)        -- `range_exclusive(0, sz).map(func)`

def makeArraySpec (sz : Nat) (f : Int → Option β) : List (Option β) :=
  (List.range sz).map (fun (i : Nat) => f (i : Int))

/-- `IndexableVal::slice`, string branch: `s.chars().skip(index).take(end - index).step_by(step)`;
    negative positions count from the end (`saturating_sub`), positive ones are not clamped, a
    missing end is `usize::MAX` -/
def strIdx (p : Option Int) (len : Nat) (d : Nat) : Nat :=
  match p with
  | none => d
  | some v => if v < 0 then len - v.natAbs else v.toNat

def sliceStrM (cs : List α) (i e : Option Int) (step : Nat) : List α :=
  let index := strIdx i cs.length 0
  let end_ := strIdx e cs.length 18446744073709551615
  if index ≥ end_ then []
  else everyNth step 0 ((cs.drop index).take (end_ - index))

/-! ### lines — `builtin_lines` = `join("\n", extended(arr, [""]))` -/

def linesM (nl : α) (items : List (Option (List α))) : List α :=
  joinM [nl] (extended items [some []])

/-- reference: every (non-null) line followed by a newline -/
def linesSpec (nl : α) (items : List (Option (List α))) : List α :=
  ((items.filterMap id).map (· ++ [nl])).flatten

end GenericHof

/-! ## jsonnet values -/

/- `deep_join_inner(out, v)` : strings are appended, arrays walked, anything else is an error
    (`IndexableVal::from_untyped`) -/
mutual
def deepJoinGo : List Char → V → Option (List Char)
  | out, .str s => some (out ++ s.toList)
  | out, .arr xs => deepJoinGoL out xs
  | _, _ => none
def deepJoinGoL : List Char → List V → Option (List Char)
  | out, [] => some out
  | out, x :: r =>
    match deepJoinGo out x with
    | none => none
    | some o => deepJoinGoL o r
end

/- reference: the concatenation of all strings in the nested array, left to right -/
mutual
def deepJoinSpec : V → Option (List Char)
  | .str s => some s.toList
  | .arr xs => deepJoinSpecL xs
  | _ => none
def deepJoinSpecL : List V → Option (List Char)
  | [] => some []
  | x :: r =>
    match deepJoinSpec x, deepJoinSpecL r with
    | some a, some b => some (a ++ b)
    | _, _ => none
end

/- `builtin_flatten_deep_array` : `process(value, &mut out)` -/
mutual
def flattenDeepGo : List V → V → List V
  | out, .arr xs => flattenDeepGoL out xs
  | out, .null => out ++ [.null]
  | out, .bool b => out ++ [.bool b]
  | out, .num n => out ++ [.num n]
  | out, .str s => out ++ [.str s]
  | out, .objE => out ++ [.objE]
  | out, .objA v => out ++ [.objA v]
def flattenDeepGoL : List V → List V → List V
  | out, [] => out
  | out, x :: r => flattenDeepGoL (flattenDeepGo out x) r
end

/-- an indexable argument as a builtin sees it -/
inductive Idx where
  | arr (xs : List (Option V))
  | str (s : String)
  | other

def Idx.ofV : V → Idx
  | .arr xs => .arr (xs.map some)
  | .str s => .str s
  | _ => .other

def asBoolV : V → Option Bool
  | .bool b => some b
  | _ => none

/-- `Val::Arr(o)` → pieces, `Val::Null` → skipped, anything else → "all items should be arrays" -/
def arrPieces (f : V → Option V) (x : V) : Option (Option (List V)) :=
  match f x with
  | some (.arr ys) => some (some ys)
  | some .null => some none
  | _ => none

/-- the same classification for a callback on thunks whose result is a fully evaluated value: the
    pieces are the (evaluated) elements of the returned array -/
def arrPiecesL (f : Option V → Option V) (e : Option V) : Option (Option (List (Option V))) :=
  match f e with
  | some (.arr ys) => some (some (ys.map some))
  | some .null => some none
  | _ => none

def strPieces (f : V → Option V) (x : V) : Option (Option (List Char)) :=
  match f x with
  | some (.str s) => some (some s.toList)
  | some .null => some none
  | _ => none

def charsL (s : String) : List (Option V) := (chars s).map some

namespace Model

/-- `Either![ArrValue, IStr]` dispatch of `builtin_foldl`; `init : Thunk<Val>` -/
def foldl (f : Option V → Option V → Option V) (c : Idx) (init : Option V) : Option V :=
  match c with
  | .arr xs => foldlLoop f init xs
  | .str s => foldlLoop f init (charsL s)
  | .other => none

def foldr (f : Option V → Option V → Option V) (c : Idx) (init : Option V) : Option V :=
  match c with
  | .arr xs => foldrLoop f init xs
  | .str s => foldrLoop f init (charsL s)
  | .other => none

def any (c : Idx) : Option Bool := match c with | .arr xs => anyLoop asBoolV xs | _ => none
def all (c : Idx) : Option Bool := match c with | .arr xs => allLoop asBoolV xs | _ => none

/-- `builtin_member` / `builtin_contains` -/
def member (c : Idx) (x : V) : Option Bool :=
  match c with
  | .arr xs => memberLoop (fun a b => some (eqV a b)) x xs
  | .str s =>
    match x with
    | .str p => some (!p.isEmpty && Spec.isInfix p.toList s.toList)     -- `str::contains`
    | _ => none
  | .other => none

def find (x : V) (c : Idx) : Option (List Nat) :=
  match c with | .arr xs => findLoop (fun y => some (eqV y x)) 0 [] xs | _ => none

def count (c : Idx) (x : V) : Option Nat :=
  match c with | .arr xs => countLoop (fun y => some (eqV y x)) 0 xs | _ => none

/-- `builtin_map`: `arr.to_array().map(func)` — a lazy view; element `i` is `func(thunk i)` -/
def map (f : Option V → Option V) (c : Idx) : Option (List (Option V)) :=
  match c with
  | .arr xs => some (xs.map f)
  | .str s => some ((charsL s).map f)
  | .other => none

def mapWithIndex (f : V → Option V → Option V) (c : Idx) : Option (List (Option V)) :=
  let g := fun (i : Nat) e => f (.num i) e
  match c with
  | .arr xs => some (mapIdxLoop g 0 xs)
  | .str s => some (mapIdxLoop g 0 (charsL s))
  | .other => none

/-- predicate as `NativeFn!((Thunk<Val>) -> bool)`: the result must be a boolean -/
def boolPred (f : Option V → Option V) (e : Option V) : Option Bool := (f e).bind asBoolV

def filter (f : Option V → Option V) (cheap : Bool) (c : Idx) : Option (List (Option V)) :=
  match c with | .arr xs => filterM (boolPred f) cheap xs | _ => none

def filterMap (f g : Option V → Option V) (cheap : Bool) (c : Idx) : Option (List (Option V)) :=
  match c with | .arr xs => filterMapM (boolPred f) g cheap xs | _ => none

/-- result of `builtin_flatmap`: a lazy array or a string -/
inductive FlatRes where
  | arr (xs : List (Option V))
  | str (s : String)

/-- `pieces` is the callback followed by the `Val::Arr(o) => o.iter_lazy()` / `Val::Null` / other
    classification (array branch); the string branch calls the function on evaluated characters -/
def flatMap (pieces : Option V → Option (Option (List (Option V)))) (f : V → Option V) (c : Idx) :
    Option FlatRes :=
  match c with
  | .arr xs => (flatMapLoop pieces [] xs).map FlatRes.arr
  | .str s => (flatMapLoop (fun e => e.bind (strPieces f)) [] (charsL s)).map
      (fun cs => FlatRes.str (String.ofList cs))
  | .other => none

def deepJoin (v : V) : Option String :=
  match v with
  | .str _ | .arr _ => (deepJoinGo [] v).map String.ofList
  | _ => none

def flattenDeep (v : V) : List V := flattenDeepGo [] v

def numV : V → Option Int | .num n => some n | _ => none

/-- `Vec<f64>` argument: every element must evaluate to a number -/
def numsL (xs : List (Option V)) : Option (List Int) :=
  (evalAll xs).bind (fun vs => evalAll (vs.map numV))

def sum (c : Idx) : Option Int :=
  match c with | .arr xs => (numsL xs).map (sumLoop 0) | _ => none

def avg (c : Idx) (onEmpty : Option (Option V)) : Option (Avg V) :=
  match c with | .arr xs => (numsL xs).bind (fun ns => avgM ns onEmpty) | _ => none

/-- `key` = the key function applied to a thunk -/
def minMax (c : Idx) (key : Option V → Option V) (want : Ordering) (onEmpty : Option (Option V)) : Option V :=
  match c with | .arr xs => top1M key cmpV want xs onEmpty | _ => none

def range (a b : V) : Option (List V) :=
  match a, b with
  | .num x, .num y => (rangeM x y).map (fun is => is.map V.num)
  | _, _ => none

def repeat_ (w c : V) : Option V :=
  match w, c with
  | .arr xs, .num n => (repeatArrM xs n).map V.arr
  | .str s, .num n => (repeatStrM s.toList s.utf8ByteSize n).map (fun cs => V.str (String.ofList cs))
  | _, _ => none

def makeArray (n : V) (f : V → Option V) (trivial : Option V) : Option (List (Option V)) :=
  match n with
  | .num k => makeArrayM k (fun i => f (.num i)) trivial
  | _ => none

end Model

end JrsVerif.StdArr
