/- C15 — command line / C API plumbing, result rendering, double-NUL framing, dependency lister.

   Model side mirrors the code that exists:
   * `extVars` / `tlaVars`  — crates/jrsonnet-cli/src/stdlib.rs `context_initializer`,
                              crates/jrsonnet-cli/src/tla.rs `tla_opts` (four loops, fixed order,
                              each inserting into a hash map)
   * `cliPaths`             — crates/jrsonnet-cli/src/lib.rs `MiscOpts::import_resolver`
   * `capiPaths`            — bindings/jsonnet/src/import.rs `jsonnet_jpath_add`
                              + crates/jrsonnet-evaluator/src/import.rs `add_jpath`
   * `manifestFormat`       — crates/jrsonnet-cli/src/manifest.rs `manifest_format`
   * `render`               — cmds/jrsonnet/src/main.rs `main_real` output part + `main_catch`/`main`
   * `multiToRaw`/`streamToRaw` — bindings/jsonnet/src/lib.rs
   * `Deps.loop`/`collect`  — cmds/jrsonnet-deps/src/main.rs `collect_deps`
   Spec side: `specLookup`, `decodeMulti`/`decodeStream` (what a C consumer reads),
   `Deps.Reach`/`IsDep`/`Bad` and the executable `Deps.specCollect` (closure by rounds).
   Core Lean only. -/

namespace JrsVerif.Cli

/-! ## external variables / top level arguments -/

/-- the four flavours of `--ext-*` / `--tla-*`, in the order the code processes them -/
inductive Flavour | str | strFile | code | codeFile
  deriving DecidableEq, Repr, Inhabited

/-- `TlaArg` variants an option can produce -/
inductive ArgKind | string | importStr | inlineCode | «import»
  deriving DecidableEq, Repr, Inhabited

/-- one occurrence of an option on the command line: `ExtStr{name,value}` / `ExtFile{name,path}` -/
structure VarOpt where
  fl : Flavour
  name : String
  payload : String
  deriving DecidableEq, Repr, Inhabited

abbrev Setting := ArgKind × String
abbrev VarMap := List (String × Setting)

/-- hash-map insert (replace) as an association list: newest binding first -/
def insert (m : VarMap) (k : String) (v : Setting) : VarMap := (k, v) :: m

def lookup (m : VarMap) (k : String) : Option Setting :=
  match m with
  | [] => none
  | (k', v) :: r => if k' = k then some v else lookup r k

/-- one `for ext in &self.<field> { map.insert(ext.name, <Variant>(ext.<payload>)) }` loop -/
def insertAll (kind : ArgKind) (fl : Flavour) (opts : List VarOpt) (m : VarMap) : VarMap :=
  (opts.filter (fun o => o.fl = fl)).foldl (fun m o => insert m o.name (kind, o.payload)) m

/-- `StdOpts::context_initializer` (ext vars) and `TlaOpts::tla_opts` have the same shape:
    str → `String(value)`, str-file → `ImportStr(path)`, code → `InlineCode(value)`,
    code-file → `Import(path)`; in that order whatever the order on the command line. -/
def plumbVars (opts : List VarOpt) : VarMap :=
  insertAll .import .codeFile opts
    (insertAll .inlineCode .code opts
      (insertAll .importStr .strFile opts
        (insertAll .string .str opts [])))

def kindOf : Flavour → ArgKind
  | .str => .string | .strFile => .importStr | .code => .inlineCode | .codeFile => .import

/-- reference meaning: the option that names `n` with the strongest flavour
    (code-file > code > str-file > str), the last one given among those -/
def lastOf (fl : Flavour) (opts : List VarOpt) (n : String) : Option Setting :=
  ((opts.filter (fun o => o.fl = fl)).reverse.find? (fun o => o.name = n)).map
    (fun o => (kindOf fl, o.payload))

def specLookup (opts : List VarOpt) (n : String) : Option Setting :=
  (lastOf .codeFile opts n).or ((lastOf .code opts n).or ((lastOf .strFile opts n).or (lastOf .str opts n)))

/-! ## library paths -/

/-- `MiscOpts::import_resolver`: `-J` reversed, then `JSONNET_PATH` entries in order -/
def cliPaths (jpath : List String) (env : List String) : List String := jpath.reverse ++ env

/-- `jsonnet_jpath_add` called once per element: every call puts the path in front -/
def capiPaths (adds : List String) : List String := adds.foldl (fun ps p => p :: ps) []

/-! ## manifest format selection -/

inductive FmtName | string | json | yaml | toml | xmlJsonml | ini
  deriving DecidableEq, Repr, Inhabited

structure ManifestOpts where
  format : Option FmtName
  string : Bool
  yamlStream : Bool
  linePadding : Option Nat
  deriving DecidableEq, Repr, Inhabited

inductive Fmt
  | stringFmt | toStringFmt | json (pad : Nat) | yaml (pad : Nat) | toml (pad : Nat) | xml | ini
  | yamlStream (inner : Fmt)
  deriving DecidableEq, Repr, Inhabited

/-- clap `conflicts_with`: `-S` with `-f`, `-y` with `-S` -/
def ManifestOpts.accepted (o : ManifestOpts) : Bool :=
  !(o.string && o.format.isSome) && !(o.yamlStream && o.string)

def baseFormat (o : ManifestOpts) : Fmt :=
  if o.string then .stringFmt
  else
    let name := match o.format with
      | some v => v
      | none => if o.yamlStream then FmtName.yaml else FmtName.json
    match name with
    | .string => .toStringFmt
    | .json => .json (o.linePadding.getD 3)
    | .yaml => .yaml (o.linePadding.getD 2)
    | .toml => .toml (o.linePadding.getD 2)
    | .xmlJsonml => .xml
    | .ini => .ini

def manifestFormat (o : ManifestOpts) : Fmt :=
  if o.yamlStream then .yamlStream (baseFormat o) else baseFormat o

/-- `ManifestFormat::file_trailing_newline` -/
def Fmt.trailingNewline : Fmt → Bool
  | .stringFmt => false
  | .toStringFmt => false
  | .yamlStream _ => true
  | _ => true

/-! ## rendering the outcome (`main_real` after evaluation, `main_catch`, `main`) -/

/-- what the library computed for one `--multi` field -/
inductive FieldRes
  | evalErr                 -- forcing the field failed (before anything is printed for it)
  | manErr                  -- manifestation failed (path already printed, file already created)
  | ok (text : String)
  deriving DecidableEq, Repr, Inhabited

/-- what the library API computed for the configuration -/
inductive Outcome
  | err                                         -- evaluation / TLA error (nothing written yet)
  | manErr                                      -- the value was computed, its manifestation failed
  | text (t : String)                           -- manifestation of the value
  | fields (fs : List (String × FieldRes))      -- `--multi`: object fields in iteration order
  deriving Repr, Inhabited

inductive Mode
  | stdout
  | file (path : String)
  | multi (dir : String)
  deriving DecidableEq, Repr, Inhabited

structure Rendered where
  stdout : String
  stderr : Bool            -- something is written to stderr
  exit : Nat
  files : List (String × String)
  deriving DecidableEq, Repr, Inhabited

def joinPath (dir field : String) : String :=
  if dir.endsWith "/" then dir ++ field else dir ++ "/" ++ field

/-- the `for (field, data) in obj.iter()` loop of the `--multi` branch -/
def renderFields (dir : String) (nl : Bool) : List (String × FieldRes) → Rendered → Rendered
  | [], r => r
  | (_, .evalErr) :: _, r => { r with stderr := true, exit := 1 }
  | (f, .manErr) :: _, r =>
      { stdout := r.stdout ++ joinPath dir f ++ "\n", stderr := true, exit := 1,
        files := r.files ++ [(joinPath dir f, "")] }
  | (f, .ok t) :: rest, r =>
      renderFields dir nl rest
        { r with stdout := r.stdout ++ joinPath dir f ++ "\n",
                 files := r.files ++ [(joinPath dir f, if nl then t ++ "\n" else t)] }

def failed : Rendered := { stdout := "", stderr := true, exit := 1, files := [] }

def render (mode : Mode) (nl : Bool) : Outcome → Rendered
  | .err => failed
  | .manErr =>
    match mode with
    | .file p => { failed with files := [(p, "")] }   -- `File::create` precedes `val.manifest(..)?`
    | _ => failed
  | .text t =>
    match mode with
    | .stdout => { stdout := if t.isEmpty then "" else t ++ "\n", stderr := false, exit := 0, files := [] }
    | .file p => { stdout := "", stderr := false, exit := 0, files := [(p, t ++ "\n")] }
    | .multi _ => failed      -- not reachable: the multi branch never manifests the whole value
  | .fields fs =>
    match mode with
    | .multi dir => renderFields dir nl fs { stdout := "", stderr := false, exit := 0, files := [] }
    | _ => failed

def FieldRes.isOk : FieldRes → Bool
  | .ok _ => true
  | _ => false

/-- the library reports success for this configuration -/
def Outcome.isOk (mode : Mode) : Outcome → Bool
  | .err => false
  | .manErr => false
  | .text _ => match mode with | .multi _ => false | _ => true
  | .fields fs => match mode with | .multi _ => fs.all (fun f => f.2.isOk) | _ => false

/-! ## C API framing -/

abbrev Bytes := List Nat

/-- body of the `for (i, (k, v)) in multi.iter().enumerate()` loop; `first` is `i == 0` -/
def multiGo : Bool → List (Bytes × Bytes) → Bytes
  | _, [] => []
  | first, (k, v) :: r => (if first then [] else [0]) ++ k ++ [0] ++ v ++ multiGo false r

/-- `multi_to_raw` -/
def multiToRaw (kvs : List (Bytes × Bytes)) : Bytes := multiGo true kvs ++ [0, 0]

def streamGo : Bool → List Bytes → Bytes
  | _, [] => []
  | first, v :: r => (if first then [] else [0]) ++ v ++ streamGo false r

/-- `stream_to_raw` -/
def streamToRaw (vs : List Bytes) : Bytes := streamGo true vs ++ [0, 0]

/-- plain results and error messages: `CString::new(text).into_raw()` -/
def cstring (t : Bytes) : Bytes := t ++ [0]

/-- the NUL terminated strings found in a buffer, in order (`cur` = current string, reversed) -/
def segs : Bytes → Bytes → List Bytes
  | [], _ => []
  | 0 :: bs, cur => cur.reverse :: segs bs []
  | (b + 1) :: bs, cur => segs bs ((b + 1) :: cur)

/-- the reference consumer of a multi result: key, value, key, value … until an empty key -/
def pairUp : List Bytes → List (Bytes × Bytes)
  | [] => []
  | [_] => []
  | k :: v :: rest => if k = [] then [] else (k, v) :: pairUp rest

def decodeMulti (raw : Bytes) : List (Bytes × Bytes) := pairUp (segs raw [])

/-- the reference consumer of a stream result: elements until an empty one -/
def untilEmpty : List Bytes → List Bytes
  | [] => []
  | v :: rest => if v = [] then [] else v :: untilEmpty rest

def decodeStream (raw : Bytes) : List Bytes := untilEmpty (segs raw [])

/-- number of bytes the multi consumer reads (terminating empty key included) -/
def scanMulti : List Bytes → Nat
  | [] => 0
  | [k] => k.length + 1
  | k :: v :: rest => if k = [] then 1 else k.length + 1 + v.length + 1 + scanMulti rest

def scanStream : List Bytes → Nat
  | [] => 0
  | v :: rest => if v = [] then 1 else v.length + 1 + scanStream rest

end JrsVerif.Cli

namespace JrsVerif.Deps

/-- one import found by the AST visitor: `code` = `import` (traversed), otherwise
    `importstr`/`importbin` (listed only); `tgt = none` = the resolver cannot find the file -/
structure Edge where
  code : Bool
  tgt : Option Nat
  deriving DecidableEq, Repr, Inhabited

/-- files are numbered; `none` = the file cannot be loaded / is not UTF-8 / does not parse -/
abbrev Graph := Nat → Option (List Edge)

inductive Res
  | ok (deps visited : List Nat)
  | bad          -- `Err(..)`: printed on stderr, exit 1
  | fuel         -- artefact of the model: recursion budget exhausted
  deriving DecidableEq, Repr, Inhabited

/-- `BTreeSet::insert` -/
def ins (t : Nat) (s : List Nat) : List Nat := if s.contains t then s else t :: s

/-- the `for (path, expression) in imports.0` loop of `collect_deps`, with the recursive call
    inlined; `f` bounds the recursion depth -/
def loop (g : Graph) : Nat → List Edge → List Nat → List Nat → Res
  | _, [], deps, vis => .ok deps vis
  | f, e :: es, deps, vis =>
    match e.tgt with
    | none => .bad
    | some t =>
      if e.code && !vis.contains t then
        match f with
        | 0 => .fuel
        | f' + 1 =>
          match g t with
          | none => .bad
          | some es' =>
            match loop g f' es' (ins t deps) (t :: vis) with
            | .ok d v => loop g (f' + 1) es d v
            | r => r
      else loop g f es (ins t deps) vis
termination_by f es => (f, es.length)

/-- `main` of jrsonnet-deps after the root has been resolved -/
def collect (g : Graph) (fuel : Nat) (root : Nat) : Res :=
  match g root with
  | none => .bad
  | some es => loop g fuel es [] [root]

/-! reference meaning -/

/-- files whose code is reachable from the root through `import` edges -/
inductive Reach (g : Graph) (root : Nat) : Nat → Prop
  | refl : Reach g root root
  | step {a b : Nat} {es : List Edge} {e : Edge} :
      Reach g root a → g a = some es → e ∈ es → e.code = true → e.tgt = some b → Reach g root b

/-- `t` is the target of some import (of any kind) written in a reachable file -/
def IsDep (g : Graph) (root t : Nat) : Prop :=
  ∃ a es e, Reach g root a ∧ g a = some es ∧ e ∈ es ∧ e.tgt = some t

/-- some reachable file cannot be read/parsed or contains an import that cannot be resolved -/
def Bad (g : Graph) (root : Nat) : Prop :=
  ∃ a, Reach g root a ∧ (g a = none ∨ ∃ es e, g a = some es ∧ e ∈ es ∧ e.tgt = none)

/-! executable reference: closure by rounds (independent of the DFS above) -/

def succs (g : Graph) (a : Nat) : List Nat :=
  match g a with
  | none => []
  | some es => es.filterMap (fun e => if e.code then e.tgt else none)

def unionL (s : List Nat) (xs : List Nat) : List Nat := xs.foldl (fun s x => ins x s) s

def closeRounds (g : Graph) : Nat → List Nat → List Nat
  | 0, s => s
  | n + 1, s => closeRounds g n (unionL s (s.flatMap (succs g)))

def nodeBad (g : Graph) (a : Nat) : Bool :=
  match g a with
  | none => true
  | some es => es.any (fun e => e.tgt.isNone)

def targets (g : Graph) (a : Nat) : List Nat :=
  match g a with
  | none => []
  | some es => es.filterMap (fun e => e.tgt)

/-- `none` = error; `rounds` ≥ number of files makes the closure complete -/
def specCollect (g : Graph) (rounds : Nat) (root : Nat) : Option (List Nat) :=
  let reach := closeRounds g rounds [root]
  if reach.any (nodeBad g) then none else some (unionL [] (reach.flatMap (targets g)))

end JrsVerif.Deps
