/-
  Bare `super` as a value (jrsonnet extension): `SupThis::standalone_super` builds an object whose
  only core is `StandaloneSuperCore { sup, this }` (obj/mod.rs).  Such a core answers the three
  per-name core methods by running the corresponding `_idx` walker of `this` below `sup`, and
  `enum_fields_core` by reporting every field of the layers below `sup` with its resolved
  visibility (after the repair of the key-removal leak).

  `XCore` = an ordinary core or a standalone-super core over an ORDINARY vector (one level of
  nesting; `this` of a nested bare `super` inside a bare `super` is not modelled).
  Import-free (core Lean + Model/Obj, Model/ObjLit).
-/
import JrsVerif.Model.Obj
import JrsVerif.Model.ObjLit

namespace JrsVerif.Obj

inductive XCore where
  | base (c : Core)
  | standalone (sup : Nat) (this : List Core)
  deriving Repr, Inhabited

/-- `has_field_include_hidden_idx` over a vector with standalone cores
    (`StandaloneSuperCore::has_field_include_hidden_core` = `Exists` / `NotFound`) -/
def hasGoX : List XCore → Nat → Name → Bool
  | [], _, _ => false
  | .base (.oop fs _) :: rest, skip, n =>
      if (lookup fs n).isSome && skip == 0 then true else hasGoX rest (skip - 1) n
  | .base (.omitC ns k) :: rest, skip, n =>
      let skip' := if ns.contains n then max skip (k + 1) else skip
      hasGoX rest (skip' - 1) n
  | .standalone sup this :: rest, skip, n =>
      if hasIdx this sup n && skip == 0 then true else hasGoX rest (skip - 1) n

/-- `field_visibility_idx` (`StandaloneSuperCore::field_visibility_core` = `Found(vis)` / `NotFound`) -/
def visGoX : List XCore → Nat → Bool → Name → Option Vis
  | [], _, ex, _ => if ex then some .normal else none
  | .base (.oop fs _) :: rest, skip, ex, n =>
      match lookup fs n with
      | some f =>
          if skip == 0 then
            match f.vis with
            | .normal => visGoX rest (skip - 1) true n
            | v => some v
          else visGoX rest (skip - 1) ex n
      | none => visGoX rest (skip - 1) ex n
  | .base (.omitC ns k) :: rest, skip, ex, n =>
      let skip' := if ns.contains n then max skip (k + 1) else skip
      visGoX rest (skip' - 1) ex n
  | .standalone sup this :: rest, skip, ex, n =>
      match visIdx this sup n with
      | some v =>
          if skip == 0 then
            match v with
            | .normal => visGoX rest (skip - 1) true n
            | v => some v
          else visGoX rest (skip - 1) ex n
      | none => visGoX rest (skip - 1) ex n

/-- the update `fields_visibility` applies to `exists_visible` for one `EnumFields::Normal(vis)` -/
def updVis (vis : Vis) (cur : Option Vis) : Option Vis :=
  match vis with
  | .normal => (match cur with | none => some .normal | c => c)
  | .hidden => (match cur with | some .unhide => some .unhide | _ => some .hidden)
  | .unhide => (match cur with | some .hidden => some .hidden | _ => some .unhide)

/-- `fields_visibility`; the standalone core calls the handler once per entry of the layers below
    `sup` that names `n` (at least once iff `n` is named there), each time with the resolved
    visibility — the update is idempotent, one application is modelled -/
def visAllGoX : List XCore → Nat → Nat → Option Vis → Name → Option Vis
  | [], _, _, cur, _ => cur
  | .base (.oop fs _) :: rest, i, ou, cur, n =>
      match lookup fs n with
      | some f => visAllGoX rest (i + 1) ou (if ou ≤ i then updVis f.vis cur else cur) n
      | none => visAllGoX rest (i + 1) ou cur n
  | .base (.omitC ns k) :: rest, i, ou, cur, n =>
      let ou' := if ns.contains n then max ou (i + k + 1) else ou
      visAllGoX rest (i + 1) ou' cur n
  | .standalone sup this :: rest, i, ou, cur, n =>
      if (coreNames (this.take sup)).contains n then
        match visIdx this sup n with
        | some v => visAllGoX rest (i + 1) ou (if ou ≤ i then updVis v cur else cur) n
        | none => visAllGoX rest (i + 1) ou cur n
      else visAllGoX rest (i + 1) ou cur n

/-- a contribution to a read: a member body of an ordinary layer, or the (already folded) value
    `this.get_idx(key, sup)` delivered by a standalone core as `GetFor::Final` -/
inductive XContrib where
  | own (f : Field) (sup : Nat)
  | inner (vals : List Contrib) (at_ : Nat)
  deriving Repr

/-- `get_idx_uncached` (`StandaloneSuperCore::get_for_core`: `NotFound` when `omit_only`, else
    `Final(this.get_idx(key, sup))`) -/
def collectX : List XCore → Nat → Name → List XContrib
  | [], _, _ => []
  | .base (.oop fs _) :: rest, skip, n =>
      match (if skip == 0 then lookup fs n else none) with
      | some f => if f.add then .own f rest.length :: collectX rest (skip - 1) n else [.own f rest.length]
      | none => collectX rest (skip - 1) n
  | .base (.omitC ns k) :: rest, skip, n =>
      let skip' := if ns.contains n then max skip (k + 1) else skip
      collectX rest (skip' - 1) n
  | .standalone sup this :: rest, skip, n =>
      match (if skip == 0 then getIdxLit this sup n else none) with
      | some vals => [.inner vals rest.length]
      | none => collectX rest (skip - 1) n

/-- the fields a standalone core presents, as one literal layer: every name of the layers below
    `sup` that is present, plain (its value is final), with its resolved visibility -/
def flatFields (this : List Core) (sup : Nat) : List Field :=
  (sortDedup (coreNames (this.take sup))).filterMap
    (fun n => (visIdx this sup n).map (fun v => (⟨n, false, v, 0⟩ : Field)))

/-- a standalone core seen as an ordinary layer (it always occupies one layer and forwards
    `run_assertions` to `this`, hence `asrt := true`) -/
def XCore.flatten : XCore → Core
  | .base c => c
  | .standalone sup this => .oop (flatFields this sup) true

/-- object terms with bare `super` taken at layer `l` of an ordinary object -/
inductive XT where
  | base (t : OT)
  | sup (t : OT) (l : Nat)          -- the value of `super` inside layer `l` of `t`
  | add (a b : XT)
  | rm (o : XT) (ns : List Name)
  deriving Repr, Inhabited

def compileX : XT → List XCore
  | .base t => (compile t).map .base
  | .sup t l => [.standalone l (compile t)]
  | .add a b => compileX a ++ compileX b
  | .rm o ns => compileX o ++ [.base (.omitC ns (compileX o).length)]

/-- the ordinary object a term with bare `super`s denotes -/
def flattenT : XT → OT
  | .base t => t
  | .sup t l => .lit (flatFields (compile t) l) true
  | .add a b => .add (flattenT a) (flattenT b)
  | .rm o ns => .rm (flattenT o) ns

def hasX (cs : List XCore) (n : Name) : Bool := hasGoX cs.reverse 0 n
def visX (cs : List XCore) (n : Name) : Option Vis := visGoX cs.reverse 0 false n
def visAllX (cs : List XCore) (n : Name) : Option Vis := visAllGoX cs.reverse 0 0 none n
def getX (cs : List XCore) (n : Name) : List XContrib := collectX cs.reverse 0 n

def xcoreNames : List XCore → List Name
  | [] => []
  | .base (.oop fs _) :: r => fs.map (·.name) ++ xcoreNames r
  | .base (.omitC ns _) :: r => ns ++ xcoreNames r
  | .standalone sup this :: r => coreNames (this.take sup) ++ xcoreNames r

def fieldsExX (cs : List XCore) (includeHidden : Bool) : List Name :=
  (sortDedup (xcoreNames cs)).filter (fun n =>
    match visAllX cs n with
    | some v => includeHidden || v.visible
    | none => false)

end JrsVerif.Obj
