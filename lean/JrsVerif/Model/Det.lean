/-
  C16 — every place where `jrsonnet-evaluator` iterates an address-keyed hash map/set, modelled
  with the ITERATION ORDER AS AN EXPLICIT INPUT:

  * `obj/mod.rs fields_visibility` + `fields_ex`, fed by `OopObject::enum_fields_core`
    (`this_entries: FxHashMap<IStr, ObjMember>`) and `OmitFieldsCore::enum_fields_core`
    (`omit: FxHashSet<IStr>`): a core carries its names in the order its map yields them, the result
    map `out` is an association list in insertion order and its own iteration order is a second
    parameter (`iter`).
  * `ctx.rs Context::binding` (`LayeredHashMap::iter_keys`, one `FxHashMap` per scope) and
    `error.rs suggest_object_fields` — the "did you mean" rankings.
  * `tla.rs apply_tla` (`HashMap<IStr, TlaArg>`): which of several possible errors is reported.
  * `stack.rs`: `check_depth` / `StackDepthGuard` (the thread-local depth counter).

  Names are UTF-8 byte strings ordered as `jrsonnet-interner` orders them (`Ord for Inner` =
  `as_slice().cmp()`).  Import-free.
-/
namespace JrsVerif.Det

abbrev Name := List Nat

/-- `Inner::cmp` : lexicographic comparison of the byte slices (`a ≤ b`) -/
def nameLe : Name → Name → Bool
  | [], _ => true
  | _ :: _, [] => false
  | a :: as, b :: bs => decide (a < b) || (a == b && nameLe as bs)

/-! ### objects -/

inductive Vis where
  | normal | hidden | unhide
  deriving Repr, DecidableEq, Inhabited

def Vis.visible : Vis → Bool
  | .hidden => false
  | _ => true

/-- one layer, with its names in the order the layer's hash map/set iterates -/
inductive Core where
  | oop (fs : List (Name × Vis))
  | omitC (ns : List Name) (prev : Nat)
  deriving Repr, Inhabited

/-- `FieldVisibilityData` (the sort key only matters with exp-preserve-order) -/
structure Data where
  ou : Nat            -- omitted_until
  cur : Option Vis    -- exists_visible
  deriving Repr, DecidableEq, Inhabited

/-- what `enum_fields_core` hands to the handler besides the name -/
inductive Ev where
  | field (v : Vis)
  | omit (k : Nat)
  deriving Repr, DecidableEq, Inhabited

/-- the `match visibility { … }` of `fields_visibility`'s handler, at `omit_index = i` -/
def applyEv (i : Nat) (d : Data) : Ev → Data
  | .omit k => { d with ou := max d.ou (i + k + 1) }
  | .field .normal =>
      if d.ou ≤ i ∧ d.cur.isNone then { d with cur := some .normal } else d
  | .field .hidden =>
      if d.ou ≤ i then
        { d with cur := some (match d.cur with | some .unhide => .unhide | _ => .hidden) }
      else d
  | .field .unhide =>
      if d.ou ≤ i then
        { d with cur := some (match d.cur with | some .hidden => .hidden | _ => .unhide) }
      else d

abbrev Map := List (Name × Data)

/-- `out.entry(name).or_insert_with(|| {exists_visible: None, omitted_until: omit_index})` followed
    by the update -/
def upsert (m : Map) (n : Name) (i : Nat) (e : Ev) : Map :=
  match m with
  | [] => [(n, applyEv i { ou := i, cur := none } e)]
  | (k, d) :: r => if k = n then (k, applyEv i d e) :: r else (k, d) :: upsert r n i e

def coreEvents : Core → List (Name × Ev)
  | .oop fs => fs.map (fun f => (f.1, Ev.field f.2))
  | .omitC ns k => ns.map (fun n => (n, Ev.omit k))

def feed (i : Nat) (m : Map) (evs : List (Name × Ev)) : Map :=
  evs.foldl (fun m ne => upsert m ne.1 i ne.2) m

/-- the `for core in cores.iter().rev()` loop (argument: cores top layer first) -/
def visFold : List Core → Nat → Map → Map
  | [], _, m => m
  | c :: r, i, m => visFold r (i + 1) (feed i m (coreEvents c))

/-- `fields_visibility()` incl. the final `retain` (argument: cores bottom layer first, as stored) -/
def fieldsVisibility (cores : List Core) : Map :=
  (visFold cores.reverse 0 []).filter (fun e => e.2.cur.isSome)

def keep (includeHidden : Bool) (d : Data) : Bool :=
  includeHidden || (match d.cur with | some v => v.visible | none => false)

/-- `fields_ex(include_hidden)` without exp-preserve-order; `iter` = iteration order of `out` -/
def fieldsEx (iter : Map → Map) (cores : List Core) (includeHidden : Bool) : List Name :=
  (((iter (fieldsVisibility cores)).filter (fun e => keep includeHidden e.2)).map (·.1)).mergeSort nameLe

/-- `len()` : `fields_visibility().values().filter(visible).count()` -/
def objLen (iter : Map → Map) (cores : List Core) : Nat :=
  ((iter (fieldsVisibility cores)).filter (fun e => keep false e.2)).length

/-! reference: decide each name separately (no map, no iteration order) -/

def evsOf (c : Core) (n : Name) : List Ev :=
  ((coreEvents c).filter (fun ne => ne.1 = n)).map (·.2)

def stepOpt (i : Nat) (d : Option Data) (e : Ev) : Option Data :=
  some (applyEv i (d.getD { ou := i, cur := none }) e)

def dataGo : List Core → Nat → Option Data → Name → Option Data
  | [], _, d, _ => d
  | c :: r, i, d, n => dataGo r (i + 1) ((evsOf c n).foldl (stepOpt i) d) n

def coreNames : List Core → List Name
  | [] => []
  | .oop fs :: r => fs.map (·.1) ++ coreNames r
  | .omitC ns _ :: r => ns ++ coreNames r

def insertSorted (n : Name) : List Name → List Name
  | [] => [n]
  | m :: r => if n = m then m :: r else if nameLe n m then n :: m :: r else m :: insertSorted n r

def sortDedup : List Name → List Name
  | [] => []
  | n :: r => insertSorted n (sortDedup r)

def specFields (cores : List Core) (includeHidden : Bool) : List Name :=
  (sortDedup (coreNames cores)).filter (fun n =>
    match dataGo cores.reverse 0 none n with
    | some d => d.cur.isSome && keep includeHidden d
    | none => false)

/-! ### "did you mean" rankings -/

/-- a candidate: `strsim::jaro_winkler(name, key)` as the IEEE-754 bit pattern of the (non-negative)
    double — for such doubles the numeric order is the order of the bit patterns — and the name -/
structure Cand where
  score : Nat
  name : Name
  deriving Repr, DecidableEq, Inhabited

/-- bits of `0.8_f64` (`if conf < 0.8 { skip }`) -/
def thr : Nat := 0x3FE999999999999A

/-- `b.0.partial_cmp(&a.0).unwrap_or(Equal).then_with(|| a.1.cmp(&b.1)) != Greater` -/
def candLe (a b : Cand) : Bool :=
  decide (b.score < a.score) || (a.score == b.score && nameLe a.name b.name)

/-- the comparator before the repair: `b.0.partial_cmp(&a.0) != Greater` -/
def candLeOld (a b : Cand) : Bool := decide (b.score ≤ a.score)

/-- `Context::binding`'s failure path; `keys` = what `iter_keys` produced (innermost scope first,
    each scope in its map's order).  `sort_by` is a stable sort. -/
def suggestLocals (keys : List Cand) : List Name :=
  ((keys.filter (fun c => decide (thr ≤ c.score))).mergeSort candLe).map (·.name)

def suggestLocalsOld (keys : List Cand) : List Name :=
  ((keys.filter (fun c => decide (thr ≤ c.score))).mergeSort candLeOld).map (·.name)

/-- `suggest_object_fields`: stable sort by score of `fields_ex(true)` (which is name-sorted) -/
def suggestFields (iter : Map → Map) (cores : List Core) (score : Name → Nat) : List Name :=
  ((((fieldsEx iter cores true).map (fun n => Cand.mk (score n) n)).filter
      (fun c => decide (thr ≤ c.score))).mergeSort candLeOld).map (·.name)

/-- reference: insertion sort by (score descending, name ascending) -/
def insertCand (c : Cand) : List Cand → List Cand
  | [] => [c]
  | d :: r => if candLe c d then c :: d :: r else d :: insertCand c r

def specRank (cs : List Cand) : List Name :=
  ((cs.filter (fun c => decide (thr ≤ c.score))).foldr insertCand []).map (·.name)

/-! ### `apply_tla` -/

inductive ArgKind where
  | ok          -- String / Val / Lazy / InlineCode / resolvable Import: `evaluate()` is `Ok(thunk)`
  | unresolvable -- Import / ImportStr whose path does not resolve: `evaluate()` is `Err`
  deriving Repr, DecidableEq, Inhabited

structure Param where
  name : Name
  hasDefault : Bool
  deriving Repr, DecidableEq, Inhabited

inductive TlaOutcome where
  | called                       -- the function body is entered (not modelled further)
  | importNotFound (arg : Name)
  | unknownParam (arg : Name)
  | unbound (param : Name)
  | arithmetic                   -- `params.len() - unnamed - named.len()` underflows
  deriving Repr, DecidableEq, Inhabited

/-- the loop of `apply_tla` over `visit` (names pushed, `value.evaluate()?`), then
    `prepare_call(params, 0, names)` -/
def tlaVisit (visit : List (Name × ArgKind)) (params : List Param) : TlaOutcome :=
  match visit.find? (fun a => a.2 = .unresolvable) with
  | some a => .importNotFound a.1
  | none =>
    let names := visit.map (·.1)
    if params.length < names.length then .arithmetic else
    match names.find? (fun n => !(params.any (fun p => p.name = n))) with
    | some n => .unknownParam n
    | none =>
      let defaults := (params.filter (fun p => p.hasDefault && !(names.contains p.name))).length
      if names.length < params.length ∧ defaults ≠ params.length - names.length then
        match params.find? (fun p => !(names.contains p.name)) with
        | some p => .unbound p.name
        | none => .called
      else .called

/-- repaired `apply_tla`: arguments visited in name order; `iter` = the map's iteration order -/
def applyTla (iter : List (Name × ArgKind)) (params : List Param) : TlaOutcome :=
  tlaVisit (iter.mergeSort (fun a b => nameLe a.1 b.1)) params

/-- `apply_tla` before the repair: arguments visited in the map's iteration order -/
def applyTlaOld (iter : List (Name × ArgKind)) (params : List Param) : TlaOutcome :=
  tlaVisit iter params

/-- reference: the argument with the least name that fails decides -/
def specTla (args : List (Name × ArgKind)) (params : List Param) : TlaOutcome :=
  tlaVisit (args.foldr (fun a acc =>
    (acc.filter (fun b => !(nameLe a.1 b.1))) ++ a :: acc.filter (fun b => nameLe a.1 b.1)) []) params

/-! ### the thread-local depth counter (`stack.rs`, `in_frame` / `in_description_frame`) -/

/-- the shape of an evaluation as far as the counter is concerned -/
inductive Ev2 where
  | ret                       -- produces a value without opening a frame
  | fail                      -- produces an error without opening a frame
  | frame (body : List Ev2)   -- `let _guard = check_depth()?; body…` (stops at the first error)
  deriving Inhabited

mutual
/-- result (`true` = Ok) and the counter afterwards -/
def run (limit : Nat) : Ev2 → Nat → Bool × Nat
  | .ret, d => (true, d)
  | .fail, d => (false, d)
  | .frame body, d =>
      if d < limit then
        let r := runList limit body (d + 1)   -- `current_depth.set(current + 1)`
        (r.1, r.2 - 1)                        -- `Drop for StackDepthGuard`
      else (false, d)                         -- `Err(StackOverflowError)`, no guard created
def runList (limit : Nat) : List Ev2 → Nat → Bool × Nat
  | [], d => (true, d)
  | p :: r, d =>
      let a := run limit p d
      if a.1 then runList limit r a.2 else (false, a.2)
end

/-- a long-lived thread: evaluate each program of `hist` (ignoring the outcomes), then `p` -/
def afterHistory (limit : Nat) (hist : List Ev2) (p : Ev2) (d : Nat) : Bool × Nat :=
  run limit p (hist.foldl (fun d h => (run limit h d).2) d)

end JrsVerif.Det
