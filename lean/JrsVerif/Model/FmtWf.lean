/- C19: shape grammar of the serialised AST (what `c19.rs: tree` can emit for a `jrsonnet_ir::Expr`).
   Evaluated by the driver on both trees of every case: a tree outside the grammar means the walker
   and the model disagree about the encoding (reported as a broken tie, not as a formatter defect). -/
import JrsVerif.Model.Fmt

namespace JrsVerif.Fmt

def isAtom : Tree → Bool | .atom _ => true | _ => false

mutual
/-- expressions -/
def wf : Tree → Bool
  | .node "lit" [.atom _] => true
  | .node "str" [.atom _] => true
  | .node "num" [.atom _] => true
  | .node "var" [.atom _] => true
  | .node "arr" es => wfAll es
  | .node "arrcomp" [e, .node "specs" ss] => wf e && wfSpecs ss
  | .node "obj" [b] => wfBody b
  | .node "objext" [e, b] => wf e && wfBody b
  | .node "unary" [.atom _, e] => wf e
  | .node "binary" [.atom _, a, b] => wf a && wf b
  | .node "assert" [.node "assertion" [c, m], r] => wf c && wfOpt m && wf r
  | .node "local" [.node "binds" bs, e] => wfBinds bs && wf e
  | .node "import" [.atom _, e] => wf e
  | .node "error" [e] => wf e
  | .node "apply" [f, .node "args" as, .node "named" ns, .atom _] => wf f && wfAll as && wfNamed ns
  | .node "index" [e, .node "parts" ps] => wf e && wfParts ps
  | .node "func" [.node "params" ps, b] => wfParams ps && wf b
  | .node "if" [c, t, e] => wf c && wf t && wfOpt e
  | .node "slice" [e, a, b, c] => wf e && wfOpt a && wfOpt b && wfOpt c
  | _ => false
def wfOpt : Tree → Bool
  | .node "none" [] => true
  | t => wf t
def wfAll : List Tree → Bool
  | [] => true
  | t :: ts => wf t && wfAll ts
def wfParams : List Tree → Bool
  | [] => true
  | .node "param" [.node _ [.atom _], d] :: ps => wfOpt d && wfParams ps
  | _ => false
def wfBinds : List Tree → Bool
  | [] => true
  | .node "bind" [.node _ [.atom _], v] :: bs => wf v && wfBinds bs
  | .node "fn" [.node "dfull" [.atom _], .node "params" ps, v] :: bs => wfParams ps && wf v && wfBinds bs
  | _ => false
def wfSpecs : List Tree → Bool
  | [] => true
  | .node "ifspec" [c] :: ss => wf c && wfSpecs ss
  | .node "forspec" [.node _ [.atom _], e] :: ss => wf e && wfSpecs ss
  | _ => false
def wfNamed : List Tree → Bool
  | [] => true
  | .node "narg" [.atom _, e] :: ns => wf e && wfNamed ns
  | _ => false
def wfParts : List Tree → Bool
  | [] => true
  | .node "part" [e] :: ps => wf e && wfParts ps
  | _ => false
def wfField : Tree → Bool
  | .node "field" [.node "fixed" [.atom _], .atom _, .node "none" [], .atom _, v] => wf v
  | .node "field" [.node "fixed" [.atom _], .atom _, .node "params" ps, .atom _, v] => wfParams ps && wf v
  | .node "field" [.node "dyn" [e], .atom _, .node "none" [], .atom _, v] => wf e && wf v
  | .node "field" [.node "dyn" [e], .atom _, .node "params" ps, .atom _, v] => wf e && wfParams ps && wf v
  | _ => false
def wfFields : List Tree → Bool
  | [] => true
  | f :: fs => wfField f && wfFields fs
def wfAsserts : List Tree → Bool
  | [] => true
  | .node "assertion" [c, m] :: as => wf c && wfOpt m && wfAsserts as
  | _ => false
def wfBody : Tree → Bool
  | .node "members" [.node "binds" bs, .node "asserts" as, .node "fields" fs] =>
      wfBinds bs && wfAsserts as && wfFields fs
  | .node "objcomp" [.node "binds" bs, f, .node "specs" ss] => wfBinds bs && wfField f && wfSpecs ss
  | _ => false
end

end JrsVerif.Fmt
