/-
  Model of `crates/jrsonnet-evaluator/src/stack.rs` (the thread-local frame counter) and of the two
  frame wrappers `in_frame` / `in_description_frame` of `crates/jrsonnet-evaluator/src/lib.rs`.

  `St` is the thread-local `STACK_LIMIT { max_stack_size, current_depth }`.  Every Rust `usize`
  operation is checked: `none` = the Rust code would panic (overflow-checked build) / wrap.

    check_depth()               ↦ `checkDepth`
    StackDepthGuard::drop       ↦ `guardDrop`          (`current_depth.get() - 1`)
    limit_stack_depth(d)        ↦ `limitStackDepth`    (`current_depth + depth_limit`)
    StackDepthLimitOverrideGuard::drop ↦ `overrideDrop`
    set_stack_depth_limit(d)    ↦ `limitStackDepth` with the guard forgotten

  `Prog` is the shape of any Rust computation as far as the counter can see it: leaves that return
  `Ok`/`Err`, `?`-sequencing, a frame (`let _guard = check_depth()?; f()`), a scoped limit override,
  code that inspects a `Result` and carries on, and the unguarded limit setter of the C API.
  `run` executes it exactly in the order Rust does (guards dropped on both the Ok and the Err path)
  and logs the counter at every leaf — the same log the harness records from the real code through
  the `verif_current_depth()` / `verif_stack_limit()` hooks.

  Import-free except for the generated constants.
-/
import JrsVerif.Generated.Consts

namespace JrsVerif.Stack

/-- `usize::MAX + 1` on the 64-bit targets the check runs on -/
def USIZE : Nat := 2 ^ 64

structure St where
  max : Nat
  cur : Nat
  deriving Repr, DecidableEq, Inhabited

/-- the `const_tls!` initialiser: `max_stack_size: Cell::new(200)`, `current_depth: Cell::new(0)` -/
def St.initial : St := ⟨JrsVerif.Generated.STACK_DEFAULT_LIMIT, 0⟩

inductive Out where
  | ok
  | errStack     -- `ErrorKind::StackOverflow`
  | errOther     -- any other `Err`
  deriving Repr, DecidableEq, Inhabited

/-- `check_depth`: `if current < max { current_depth.set(current + 1); Ok(guard) } else { Err }`.
    outer `none` = `current + 1` overflows `usize`; inner `none` = `Err(StackOverflowError)` -/
def checkDepth (s : St) : Option (Option St) :=
  if s.cur < s.max then
    (if s.cur + 1 < USIZE then some (some { s with cur := s.cur + 1 }) else none)
  else some none

/-- `StackDepthGuard::drop`: `current_depth.set(current_depth.get() - 1)` (checked subtraction) -/
def guardDrop (s : St) : Option St :=
  if s.cur = 0 then none else some { s with cur := s.cur - 1 }

/-- `limit_stack_depth(d)`: `max_stack_size.set(current_depth + depth_limit)`, returns the old limit -/
def limitStackDepth (s : St) (d : Nat) : Option (St × Nat) :=
  if s.cur + d < USIZE then some ({ s with max := s.cur + d }, s.max) else none

/-- `StackDepthLimitOverrideGuard::drop` -/
def overrideDrop (s : St) (old : Nat) : St := { s with max := old }

inductive Prog where
  | skip                              -- a step returning `Ok` that does not touch the counter
  | fail                              -- a step returning `Err` (`bail!`, `error "…"`)
  | seq (a b : Prog)                  -- `a?; b`
  | frame (body : Prog)               -- `in_frame` / `in_description_frame`
  | limit (d : Nat) (body : Prog)     -- `let _g = limit_stack_depth(d); body`
  | catch (body : Prog)               -- the caller inspects the `Result` and carries on with `Ok`
  | setLimit (d : Nat)                -- `set_stack_depth_limit(d)` (guard forgotten)
  deriving Repr, Inhabited

structure Res where
  st : St
  out : Out
  log : List St
  deriving Repr, DecidableEq, Inhabited

/-- `none` = a panic somewhere (usize overflow / underflow) -/
def run : St → Prog → Option Res
  | s, .skip => some ⟨s, .ok, [s]⟩
  | s, .fail => some ⟨s, .errOther, [s]⟩
  | s, .seq a b =>
    match run s a with
    | none => none
    | some ra =>
      match ra.out with
      | .ok =>
        match run ra.st b with
        | none => none
        | some rb => some ⟨rb.st, rb.out, ra.log ++ rb.log⟩
      | _ => some ra
  | s, .frame body =>
    match checkDepth s with
    | none => none
    | some none => some ⟨s, .errStack, []⟩           -- `check_depth()?` : the body never runs
    | some (some s1) =>
      match run s1 body with
      | none => none
      | some r =>
        match guardDrop r.st with                     -- `_guard` dropped on Ok and on Err alike
        | none => none
        | some s2 => some ⟨s2, r.out, r.log⟩
  | s, .limit d body =>
    match limitStackDepth s d with
    | none => none
    | some (s1, old) =>
      match run s1 body with
      | none => none
      | some r => some ⟨overrideDrop r.st old, r.out, r.log⟩
  | s, .catch body =>
    match run s body with
    | none => none
    | some r => some ⟨r.st, .ok, r.log⟩
  | s, .setLimit d =>
    match limitStackDepth s d with
    | none => none
    | some (s1, _) => some ⟨s1, .ok, []⟩

/-! ### syntactic measures used in the statements -/

/-- deepest nesting of frames -/
def depth : Prog → Nat
  | .skip | .fail | .setLimit _ => 0
  | .seq a b => Nat.max (depth a) (depth b)
  | .frame b => depth b + 1
  | .limit _ b | .catch b => depth b

/-- largest argument of a limit override -/
def maxLimit : Prog → Nat
  | .skip | .fail => 0
  | .setLimit d => d
  | .seq a b => Nat.max (maxLimit a) (maxLimit b)
  | .limit d b => Nat.max d (maxLimit b)
  | .frame b | .catch b => maxLimit b

/-- no unguarded `set_stack_depth_limit` -/
def noSet : Prog → Bool
  | .skip | .fail => true
  | .setLimit _ => false
  | .seq a b => noSet a && noSet b
  | .frame b | .limit _ b | .catch b => noSet b

/-- no limit change at all -/
def noLimit : Prog → Bool
  | .skip | .fail => true
  | .setLimit _ | .limit _ _ => false
  | .seq a b => noLimit a && noLimit b
  | .frame b | .catch b => noLimit b

/-- no failing leaf -/
def noFail : Prog → Bool
  | .skip | .setLimit _ => true
  | .fail => false
  | .seq a b => noFail a && noFail b
  | .frame b | .limit _ b | .catch b => noFail b

/-- `n` nested frames around a successful leaf: non-tail recursion `n` levels deep -/
def nest : Nat → Prog
  | 0 => .skip
  | n + 1 => .frame (nest n)

/-- the same with work before and after the recursive call at each level (`pre; f(n-1); post`) -/
def nestWith (pre post : Prog) : Nat → Prog
  | 0 => .skip
  | n + 1 => .frame (.seq pre (.seq (nestWith pre post n) post))

/-! ### Reference meaning: lexical nesting

  No state at all: the depth at a point of the computation is the number of frames that lexically
  enclose it (plus the depth at the start), the limit is the one set by the innermost enclosing
  override, a frame beyond the limit is a stack-overflow error and its body does not run.  (Only
  for programs without the unguarded setter, whose effect is not lexical.) -/
def Spec.eval (lim cur : Nat) : Prog → Out × List St
  | .skip => (.ok, [⟨lim, cur⟩])
  | .fail => (.errOther, [⟨lim, cur⟩])
  | .seq a b =>
    let ra := Spec.eval lim cur a
    match ra.1 with
    | .ok => let rb := Spec.eval lim cur b; (rb.1, ra.2 ++ rb.2)
    | _ => ra
  | .frame body => if cur < lim then Spec.eval lim (cur + 1) body else (.errStack, [])
  | .limit d body => Spec.eval (cur + d) cur body
  | .catch body => (.ok, (Spec.eval lim cur body).2)
  | .setLimit _ => (.ok, [])

end JrsVerif.Stack
