/- C06 — Pratt loop of crates/jrsonnet-ir-parser/src/lib.rs (`expr_bp`, `prefix_binding_power`,
   `infix_binding_power`, `unary_op`, `binary_op`) over the expression fragment
   atoms / parentheses / unary / binary, parameterised by a binding-power table so that the same
   loop runs with the EXTRACTED tables of the IR parser, of the rowan parser and with the table the
   PEG `precedence!` levels denote.  `Spec` side: the Jsonnet operator-precedence table and the
   minimal-parenthesis printer it induces.  Import-free apart from Generated.Prec. -/
import JrsVerif.Generated.Prec

namespace JrsVerif.Pratt
open JrsVerif.Generated

/-- lexer tokens of the fragment (`+`/`-` are `bin Add`/`bin Sub`; they double as prefix operators) -/
inductive Tok where
  | atom (n : Nat)
  | lpar
  | rpar
  | bin (o : BinOp)
  | bang
  | tilde
  deriving DecidableEq, Repr

inductive Ast where
  | atom (n : Nat)
  | un (u : UnOp) (e : Ast)
  | bin (o : BinOp) (l r : Ast)
  deriving DecidableEq, Repr

structure Table where
  inf : BinOp → Nat × Nat
  pref : UnOp → Option Nat

/-- `unary_op(kind)` of the IR parser -/
def unaryOf : Tok → Option UnOp
  | .bin .Add => some .Plus
  | .bin .Sub => some .Minus
  | .bang => some .Not
  | .tilde => some .BitNot
  | _ => none

/-- token of a prefix operator (inverse of `unaryOf`) -/
def unTok : UnOp → Tok
  | .Plus => .bin .Add
  | .Minus => .bin .Sub
  | .Not => .bang
  | .BitNot => .tilde

mutual
/-- `expr_bp(p, min_bp)`; `none` = syntax error (or fuel exhausted) -/
def exprBp (T : Table) : Nat → Nat → List Tok → Option (Ast × List Tok)
  | 0, _, _ => none
  | f + 1, minBp, ts =>
    match ts with
    | [] => none
    | t :: rest =>
      match unaryOf t with
      | some u =>
        match T.pref u with
        | none => none
        | some p =>
          match exprBp T f p rest with
          | none => none
          | some (e, rest') => loop T f minBp (.un u e) rest'
      | none =>
        match t with
        | .atom n => loop T f minBp (.atom n) rest
        | .lpar =>
          match exprBp T f 0 rest with
          | some (e, .rpar :: rest') => loop T f minBp e rest'
          | _ => none
        | _ => none
/-- the `loop { … }` of `expr_bp` with the left operand already parsed -/
def loop (T : Table) : Nat → Nat → Ast → List Tok → Option (Ast × List Tok)
  | 0, _, _, _ => none
  | f + 1, minBp, lhs, ts =>
    match ts with
    | .bin o :: rest =>
      if (T.inf o).1 < minBp then some (lhs, ts)
      else
        match exprBp T f (T.inf o).2 rest with
        | none => none
        | some (rhs, rest') => loop T f minBp (.bin o lhs rhs) rest'
    | _ => some (lhs, ts)
end

/-- `parse`: whole input must be consumed -/
def parse (T : Table) (ts : List Tok) : Option Ast :=
  match exprBp T (2 * ts.length + 1) 0 ts with
  | some (e, []) => some e
  | _ => none

/-! ### tables -/

def irTable : Table := ⟨irInfixBP, irPrefixBP⟩
def rowanTable : Table := ⟨rowanInfixBP, rowanPrefixBP⟩

/-- binding powers denoted by the PEG `precedence!` block: level `L` ↦ 2L+2; `a:(@) op b:@` is
    left-associative (right operand one step tighter), `a:@ op b:(@)` right-associative -/
def pegInfixBP (o : BinOp) : Nat × Nat :=
  let (l, lp, rp) := pegInfix o
  (2 * l + 2 + (if lp then 0 else 1), 2 * l + 2 + (if rp then 0 else 1))
def pegPrefixBP (u : UnOp) : Option Nat := (pegPrefix u).map (fun l => 2 * l + 2)
def pegTable : Table := ⟨pegInfixBP, pegPrefixBP⟩

end JrsVerif.Pratt

/-! ### reference: the Jsonnet grammar -/
namespace JrsVerif.Spec
open JrsVerif.Generated JrsVerif.Pratt

/-- operator precedence of the Jsonnet specification (1 = application/indexing, 2 = unary; a
    smaller number binds tighter; all binary operators are left-associative) -/
def level : BinOp → Nat
  | .Mul | .Div | .Mod => 3
  | .Add | .Sub => 4
  | .Lhs | .Rhs => 5
  | .Lt | .Gt | .Lte | .Gte | .In => 6
  | .Eq | .Neq => 7
  | .BitAnd => 8
  | .BitXor => 9
  | .BitOr => 10
  | .And => 11
  | .Or => 12

/-- grammar level of the top node of a tree: atoms 0, unary 2, binary by `level` -/
def top : Ast → Nat
  | .atom _ => 0
  | .un _ _ => 2
  | .bin o _ _ => level o

def paren (b : Bool) (ts : List Tok) : List Tok := if b then .lpar :: ts ++ [.rpar] else ts

/-- minimal parentheses: a left operand is parenthesised iff it is looser than the operator, a
    right operand iff it is looser or equally tight (left associativity), a unary operand iff it is
    a binary expression -/
def print : Ast → List Tok
  | .atom n => [.atom n]
  | .un u e => unTok u :: paren (decide (top e > 2)) (print e)
  | .bin o l r =>
      paren (decide (top l > level o)) (print l) ++ .bin o :: paren (decide (top r ≥ level o)) (print r)

/-- the grammar as a binding-power table (used by the driver as the reference parser) -/
def table : Table := ⟨fun o => (2 * (13 - level o), 2 * (13 - level o) + 1), fun _ => some 30⟩

end JrsVerif.Spec
