/- C14 — lexical layer of the YAML / TOML / Python / XML / INI writers (Model side).

   Mirrors the code that exists in
     crates/jrsonnet-evaluator/src/manifest.rs   escape_string_json_buf (table ESCAPE), YamlStreamFormat
     crates/jrsonnet-stdlib/src/manifest/toml.rs  bare_allowed, escape_key_toml_buf, escape_string_toml_buf
     crates/jrsonnet-stdlib/src/manifest/yaml.rs  bare_safe, yaml_needs_escape, escape_string_yaml_buf
     crates/jrsonnet-stdlib/src/manifest/xml.rs   escape_string_xml_buf (three contexts)
   Strings are lists of Unicode scalar values (`List Char`).  The Rust escapers work on UTF-8
   bytes; every byte of a non-ASCII character is >= 0x80, and `Props.C14.escape_table_high_half_zero`
   proves that the extracted table does not escape such bytes, so a non-ASCII character is copied
   unchanged; an ASCII character is the single byte that indexes the table.
   Tables, character classes and word lists come from `Generated.Manif` (re-extracted every run). -/
import JrsVerif.Generated.Manif
import JrsVerif.Model.ManifVal

namespace JrsVerif.Manif
open JrsVerif.Generated.Manif JrsVerif.ManifVal

/-! ### character classes as extracted: lists of inclusive code point ranges -/

def inRanges (rs : List (Nat × Nat)) (c : Char) : Bool :=
  rs.any (fun r => r.1 ≤ c.toNat && c.toNat ≤ r.2)

/-! ### `escape_string_json_buf` -/

/-- `ESCAPE[byte]` for the single byte of an ASCII character; non-ASCII characters consist of
    bytes >= 0x80 whose rows are 0 (`escape_table_high_half_zero`) -/
def row (c : Char) : Nat := if c.toNat < 128 then ESCAPE.getD c.toNat 0 else 0

def hexDigit (n : Nat) : Char := HEX_DIGITS.getD n '0'

/-- what one character contributes: itself, `\x` for the short escapes, `\u00XY` for `UU` rows -/
def escChar (c : Char) : List Char :=
  let e := row c
  if e = 0 then [c]
  else if e = UU then ['\\', 'u', '0', '0', hexDigit (c.toNat / 16), hexDigit (c.toNat % 16)]
  else ['\\', Char.ofNat e]

def escBody (s : List Char) : List Char := s.flatMap escChar

/-- `escape_string_json_buf(value, buf)` appends `"` body `"` -/
def escJson (s : List Char) : List Char := '"' :: (escBody s ++ ['"'])

/-! ### TOML -/

/-- `bare_allowed` -/
def bareAllowed (s : List Char) : Bool :=
  (if TOML_BARE_NONEMPTY_GUARD then !s.isEmpty else true) && s.all (inRanges TOML_BARE_CLASS)

/-- `\u{:04x}` of a code point below 0x10000 -/
def u4 (c : Char) : List Char :=
  ['\\', 'u', hexDigit (c.toNat / 4096 % 16), hexDigit (c.toNat / 256 % 16),
   hexDigit (c.toNat / 16 % 16), hexDigit (c.toNat % 16)]

/-- post-pass shared by the TOML and YAML escapers: every character of the JSON-escaped text that
    is in `cls` is replaced by its `\uXXXX` form -/
def reescape (cls : List (Nat × Nat)) (t : List Char) : List Char :=
  t.flatMap (fun c => if inRanges cls c then u4 c else [c])

/-- `escape_string_toml_buf` -/
def escToml (s : List Char) : List Char := reescape TOML_EXTRA_ESCAPE (escJson s)

/-- `escape_key_toml_buf` -/
def tomlKey (k : List Char) : List Char := if bareAllowed k then k else escToml k

/-! ### YAML -/

def lower (c : Char) : Char := if 'A'.toNat ≤ c.toNat ∧ c.toNat ≤ 'Z'.toNat then Char.ofNat (c.toNat + 32) else c

/-- `str::eq_ignore_ascii_case` -/
def eqIgnoreAsciiCase (a b : List Char) : Bool := a.map lower == b.map lower

def isReserved (k : List Char) : Bool := YAML_RESERVED.any (fun r => eqIgnoreAsciiCase k r.toList)

def count (k : List Char) (c : Char) : Nat := (k.filter (· == c)).length
/-- `count_char_u(k, c)`: occurrences of `c` or its ASCII upper case -/
def countU (k : List Char) (c : Char) : Nat :=
  (k.filter (fun v => v == c || v == Char.ofNat (c.toNat - 32))).length

def startsWith (k p : List Char) : Bool := p.isPrefixOf k

/-- UTF-8 length (`str::len`), only used on strings already known to be ASCII here -/
def utf8Len (k : List Char) : Nat :=
  (k.map (fun c => if c.toNat < 0x80 then 1 else if c.toNat < 0x800 then 2 else if c.toNat < 0x10000 then 3 else 4)).sum

/-- `bare_safe`: the if / else-if chain in source order; class `i` is the `i`-th `matches!` -/
def bareSafe (k : List Char) : Bool :=
  if !k.all (inRanges YAML_CLASS_SAFE) then false
  else if isReserved k then false
  else if k.all (inRanges YAML_CLASS_DATE) && count k '-' == 2 then false
  else if k.all (inRanges YAML_CLASS_INT) && count k '-' < 2 then false
  else if k.all (inRanges YAML_CLASS_BIN) && (startsWith k "0b".toList || startsWith k "-0b".toList)
          && utf8Len k > 2 then false
  else if k.all (inRanges YAML_CLASS_FLOAT) && countU k 'e' < 2 && count k '-' < 3 && count k '.' ≤ 1 then false
  else if k.all (inRanges YAML_CLASS_HEX) && utf8Len k ≥ 3 && count k '-' < 2
          && (startsWith k "-0x".toList || startsWith k "0x".toList) then false
  else true

/-- `escape_string_yaml_buf` -/
def escYaml (s : List Char) : List Char := reescape YAML_EXTRA_ESCAPE (escJson s)

/-- key emission of `manifest_yaml_ex_buf` -/
def yamlKey (quoteKeys : Bool) (k : List Char) : List Char :=
  if !quoteKeys && bareSafe k then k else escYaml k

def splitOn (sep : Char) : List Char → List (List Char)
  | [] => [[]]
  | c :: rest =>
    if c = sep then [] :: splitOn sep rest
    else match splitOn sep rest with
      | [] => [[c]]
      | h :: t => (c :: h) :: t

def stripSuffixNl (s : List Char) : Option (List Char) :=
  match s.reverse with
  | '\n' :: r => some r.reverse
  | _ => none

/-- the `Val::Str` arm of `manifest_yaml_ex_buf` (`pad` = cur_padding ++ options.padding) -/
def yamlStr (quoteValues : Bool) (pad : List Char) (s : List Char) : List Char :=
  if s.isEmpty then "\"\"".toList
  else match stripSuffixNl s with
    | some s' => '|' :: (splitOn '\n' s').flatMap (fun l => '\n' :: (pad ++ l))
    | none =>
      if s.contains '\n' then "|-".toList ++ (splitOn '\n' s).flatMap (fun l => '\n' :: (pad ++ l))
      else if !quoteValues && bareSafe s then s
      else escYaml s

/-- the `for (i, v) in arr.iter().enumerate()` loop of `YamlStreamFormat::manifest_buf` over the
    already manifested documents -/
def streamGo : Nat → List (List Char) → List Char
  | _, [] => []
  | i, d :: rest => (if i != 0 then ['\n'] else []) ++ ("---\n".toList ++ (d ++ streamGo (i + 1) rest))

/-- `YamlStreamFormat::manifest_buf` -/
def yamlStream (cDocumentEnd endNewline : Bool) (docs : List (List Char)) : List Char :=
  streamGo 0 docs ++ ((if cDocumentEnd then "\n...".toList else []) ++ (if endNewline then ['\n'] else []))

/-! ### XML -/

/-- context of `escape_string_xml_buf`: 0 = std.escapeStringXml, 1 = character data, 2 = attribute value -/
def xmlEscChar (ctx : Nat) (c : Char) : List Char :=
  match XML_ESCAPES.find? (fun e => e.1 == c.toNat && e.2.1 ≤ ctx) with
  | some e => e.2.2.toList
  | none => [c]

def escXml (ctx : Nat) (s : List Char) : List Char := s.flatMap (xmlEscChar ctx)

/-! ### Python -/

/-- `Val::Str` arm and field names of `PythonFormat` -/
def pyStr (s : List Char) : List Char := escJson s

/-! ### which values each writer accepts (where the code `bail!`s or a typed conversion fails) -/

mutual
/-- `p` holds at every node the recursive writers visit (they visit all of them) -/
def allNodes (p : V → Bool) : V → Bool
  | .arr xs => p (.arr xs) && allList p xs
  | .obj kvs => p (.obj kvs) && allFields p kvs
  | .null => p .null
  | .bool b => p (.bool b)
  | .num t => p (.num t)
  | .str s => p (.str s)
  | .func => p .func
def allList (p : V → Bool) : List V → Bool
  | [] => true
  | x :: xs => allNodes p x && allList p xs
def allFields (p : V → Bool) : List (List Char × V) → Bool
  | [] => true
  | kv :: r => allNodes p kv.2 && allFields p r
end

/-- `Val::Func(_) => bail!("tried to manifest function")` is the only failing arm of the JSON,
    YAML and Python writers and of `ToStringFormat` -/
def noFunc (v : V) : Bool := allNodes (fun x => !x.isFunc) v

/-- TOML: `manifest_value` additionally bails on `Val::Null`; both the section path and the value
    path reach every node -/
def noFuncNull (v : V) : Bool := allNodes (fun x => !x.isFunc && !x.isNull) v

mutual
/-- `JSONMLValue::from_untyped` followed by `manifest_jsonml` -/
def jsonmlOk : V → Bool
  | .str _ => true
  | .arr (.str _ :: .obj attrs :: kids) => allFields (fun x => !x.isFunc) attrs && jsonmlKids kids
  | .arr (.str _ :: kids) => jsonmlKids kids
  | _ => false
def jsonmlKids : List V → Bool
  | [] => true
  | k :: ks => jsonmlOk k && jsonmlKids ks
end

def lookup (k : List Char) : List (List Char × V) → Option V
  | [] => none
  | kv :: r => if kv.1 = k then some kv.2 else lookup k r

def iniBodyOk (v : V) : Bool :=
  match v with
  | .obj b => allFields (fun x => !x.isFunc) b
  | _ => false

def iniSectionsOk : List (List Char × V) → Bool
  | [] => true
  | kv :: r => iniBodyOk kv.2 && iniSectionsOk r

/-- `IniObj::from_untyped` (`main: Option<ObjValue>`, `sections: BTreeMap<IStr, ObjValue>`) + `manifest_ini_obj` -/
def iniOk : V → Bool
  | .obj kvs =>
    (match lookup "main".toList kvs with
     | none => true
     | some m => iniBodyOk m) &&
    (match lookup "sections".toList kvs with
     | some (.obj ss) => iniSectionsOk ss
     | _ => false)
  | _ => false

inductive Fmt | yaml | yamlStream | toml | python | pyvars | xml | ini
  deriving DecidableEq

def accepts : Fmt → V → Bool
  | .yaml, v => noFunc v
  | .yamlStream, .arr xs => allList (fun x => !x.isFunc) xs
  | .yamlStream, _ => false
  | .toml, .obj kvs => noFuncNull (.obj kvs)
  | .toml, _ => false
  | .python, v => noFunc v
  | .pyvars, .obj kvs => noFunc (.obj kvs)
  | .pyvars, _ => false
  | .xml, v => jsonmlOk v
  | .ini, v => iniOk v

end JrsVerif.Manif
