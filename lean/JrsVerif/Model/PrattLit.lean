/- C06 — literal decoders that are not escapes: NUMBER literals and VERBATIM strings.

   `Lit` side mirrors the code that exists:
     * the four number regexes of crates/jrsonnet-lexer/src/generated/syntax_kinds.rs (FLOAT and the three
       ERROR_FLOAT_JUNK_* kinds) as prefix matchers, combined by logos' rule "longest match wins";
     * `parse_number` of crates/jrsonnet-ir-parser/src/lib.rs: `text.replace('_', "").parse::<f64>()`, with
       the GRAMMAR of Rust's `f64::from_str` (core::num::dec2flt::parse) producing an exact decimal
       `mantissa · 10^exponent` (the rounding to a double is a separate, unproved reference function
       `decToBits` used only by the differential run);
     * the PEG rule `number` of crates/jrsonnet-peg-parser/src/lib.rs (ordered choice, greedy repetition,
       negative look-aheads);
     * the verbatim-string regexes, `inner.replace("\"\"", "\"")` and the PEG alternative of `string`.
   `Spec` side: the number grammar of the Jsonnet language as a STRUCTURE (digit groups / fraction /
   exponent) with its rendering and its value; verbatim strings as "content with every quote doubled".
   The characters that occur in the source rules are EXTRACTED (Generated.Prec: lexNum*, pegNum*, irNumStrip,
   verb*).  Strings are lists of code points.  Import-free apart from Generated.Prec. -/
import JrsVerif.Generated.Prec

namespace JrsVerif.Lit
open JrsVerif.Generated

/-- `[0-9]` -/
def isDigit (c : Nat) : Bool := 48 ≤ c && c ≤ 57
/-- `[1-9]` -/
def isNz (c : Nat) : Bool := 49 ≤ c && c ≤ 57

/-- `[0-9]*` — what is left after the longest run of digits -/
def dropDigits : List Nat → List Nat
  | [] => []
  | c :: r => if isDigit c then dropDigits r else c :: r

theorem dropDigits_length_le (s : List Nat) : (dropDigits s).length ≤ s.length := by
  induction s with
  | nil => simp [dropDigits]
  | cons c r ih => unfold dropDigits; split <;> simp <;> omega

/-- `(?:_[0-9]+)*` with separator `sep` — what is left after the longest match -/
def dropGroups (sep : Nat) (s : List Nat) : List Nat :=
  match s with
  | c :: d :: r => if c = sep ∧ isDigit d then dropGroups sep (dropDigits r) else s
  | _ => s
termination_by s.length
decreasing_by
  have := dropDigits_length_le r
  simp only [List.length_cons]; omega

/-- `[0-9]+(?:_[0-9]+)*` (PEG `uint_str`, and the digit part of fraction and exponent) -/
def uintRest (sep : Nat) : List Nat → Option (List Nat)
  | d :: r => if isDigit d then some (dropGroups sep (dropDigits r)) else none
  | [] => none

/-- `(?:0|[1-9][0-9]*(?:_[0-9]+)*)` -/
def intRest (sep : Nat) : List Nat → Option (List Nat)
  | c :: r => if c = 48 then some r else if isNz c then some (dropGroups sep (dropDigits r)) else none
  | [] => none

/-- `(?:\.[0-9]+(?:_[0-9]+)*)` -/
def fracRest (sep point : Nat) : List Nat → Option (List Nat)
  | c :: r => if c = point then uintRest sep r else none
  | [] => none

/-- `(?:[eE][+-]?[0-9]+(?:_[0-9]+)*)` -/
def expRest (sep : Nat) (letters signs : List Nat) : List Nat → Option (List Nat)
  | c :: r =>
    if letters.contains c then
      match r with
      | s :: t => if signs.contains s then uintRest sep t else uintRest sep r
      | [] => none
    else none
  | [] => none

/-- optional component: take it when it matches (longest match) -/
def opt (f : List Nat → Option (List Nat)) (s : List Nat) : List Nat := (f s).getD s

inductive NumKind where
  | float | junkPoint | junkExp | junkExpSign
  deriving DecidableEq, Repr

/-! #### the lexer's four regexes, each as "length of the longest matching prefix" -/

/-- rest after `int frac?` (common prefix of three of the regexes) -/
def intFracRest (s : List Nat) : Option (List Nat) :=
  (intRest lexNumSep s).map (opt (fracRest lexNumSep lexNumPoint))

/-- FLOAT -/
def floatLen (s : List Nat) : Option Nat :=
  (intFracRest s).map (fun r => s.length - (opt (expRest lexNumSep lexNumExp lexNumSign) r).length)

/-- ERROR_FLOAT_JUNK_AFTER_POINT: `int \. [^0-9]` -/
def junkPointLen (s : List Nat) : Option Nat :=
  match intRest lexNumSep s with
  | some (p :: c :: r) => if p = lexNumPoint ∧ !isDigit c then some (s.length - r.length) else none
  | _ => none

/-- ERROR_FLOAT_JUNK_AFTER_EXPONENT: `int frac? [eE] [^+\-0-9]` -/
def junkExpLen (s : List Nat) : Option Nat :=
  match intFracRest s with
  | some (e :: c :: r) =>
    if lexNumExp.contains e ∧ !lexNumSign.contains c ∧ !isDigit c then some (s.length - r.length) else none
  | _ => none

/-- ERROR_FLOAT_JUNK_AFTER_EXPONENT_SIGN: `int frac? [eE] [+-] [^0-9]` -/
def junkExpSignLen (s : List Nat) : Option Nat :=
  match intFracRest s with
  | some (e :: g :: c :: r) =>
    if lexNumExp.contains e ∧ lexNumSign.contains g ∧ !isDigit c then some (s.length - r.length) else none
  | _ => none

/-- the FLOAT lexeme's length, nothing for the error kinds -/
def floatOnly : Option (NumKind × Nat) → Option Nat
  | some (.float, n) => some n
  | _ => none

/-- logos: the longest match wins (FLOAT is listed first and wins ties) -/
def better (a b : Option (NumKind × Nat)) : Option (NumKind × Nat) :=
  match a, b with
  | some (k, n), some (k', n') => if n' > n then some (k', n') else some (k, n)
  | some x, none => some x
  | none, y => y

/-- kind and length (in characters) of the lexeme at the head of a text that starts with a digit -/
def lexNum (s : List Nat) : Option (NumKind × Nat) :=
  better (better (better ((floatLen s).map (.float, ·)) ((junkPointLen s).map (.junkPoint, ·)))
    ((junkExpLen s).map (.junkExp, ·))) ((junkExpSignLen s).map (.junkExpSign, ·))

/-! #### `str::parse::<f64>` (grammar only) and `parse_number` -/

inductive F64Lit where
  /-- `(-1)^neg · m · 10^e` -/
  | dec (neg : Bool) (m : Nat) (e : Int)
  | inf (neg : Bool)
  | nan
  deriving DecidableEq, Repr

/-- decimal value of a digit string -/
def digitsVal (ds : List Nat) : Nat := ds.foldl (fun acc c => acc * 10 + (c - 48)) 0

def takeDigits : List Nat → List Nat
  | [] => []
  | c :: r => if isDigit c then c :: takeDigits r else []

def lower (c : Nat) : Nat := if 65 ≤ c ∧ c ≤ 90 then c + 32 else c

/-- optional sign: (negative, rest) -/
def splitSign : List Nat → Bool × List Nat
  | 45 :: t => (true, t)
  | 43 :: t => (false, t)
  | s => (false, s)

/-- `parse_scientific` and the end-of-input test: the decimal exponent written after the mantissa
    (`none` = not a float) -/
def rustExp : List Nat → Option Int
  | [] => some 0
  | c :: r =>
    if c = 101 ∨ c = 69 then
      let er := splitSign r
      let ed := takeDigits er.2
      if ed.length = 0 ∨ dropDigits er.2 ≠ [] then none
      else some (if er.1 then - (digitsVal ed : Int) else (digitsVal ed : Int))
    else none

/-- mantissa digits: integer digits, then after a `.` the fraction digits; (int, frac, rest) -/
def rustMantissa (s : List Nat) : List Nat × List Nat × List Nat :=
  let ip := takeDigits s
  match dropDigits s with
  | 46 :: r => (ip, takeDigits r, dropDigits r)
  | s1 => (ip, [], s1)

/-- unsigned decimal part of dec2flt's grammar -/
def rustDec (neg : Bool) (s : List Nat) : Option F64Lit :=
  let (ip, fp, s2) := rustMantissa s
  if ip.length + fp.length = 0 then none
  else (rustExp s2).map (fun ev => .dec neg (digitsVal (ip ++ fp)) (ev - (fp.length : Int)))

/-- core::num::dec2flt: optional sign; `inf`/`infinity`/`nan` in any case; else digits, optional
    `.digits`, at least one digit in total, optional `e|E [+-] digits` with at least one digit; the
    whole input must be consumed -/
def rustParseF64 (s : List Nat) : Option F64Lit :=
  let ns := splitSign s
  let w := ns.2.map lower
  if w = [105, 110, 102] ∨ w = [105, 110, 102, 105, 110, 105, 116, 121] then some (.inf ns.1)
  else if w = [110, 97, 110] then some .nan
  else rustDec ns.1 ns.2

/-- `text.replace('_', "")` -/
def stripSep (c : Nat) (s : List Nat) : List Nat := s.filter (· != c)

/-- `parse_number` of the IR parser on the text of a FLOAT lexeme (`none` = "invalid number literal") -/
def irNumber (text : List Nat) : Option F64Lit := rustParseF64 (stripSep irNumStrip text)

/-- the IR parser on a text that is ONE number lexeme: its value, or `none` when the text is not
    exactly one FLOAT lexeme (error kind, shorter lexeme, not a number at all) -/
def irWhole (s : List Nat) : Option F64Lit :=
  match lexNum s with
  | some (.float, n) => if n = s.length then irNumber s else none
  | _ => none

/-! #### PEG `number` -/

/-- `exp()  = ['e'|'E'] ['+'|'-']? uint_str()` -/
def pegExp : List Nat → Option (List Nat) := expRest pegNumSep pegNumExp pegNumSign

/-- `exp_junk() = ['e'|'E'] ['+'|'-']? !digit() [_]` (only present when `pegNumJunkGuard`) -/
def pegExpJunk : List Nat → Bool
  | e :: r =>
    pegNumExp.contains e &&
      (match r with
       | g :: t =>
         if pegNumSign.contains g then (match t with | c :: _ => !isDigit c | [] => false)
         else !isDigit g
       | [] => false)
  | [] => false

/-- `"." !digit() [_]` -/
def pegPointJunk : List Nat → Bool
  | p :: c :: _ => p = pegNumPoint && !isDigit c
  | _ => false

/-- integer part: `int_str()` = `"0" / ['1'..='9'] digit()* ("_" digit()+)*` when `pegNumIntStrict`,
    the older `uint_str()` otherwise -/
def pegInt (s : List Nat) : Option (List Nat) :=
  if pegNumIntStrict then intRest pegNumSep s else uintRest pegNumSep s

/-- `("." uint_str() / !("." !digit() [_]))` -/
def pegFracStep (r1 : List Nat) : Option (List Nat) :=
  match fracRest pegNumSep pegNumPoint r1 with
  | some r => some r
  | none => if pegNumJunkGuard && pegPointJunk r1 then none else some r1

/-- `(exp_str() / !exp_junk())` -/
def pegExpStep (r2 : List Nat) : Option (List Nat) :=
  match pegExp r2 with
  | some r => some r
  | none => if pegNumJunkGuard && pegExpJunk r2 then none else some r2

/-- rest after the text matched by `number()`; `none` = the rule fails -/
def pegNumRest (s : List Nat) : Option (List Nat) :=
  (pegInt s).bind (fun r1 => (pegFracStep r1).bind pegExpStep)

/-- length of the text matched by PEG `number()` -/
def pegNumLen (s : List Nat) : Option Nat := (pegNumRest s).map (fun r => s.length - r.length)

/-- value produced by the rule's action (`a.replace("_","").parse()`) -/
def pegNumber (s : List Nat) : Option (F64Lit × List Nat) :=
  match pegNumRest s with
  | none => none
  | some r => (rustParseF64 (stripSep pegNumStrip (s.take (s.length - r.length)))).map (·, r)

/-! #### decimal → IEEE double (reference rounding; used by the differential run only) -/

def pow10 (n : Nat) : Nat := 10 ^ n

/-- number of decimal digits of `m` (0 for 0) -/
def decLen (m : Nat) : Nat := if m = 0 then 0 else (Nat.toDigits 10 m).length

/-- bits of the double nearest to `m · 10^e` (ties to even); `none` = overflows to infinity -/
def decToBits (m : Nat) (e : Int) : Option Nat :=
  if m = 0 then some 0
  else if e + (decLen m : Int) > 400 then none
  else if e + (decLen m : Int) < -400 then some 0
  else
    let num := if e ≥ 0 then m * pow10 e.toNat else m
    let den := if e ≥ 0 then 1 else pow10 (-e).toNat
    -- k with 2^52 ≤ num / den / 2^k < 2^53 (before clamping to the subnormal exponent)
    let k0 : Int := (Nat.log2 num : Int) - (Nat.log2 den : Int) - 52
    let quo (k : Int) : Nat × Nat × Nat :=   -- (quotient, remainder, divisor)
      if k ≥ 0 then (num / (den * 2 ^ k.toNat), num % (den * 2 ^ k.toNat), den * 2 ^ k.toNat)
      else ((num * 2 ^ (-k).toNat) / den, (num * 2 ^ (-k).toNat) % den, den)
    let k1 : Int := if (quo k0).1 ≥ 2 ^ 53 then k0 + 1 else if (quo k0).1 < 2 ^ 52 then k0 - 1 else k0
    let k : Int := if k1 < -1074 then -1074 else k1
    let (q, r, d) := quo k
    let q' := if 2 * r > d ∨ (2 * r = d ∧ q % 2 = 1) then q + 1 else q
    let (q'', k') : Nat × Int := if q' = 2 ^ 53 then (2 ^ 52, k + 1) else (q', k)
    if q'' < 2 ^ 52 then some q''
    else if k' + 1075 ≥ 2047 then none
    else some ((k' + 1075).toNat * 2 ^ 52 + (q'' - 2 ^ 52))

/-! #### verbatim strings -/

/-- rest after `(?:[^q]|qq)*` followed by the closing `q`: `some rest` = terminated,
    `none` = end of input reached (the ERROR_*_UNTERMINATED kind wins the longest match) -/
def verbRest (q : Nat) : List Nat → Option (List Nat)
  | [] => none
  | c :: r =>
    if c = q then
      match r with
      | c' :: r' => if c' = q then verbRest q r' else some r
      | [] => some r
    else verbRest q r

/-- `inner.replace("qq", "q")` (left to right, non-overlapping) -/
def replace2 (q : Nat) : List Nat → List Nat
  | [] => []
  | [c] => [c]
  | c :: c' :: r => if c = q ∧ c' = q then q :: replace2 q r else c :: replace2 q (c' :: r)

/-- the lexer's STRING_*_VERBATIM token at the head of `s` and `parse_string_content` on it:
    (decoded content, rest) -/
def irVerbatim (q : Nat) (s : List Nat) : Option (List Nat × List Nat) :=
  match s with
  | a :: b :: body =>
    if a = verbAt ∧ b = q then
      match verbRest q body with
      | none => none
      | some rest =>
        let text := s.take (s.length - rest.length)
        -- `&text[2..text.len() - 1]`
        let inner := (text.drop 2).take (text.length - 3)
        some (replace2 q inner, rest)
    else none
  | _ => none

/-- PEG: `"@q" str:$(("qq" / (![q][_]))*) "q" {str.replace("qq", "q")}` -/
def pegVerbBody (q : Nat) : List Nat → List Nat × List Nat
  | [] => ([], [])
  | c :: r =>
    if c = q then
      match r with
      | c' :: r' =>
        if c' = q then let (b, rest) := pegVerbBody q r'; (q :: q :: b, rest) else ([], c :: r)
      | [] => ([], c :: r)
    else let (b, rest) := pegVerbBody q r; (c :: b, rest)

def pegVerbatim (q : Nat) (s : List Nat) : Option (List Nat × List Nat) :=
  match s with
  | a :: b :: body =>
    if a = verbAt ∧ b = q then
      match pegVerbBody q body with
      | (inner, c :: rest) => if c = q then some (replace2 q inner, rest) else none
      | (_, []) => none
    else none
  | _ => none

end JrsVerif.Lit

/-! ### reference: the number and verbatim-string grammar of the language -/
namespace JrsVerif.Spec
open JrsVerif.Lit

/-- `digit+ ('_' digit+)*` as its digit groups -/
structure Groups where
  first : List Nat
  more : List (List Nat)
  deriving Repr

def allDigits (ds : List Nat) : Prop := ∀ c ∈ ds, isDigit c = true

def Groups.WF (g : Groups) : Prop :=
  g.first ≠ [] ∧ allDigits g.first ∧ ∀ d ∈ g.more, d ≠ [] ∧ allDigits d

def Groups.render (g : Groups) : List Nat := g.first ++ (g.more.map (fun d => 95 :: d)).flatten
def Groups.digits (g : Groups) : List Nat := g.first ++ g.more.flatten

/-- number literal: integer part, optional fraction, optional exponent (letter, optional sign, digits) -/
structure NumLit where
  int : Groups
  frac : Option Groups
  exp : Option (Nat × Option Nat × Groups)
  deriving Repr

/-- JSON's rule for the integer part: `0`, or a non-zero first digit -/
def intOk (g : Groups) : Prop :=
  (g.first = [48] ∧ g.more = []) ∨ (∃ c r, g.first = c :: r ∧ isNz c = true)

def NumLit.WF (n : NumLit) : Prop :=
  n.int.WF ∧ intOk n.int ∧ (∀ f, n.frac = some f → f.WF) ∧
  (∀ l s g, n.exp = some (l, s, g) → (l = 101 ∨ l = 69) ∧ (∀ c, s = some c → c = 43 ∨ c = 45) ∧ g.WF)

def fracRender : Option Groups → List Nat
  | none => []
  | some f => 46 :: f.render

def expRender : Option (Nat × Option Nat × Groups) → List Nat
  | none => []
  | some (l, none, g) => l :: g.render
  | some (l, some s, g) => l :: s :: g.render

def NumLit.render (n : NumLit) : List Nat := n.int.render ++ fracRender n.frac ++ expRender n.exp

def fracDigits : Option Groups → List Nat
  | none => []
  | some f => f.digits

def expValue : Option (Nat × Option Nat × Groups) → Int
  | none => 0
  | some (_, s, g) => if s = some 45 then - (digitsVal g.digits : Int) else (digitsVal g.digits : Int)

/-- the value a number literal denotes: `mantissa · 10^exponent` -/
def NumLit.mantissa (n : NumLit) : Nat := digitsVal (n.int.digits ++ fracDigits n.frac)
def NumLit.exponent (n : NumLit) : Int := expValue n.exp - ((fracDigits n.frac).length : Int)

/-- a following text does not continue (or spoil) a number literal -/
def NumStop (rest : List Nat) : Prop :=
  ∀ c, rest.head? = some c → isDigit c = false ∧ c ≠ 95 ∧ c ≠ 46 ∧ c ≠ 101 ∧ c ≠ 69

/-- verbatim string with quote `q`: `@q`, the content with every `q` doubled, `q` -/
def verbBody (q : Nat) : List Nat → List Nat
  | [] => []
  | c :: r => if c = q then q :: q :: verbBody q r else c :: verbBody q r

def verbRender (q : Nat) (content : List Nat) : List Nat := 64 :: q :: verbBody q content ++ [q]

end JrsVerif.Spec
