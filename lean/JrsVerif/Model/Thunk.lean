/-
  Model of the memo cell shared by `MemoizedClosureThunk::get` (val.rs), `ExprArray::get`,
  `MappedArray::get` (arr/spec.rs, `ArrayThunk`) and the object `value_cache`
  (`CacheValue::{Pending,Cached}`, obj/mod.rs): a four-state automaton
  `waiting → pending → computed | errored`, driven by `get` calls that may be re-entrant (the
  closure itself calls `get` on the same cell while it is pending).

  Import-free.
-/
namespace JrsVerif.Thunk

inductive Res where
  | ok (v : Nat)
  | err (e : Nat)
  | infrec                   -- `InfiniteRecursionDetected`
  deriving Repr, DecidableEq, Inhabited

inductive St where
  | waiting | pending | computed (v : Nat) | errored (e : Res)
  deriving Repr, DecidableEq, Inhabited

/-- events of a (possibly re-entrant) history on one cell -/
inductive Ev where
  | get                      -- entry into `get()`
  | ret (r : Res)            -- the closure started by an earlier `get` finishes with `r`
  deriving Repr, DecidableEq, Inhabited

/-- what an event produces: an immediate answer, the start of the closure, the completion of the
    outstanding `get`, or a protocol violation (a `ret` with no closure running = `unreachable!`) -/
inductive Out where
  | answer (r : Res)
  | started
  | completed (r : Res)
  | bad
  deriving Repr, DecidableEq, Inhabited

def step : St → Ev → St × Out
  | .computed v, .get => (.computed v, .answer (.ok v))
  | .errored e, .get => (.errored e, .answer e)
  | .pending, .get => (.pending, .answer .infrec)
  | .waiting, .get => (.pending, .started)
  | .pending, .ret (.ok v) => (.computed v, .completed (.ok v))
  | .pending, .ret r => (.errored r, .completed r)
  | s, .ret _ => (s, .bad)

/-- run a history, counting closure starts -/
def run : St → List Ev → St × List Out
  | s, [] => (s, [])
  | s, e :: es =>
    let (s', o) := step s e
    let (s'', os) := run s' es
    (s'', o :: os)

def starts (os : List Out) : Nat := (os.filter (· == .started)).length

/-- the final result stored in a state -/
def final? : St → Option Res
  | .computed v => some (.ok v)
  | .errored e => some e
  | _ => none

/-! ### Keyed cells: arrays (`Vec<ArrayThunk>`, key = index) and the object cache
    (key = (field name, start layer)) -/

abbrev Cells (κ : Type) := κ → St

def stepK {κ : Type} [DecidableEq κ] (c : Cells κ) (k : κ) (e : Ev) : Cells κ × Out :=
  let (s', o) := step (c k) e
  (fun k' => if k' = k then s' else c k', o)

def runK {κ : Type} [DecidableEq κ] : Cells κ → List (κ × Ev) → Cells κ × List (κ × Out)
  | c, [] => (c, [])
  | c, (k, e) :: es =>
    let (c', o) := stepK c k e
    let (c'', os) := runK c' es
    (c'', (k, o) :: os)

/-! ### A scripted closure, as the harness drives the real `MemoizedClosureThunk`:
    the closure re-enters `get` on its own cell `reenters` times (each answer is recorded), then
    returns `final`. -/

structure Script where
  reenters : Nat
  final : Res
  deriving Repr, DecidableEq, Inhabited

/-- one top-level `get()` call on a cell whose closure follows `sc`; returns the answer, the
    answers the closure saw on re-entry, and whether the closure ran -/
def getScripted (s : St) (sc : Script) : St × Res × List Res × Bool :=
  match s with
  | .computed v => (s, .ok v, [], false)
  | .errored e => (s, e, [], false)
  | .pending => (s, .infrec, [], false)
  | .waiting =>
    let inner := List.replicate sc.reenters Res.infrec      -- every re-entry sees `pending`
    match sc.final with
    | .ok v => (.computed v, .ok v, inner, true)
    | r => (.errored r, r, inner, true)

end JrsVerif.Thunk
