/-
  Model of `crates/jrsonnet-evaluator/src/stdlib/format.rs` (std.format / `str % vals`):
  `parse_codes`/`parse_code`/`try_parse_*`, `render_integer` and its decimal/octal/hex wrappers,
  `render_float`/`render_float_sci`, `format_code`, `format_arr`, `format_obj`, `get_dotted_field`,
  and `std_format`'s array / object / single-value dispatch.

  Import-free (core Lean + Generated tables) so that the driver links.

  * format strings are `List Char`: every byte the Rust parser inspects is ASCII, and it only slices
    at positions just after an ASCII byte, so byte-wise and character-wise parsing coincide.
  * `u16` quantities are `Nat`s; every `u16` operation of the source that can overflow is guarded
    and yields `Err.panic` (the harness is built with overflow checks), saturating subtraction is
    `Nat` subtraction.
  * a number is its exact value: `Num.mag` = |value| · 2^1074 (every finite double is an integer
    multiple of 2^-1074).
  * double → decimal digit generation is delegated by the code to Rust's float formatting
    (`format!("{:.*}", precision, n.abs())`, `format!("{:.*e}", precision, n.abs())`, i.e.
    core::fmt::float / flt2dec).  That library code is NOT modelled: its answers are PARAMETERS of
    the model (`Num.rfix`, `Num.rsci` : precision ↦ returned text).  What the code does with the
    returned text (split at `.` / `e`, exponent parse, sign, padding, stripping) is modelled.
    The assumption under which the float theorems hold — the text is the exact decimal expansion
    of the double, correctly rounded half-even — is `RustFmtExact` (Proofs/FormatFloat.lean) and is
    validated against the exact reference `FormatSpec.rustFixed/rustSci` by the harness.
    The integer conversions need no parameter.
-/
import JrsVerif.Generated.FormatTable

namespace JrsVerif.Format
open JrsVerif.Generated

/-- `CFlags` -/
structure Flags where
  alt : Bool := false
  zero : Bool := false
  left : Bool := false
  blank : Bool := false
  sign : Bool := false
  deriving Repr, DecidableEq, Inhabited

/-- `Width` (`Fixed(u16)`) -/
inductive Width where
  | star
  | fixed (n : Nat)
  deriving Repr, DecidableEq, Inhabited

/-- `ConvTypeV` -/
inductive Conv where
  | dec | oct | hex | sci | flt | shorter | chr | str | pct
  deriving Repr, DecidableEq, Inhabited

/-- `Code` -/
structure Code where
  mkey : List Char
  flags : Flags
  width : Width
  prec : Option Width
  conv : Conv
  caps : Bool
  deriving Repr, DecidableEq, Inhabited

/-- `Element` -/
inductive Elem where
  | lit (s : List Char)
  | code (c : Code)
  deriving Repr, DecidableEq, Inhabited

/-- error classes (the harness maps `ErrorKind`s to the same names) -/
inductive Err where
  | truncated      -- FormatError::TruncatedFormatCode
  | unknownConv    -- FormatError::UnrecognizedConversionType
  | tooLarge       -- FormatError::FieldWidthTooLarge (also: float precision above 308)
  | notEnough      -- FormatError::NotEnoughValues
  | tooMany        -- "too many values to format"
  | starObj        -- FormatError::CannotUseStarWidthWithObject
  | keysRequired   -- FormatError::MappingKeysRequired
  | noField        -- SubfieldNotFound
  | notObj         -- SubfieldDidntYieldAnObject
  | type           -- TypeError / fractional `*` / %c of a wrong-length string
  | codepoint      -- InvalidUnicodeCodepointGot
  | panic          -- a Rust panic site
  deriving Repr, DecidableEq, Inhabited

def Err.name : Err → String
  | .truncated => "truncated" | .unknownConv => "unknownConv" | .tooLarge => "tooLarge"
  | .notEnough => "notEnough" | .tooMany => "tooMany" | .starObj => "starObj"
  | .keysRequired => "keysRequired" | .noField => "noField" | .notObj => "notObj"
  | .type => "type" | .codepoint => "codepoint" | .panic => "panic"

abbrev R (α : Type) := Except Err α

def U16_MAX : Nat := 65535
def I64_MAX : Nat := 9223372036854775807

/-! ## parser -/

/-- scan for `)` (the `while i < bytes.len()` loop of `try_parse_mapping_key`) -/
def scanKey : List Char → List Char → Option (List Char × List Char)
  | _, [] => none
  | acc, c :: cs => if c = ')' then some (acc.reverse, cs) else scanKey (c :: acc) cs

def parseKey : List Char → R (List Char × List Char)
  | [] => .error .truncated
  | c :: cs =>
    if c = '(' then
      match scanKey [] cs with
      | some r => .ok r
      | none => .error .truncated
    else .ok ([], c :: cs)

def flagIndex (c : Char) : Option Nat := FMT_FLAG_TABLE.lookup c

def setFlag (f : Flags) : Nat → Flags
  | 0 => { f with alt := true }
  | 1 => { f with zero := true }
  | 2 => { f with left := true }
  | 3 => { f with blank := true }
  | _ => { f with sign := true }

/-- the `loop` of `try_parse_cflags` -/
def parseFlags : Flags → List Char → R (Flags × List Char)
  | _, [] => .error .truncated
  | f, c :: cs =>
    match flagIndex c with
    | some i => parseFlags (setFlag f i) cs
    | none => .ok (f, c :: cs)

def digitVal (c : Char) : Option Nat :=
  if '0' ≤ c ∧ c ≤ '9' then some (c.toNat - 48) else none

/-- the `while let Some(digit)` loop of `try_parse_field_width` with checked `u16` arithmetic -/
def parseDigits : Nat → List Char → R (Nat × List Char)
  | _, [] => .error .truncated
  | acc, c :: cs =>
    match digitVal c with
    | some d =>
      if acc * 10 + d > U16_MAX then .error .tooLarge
      else parseDigits (acc * 10 + d) cs
    | none => .ok (acc, c :: cs)

def parseWidth : List Char → R (Width × List Char)
  | [] => .error .truncated
  | c :: cs =>
    if c = '*' then .ok (.star, cs)
    else do
      let (n, r) ← parseDigits 0 (c :: cs)
      pure (.fixed n, r)

def parsePrec : List Char → R (Option Width × List Char)
  | [] => .error .truncated
  | c :: cs =>
    if c = '.' then do
      let (w, r) ← parseWidth cs
      pure (some w, r)
    else .ok (none, c :: cs)

def parseLenMod : List Char → R (List Char)
  | [] => .error .truncated
  | c :: cs => if FMT_LENMOD.contains c then parseLenMod cs else .ok (c :: cs)

def convOfName : String → Option Conv
  | "dec" => some .dec | "oct" => some .oct | "hex" => some .hex | "sci" => some .sci
  | "flt" => some .flt | "shorter" => some .shorter | "chr" => some .chr | "str" => some .str
  | "pct" => some .pct | _ => none

def convOf (c : Char) : Option (Conv × Bool) :=
  match FMT_CONV_TABLE.lookup c with
  | some (name, caps) => (convOfName name).map (fun v => (v, caps))
  | none => none

def parseConv : List Char → R ((Conv × Bool) × List Char)
  | [] => .error .truncated
  | c :: cs =>
    match convOf c with
    | some v => .ok (v, cs)
    | none => .error .unknownConv

/-- `parse_code` (the text after `%`) -/
def parseCode (s : List Char) : R (Code × List Char) := do
  let (mkey, s) ← parseKey s
  let (flags, s) ← parseFlags {} s
  let (width, s) ← parseWidth s
  let (prec, s) ← parsePrec s
  let s ← parseLenMod s
  let ((conv, caps), s) ← parseConv s
  pure ({ mkey, flags, width, prec, conv, caps }, s)

/-- split at the first `%` (the inner `while` of `parse_codes`) -/
def spanLit : List Char → List Char × List Char
  | [] => ([], [])
  | c :: cs => if c = '%' then ([], c :: cs) else let (a, b) := spanLit cs; (c :: a, b)

/-- `parse_codes`; fuel = an upper bound on the number of loop iterations -/
def parseCodesF : Nat → List Char → R (List Elem)
  | 0, _ => .ok []
  | fuel + 1, s =>
    let (lit, rest) := spanLit s
    let pre := if lit.isEmpty then [] else [Elem.lit lit]
    match rest with
    | [] => .ok pre
    | _ :: r => do
      let (c, r') ← parseCode r
      let es ← parseCodesF fuel r'
      pure (pre ++ Elem.code c :: es)

def parseCodes (s : List Char) : R (List Elem) := parseCodesF (s.length + 1) s

/-! ## values -/

/-- decimal digit data of one number at one precision `q`: the integer part and the `q`-digit
    fraction (as a number below 10^q) -/
structure FDig where
  whole : Nat
  frac : Nat
  deriving Repr, DecidableEq, Inhabited

/-- 2^1074: every finite double is an integer multiple of 2^-1074 -/
def U : Nat := 2 ^ 1074

/-- a finite double as seen by the formatter: its exact value, and what Rust's float formatting
    returns for its absolute value (parameters, see the header) -/
structure Num where
  neg : Bool                              -- value < 0.0
  mag : Nat                               -- |value| · 2^1074  (exact)
  rfix : Nat → List Char := fun _ => []   -- precision ↦ `format!("{:.*}", precision, value.abs())`
  rsci : Nat → List Char := fun _ => []   -- precision ↦ `format!("{:.*e}", precision, value.abs())`
  deriving Inhabited

/-- floor |value| (exact, unbounded) -/
def Num.whole (n : Num) : Nat := n.mag / U

/-- |value| has a non-zero fractional part -/
def Num.fracNZ (n : Num) : Bool := n.mag % U != 0

/-- the number with the IEEE-754 binary64 bit pattern `bits` (finite patterns only), without
    formatter answers -/
def Num.ofBits (bits : Nat) : Num :=
  let biased := (bits / 2 ^ 52) % 2048
  let fraction := bits % 2 ^ 52
  let mag := if biased = 0 then fraction else (fraction + 2 ^ 52) * 2 ^ (biased - 1)
  { neg := decide (bits / 2 ^ 63 % 2 = 1) && decide (mag ≠ 0), mag := mag }

inductive Val where
  | num (n : Num) (disp : List Char)
  | str (s : List Char)
  | obj (fields : List (List Char × Val)) (disp : List Char)
  | other (disp : List Char)       -- null, booleans, arrays: only `%s` accepts them
  deriving Inhabited

/-- `Val::to_string` (the text is an input: number/JSON rendering belongs to C05) -/
def Val.disp : Val → List Char
  | .num _ d => d | .str s => s | .obj _ d => d | .other d => d

/-- `f64::from_untyped` -/
def Val.asNum : Val → R Num
  | .num n _ => .ok n
  | _ => .error .type

/-! ## renderers -/

def numbersChars : List Char := FMT_NUMBERS.toList

def digitChar (caps : Bool) (d : Nat) : Char :=
  let ch := numbersChars.getD d '?'
  if caps then ch.toUpper else ch

/-- the `while v != 0 { nums.push(v % radix); v /= radix }` loop; result is in reverse order -/
def digitsRevLoop (radix : Nat) : Nat → Nat → List Nat
  | 0, _ => []
  | fuel + 1, v => if v = 0 then [] else (v % radix) :: digitsRevLoop radix fuel (v / radix)

def digitsRev (radix iv : Nat) : List Nat :=
  if iv = 0 then [0] else digitsRevLoop radix iv iv

/-- `render_digits`: sign, prefix, zero padding in front of the digits (most significant first;
    ASCII, so `digits.len()` is the number of characters) -/
def renderDigits (neg : Bool) (digits : List Char) (padding precision : Nat) (blank sign : Bool)
    (zeroPrefix : List Char) (prefixInPadding : Bool) : R (List Char) :=
  let zp := padding - (if neg || blank || sign then 1 else 0)
  let prefLen := zeroPrefix.length
  let dl := digits.length % (U16_MAX + 1)                    -- `digits.len() as u16`
  let sub2 := (if prefixInPadding then prefLen else 0) + dl  -- checked `u16` addition
  if sub2 > U16_MAX then .error .panic else
  let zp2 := (max (zp - (if prefixInPadding then 0 else prefLen)) precision) - sub2
  let signStr := if neg then ['-'] else if sign then ['+'] else if blank then [' '] else []
  .ok (signStr ++ zeroPrefix ++ List.replicate zp2 '0' ++ digits)

/-- `render_integer`; `iv` is the integer part of the (non-negative) double.  `integer_digits`
    expands it exactly (base-2^32 limbs divided by the radix), so no machine-integer bound applies:
    the digits are those of the repeated `% radix`, `/ radix` loop on the exact integer. -/
def renderInteger (neg : Bool) (iv : Nat) (padding precision : Nat) (blank sign : Bool)
    (radix : Nat) (zeroPrefix : List Char) (prefixInPadding caps : Bool) : R (List Char) :=
  renderDigits neg ((digitsRev radix iv).reverse.map (digitChar caps)) padding precision blank sign
    zeroPrefix prefixInPadding

def renderDecimal (neg : Bool) (iv padding precision : Nat) (blank sign : Bool) : R (List Char) :=
  renderInteger neg iv padding precision blank sign 10 [] false false

def renderOctal (neg : Bool) (iv padding precision : Nat) (alt blank sign : Bool) : R (List Char) :=
  renderInteger neg iv padding precision blank sign 8
    (if alt && iv ≥ 1 then ['0'] else []) true false

def renderHex (neg : Bool) (iv padding precision : Nat) (alt blank sign caps : Bool) : R (List Char) :=
  renderInteger neg iv padding precision blank sign 16
    (if alt then (if caps then ['0', 'X'] else ['0', 'x']) else []) false caps

def trimZeros (s : List Char) : List Char := (s.reverse.dropWhile (· = '0')).reverse

/-- `str::split_once(c)`: the text before and after the first `c` -/
def splitOnce (c : Char) : List Char → Option (List Char × List Char)
  | [] => none
  | x :: xs =>
    if x = c then some ([], xs)
    else match splitOnce c xs with
      | some (a, b) => some (x :: a, b)
      | none => none

/-- `render_float_digits`: `digits` is the text returned by `float_digits` (`ddd.ddd` / `ddd`) -/
def renderFloatDigits (neg : Bool) (digits : List Char) (padding precision : Nat)
    (blank sign ensurePt trailing : Bool) : R (List Char) := do
  let (whole, frac) := (splitOnce '.' digits).getD (digits, [])
  let dotSize := if precision = 0 && !ensurePt then 0 else 1
  if dotSize + precision > U16_MAX then throw Err.panic       -- checked `u16` addition
  let padding := padding - (dotSize + precision)
  let out ← renderDigits neg whole padding 0 blank sign [] false
  let frac := if trailing then frac else trimZeros frac        -- `trim_end_matches('0')`
  pure (out ++ (if !frac.isEmpty || ensurePt then ['.'] else []) ++ frac)

/-- `render_float`: `float_digits(n, precision)` is `n.rfix precision` -/
def renderFloat (n : Num) (padding precision : Nat) (blank sign ensurePt trailing : Bool) :
    R (List Char) :=
  renderFloatDigits n.neg (n.rfix precision) padding precision blank sign ensurePt trailing

/-- one step of a checked decimal accumulation -/
def digitStep (acc : Option Nat) (c : Char) : Option Nat :=
  match acc, digitVal c with
  | some a, some d => some (a * 10 + d)
  | _, _ => none

/-- value of a run of ASCII digits; `none` when empty or not all digits -/
def decimalValue? (s : List Char) : Option Nat :=
  if s.isEmpty then none else s.foldl digitStep (some 0)

/-- an optional leading `-` / `+` -/
def splitSign : List Char → Bool × List Char
  | '-' :: r => (true, r)
  | '+' :: r => (false, r)
  | s => (false, s)

/-- `text.parse::<i32>().unwrap_or(0)`: optional sign, digits, value within `i32` -/
def parseI32 (s : List Char) : Int :=
  match decimalValue? (splitSign s).2 with
  | none => 0
  | some v =>
    let r : Int := if (splitSign s).1 then -(v : Int) else (v : Int)
    if r < -2147483648 || r > 2147483647 then 0 else r

/-- `float_sci_digits`: the text `n.rsci precision` (`d.ddde-7`) split into mantissa and exponent -/
def floatSciDigits (n : Num) (precision : Nat) : List Char × Int :=
  let text := n.rsci precision
  let (mantissa, exponent) := (splitOnce 'e' text).getD (text, ['0'])
  (mantissa, parseI32 exponent)

/-- `render_sci_digits` -/
def renderSciDigits (neg : Bool) (mantissa : List Char) (exponent : Int) (padding precision : Nat)
    (blank sign ensurePt trailing caps : Bool) : R (List Char) := do
  let expStr ← renderDecimal (exponent < 0) exponent.natAbs FMT_EXP_PADDING 0 false true
  let padding := padding - (expStr.length + 1)
  let m ← renderFloatDigits neg mantissa padding precision blank sign ensurePt trailing
  pure (m ++ [if caps then 'E' else 'e'] ++ expStr)

/-- `render_float_sci` -/
def renderFloatSci (n : Num) (padding precision : Nat) (blank sign ensurePt trailing caps : Bool) :
    R (List Char) :=
  let (mantissa, exponent) := floatSciDigits n precision
  renderSciDigits n.neg mantissa exponent padding precision blank sign ensurePt trailing caps

/-- `char::from_u32` -/
def validScalar (n : Nat) : Bool := n < 0xD800 || (0xE000 ≤ n && n ≤ 0x10FFFF)

/-- `tmp_out.insert_str(sign_len, "0".repeat(zero_padding - len))` of the `%g` arm -/
def zeroFill (w : Nat) (s : List Char) : List Char :=
  if s.length < w then
    match s with
    | c :: r =>
      if c = '-' || c = '+' || c = ' ' then c :: (List.replicate (w - s.length) '0' ++ r)
      else List.replicate (w - s.length) '0' ++ s
    | [] => List.replicate w '0'
  else s

/-- the conversion-specific part of `format_code` (before the final padding) -/
def formatBody (v : Val) (c : Code) (width : Nat) (precision : Option Nat) : R (List Char) :=
  let fl := c.flags
  let fpprec := precision.getD FMT_DEFAULT_FPPREC
  let iprec := precision.getD FMT_DEFAULT_IPREC
  let padding := if fl.zero && !fl.left then width else 0
  -- `if fpprec > MAX_FLOAT_PRECISION && matches!(convtype, Scientific | Float | Shorter)`
  if fpprec > FMT_MAX_FPPREC && (c.conv = .sci || c.conv = .flt || c.conv = .shorter) then
    .error .tooLarge
  else
  match c.conv with
  | .str => .ok v.disp
  | .dec => do
    let n ← v.asNum
    renderDecimal (n.neg && n.whole ≥ 1) n.whole padding iprec fl.blank fl.sign
  | .oct => do
    let n ← v.asNum
    renderOctal (n.neg && n.whole ≥ 1) n.whole padding iprec fl.alt fl.blank fl.sign
  | .hex => do
    let n ← v.asNum
    renderHex (n.neg && n.whole ≥ 1) n.whole padding iprec fl.alt fl.blank fl.sign c.caps
  | .sci => do
    let n ← v.asNum
    renderFloatSci n padding fpprec fl.blank fl.sign fl.alt true c.caps
  | .flt => do
    let n ← v.asNum
    renderFloat n padding fpprec fl.blank fl.sign fl.alt true
  | .shorter => do
    let n ← v.asNum
    let fpprec := max fpprec 1
    -- rendered with padding 0; zero padding is applied afterwards (trailing zeros may be stripped)
    let (mantissa, exponent) := floatSciDigits n (fpprec - 1)
    let tmp ←
      if exponent < -(FMT_G_LOW_EXP : Int) || exponent ≥ (fpprec : Int) then
        renderSciDigits n.neg mantissa exponent 0 (fpprec - 1) fl.blank fl.sign fl.alt fl.alt c.caps
      else do
        -- `u16::try_from(exponent).map_or(1, |e| e + 1)`, checked `u16` addition
        let digitsBeforePt := if 0 ≤ exponent && exponent ≤ (U16_MAX : Int) then exponent.toNat + 1 else 1
        if digitsBeforePt > U16_MAX then throw Err.panic
        if digitsBeforePt > fpprec then throw Err.panic         -- checked `u16` subtraction
        renderFloat n 0 (fpprec - digitsBeforePt) fl.blank fl.sign fl.alt fl.alt
    pure (zeroFill padding tmp)
  | .chr =>
    match v with
    | .num n _ =>
      if n.neg && n.whole ≥ 1 then .error .codepoint             -- `if n <= -1.0 { bail!(..) }`
      else
      let cp := if n.neg then 0 else min n.whole 4294967295       -- `n as u32`
      if validScalar cp then .ok [Char.ofNat cp] else .error .codepoint
    | .str s => if s.length = 1 then .ok s else .error .type
    | _ => .error .type
  | .pct => .ok ['%']

/-- `format_code`: body, then padding to `width` characters -/
def formatCode (v : Val) (c : Code) (width : Nat) (precision : Option Nat) : R (List Char) := do
  let tmp ← formatBody v c width precision
  let padding := width - tmp.length
  pure (if c.flags.left then tmp ++ List.replicate padding ' ' else List.replicate padding ' ' ++ tmp)

/-! ## argument modes -/

/-- `u16::from_untyped` -/
def Val.asU16 : Val → R Nat
  | .num n _ =>
    -- bounds check (TypeError) and fractional check (RuntimeError) are one error class here
    if n.neg || n.fracNZ || n.whole > U16_MAX then .error .type else .ok n.whole
  | _ => .error .type

/-- take one value for a `*` -/
def takeStar : List Val → R (Nat × List Val)
  | [] => .error .notEnough
  | v :: vs => do let n ← v.asU16; pure (n, vs)

/-- `match c.width { Star => …, Fixed(n) => n }` -/
def takeWidth : Width → List Val → R (Nat × List Val)
  | .fixed n, vals => .ok (n, vals)
  | .star, vals => takeStar vals

/-- `match c.precision { Some(Star) => …, Some(Fixed(n)) => Some(n), None => None }` -/
def takePrec : Option Width → List Val → R (Option Nat × List Val)
  | none, vals => .ok (none, vals)
  | some (.fixed n), vals => .ok (some n, vals)
  | some .star, vals =>
    match takeStar vals with
    | .ok (n, vs) => .ok (some n, vs)
    | .error e => .error e

/-- `%%` takes `&Val::Null` and no value; everything else takes the next value -/
def takeValue (isPct : Bool) (vals : List Val) : R (Val × List Val) :=
  if isPct then .ok (.other [], vals)
  else match vals with
    | [] => .error .notEnough
    | v :: vs => .ok (v, vs)

/-- the body of `format_arr`'s loop for one code -/
def stepArr (c : Code) (vals : List Val) : R (List Char × List Val) :=
  match takeWidth c.width vals with
  | .error e => .error e
  | .ok (width, vals) =>
    match takePrec c.prec vals with
    | .error e => .error e
    | .ok (precision, vals) =>
      match takeValue (c.conv = .pct) vals with
      | .error e => .error e
      | .ok (v, vals) =>
        match formatCode v c width precision with
        | .error e => .error e
        | .ok s => .ok (s, vals)

def formatElemsArr : List Elem → List Val → R (List Char)
  | [], [] => .ok []
  | [], _ :: _ => .error .tooMany
  | .lit s :: es, vals => do let r ← formatElemsArr es vals; pure (s ++ r)
  | .code c :: es, vals => do
    let (s, vals) ← stepArr c vals
    let r ← formatElemsArr es vals
    pure (s ++ r)

/-- `format_arr` -/
def formatArr (fmt : List Char) (vals : List Val) : R (List Char) := do
  let es ← parseCodes fmt
  formatElemsArr es vals

def splitDots : List Char → List (List Char)
  | [] => [[]]
  | c :: cs =>
    match splitDots cs with
    | [] => [[c]]     -- unreachable
    | h :: t => if c = '.' then [] :: h :: t else (c :: h) :: t

/-- `get_dotted_field` -/
def dotted : Val → List (List Char) → R Val
  | v, [] => .ok v
  | .obj fs _, k :: ks =>
    match fs.lookup k with
    | some v => dotted v ks
    | none => .error .noField
  | _, _ :: _ => .error .notObj

def stepObj (fields : List (List Char × Val)) (disp : List Char) (c : Code) : R (List Char) := do
  let width ← match c.width with
    | .star => .error .starObj
    | .fixed n => pure n
  let precision ← match c.prec with
    | some .star => .error .starObj
    | some (.fixed n) => pure (some n)
    | none => pure none
  let value ←
    if c.conv = .pct then pure (Val.other [])
    else if c.mkey.isEmpty then .error .keysRequired
    else match fields.lookup c.mkey with
      | some v => pure v
      | none => dotted (.obj fields disp) (splitDots c.mkey)
  formatCode value c width precision

def formatElemsObj (fields : List (List Char × Val)) (disp : List Char) : List Elem → R (List Char)
  | [] => .ok []
  | .lit s :: es => do let r ← formatElemsObj fields disp es; pure (s ++ r)
  | .code c :: es => do
    let s ← stepObj fields disp c
    let r ← formatElemsObj fields disp es
    pure (s ++ r)

/-- `format_obj` -/
def formatObj (fmt : List Char) (fields : List (List Char × Val)) (disp : List Char) : R (List Char) := do
  let es ← parseCodes fmt
  formatElemsObj fields disp es

/-- the argument of `std_format` -/
inductive Args where
  | arr (vs : List Val)
  | single (v : Val)          -- `o => format_arr(str, &[o])`; objects go to `format_obj`

/-- `std_format` -/
def stdFormat (fmt : List Char) : Args → R (List Char)
  | .arr vs => formatArr fmt vs
  | .single (.obj fs d) => formatObj fmt fs d
  | .single v => formatArr fmt [v]

end JrsVerif.Format
