/- C14 — Spec side: an independently written reader of the TOML subset the writer emits.

   Written from TOML 1.0 (toml.io/en/v1.0.0): a document is a sequence of lines, each a
   `key = value` pair, a `[table]` header or an `[[array-of-tables]]` header (blank lines between
   them); keys are dotted sequences of bare or basic-string keys (only headers use dots here);
   values are basic strings, `true`/`false`, decimal numbers, arrays (line feeds allowed between
   elements) and inline tables (one line).  It mentions neither the writer nor its predicates.

   Two layers:
     `parseDoc`  text  → statements           (syntax)
     `build`     statements → table tree → V  (the meaning of headers: TOML §Table, §Array of Tables)
   The reader is deliberately not more permissive than TOML where that matters for the round trip:
   a key or table may be defined once; a table that came from `key = {…}` or an array that came
   from `key = […]` is closed (headers cannot extend it); `[a.b]` creates `a` when missing and
   otherwise continues in table `a`, or in the LAST element of the array of tables `a`.
   `none` = not well-formed (or outside of the subset). -/
import JrsVerif.Model.ManifSpec

namespace JrsVerif.ManifTomlR
open JrsVerif.ManifSpec JrsVerif.ManifVal

/-! ### syntax -/

inductive Stmt
  | kv (k : List Char) (v : V)
  | hdr (arr : Bool) (path : List (List Char))

def isWs (c : Char) : Bool := c = ' ' || c = '\t'
def isWsNl (c : Char) : Bool := c = ' ' || c = '\t' || c = '\n'

def skipWs : List Char → List Char := List.dropWhile isWs
def skipWsNl : List Char → List Char := List.dropWhile isWsNl

/-- basic string from the character after the opening quote: (content, text after the closing quote) -/
def readQ : St → List Char → Option (List Char × List Char)
  | _, [] => none
  | st, c :: cs =>
    match step tomlCfg st c with
    | none => none
    | some (.done, _) => some ([], cs)
    | some (st', o) =>
      match readQ st' cs with
      | none => none
      | some (r, rest) => some (emit o r, rest)

/-- simple key: basic string or one or more bare characters -/
def readKey : List Char → Option (List Char × List Char)
  | '"' :: r => readQ .plain r
  | cs =>
    let k := cs.takeWhile tomlBareChar
    if k.isEmpty then none else some (k, cs.dropWhile tomlBareChar)

def isDigit (c : Char) : Bool := 48 ≤ c.toNat && c.toNat ≤ 57

/-- the decimal subset of TOML integers and floats without exponent: `-?digits(.digits)?`, no
    leading zero before other integer digits -/
def isNumber (w : List Char) : Bool :=
  let w := match w with
    | '-' :: r => r
    | '+' :: r => r
    | _ => w
  let ip := w.takeWhile isDigit
  let rest := w.dropWhile isDigit
  (!ip.isEmpty && (ip.length = 1 || ip.head? != some '0')) &&
    (match rest with
     | [] => true
     | '.' :: fr => !fr.isEmpty && fr.all isDigit
     | _ => false)

/-- characters of an unquoted scalar token -/
def isWordChar (c : Char) : Bool :=
  isDigit c || (97 ≤ c.toNat && c.toNat ≤ 122) || (65 ≤ c.toNat && c.toNat ≤ 90) || c = '-' || c = '+' || c = '.' || c = '_'

def readWord (cs : List Char) : Option (V × List Char) :=
  let w := cs.takeWhile isWordChar
  let rest := cs.dropWhile isWordChar
  if w = "true".toList then some (.bool true, rest)
  else if w = "false".toList then some (.bool false, rest)
  else if isNumber w then some (.num w, rest)
  else none

mutual
/-- a value; the fuel is an upper bound of the length of its text -/
def readVal : Nat → List Char → Option (V × List Char)
  | 0, _ => none
  | _ + 1, '"' :: r => match readQ .plain r with
    | some (s, rest) => some (.str s, rest)
    | none => none
  | f + 1, '[' :: r => match readElems f (skipWsNl r) with
    | some (xs, rest) => some (.arr xs, rest)
    | none => none
  | f + 1, '{' :: r => match readFields f (skipWs r) with
    | some (kvs, rest) => some (.obj kvs, rest)
    | none => none
  | _ + 1, cs => readWord cs
/-- after `[` or after a `,` (white space and line feeds skipped): elements up to `]` -/
def readElems : Nat → List Char → Option (List V × List Char)
  | 0, _ => none
  | _ + 1, ']' :: r => some ([], r)
  | f + 1, cs =>
    match readVal f cs with
    | none => none
    | some (v, rest) =>
      match skipWsNl rest with
      | ']' :: r => some ([v], r)
      | ',' :: r =>
        (match readElems f (skipWsNl r) with
         | some (xs, rest') => some (v :: xs, rest')
         | none => none)
      | _ => none
/-- after `{` or after a `,` (white space skipped): `key = value` pairs up to `}`; no line feeds,
    no trailing comma -/
def readFields : Nat → List Char → Option (List (List Char × V) × List Char)
  | 0, _ => none
  | _ + 1, '}' :: r => some ([], r)
  | f + 1, cs =>
    match readKey cs with
    | none => none
    | some (k, rest) =>
      match skipWs rest with
      | '=' :: r =>
        (match readVal f (skipWs r) with
         | none => none
         | some (v, rest') =>
           match skipWs rest' with
           | '}' :: r' => some ([(k, v)], r')
           | ',' :: r' =>
             (match skipWs r' with
              | '}' :: _ => none
              | cs' =>
                match readFields f cs' with
                | some (kvs, rest'') => some ((k, v) :: kvs, rest'')
                | none => none)
           | _ => none)
      | _ => none
end

/-- an inline table may not define a key twice (checked at every level) -/
def distinctKeysL (ks : List (List Char)) : Bool :=
  match ks with
  | [] => true
  | k :: r => !r.contains k && distinctKeysL r

mutual
def inlineOk : V → Bool
  | .obj kvs => distinctKeysL (kvs.map (·.1)) && inlineOkF kvs
  | .arr xs => inlineOkL xs
  | _ => true
def inlineOkL : List V → Bool
  | [] => true
  | x :: xs => inlineOk x && inlineOkL xs
def inlineOkF : List (List Char × V) → Bool
  | [] => true
  | kv :: r => inlineOk kv.2 && inlineOkF r
end

/-- dotted key up to the closing bracket(s) of a header; no white space inside (none is written) -/
def readPath : Nat → List Char → Option (List (List Char) × List Char)
  | 0, _ => none
  | f + 1, cs =>
    match readKey cs with
    | none => none
    | some (k, rest) =>
      match rest with
      | '.' :: r => (match readPath f r with
        | some (ks, rest') => some (k :: ks, rest')
        | none => none)
      | _ => some ([k], rest)

/-- the rest of a line after a statement: white space, then a line feed or the end of the text -/
def endOfLine (cs : List Char) : Option (List Char) :=
  match skipWs cs with
  | [] => some []
  | '\n' :: r => some r
  | _ => none

/-- one statement starting at a non-blank character -/
def readStmt (f : Nat) (cs : List Char) : Option (Stmt × List Char) :=
  match cs with
  | '[' :: '[' :: r =>
    (match readPath f r with
     | some (p, ']' :: ']' :: rest) => some (.hdr true p, rest)
     | _ => none)
  | '[' :: r =>
    (match readPath f r with
     | some (p, ']' :: rest) => some (.hdr false p, rest)
     | _ => none)
  | _ =>
    match readKey cs with
    | none => none
    | some (k, rest) =>
      match skipWs rest with
      | '=' :: r =>
        (match readVal f (skipWs r) with
         | some (v, rest') => if inlineOk v then some (.kv k v, rest') else none
         | none => none)
      | _ => none

/-- statements to the end of the text; fuel = upper bound of the length of the text -/
def readStmts : Nat → List Char → Option (List Stmt)
  | 0, _ => none
  | f + 1, cs =>
    match skipWsNl cs with
    | [] => some []
    | cs' =>
      match readStmt f cs' with
      | none => none
      | some (s, rest) =>
        match endOfLine rest with
        | none => none
        | some rest' =>
          match readStmts f rest' with
          | some ss => some (s :: ss)
          | none => none

def parseDoc (t : List Char) : Option (List Stmt) := readStmts (t.length + 1) t

/-! ### meaning of the statements -/

/-- table tree under construction: `leaf` = defined by `key = value` (closed), `tbl` = defined by a
    header or created as a super-table, `aot` = array of tables, LAST element first -/
inductive T
  | leaf (v : V)
  | tbl (kvs : List (List Char × T))
  | aot (es : List T)

abbrev Fields := List (List Char × T)

/-- replace the entry of `k` by `g (its value)`; a missing key is added at the end -/
def updKey (k : List Char) (g : Option T → Option T) : Fields → Option Fields
  | [] => match g none with
    | some t => some [(k, t)]
    | none => none
  | kv :: r =>
    if kv.1 = k then
      match g (some kv.2) with
      | some t => some ((k, t) :: r)
      | none => none
    else match updKey k g r with
      | some r' => some (kv :: r')
      | none => none

/-- apply `f` to the table reached by `path`: missing tables are created, an array of tables is
    entered at its last element, a closed value cannot be entered -/
def modifyAt : List (List Char) → (Fields → Option Fields) → Fields → Option Fields
  | [], f, kvs => f kvs
  | k :: ks, f, kvs =>
    updKey k (fun t? =>
      match t? with
      | none => (modifyAt ks f []).map T.tbl
      | some (.tbl sub) => (modifyAt ks f sub).map T.tbl
      | some (.aot (.tbl sub :: es)) => (modifyAt ks f sub).map (fun s => T.aot (.tbl s :: es))
      | _ => none) kvs

/-- define a new key of a table -/
def insertNew (k : List Char) (t : T) (kvs : Fields) : Option Fields :=
  updKey k (fun t? => match t? with | none => some t | some _ => none) kvs

/-- `[[…k]]`: start the array of tables `k` or append a table to it -/
def appendTable (k : List Char) (kvs : Fields) : Option Fields :=
  updKey k (fun t? =>
    match t? with
    | none => some (.aot [.tbl []])
    | some (.aot es) => some (.aot (.tbl [] :: es))
    | some _ => none) kvs

def splitLast : List (List Char) → Option (List (List Char) × List Char)
  | [] => none
  | [k] => some ([], k)
  | k :: r => match splitLast r with
    | some (p, l) => some (k :: p, l)
    | none => none

/-- one statement; state = (path of the current table, root table) -/
def exec (st : List (List Char) × Fields) : Stmt → Option (List (List Char) × Fields)
  | .kv k v => (modifyAt st.1 (insertNew k (.leaf v)) st.2).map (fun r => (st.1, r))
  | .hdr arr path =>
    match splitLast path with
    | none => none
    | some (p, l) =>
      (modifyAt p (if arr then appendTable l else insertNew l (.tbl [])) st.2).map (fun r => (path, r))

def run : List Stmt → List (List Char) × Fields → Option (List (List Char) × Fields)
  | [], st => some st
  | s :: ss, st => match exec st s with
    | some st' => run ss st'
    | none => none

mutual
def toV : T → V
  | .leaf v => v
  | .tbl kvs => .obj (toVF kvs)
  | .aot es => .arr (toVL es).reverse
def toVL : List T → List V
  | [] => []
  | t :: ts => toV t :: toVL ts
def toVF : List (List Char × T) → List (List Char × V)
  | [] => []
  | kv :: r => (kv.1, toV kv.2) :: toVF r
end

def build (ss : List Stmt) : Option V :=
  match run ss ([], []) with
  | some (_, root) => some (.obj (toVF root))
  | none => none

/-- the reader -/
def tomlRead (t : List Char) : Option V :=
  match parseDoc t with
  | some ss => build ss
  | none => none

end JrsVerif.ManifTomlR
