/- C19 (round 3): the shape grammar of the serialised AST as a *table* (a regular tree grammar).

   `Model/FmtWf.lean: wf` is a 15-function mutual recursion with nested string patterns; it is
   compiled by well-founded recursion and does not reduce, so nothing could be proved about it.
   Here the same grammar is a production table `prod : sort → label → arity → sorts of the children`
   and ONE structurally recursive checker `wfS`/`wfKids`.  It reduces (`decide` works), and
   `Proofs/FmtWfNorm.lean` proves that the sugar normal form preserves it.  The driver evaluates BOTH
   checkers on every tree of every case and reports a broken tie if they ever disagree. -/
import JrsVerif.Model.Fmt

namespace JrsVerif.Fmt

/-- syntactic categories of the serialisation (`c19.rs: tree`) -/
inductive Srt where
  | atom | expr | opt | dname | dfull
  | specs | spec | binds | bind | args | named | narg | parts | part | params | param
  | assertion | asserts | fields | field | fname | mparams | body
  deriving DecidableEq, Repr

/-- productions of the category `expr` -/
def prodExpr (l : String) (n : Nat) : Option (List Srt) :=
  match l, n with
  | "lit", 1 => some [.atom]
  | "str", 1 => some [.atom]
  | "num", 1 => some [.atom]
  | "var", 1 => some [.atom]
  | "arr", n => some (List.replicate n .expr)
  | "arrcomp", 2 => some [.expr, .specs]
  | "obj", 1 => some [.body]
  | "objext", 2 => some [.expr, .body]
  | "unary", 2 => some [.atom, .expr]
  | "binary", 3 => some [.atom, .expr, .expr]
  | "assert", 2 => some [.assertion, .expr]
  | "local", 2 => some [.binds, .expr]
  | "import", 2 => some [.atom, .expr]
  | "error", 1 => some [.expr]
  | "apply", 4 => some [.expr, .args, .named, .atom]
  | "index", 2 => some [.expr, .parts]
  | "func", 2 => some [.params, .expr]
  | "if", 3 => some [.expr, .expr, .opt]
  | "slice", 4 => some [.expr, .opt, .opt, .opt]
  | _, _ => none

/-- `prod s l n` : the categories of the `n` children of a node labelled `l` of category `s`
    (`none`: no such production) -/
def prod (s : Srt) (l : String) (n : Nat) : Option (List Srt) :=
  match s, l, n with
  | .atom, _, _ => none
  | .expr, l, n => prodExpr l n
  | .opt, "none", 0 => some []
  | .opt, l, n => prodExpr l n
  | .dname, _, 1 => some [.atom]
  | .dfull, "dfull", 1 => some [.atom]
  | .specs, "specs", n => some (List.replicate n .spec)
  | .spec, "ifspec", 1 => some [.expr]
  | .spec, "forspec", 2 => some [.dname, .expr]
  | .binds, "binds", n => some (List.replicate n .bind)
  | .bind, "bind", 2 => some [.dname, .expr]
  | .bind, "fn", 3 => some [.dfull, .params, .expr]
  | .args, "args", n => some (List.replicate n .expr)
  | .named, "named", n => some (List.replicate n .narg)
  | .narg, "narg", 2 => some [.atom, .expr]
  | .parts, "parts", n => some (List.replicate n .part)
  | .part, "part", 1 => some [.expr]
  | .params, "params", n => some (List.replicate n .param)
  | .param, "param", 2 => some [.dname, .opt]
  | .assertion, "assertion", 2 => some [.expr, .opt]
  | .asserts, "asserts", n => some (List.replicate n .assertion)
  | .fields, "fields", n => some (List.replicate n .field)
  | .field, "field", 5 => some [.fname, .atom, .mparams, .atom, .expr]
  | .fname, "fixed", 1 => some [.atom]
  | .fname, "dyn", 1 => some [.expr]
  | .mparams, "none", 0 => some []
  | .mparams, "params", n => some (List.replicate n .param)
  | .body, "members", 3 => some [.binds, .asserts, .fields]
  | .body, "objcomp", 3 => some [.binds, .field, .specs]
  | _, _, _ => none

mutual
/-- `t` is a tree of category `s` -/
def wfS (s : Srt) : Tree → Bool
  | .atom _ => s == .atom
  | .node l ks =>
    match prod s l ks.length with
    | some ss => wfKids ss ks
    | none => false
def wfKids : List Srt → List Tree → Bool
  | [], [] => true
  | s :: ss, t :: ts => wfS s t && wfKids ss ts
  | _, _ => false
end

/-- a serialised program -/
def wfProg (t : Tree) : Bool := wfS .expr t

end JrsVerif.Fmt
