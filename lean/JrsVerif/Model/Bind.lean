/-
  Model of `crates/jrsonnet-evaluator/src/function/parse.rs::parse_function_call` (and, with the
  same counting structure, `parse_builtin_call`): how a call's positional and named arguments and
  the callee's defaults are assigned to parameters, with the `filled_*` counters and the
  `unreachable!()` site exactly as coded.

  Abstracted: a parameter is (name, has-default); an argument is identified by its position
  (positional index / index in the named list).  Import-free.
-/
namespace JrsVerif.Bind

/-- where a parameter's value comes from -/
inductive Src where
  | pos (i : Nat)        -- i-th positional argument
  | named (j : Nat)      -- j-th named argument
  | dflt                 -- the parameter's default expression (evaluated in the callee scope)
  deriving Repr, DecidableEq, Inhabited

inductive BErr where
  | tooMany | unknown (n : String) | twice (n : String) | unbound (n : String)
  deriving Repr, DecidableEq, Inhabited

inductive R where
  | ok (env : List (String × Src))
  | err (e : BErr)
  | unreachable                     -- the `unreachable!()` after the unbound-parameter search
  deriving Repr, DecidableEq, Inhabited

abbrev Param := String × Bool       -- name, has default

def names (ps : List Param) : List String := ps.map (·.1)

def has (env : List (String × Src)) (n : String) : Bool := env.any (fun p => p.1 == n)

/-- `for (id, arg) in args.unnamed.iter().enumerate()` : `destruct(&params.exprs[id].destruct, ..)` -/
def bindPos : List Param → Nat → Nat → List (String × Src)
  | _, 0, _ => []
  | [], _ + 1, _ => []
  | p :: ps, k + 1, i => (p.1, .pos i) :: bindPos ps k (i + 1)

/-- `for (name, value) in &args.named` -/
def bindNamed (ps : List Param) : List (String × Src) → List String → Nat → Except BErr (List (String × Src))
  | env, [], _ => .ok env
  | env, n :: rest, j =>
    if !(names ps).contains n then .error (.unknown n)
    else if has env n then .error (.twice n)
    else bindNamed ps (env ++ [(n, .named j)]) rest (j + 1)

/-- the defaults loop: `(idx, into, default)` for params with a default that are not passed;
    returns the defaults map and how many were added (`filled_named` increments) -/
def bindDefaults (passed : List (String × Src)) : List Param → List (String × Src)
  | [] => []
  | p :: ps =>
    if p.2 && !has passed p.1 then (p.1, .dflt) :: bindDefaults passed ps
    else bindDefaults passed ps

/-- the search that produces `FunctionParameterNotBoundInCall`:
    `for param in params.exprs.iter().skip(args.unnamed.len())` / `found` among `args.named` -/
def firstUnbound (named : List String) : List Param → Option String
  | [] => none
  | p :: ps => if named.contains p.1 then firstUnbound named ps else some p.1

def parseCall (ps : List Param) (npos : Nat) (named : List String) : R :=
  if npos > ps.length then .err .tooMany else
  let passedPos := bindPos ps npos 0
  match bindNamed ps passedPos named 0 with
  | .error e => .err e
  | .ok passed =>
    let filledPositionals := npos
    let filledNamed := named.length
    if filledNamed + filledPositionals < ps.length then
      let defaults := bindDefaults passed ps
      if filledNamed + defaults.length + filledPositionals != ps.length then
        match firstUnbound named (ps.drop npos) with
        | some n => .err (.unbound n)
        | none => .unreachable
      else .ok (passed ++ defaults)
    else .ok passed

/-! ### Reference meaning: the language's argument-binding rule, parameter by parameter -/

def indexOf? (l : List String) (n : String) : Option Nat :=
  match l with
  | [] => none
  | m :: r => if m == n then some 0 else (indexOf? r n).map (· + 1)

/-- the source the language prescribes for the parameter at index `i` -/
def specSrc (npos : Nat) (named : List String) (i : Nat) (p : Param) : Option Src :=
  if i < npos then some (.pos i)
  else match indexOf? named p.1 with
    | some j => some (.named j)
    | none => if p.2 then some .dflt else none

/-- a call is well-formed iff: not too many positionals, every named argument names a parameter,
    no parameter is bound twice, and every parameter gets a value -/
def specOk (ps : List Param) (npos : Nat) (named : List String) : Bool :=
  npos ≤ ps.length
  && named.all (fun n => (names ps).contains n)
  && decide named.Nodup
  && named.all (fun n => !((names ps).take npos).contains n)
  && (List.range ps.length).all (fun i => match ps[i]? with
        | some p => (specSrc npos named i p).isSome
        | none => true)

def lookup (env : List (String × Src)) (n : String) : Option Src :=
  match env.find? (fun p => p.1 == n) with
  | some p => some p.2
  | none => none

/-- the value a parameter receives, given the positional values and the (name, value) pairs -/
def valueOf {V : Type} (pos : List V) (named : List (String × V)) : Src → Option V
  | .pos i => pos[i]?
  | .named j => (named[j]?).map (·.2)
  | .dflt => none


end JrsVerif.Bind
