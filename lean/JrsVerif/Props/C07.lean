/- C07 — Imports resolve, load and evaluate as specified.
   Property theorems only (definitions in Model/Import.lean, lemmas in Proofs/Import.lean).

   Part 1 quantifies over every probe function (what the OS answers for each candidate path), every
   importer directory, search path and spelling.  Part 2 quantifies over EVERY history of the file
   cache machine (`run init evs` for an arbitrary event list, including ill-nested ones); the
   interpreter used for the correspondence run can only move the machine through `step`
   (`Run.ok`), so its states are such histories.  `valid` (UTF-8 validity) is a parameter. -/
import JrsVerif.Proofs.Import

namespace JrsVerif.Import

/-! ## 1. resolution order -/

/-- the search is exactly "first candidate whose probe is not `missing` decides" -/
theorem resolve_eq_findSome (probe : Path → Probe) (dir : Path) (jpaths : List Path) (sp : Spelling) :
    resolve probe dir jpaths sp =
      ((candidates dir jpaths sp).findSome? (fun c => verdict (probe c))).getD (.error .notfound) :=
  firstHit_eq_findSome probe _

/-- C07.1a a regular file at a candidate wins iff every earlier candidate is missing -/
theorem resolve_first_match (probe : Path → Probe) (dir : Path) (jpaths : List Path) (sp : Spelling)
    (pre post : List Path) (c q : Path) (hc : candidates dir jpaths sp = pre ++ c :: post)
    (hpre : ∀ x ∈ pre, probe x = .missing) (hq : probe c = .file q) :
    resolve probe dir jpaths sp = .ok q := by
  unfold resolve
  rw [hc, firstHit_skip probe pre _ hpre]
  simp [firstHit, hq]

/-- C07.1c nothing matches  <->  "can't resolve" -/
theorem resolve_none_is_error (probe : Path → Probe) (dir : Path) (jpaths : List Path) (sp : Spelling) :
    resolve probe dir jpaths sp = .error .notfound ↔
      ∀ c ∈ candidates dir jpaths sp, probe c = .missing :=
  firstHit_notfound_iff probe _

/-- C07.1b the importer's directory beats every library path -/
theorem resolve_importer_dir_first (probe : Path → Probe) (dir : Path) (jpaths : List Path)
    (sp : Spelling) (q : Path) (h : probe (push dir sp) = .file q) :
    resolve probe dir jpaths sp = .ok q := by
  simp [resolve, candidates, firstHit, h]

/-- C07.1b right-most `-J` first: a flag's directory wins over every flag to its LEFT and over
    every `JSONNET_PATH` entry as soon as the importer directory and all flags to its RIGHT miss -/
theorem resolve_rightmost_J_first (probe : Path → Probe) (dir : Path) (l r env : List Path)
    (j : Path) (sp : Spelling) (q : Path) (hdir : probe (push dir sp) = .missing)
    (hr : ∀ x ∈ r, probe (push x sp) = .missing) (hj : probe (push j sp) = .file q) :
    resolve probe dir (searchPath (l ++ j :: r) env) sp = .ok q := by
  apply resolve_first_match probe dir _ sp (push dir sp :: r.reverse.map (fun x => push x sp))
    ((l.reverse ++ env).map (fun x => push x sp)) (push j sp) q
  · simp [candidates, searchPath, List.map_append]
  · intro x hx
    simp only [List.mem_cons, List.mem_map, List.mem_reverse] at hx
    rcases hx with rfl | ⟨y, hy, rfl⟩
    · exact hdir
    · exact hr y hy
  · exact hj

/-- C07.1b `JSONNET_PATH` entries come after all `-J` flags, in the order given -/
theorem resolve_env_after_flags (probe : Path → Probe) (dir : Path) (jflags pre post : List Path)
    (e : Path) (sp : Spelling) (q : Path) (hdir : probe (push dir sp) = .missing)
    (hflags : ∀ x ∈ jflags, probe (push x sp) = .missing)
    (hpre : ∀ x ∈ pre, probe (push x sp) = .missing) (he : probe (push e sp) = .file q) :
    resolve probe dir (searchPath jflags (pre ++ e :: post)) sp = .ok q := by
  apply resolve_first_match probe dir _ sp
    (push dir sp :: (jflags.reverse ++ pre).map (fun x => push x sp))
    (post.map (fun x => push x sp)) (push e sp) q
  · simp [candidates, searchPath, List.map_append]
  · intro x hx
    simp only [List.mem_cons, List.mem_map, List.mem_append, List.mem_reverse] at hx
    rcases hx with rfl | ⟨y, hy | hy, rfl⟩
    · exact hdir
    · exact hflags y hy
    · exact hpre y hy
  · exact he

/-- non-vacuity: J2 given after J1 on the command line wins, although J1 and the environment
    directory also hold the file -/
example :
    let probe : Path → Probe := fun p =>
      if p = ["J1", "a"] ∨ p = ["J2", "a"] ∨ p = ["E", "a"] then .file p else .missing
    resolve probe ["d"] (searchPath [["J1"], ["J2"]] [["E"]]) ⟨false, ["a"]⟩ = .ok ["J2", "a"] := by
  intro probe
  exact resolve_rightmost_J_first probe ["d"] [["J1"]] [] [["E"]] ["J2"] ⟨false, ["a"]⟩ _
    (by decide) (by simp) (by decide)

/-! ## 2. the file cache, for all histories -/

section
variable (valid : Bytes → Bool)

/-- C07.3 `flag_reset`: whenever no import is in progress, no `evaluating` flag is set — after
    successes and after errors alike (any history) -/
theorem flag_reset (evs : List Ev) (h : (run valid init evs).1.stack = []) (p : Path) :
    flag ((run valid init evs).1.cache p) = false := by
  have hinv := reachable_inv valid evs
  have := hinv.flags p
  rw [h] at this
  cases hf : flag ((run valid init evs).1.cache p) with
  | false => rfl
  | true => exact absurd (this.mpr hf) (by simp)

/-- ... and conversely the flag is set for exactly the files under evaluation, each once -/
theorem flag_iff_in_progress (evs : List Ev) (p : Path) :
    p ∈ (run valid init evs).1.stack ↔ flag ((run valid init evs).1.cache p) = true :=
  (reachable_inv valid evs).flags p

/-- C07.3 `cycle_detected`: importing a file that is being evaluated is an infinite-recursion
    error; nothing is loaded and the state is not changed -/
theorem cycle_detected (evs : List Ev) (p : Path) (hp : p ∈ (run valid init evs).1.stack)
    (ld : LoadRes) (pk : Bool) :
    step valid (run valid init evs).1 (.begin p ld pk) =
      ((run valid init evs).1, ⟨false, .err .infrec⟩) :=
  begin_on_stack valid (reachable_inv valid evs) hp ld pk

/-- C07.2 `load_at_most_once`: in every history, the loader runs for a path at most once more
    than it failed for it (loader error or bytes rejected as non-UTF-8) -/
theorem load_at_most_once (evs : List Ev) (p : Path) :
    (trace valid init evs).countP (isLoad p) ≤ 1 + (trace valid init evs).countP (isFailedLoad p) :=
  loads_le valid (init_inv valid) p evs

/-- once a path's cell is occupied the loader is never asked for it again -/
theorem no_load_once_cached (evs evs' : List Ev) (p : Path)
    (h : (run valid init evs).1.cache p ≠ none) :
    (trace valid (run valid init evs).1 evs').countP (isLoad p) = 0 :=
  occupied_no_load valid (reachable_inv valid evs) p h evs'

/-- C07.2 `eval_at_most_once`: in every history at most one evaluation of a file completes with
    a value -/
theorem eval_at_most_once (evs : List Ev) (p : Path) :
    (trace valid init evs).countP (isEvalOk p) ≤ 1 :=
  evals_le valid (init_inv valid) p evs

/-- once a file has a value, every later `import` of it — after any further history, whatever the
    loader or parser would answer now — returns that value, loads nothing and changes nothing -/
theorem cached_value_forever (evs evs' : List Ev) (p : Path) (c : Cell) (v : Nat)
    (hc : (run valid init evs).1.cache p = some c) (hv : c.evaluated = some v)
    (ld : LoadRes) (pk : Bool) :
    let s := (run valid (run valid init evs).1 evs').1
    step valid s (.begin p ld pk) = (s, ⟨false, .val v⟩) := by
  intro s
  obtain ⟨c', h1, h2⟩ := evaluated_stable_run valid (reachable_inv valid evs) hc hv evs'
  exact begin_cached valid s h1 h2 ld pk

/-- C07.2 `str_bin_exact`: once a path has been loaded with bytes `b`, every later `importbin`
    returns exactly `b` and every later `importstr` returns exactly `b` (or the UTF-8 error when `b`
    is not valid UTF-8), whatever happened in between and whatever the loader would answer now -/
theorem str_bin_exact (evs mid : List Ev) (p : Path) (b : Bytes) (first : Ev)
    (hvac : (run valid init evs).1.cache p = none)
    (hfirst : first = .str p (.ok b) ∨ first = .bin p (.ok b) ∨ ∃ pk, first = .begin p (.ok b) pk)
    (hocc : (step valid (run valid init evs).1 first).1.cache p ≠ none) (ld : LoadRes) :
    let s := (run valid (step valid (run valid init evs).1 first).1 mid).1
    (step valid s (.bin p ld)).2 = ⟨false, .binVal b⟩ ∧
      (step valid s (.str p ld)).2 = ⟨false, if valid b then .strVal b else .err .utf8⟩ := by
  intro s
  have hinv0 := reachable_inv valid evs
  have hinv1 := step_inv valid hinv0 first
  cases hc : (step valid (run valid init evs).1 first).1.cache p with
  | none => exact absurd hc hocc
  | some c =>
    have hcont := load_content valid hvac hfirst hc
    obtain ⟨c', h1, h2⟩ := content_stable_run valid hinv1 hc mid
    have hinv2 := run_inv valid hinv1 mid
    exact ⟨bin_exact valid hinv2 h1 (by rw [h2, hcont]) ld,
           str_exact valid hinv2 h1 (by rw [h2, hcont]) ld⟩

/-- C07.3 `usable_after_fault` (frame): after ANY history that has come to rest, operations on
    paths whose cells are vacant produce exactly the outputs they produce in a fresh state -/
theorem usable_after_fault (evs evs' : List Ev) (hq : (run valid init evs).1.stack = [])
    (hvac : ∀ p ∈ evPaths evs', (run valid init evs).1.cache p = none) :
    (run valid (run valid init evs).1 evs').2 = (run valid init evs').2 := by
  refine (run_agree valid (P := fun p => p ∈ evPaths evs') ⟨?_, ?_, ?_⟩ evs' (fun p hp => hp)).1
  · rw [hq]; rfl
  · rw [hq]; simp
  · intro p hp; rw [hvac p hp]; rfl

/-- C07.3 `retry_after_clear`: an operation whose load failed (resolver fault, missing or
    unreadable file, bytes that are not UTF-8 where text is required) leaves the state EQUAL to the
    state before it — so a retry behaves as if the failed attempt had never happened -/
theorem retry_after_clear (evs : List Ev) (ev : Ev)
    (hl : (step valid (run valid init evs).1 ev).2.loaded = true)
    (hf : failOut (step valid (run valid init evs).1 ev).2.out = true) :
    (step valid (run valid init evs).1 ev).1 = (run valid init evs).1 :=
  failed_load_no_trace valid (reachable_inv valid evs) ev hl hf

/-- the two `expect`/`unreachable!` sites of the Rust code are never hit -/
theorem no_panic (evs : List Ev) (ev : Ev) :
    (step valid (run valid init evs).1 ev).2.out ≠ .err .panic :=
  step_no_panic valid (reachable_inv valid evs) ev

/-- every import the interpreter starts it also finishes: a top-level operation started at rest
    ends at rest, with no `evaluating` flag left behind — whether it returned a value or an error,
    with or without an injected fault -/
theorem op_quiescent (w : World) (dir : Path) (r : Run w.valid) (op : Op)
    (h : r.st.stack = []) :
    (runOp w dir r op).1.st.stack = [] ∧
      ∀ p, flag ((runOp w dir r op).1.st.cache p) = false := by
  have hstack : (runOp w dir r op).1.st.stack = [] := by
    unfold runOp
    simp only
    rcases hR : doResolve w op.fault { r with calls := 0, log := [] } ("d:" ++ showPath dir) dir op.sp
      with ⟨r1, res1⟩
    have h0 : r1.st = r.st := by
      have := doResolve_st w op.fault { r with calls := 0, log := [] } ("d:" ++ showPath dir) dir op.sp
      rw [hR] at this; exact this
    cases res1 with
    | error e => simp only; rw [h0, h]
    | ok p =>
      simp only
      have h1 := (eval_stack w op.fault fuelTop).2 r1 p op.kind
      rcases hI : importAs w op.fault fuelTop r1 p op.kind with ⟨r2, res2⟩
      rw [hI] at h1
      simp only at h1
      cases res2 with
      | error e => simp only; rw [h1, h0, h]
      | ok vb => cases op.kind <;> (simp only; rw [h1, h0, h])
  refine ⟨hstack, fun p => ?_⟩
  have hinv := (runOp w dir r op).1.inv
  cases hf : flag ((runOp w dir r op).1.st.cache p) with
  | false => rfl
  | true => exact absurd ((hinv.flags p).mpr hf) (by rw [hstack]; simp)

end

/-! non-vacuity of the history theorems: a concrete history with a failed load, a retry, a cycle
    attempt and a completed evaluation -/
example :
    let v : Bytes → Bool := fun b => !b.contains 255
    let evs : List Ev :=
      [.begin ["a"] (.err "io") true,            -- fault: nothing cached
       .begin ["a"] (.ok [1]) true,              -- retry: loaded, entered
       .str ["x"] (.ok [255]),                   -- not UTF-8: rejected, not cached
       .bin ["x"] (.ok [255]),                   -- loaded again, cached
       .begin ["a"] (.ok [9]) true,              -- cycle: infrec, no load
       .finish (some 7),
       .begin ["a"] (.err "io") true]            -- cached value, loader not consulted
    (run v init evs).2.map (·.out) =
      [.err (.load "io"), .entered, .err .utf8, .binVal [255], .err .infrec,
       .finished ["a"] (some 7), .val 7] ∧
    (trace v init evs).countP (isLoad ["a"]) = 2 ∧
    (trace v init evs).countP (isFailedLoad ["a"]) = 1 ∧
    (trace v init evs).countP (isLoad ["x"]) = 2 ∧
    (trace v init evs).countP (isEvalOk ["a"]) = 1 ∧
    (run v init evs).1.stack = [] := by
  decide

end JrsVerif.Import
