/- C07: property theorems (not yet built). -/
