/- C14: property theorems (not yet built). -/
