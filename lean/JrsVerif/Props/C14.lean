/- C14 — YAML, TOML, Python, XML and INI manifestation denote the same data: property theorems
   about the lexical layer (see Model/Manif.lean for the code mirrored, Model/ManifSpec.lean for the
   independent readers, DESIGN.md §C14 for what is and is not claimed). -/
import JrsVerif.Proofs.Manif
import JrsVerif.Proofs.ManifStream
import JrsVerif.Proofs.ManifDom
import JrsVerif.Proofs.ManifToml
import JrsVerif.Proofs.ManifTomlLex
import JrsVerif.Proofs.ManifYaml11

namespace JrsVerif.Props.C14
open JrsVerif.Manif JrsVerif.ManifSpec JrsVerif.Generated.Manif JrsVerif.ManifProofs JrsVerif.ManifVal

/-! ## the shared escaper -/

set_option maxRecDepth 100000 in
/-- Bytes >= 0x80 (all bytes of non-ASCII characters) are never escaped by the extracted table, so
    the character-level reading `Manif.escChar` of the byte-level Rust loop is exact. -/
theorem escape_table_high_half_zero : ∀ i, i < 256 → 128 ≤ i → ESCAPE.getD i 0 = 0 := by
  decide +kernel

/-! ## TOML -/

theorem toml_bare_class_sound (c : Char) (h : inRanges TOML_BARE_CLASS c = true) : tomlBareChar c = true := by
  simp [inRanges, TOML_BARE_CLASS] at h
  simp [tomlBareChar]
  omega

/-- `bare_allowed` only accepts what TOML calls an unquoted key: one or more of `A-Za-z0-9_-`. -/
theorem bareAllowed_sound (s : List Char) (h : bareAllowed s = true) :
    s ≠ [] ∧ s.all tomlBareChar = true := by
  simp [bareAllowed, TOML_BARE_NONEMPTY_GUARD] at h
  refine ⟨h.1, ?_⟩
  simp only [List.all_eq_true]
  intro c hc
  exact toml_bare_class_sound c (by simpa [inRanges] using h.2 c hc)

example : bareAllowed "a-b_9".toList = true := by decide
example : bareAllowed [] = false := by decide

set_option maxRecDepth 100000 in
theorem toml_unit_ascii : ∀ n, n < 128 →
    runPre tomlCfg .plain (unit TOML_EXTRA_ESCAPE (Char.ofNat n)) = some (.plain, [Char.ofNat n]) := by
  decide +kernel

theorem toml_unit (c : Char) : runPre tomlCfg .plain (unit TOML_EXTRA_ESCAPE c) = some (.plain, [c]) := by
  by_cases h : c.toNat < 128
  · have := toml_unit_ascii c.toNat h
    rwa [Char.ofNat_toNat] at this
  · have h' : 128 ≤ c.toNat := by omega
    have hn : inRanges TOML_EXTRA_ESCAPE c = false := by
      simp [inRanges, TOML_EXTRA_ESCAPE]; omega
    rw [unit_high _ _ h', hn]
    exact runPre_single tomlCfg c h' (by simp [tomlCfg]; omega)

/-- Every string written by `escape_string_toml_buf` is a well-formed TOML basic string that an
    independent reader of the TOML grammar decodes to exactly the source string. -/
theorem toml_basic_roundtrip (s : List Char) : tomlBasic (escToml s) = some s := by
  have hq : inRanges TOML_EXTRA_ESCAPE '"' = false := by decide
  rw [escToml, reescape_escJson _ hq]
  exact run_flatMap tomlCfg _ toml_unit s

/-- Keys: bare when `bare_allowed`, otherwise a basic string; either way a TOML reader gets the key back. -/
theorem toml_key_roundtrip (k : List Char) : ManifSpec.tomlKey (Manif.tomlKey k) = some k := by
  unfold Manif.tomlKey
  by_cases h : bareAllowed k = true
  · obtain ⟨hne, hall⟩ := bareAllowed_sound k h
    simp only [h, if_true]
    match k, hne, hall with
    | c :: cs, _, hall =>
      have hc : tomlBareChar c = true := by
        simp only [List.all_cons, Bool.and_eq_true] at hall; exact hall.1
      have hq : c ≠ '"' := by
        rintro rfl; revert hc; decide
      unfold ManifSpec.tomlKey
      split
      · contradiction
      · rename_i heq; simp at heq; exact absurd heq.1 hq
      · simp [hall]
  · simp only [h]
    have hq : inRanges TOML_EXTRA_ESCAPE '"' = false := by decide
    have := toml_basic_roundtrip k
    rw [escToml, reescape_escJson _ hq] at this ⊢
    simpa [ManifSpec.tomlKey] using this

example : Manif.tomlKey [] = "\"\"".toList := by decide

/-! ## Python -/

set_option maxRecDepth 100000 in
theorem py_unit_ascii : ∀ n, n < 128 →
    runPre pyCfg .plain (unit [] (Char.ofNat n)) = some (.plain, [Char.ofNat n]) := by
  decide +kernel

theorem py_unit (c : Char) : runPre pyCfg .plain (unit [] c) = some (.plain, [c]) := by
  by_cases h : c.toNat < 128
  · have := py_unit_ascii c.toNat h
    rwa [Char.ofNat_toNat] at this
  · have h' : 128 ≤ c.toNat := by omega
    rw [unit_high _ _ h']
    simp only [inRanges, List.any_nil, Bool.false_eq_true, if_false]
    refine runPre_single pyCfg c h' ?_
    have h1 := ne_of_high c '\n' h' (by decide)
    have h2 := ne_of_high c '\r' h' (by decide)
    simp [pyCfg, h1, h2]; omega

theorem reescape_nil (t : List Char) : reescape [] t = t := by
  simp [reescape, inRanges]

/-- The text written for a string (and for a field name) by `PythonFormat` is a Python string
    literal whose value is the source string. -/
theorem py_literal_roundtrip (s : List Char) : pyLiteral (pyStr s) = some s := by
  have hq : inRanges [] '"' = false := by decide
  rw [pyStr, ← reescape_nil (escJson s), reescape_escJson _ hq]
  exact run_flatMap pyCfg _ py_unit s

/-! ## YAML double-quoted scalars -/

set_option maxRecDepth 100000 in
theorem yaml_unit_ascii : ∀ n, n < 128 →
    runPre yamlCfg .plain (unit YAML_EXTRA_ESCAPE (Char.ofNat n)) = some (.plain, [Char.ofNat n]) := by
  decide +kernel

theorem yaml_unit (c : Char) : runPre yamlCfg .plain (unit YAML_EXTRA_ESCAPE c) = some (.plain, [c]) := by
  by_cases h : c.toNat < 128
  · have := yaml_unit_ascii c.toNat h
    rwa [Char.ofNat_toNat] at this
  · have h' : 128 ≤ c.toNat := by omega
    rw [unit_high _ _ h']
    by_cases hin : inRanges YAML_EXTRA_ESCAPE c = true
    · simp only [hin, if_true]
      have hlt : c.toNat < 65536 := by
        simp [inRanges, YAML_EXTRA_ESCAPE] at hin; omega
      exact runPre_u4 yamlCfg c hlt (by decide) (by decide)
    · simp only [hin]
      refine runPre_single yamlCfg c h' ?_
      have hv : c.toNat < 0xd800 ∨ (0xdfff < c.toNat ∧ c.toNat < 0x110000) := c.valid
      simp [inRanges, YAML_EXTRA_ESCAPE] at hin
      simp [yamlCfg, yamlLiteralOk]
      omega

/-- Every quoted string or key written by the YAML writer is a well-formed one-line double-quoted
    scalar — only printable characters appear literally, none of them a line break even for a
    YAML 1.1 reader — and decodes to exactly the source string. -/
theorem yaml_dq_roundtrip (s : List Char) : yamlDq (escYaml s) = some s := by
  have hq : inRanges YAML_EXTRA_ESCAPE '"' = false := by decide
  rw [escYaml, reescape_escJson _ hq]
  exact run_flatMap yamlCfg _ yaml_unit s

/-! ## XML -/

set_option maxRecDepth 100000 in
theorem xml_text_unit_ascii : ∀ n, n < 128 → xmlChar (Char.ofNat n) = true →
    xrunPre false .text (xmlEscChar 1 (Char.ofNat n)) = some (.text, [Char.ofNat n]) := by
  decide +kernel

set_option maxRecDepth 100000 in
theorem xml_attr_unit_ascii : ∀ n, n < 128 → xmlChar (Char.ofNat n) = true →
    xrunPre true .text (xmlEscChar 2 (Char.ofNat n)) = some (.text, [Char.ofNat n]) := by
  decide +kernel

/-- Character data written by the XML writer (context 1) contains only well-formed references and
    no markup, and an XML reader — including end-of-line normalisation — gets the source string back,
    for every string made of XML `Char`s. -/
theorem xml_text_roundtrip (s : List Char) (h : s.all xmlChar = true) : xmlText (escXml 1 s) = some s := by
  refine xrun_flatMap false _ s (fun c hc => ?_)
  have hx : xmlChar c = true := List.all_eq_true.mp h c hc
  by_cases hlt : c.toNat < 128
  · have := xml_text_unit_ascii c.toNat hlt (by rwa [Char.ofNat_toNat])
    rwa [Char.ofNat_toNat] at this
  · rw [xmlEscChar_high _ _ (by omega)]
    exact xrunPre_high false c (by omega) hx

/-- The same for a double-quoted attribute value (context 2), whose reader also applies
    attribute-value normalisation (tab, line feed, carriage return become spaces unless written as
    character references). -/
theorem xml_attr_roundtrip (s : List Char) (h : s.all xmlChar = true) : xmlAttr (escXml 2 s) = some s := by
  refine xrun_flatMap true _ s (fun c hc => ?_)
  have hx : xmlChar c = true := List.all_eq_true.mp h c hc
  by_cases hlt : c.toNat < 128
  · have := xml_attr_unit_ascii c.toNat hlt (by rwa [Char.ofNat_toNat])
    rwa [Char.ofNat_toNat] at this
  · rw [xmlEscChar_high _ _ (by omega)]
    exact xrunPre_high true c (by omega) hx

example : ("a<\"\n\r&é".toList).all xmlChar = true := by decide

set_option maxRecDepth 100000 in
theorem xml_no_markup_ascii : ∀ ctx, ctx < 3 → ∀ n, n < 128 → ∀ c, c ∈ xmlEscChar ctx (Char.ofNat n) →
    c ≠ '<' ∧ c ≠ '>' ∧ c ≠ '"' ∧ c ≠ '\'' := by
  decide +kernel

/-- In every context (std.escapeStringXML, character data, attribute value) the escaped text
    contains none of `<`, `>`, `"`, `'`. -/
theorem xml_escape_no_markup (ctx : Nat) (hctx : ctx < 3) (s : List Char) :
    ∀ c, c ∈ escXml ctx s → c ≠ '<' ∧ c ≠ '>' ∧ c ≠ '"' ∧ c ≠ '\'' := by
  intro c hc
  simp only [escXml, List.mem_flatMap] at hc
  obtain ⟨d, _, hcd⟩ := hc
  by_cases hlt : d.toNat < 128
  · have := xml_no_markup_ascii ctx hctx d.toNat hlt c (by rwa [Char.ofNat_toNat])
    exact this
  · rw [xmlEscChar_high _ _ (by omega)] at hcd
    simp at hcd
    subst hcd
    exact ⟨ne_of_high c _ (by omega) (by decide), ne_of_high c _ (by omega) (by decide),
      ne_of_high c _ (by omega) (by decide), ne_of_high c _ (by omega) (by decide)⟩

/-! ## YAML plain (unquoted) keys and CLI values -/

/-- What `bare_safe` lets through unquoted is never empty, consists of letters, digits and `-_./`
    only (no indicator, blank or comment character), is not one of the YAML 1.1 bool / null / inf /
    nan words in any casing, and is not a run of digits.  (The full exclusion of the YAML 1.1 int /
    float / timestamp patterns is exercised through PyYAML, not proved.) -/
theorem bareSafe_sound_basic (s : List Char) (h : bareSafe s = true) :
    s ≠ [] ∧ s.all yamlPlainSafeChar = true ∧ isYaml11Word s = false ∧ isDigits s = false := by
  refine ⟨?_, ?_, ?_, ?_⟩
  · rintro rfl; revert h; decide
  · have : s.all (inRanges YAML_CLASS_SAFE) = true := by
      unfold bareSafe at h
      by_cases hc : s.all (inRanges YAML_CLASS_SAFE) = true
      · exact hc
      · simp [hc] at h
    simp only [List.all_eq_true] at this ⊢
    exact fun c hc => yaml_safe_class c (this c hc)
  · cases hw : isYaml11Word s with
    | false => rfl
    | true =>
      exfalso
      have hmem : s.map asciiLower ∈ yaml11Words := by simpa [isYaml11Word] using hw
      obtain ⟨r, hr, hrl⟩ := words_reserved _ hmem
      have : isReserved s = true := by
        simp only [isReserved, List.any_eq_true]
        refine ⟨r, hr, ?_⟩
        simp only [eqIgnoreAsciiCase, hrl]
        have : s.map lower = s.map asciiLower := List.map_congr_left (fun c _ => lower_eq c)
        simp [this]
      rw [bareSafe_false_of_reserved s this] at h
      exact Bool.noConfusion h
  · cases hd : isDigits s with
    | false => rfl
    | true => rw [bareSafe_false_of_digits s hd] at h; exact Bool.noConfusion h


example : bareSafe "a-b.c/d_9".toList = true := by decide
example : bareSafe "Yes".toList = false := by decide

/-- Full strength against the YAML 1.1 implicit-type resolver as PyYAML implements it
    (`Model/ManifYaml11.lean`: bool, int incl. sign / `_` / `0b` / `0x` / leading-zero octal /
    sexagesimal, float incl. `.inf` / `.nan` / sexagesimal, timestamp, merge `<<`, value `=`, null
    `~`): a key or CLI string value that `bare_safe` leaves unquoted is resolved to a string, and
    as a plain scalar it contains no indicator, blank or comment start and is no document marker. -/
theorem bareSafe_sound (s : List Char) (h : bareSafe s = true) :
    ManifYaml11.resolvesToString s = true ∧ ManifYaml11.plainSyntaxOk s = true :=
  ManifYaml11Proofs.bareSafe_sound s h

example : bareSafe "0o17".toList = true ∧ ManifYaml11.resolvesToString "0o17".toList = true := by decide
example : bareSafe "0xA".toList = false ∧ ManifYaml11.isInt "0xA".toList = true := by decide

/-- The same statement against the letter of yaml.org/type/float.html, whose base-10 expression
    `[-+]?([0-9][0-9_]*)?\.[0-9.]*([eE][-+][0-9]+)?` allows any number of dots. -/
def BareSafeRepoStmt : Prop :=
  ∀ s : List Char, bareSafe s = true → ManifYaml11.resolvesToStringRepo s = true

/-- `1.2.3` is left unquoted and matches that expression.  (PyYAML, libyaml and the YAML 1.2 core
    schema all read `1.2.3` as a string, so no reader observes a difference; recorded, not flagged.) -/
theorem bareSafe_repo_counterexample : ¬ BareSafeRepoStmt := by
  intro h
  have := h "1.2.3".toList (by decide)
  revert this
  decide

/-- With at most one dot — the bound `bare_safe` itself uses — the type-repository variant holds too. -/
theorem bareSafe_repo_partial (s : List Char) (h : bareSafe s = true) (hdots : count s '.' ≤ 1) :
    ManifYaml11.resolvesToStringRepo s = true ∧ ManifYaml11.plainSyntaxOk s = true :=
  ManifYaml11Proofs.bareSafe_sound_repo s h hdots

example : bareSafe "a.b".toList = true ∧ count "a.b".toList '.' ≤ 1 := by decide

/-! ## TOML documents: the section structure denotes the value -/

open JrsVerif.ManifDoc JrsVerif.ManifTomlR JrsVerif.ManifTomlProofs in
/-- For every object whose tables have distinct keys (at every level), for both settings of
    `skip_empty_sections`: the lines the table writers start (`ManifDoc.items`: key/value lines,
    `[table]` and `[[array of tables]]` headers, in the order written), given the meaning TOML
    gives to such lines (`ManifTomlR.build`: a header opens or creates the table at its path, through
    the last element of an array of tables; a key or table is defined once; inline values are
    closed), build exactly the source value with the members of each table in written order
    (non-sections first).  Every table must therefore be announced by at least one line — an empty
    table by its own header: leaving out `!obj.is_empty()` in the guard of `manifest_table` breaks
    this theorem. -/
theorem toml_sections_rebuild (skip : Bool) (kvs : List (List Char × V)) (hw : inlineOk (.obj kvs) = true) :
    build ((items skip kvs).map stmtOf) = some (.obj (layoutP kvs ++ layoutS kvs)) :=
  build_items skip kvs hw

/-- The statement reader of the TOML reference reader, on a key as `escape_key_toml_buf` writes it
    followed by any text that does not continue a bare key (` = value`, `.`, `]`): the key is read
    back and exactly that text is left. -/
theorem toml_key_read_prefix (k rest : List Char) (hr : ∀ c, rest.head? = some c → tomlBareChar c = false) :
    ManifTomlR.readKey (Manif.tomlKey k ++ rest) = some (k, rest) :=
  ManifTomlLex.readKey_tomlKey toml_unit bareAllowed_sound k rest hr

/-- A `[a.b]` / `[[a.b]]` header line exactly as manifest_table / manifest_table_array write it
    (keys joined by `.`, each bare or quoted), followed by the rest of the document, is read by the
    reference reader as that header statement with that path. -/
theorem toml_header_line_read (path : List (List Char)) (hne : path ≠ []) (rest : List Char) :
    ManifTomlR.readStmt path.length ('[' :: (ManifDoc.joinPath path ++ ']' :: rest)) = some (.hdr false path, rest) ∧
    ManifTomlR.readStmt path.length ('[' :: '[' :: (ManifDoc.joinPath path ++ ']' :: ']' :: rest))
      = some (.hdr true path, rest) :=
  ManifTomlLex.readStmt_header toml_unit bareAllowed_sound path hne path.length (Nat.le_refl _) rest

example : ManifDoc.joinPath ["a".toList, "b-1".toList] = "a.b-1".toList := by decide

open JrsVerif.ManifDoc JrsVerif.ManifTomlProofs in
/-- `layoutP ++ layoutS` only reorders the members of a table. -/
theorem toml_layout_same_members (kvs : List (List Char × V)) :
    (layoutP kvs ++ layoutS kvs).Perm (kvs.map (fun kv => (kv.1, if isSection kv.2 then layoutV kv.2 else kv.2))) :=
  layout_perm kvs

open JrsVerif.ManifDoc JrsVerif.ManifTomlR JrsVerif.ManifTomlProofs in
example : inlineOk (.obj [("a".toList, .obj []), ("b".toList, .arr [.obj [], .obj [("c".toList, .obj [("d".toList, .num "1".toList)])]])]) = true := by
  decide

open JrsVerif.ManifDoc in
/-- the CLI format (`skip_empty_sections`) on `{a: {}, b: {c: {}}}`: `[a]` and `[b.c]`, no `[b]` -/
example : tomlDoc ⟨"  ".toList, true⟩ (.obj [("a".toList, .obj []), ("b".toList, .obj [("c".toList, .obj [])])])
    = some "[a]\n\n[b.c]".toList := by decide

/-! ## YAML stream framing -/

/-- Full statement: for every configuration, splitting the framed text at the document markers
    gives back exactly the documents (as lines), provided no document line is itself a marker. -/
def StreamFramingStmt : Prop :=
  ∀ (cde nl : Bool) (docs : List (List Char)), (∀ d, d ∈ docs → GoodDoc d) →
    streamDocs (yamlStream cde nl docs) = some (docs.map lines)

/-- The current code violates it: an empty stream with `c_document_end` is "\n...\n", a document
    end marker that ends no document (known finding `yaml_stream_empty_with_document_end`). -/
theorem yaml_stream_framing_counterexample : ¬ StreamFramingStmt := by
  intro h
  have := h true true [] (by simp)
  revert this
  decide

/-- It holds in every other case: at least one document, or no document end marker. -/
theorem yaml_stream_framing_partial (cde nl : Bool) (docs : List (List Char))
    (hne : docs ≠ [] ∨ cde = false) (hg : ∀ d, d ∈ docs → GoodDoc d) :
    streamDocs (yamlStream cde nl docs) = some (docs.map lines) := by
  cases docs with
  | nil =>
    rcases hne with h | h
    · exact absurd rfl h
    · subst h; cases nl <;> decide
  | cons d rest =>
    unfold streamDocs yamlStream
    rw [lines_yamlStream_cons d rest _ (tail_shape cde nl)]
    exact splitDocs_top d rest _ (tailL_mem cde nl) hg

example : GoodDoc "a: 1\n---b: |\n  ---\n...x".toList := by
  refine ⟨?_, ?_⟩ <;> decide

/-! ## domains: a writer fails exactly on the values its format cannot denote -/

/-- YAML, Python: accepted iff no function occurs anywhere in the value.  TOML: iff the value is an
    object and neither a function nor null occurs anywhere.  PythonVars: an object without functions.
    YAML stream: an array without functions.  XML: iff the value has JsonML shape (string, or array
    starting with a tag string, optional attribute object, children of the same shape) and contains
    no function.  (`accepts` mirrors where the writers `bail!`; `inDomain` is the declarative side.) -/
theorem domain_rejected (v : V) :
    accepts .yaml v = inDomain .yaml v ∧ accepts .python v = inDomain .python v ∧
    accepts .toml v = inDomain .toml v ∧ accepts .pyvars v = inDomain .pyvars v ∧
    accepts .yamlStream v = inDomain .yamlStream v ∧ accepts .xml v = inDomain .xml v := by
  refine ⟨?_, ?_, ?_, ?_, ?_, ?_⟩
  · simp [accepts, inDomain, noFunc_eq]
  · simp [accepts, inDomain, noFunc_eq]
  · cases v <;> simp [accepts, inDomain, noFuncNull_eq, V.isObj]
  · cases v <;> simp [accepts, inDomain, noFunc_eq, V.isObj]
  · cases v <;> simp [accepts, inDomain, V.isArr]
    rename_i xs
    have h0 : (V.arr xs).isFunc = false := rfl
    simp [hasFunc, nodes, allList_eq, all_not_eq_not_any, h0]
  · simp [accepts, inDomain, jsonml_eq]

/-- the rejections the property names: null or a function anywhere in a TOML document, a function
    anywhere for YAML / Python / XML, a non-JsonML shape for XML -/
theorem domain_rejected_named (v : V) :
    (hasNull v = true → accepts .toml v = false) ∧
    (hasFunc v = true → accepts .toml v = false ∧ accepts .yaml v = false ∧ accepts .python v = false
      ∧ accepts .pyvars v = false ∧ accepts .yamlStream v = false ∧ accepts .xml v = false) ∧
    (isJsonml v = false → accepts .xml v = false) := by
  obtain ⟨h1, h2, h3, h4, h5, h6⟩ := domain_rejected v
  refine ⟨fun h => ?_, fun h => ⟨?_, ?_, ?_, ?_, ?_, ?_⟩, fun h => ?_⟩
  · rw [h3]; simp [inDomain, h]
  · rw [h3]; simp [inDomain, h]
  · rw [h1]; simp [inDomain, h]
  · rw [h2]; simp [inDomain, h]
  · rw [h4]; simp [inDomain, h]
  · rw [h5]; simp [inDomain, h]
  · rw [h6]; simp [inDomain, h]
  · rw [h6]; simp [inDomain, h]

example : hasNull (.obj [("a".toList, .arr [.num "1".toList, .null])]) = true := by decide
example : isJsonml (.arr [.str "a".toList, .num "1".toList]) = false := by decide

end JrsVerif.Props.C14
