/- C15 — Command line, Rust API, C API and dependency lister agree.
   Property theorems only (helper lemmas live in Proofs/Cli.lean, Proofs/CliDeps.lean). -/
import JrsVerif.Proofs.Cli
import JrsVerif.Proofs.CliDeps

namespace JrsVerif.Cli

/-- C15.1  `plumb_spec`, full strength: whatever the order and repetition of `--ext-*`/`--tla-*`
    options, the setting a name ends up with is that of the strongest flavour naming it
    (code-file > code > str-file > str), the last one given of that flavour. -/
theorem plumb_lookup (opts : List VarOpt) (n : String) :
    lookup (plumbVars opts) n = specLookup opts n :=
  lookup_plumbVars opts n

/-- C15.1  each option reaches the setting it names: an option whose name is given once becomes
    exactly the variable kind of its flavour carrying exactly its payload (value, code or path). -/
theorem plumb_spec (opts : List VarOpt) (o : VarOpt) (hm : o ∈ opts)
    (huniq : ∀ o' ∈ opts, o'.name = o.name → o' = o) :
    lookup (plumbVars opts) o.name = some (kindOf o.fl, o.payload) := by
  rw [lookup_plumbVars]
  unfold specLookup
  cases hfl : o.fl with
  | str =>
    rw [lastOf_other .codeFile opts o (by simp [hfl]) huniq, lastOf_other .code opts o (by simp [hfl]) huniq,
        lastOf_other .strFile opts o (by simp [hfl]) huniq]
    have := lastOf_self opts o hm huniq
    rw [hfl] at this; simp [this]
  | strFile =>
    rw [lastOf_other .codeFile opts o (by simp [hfl]) huniq, lastOf_other .code opts o (by simp [hfl]) huniq]
    have := lastOf_self opts o hm huniq
    rw [hfl] at this; simp [this]
  | code =>
    rw [lastOf_other .codeFile opts o (by simp [hfl]) huniq]
    have := lastOf_self opts o hm huniq
    rw [hfl] at this; simp [this]
  | codeFile =>
    have := lastOf_self opts o hm huniq
    rw [hfl] at this; simp [this]

/-- no setting appears from nowhere: a name no option mentions stays unset -/
theorem plumb_absent (opts : List VarOpt) (n : String) (h : ∀ o ∈ opts, o.name ≠ n) :
    lookup (plumbVars opts) n = none := by
  rw [lookup_plumbVars]
  have hl : ∀ fl, lastOf fl opts n = none := by
    intro fl
    unfold lastOf
    have : (opts.filter (fun o => o.fl = fl)).reverse.find? (fun o => o.name = n) = none := by
      rw [List.find?_eq_none]
      intro x hx
      have hx' := List.mem_reverse.mp hx
      rw [List.mem_filter] at hx'
      simpa using h x hx'.1
    rw [this]; rfl
  simp [specLookup, hl]

/-- non-vacuity: a file flavour carries the *path*, not the name -/
example :
    let opts : List VarOpt := [⟨.strFile, "n", "/tmp/f"⟩, ⟨.str, "a", "1"⟩, ⟨.code, "a", "2"⟩, ⟨.str, "a", "3"⟩]
    lookup (plumbVars opts) "n" = some (.importStr, "/tmp/f") ∧
    lookup (plumbVars opts) "a" = some (.inlineCode, "2") := by
  decide

/-- C15.1  library paths: the right-most `-J` that has the file wins, `JSONNET_PATH` entries come
    after every `-J`, left-most first. -/
theorem paths_rightmost_wins (jpath env : List String) (has : String → Bool) :
    (cliPaths jpath env).find? has = (jpath.reverse.find? has).or (env.find? has) := by
  simp [cliPaths, List.find?_append]

/-- C15.3  `jsonnet_jpath_add` called for `p₁ … pₙ` gives the search order of `-J p₁ … -J pₙ` -/
theorem capi_paths_eq_cli (adds : List String) : capiPaths adds = cliPaths adds [] := by
  have h : ∀ (acc : List String), adds.foldl (fun ps p => p :: ps) acc = adds.reverse ++ acc := by
    induction adds with
    | nil => simp
    | cons a r ih => intro acc; simp [ih]
  simp [capiPaths, cliPaths, h]

/-- C15.1  output mode: each accepted combination of `-S`, `-f`, `-y`, `--line-padding` selects the
    format it names, with the documented default paddings -/
theorem format_spec (o : ManifestOpts) (h : o.accepted = true) :
    (o.string = true → manifestFormat o = .stringFmt) ∧
    (o.string = false → o.yamlStream = false → o.format = none →
        manifestFormat o = .json (o.linePadding.getD 3)) ∧
    (o.string = false → o.yamlStream = true → o.format = none →
        manifestFormat o = .yamlStream (.yaml (o.linePadding.getD 2))) ∧
    (∀ f, o.string = false → o.format = some f →
        manifestFormat o =
          (let b := match f with
            | .string => Fmt.toStringFmt
            | .json => .json (o.linePadding.getD 3)
            | .yaml => .yaml (o.linePadding.getD 2)
            | .toml => .toml (o.linePadding.getD 2)
            | .xmlJsonml => .xml
            | .ini => .ini
           if o.yamlStream then .yamlStream b else b)) := by
  obtain ⟨format, string, yamlStream, linePadding⟩ := o
  refine ⟨?_, ?_, ?_, ?_⟩
  · intro hs
    simp only at hs; subst hs
    cases yamlStream <;> simp_all [ManifestOpts.accepted, manifestFormat, baseFormat]
  · intro hs hy hf
    simp only at hs hy hf; subst hs hy hf
    simp [manifestFormat, baseFormat]
  · intro hs hy hf
    simp only at hs hy hf; subst hs hy hf
    simp [manifestFormat, baseFormat]
  · intro f hs hf
    simp only at hs hf; subst hs hf
    cases f <;> cases yamlStream <;> simp [manifestFormat, baseFormat]

/-- C15.2  `exit_status_iff_error`: whatever the output mode, the executable exits 0 exactly when
    the library reports success, and writes to stderr exactly when it reports an error. -/
theorem exit_status_iff_error (mode : Mode) (nl : Bool) (o : Outcome) :
    ((render mode nl o).exit = 0 ↔ o.isOk mode = true) ∧
    ((render mode nl o).stderr = true ↔ o.isOk mode = false) := by
  cases o with
  | err => simp [render, failed, Outcome.isOk]
  | manErr => cases mode <;> simp [render, failed, Outcome.isOk]
  | text t => cases mode <;> simp [render, failed, Outcome.isOk]
  | fields fs =>
    cases mode with
    | stdout => simp [render, failed, Outcome.isOk]
    | file p => simp [render, failed, Outcome.isOk]
    | multi dir =>
      simp only [render, Outcome.isOk]
      exact renderFields_exit dir nl fs _ rfl rfl

/-- C15.2  on success the standard output is exactly the manifestation followed by a newline
    (nothing for an empty manifestation), and `-o` writes exactly that to the file. -/
theorem stdout_is_manifestation (t : String) (nl : Bool) :
    (render .stdout nl (.text t)).stdout = (if t.isEmpty then "" else t ++ "\n") ∧
    (render .stdout nl (.text t)).files = [] ∧
    ∀ p, (render (.file p) nl (.text t)) = { stdout := "", stderr := false, exit := 0, files := [(p, t ++ "\n")] } := by
  simp [render]

/-- C15.3  `framing_roundtrip` (multi): what a C consumer decodes from `multi_to_raw` is exactly
    the list of (file name, text) pairs, for NUL-free strings and non-empty names. -/
theorem framing_roundtrip (kvs : List (Bytes × Bytes))
    (h : ∀ kv ∈ kvs, (∀ b ∈ kv.1, b ≠ 0) ∧ (∀ b ∈ kv.2, b ≠ 0) ∧ kv.1 ≠ []) :
    decodeMulti (multiToRaw kvs) = kvs := by
  cases kvs with
  | nil => decide
  | cons kv r =>
    rw [multiToRaw_cons]
    exact decode_flat (kv :: r) [] h

/-- C15.3  `framing_roundtrip` (stream): same for `stream_to_raw`, non-empty NUL-free documents -/
theorem framing_roundtrip_stream (vs : List Bytes)
    (h : ∀ v ∈ vs, (∀ b ∈ v, b ≠ 0) ∧ v ≠ []) :
    decodeStream (streamToRaw vs) = vs := by
  cases vs with
  | nil => decide
  | cons v r =>
    rw [streamToRaw_cons]
    exact decode_flatS (v :: r) [] h

/-- non-vacuity: two files, one with an empty text -/
example : decodeMulti (multiToRaw [([97], [123, 125]), ([98, 46, 116], [])]) = [([97], [123, 125]), ([98, 46, 116], [])] := by
  decide

/-- the hypotheses are needed: an empty document truncates a stream for the consumer -/
example : decodeStream (streamToRaw [[49], [], [50]]) = [[49]] := by decide

end JrsVerif.Cli

namespace JrsVerif.Deps

/-- C15.4  `deps_eq_reachable`: when the lister succeeds, it lists exactly the targets of the
    imports (of any kind) written in files reachable from the root through `import`, and no
    reachable file is unreadable/unparsable or has an unresolvable import. Any recursion budget. -/
theorem deps_eq_reachable (g : Graph) (fuel root : Nat) (deps vis : List Nat)
    (h : collect g fuel root = .ok deps vis) :
    (∀ t, t ∈ deps ↔ IsDep g root t) ∧ (∀ v, v ∈ vis ↔ Reach g root v) ∧ ¬ Bad g root := by
  unfold collect at h
  cases hg : g root with
  | none => simp [hg] at h
  | some es =>
    simp only [hg] at h
    have hfr : FromReachable g root es := ⟨root, es, Reach.refl, hg, fun _ hx => hx⟩
    have p := loop_ok g root fuel es [] [root] deps vis h hfr
    have hclosed : ∀ v, v ∈ vis → Closed g deps vis v := by
      intro v hv
      by_cases hr : v = root
      · subst hr; exact ⟨es, hg, p.edges⟩
      · exact p.closed v hv (by simpa using hr)
    have hsound : ∀ v, v ∈ vis → Reach g root v := by
      intro v hv
      by_cases hr : v = root
      · subst hr; exact Reach.refl
      · exact p.visSound v hv (by simpa using hr)
    have hcomplete : ∀ v, Reach g root v → v ∈ vis := by
      intro v hv
      induction hv with
      | refl => exact p.visMono _ (List.mem_cons_self ..)
      | step _ hga hmem hc ht ih =>
        obtain ⟨es', hg', hall⟩ := hclosed _ ih
        rw [hga] at hg'; cases hg'
        obtain ⟨t, ht', _, hv'⟩ := hall _ hmem
        rw [ht] at ht'; cases ht'
        exact hv' hc
    refine ⟨fun t => ⟨fun ht => p.depsSound t ht (by simp), ?_⟩, fun v => ⟨hsound v, hcomplete v⟩, ?_⟩
    · rintro ⟨a, esA, e, hra, hga, hmem, ht⟩
      obtain ⟨es', hg', hall⟩ := hclosed a (hcomplete a hra)
      rw [hga] at hg'; cases hg'
      obtain ⟨t', ht', hd, _⟩ := hall e hmem
      rw [ht] at ht'; cases ht'
      exact hd
    · rintro ⟨a, hra, hbad⟩
      obtain ⟨es', hg', hall⟩ := hclosed a (hcomplete a hra)
      rcases hbad with hnone | ⟨esA, e, hga, hmem, ht⟩
      · rw [hnone] at hg'; cases hg'
      · rw [hga] at hg'; cases hg'
        obtain ⟨t', ht', _, _⟩ := hall e hmem
        rw [ht] at ht'; cases ht'

/-- C15.4  the lister fails only for a reason: some reachable file is unreadable/unparsable or
    contains an import that cannot be resolved. -/
theorem deps_error_sound (g : Graph) (fuel root : Nat) (h : collect g fuel root = .bad) :
    Bad g root := by
  unfold collect at h
  cases hg : g root with
  | none => exact ⟨root, Reach.refl, Or.inl hg⟩
  | some es =>
    simp only [hg] at h
    exact loop_bad g root fuel es [] [root] h ⟨root, es, Reach.refl, hg, fun _ hx => hx⟩

/-- C15.4 corollary: every file an evaluation can load by following imports from the root is
    listed (evaluation only ever loads the target of an import expression of a file whose code it
    runs, i.e. of a reachable file). -/
theorem loaded_subset_deps (g : Graph) (fuel root : Nat) (deps vis : List Nat)
    (h : collect g fuel root = .ok deps vis) (a t : Nat) (es : List Edge) (e : Edge)
    (hrun : Reach g root a) (hga : g a = some es) (hmem : e ∈ es) (ht : e.tgt = some t) :
    t ∈ deps :=
  ((deps_eq_reachable g fuel root deps vis h).1 t).mpr ⟨a, es, e, hrun, hga, hmem, ht⟩

/-- non-vacuity: root 0 lists 1 by `importstr` first and `import`s it afterwards; 1 imports 2.
    (The unrepaired lister returned `[1]` here.) -/
example :
    let g : Graph := fun n => match n with
      | 0 => some [⟨false, some 1⟩, ⟨true, some 1⟩]
      | 1 => some [⟨true, some 2⟩]
      | 2 => some []
      | _ => none
    collect g 4 0 = .ok [2, 1] [2, 1, 0] := by
  simp [collect, loop, ins]

end JrsVerif.Deps
