/- C15: property theorems (not yet built). -/
