/- C13 — Standard-library object and type functions match their definitions.
   Property theorems only (helper lemmas live in Proofs/StdObj*.lean). -/
import JrsVerif.Proofs.StdObj
import JrsVerif.Proofs.StdObjEq
import JrsVerif.Proofs.StdObjMerge
import JrsVerif.Proofs.StdObjPrune

namespace JrsVerif.StdObj

/-! ## std.objectFields / objectFieldsAll / objectFieldsEx -/

/-- names are listed in strictly ascending order (hence without repetition) -/
theorem fields_sorted (o : FL) (hidden : Bool) : (fieldsEx o hidden).Pairwise (· < ·) :=
  fieldsEx_asc o hidden

/-- a name is listed iff the field exists (visibly, unless hidden ones were asked for) -/
theorem fields_mem (o : FL) (hidden : Bool) (k : String) :
    k ∈ fieldsEx o hidden ↔ hasEx o k hidden = true := mem_fieldsEx

/-- the two facts above determine the answer: any ascending list with these members is it -/
theorem fields_unique (o : FL) (hidden : Bool) (l : List String) (hl : l.Pairwise (· < ·))
    (hm : ∀ k, k ∈ l ↔ hasEx o k hidden = true) : l = fieldsEx o hidden :=
  asc_unique hl (fieldsEx_asc o hidden) (fun k => (hm k).trans mem_fieldsEx.symm)

/-- visible fields are among all fields -/
theorem fields_visible_sub_all (o : FL) (k : String) (h : k ∈ fieldsEx o false) :
    k ∈ fieldsEx o true := by
  rw [mem_fieldsEx] at *
  simp only [hasEx] at *
  exact has_imp_hasAll (by simpa using h)

/-! ## std.objectHas / objectHasAll / objectHasEx -/

/-- `objectHasEx(o, k, h)` (the walker) iff `k` is a member of `objectFieldsEx(o, h)` -/
theorem has_iff_fields_mem (o : FL) (k : String) (hidden : Bool) :
    Model.objectHasEx o k hidden = Spec.objectHasEx o k hidden := by
  unfold Model.objectHasEx Spec.objectHasEx; exact contains_fieldsEx.symm

/-! ## std.objectValues* / objectKeysValues* : lazy views -/

/-- element i of `objectValues*(o)` is the *thunk* of field `objectFields*(o)[i]`: building the
    array evaluates no field (a failing field is still there as a failing element) -/
theorem values_pointwise (o : FL) (hidden : Bool) :
    ∃ xs, Model.objectValuesEx o hidden = .arr xs ∧ xs.length = (fieldsEx o hidden).length ∧
      ∀ i : Nat, xs.toList[i]? = (fieldsEx o hidden)[i]?.map (getLazy o) := by
  refine ⟨_, rfl, ?_, ?_⟩
  · simp [length_eq_toList, toList_ofList]
  · intro i; simp [toList_ofList]

/-- element i of `objectKeysValues*(o)` is `{key: name_i, value: <thunk of the field>}` -/
theorem keysValues_pointwise (o : FL) (hidden : Bool) :
    ∃ xs, Model.objectKeysValuesEx o hidden = .arr xs ∧ xs.length = (fieldsEx o hidden).length ∧
      ∀ i : Nat, xs.toList[i]? = (fieldsEx o hidden)[i]?.map (fun k =>
        V.obj (.cons "key" false (.str k) (.cons "value" false (getLazy o k) .nil))) := by
  refine ⟨_, rfl, ?_, ?_⟩
  · simp [length_eq_toList, toList_ofList]
  · intro i; simp [toList_ofList]; rfl

/-- non-vacuity: a failing field stays an unevaluated element, the call succeeds -/
example : Model.objectValuesEx (.cons "a" false .err (.cons "b" true (.num 1) .nil)) true
    = .arr (.cons .err (.cons (.num 1) .nil)) := by rfl

/-! ## std.get -/

/-- `builtin_get` = `if objectHasEx(o, f, inc_hidden) then o[f] else default` -/
theorem get_spec (o : FL) (k : String) (d : V) (incHidden : Bool) :
    Model.get o k d incHidden = Spec.get o k d incHidden := by
  unfold Model.get Spec.get hasEx hasAll has getLazy
  cases hf : o.find? k with
  | none => cases incHidden <;> simp
  | some p =>
    obtain ⟨hid, v⟩ := p
    cases incHidden <;> cases hid <;> simp

/-- the default is not evaluated when the field exists: the answer does not depend on it, in
    particular a failing default does no harm -/
theorem get_default_lazy (o : FL) (k : String) (d d' : V) (incHidden : Bool)
    (h : hasEx o k incHidden = true) : Model.get o k d incHidden = Model.get o k d' incHidden := by
  rw [get_spec, get_spec]; simp [Spec.get, h]

/-- an absent (or, with `inc_hidden=false`, hidden) field gives the default and is not evaluated -/
theorem get_absent (o : FL) (k : String) (d : V) (incHidden : Bool)
    (h : hasEx o k incHidden = false) : Model.get o k d incHidden = force d := by
  rw [get_spec]; simp [Spec.get, h]

example : Model.get (.cons "a" false (.num 1) .nil) "a" .err true = some (.num 1) := by rfl
example : Model.get (.cons "a" true .err .nil) "a" (.num 5) false = some (.num 5) := by rfl

/-! ## std.objectRemoveKey -/

/-- the key is gone (also as a hidden field); every other field is exactly as it was
    (same visibility, same unevaluated value) -/
theorem removeKey_spec (o : FL) (k : String) :
    ∃ r, Model.objectRemoveKey o k = .obj r ∧ r.find? k = none ∧
      ∀ k', k' ≠ k → r.find? k' = o.find? k' :=
  ⟨_, rfl, find?_erase_self o k, fun _ h => find?_erase_ne o h⟩

/-- consequently its field list is the old one without the key -/
theorem removeKey_fields (o : FL) (k : String) (hidden : Bool) :
    fieldsEx (o.erase k) hidden = (fieldsEx o hidden).filter (· ≠ k) := by
  apply asc_unique (fieldsEx_asc _ _) ((fieldsEx_asc o hidden).filter _)
  intro x
  rw [List.mem_filter, mem_fieldsEx, mem_fieldsEx]
  by_cases hx : x = k
  · subst hx
    simp [hasEx, hasAll, has, find?_erase_self]
  · simp [hasEx, hasAll, has, find?_erase_ne o hx, hx]

/-! ## std.length, std.type, std.is*, std.xor, std.xnor -/

/-- `std.length` on the five kinds: code points, elements, *visible* fields, parameters; an error
    on null / booleans / numbers -/
theorem length_spec :
    (∀ s, Model.length (.str s) = some s.length) ∧
    (∀ xs, Model.length (.arr xs) = some xs.toList.length) ∧
    (∀ o, Model.length (.obj o) = some (fieldsEx o false).length) ∧
    (∀ n, Model.length (.func n) = some n) ∧
    Model.length .null = none ∧ (∀ b, Model.length (.bool b) = none) ∧
    (∀ n, Model.length (.num n) = none) := by
  refine ⟨fun _ => rfl, fun xs => ?_, fun _ => rfl, fun _ => rfl, rfl, fun _ => rfl, fun _ => rfl⟩
  simp [Model.length, length_eq_toList]

/-- every evaluated value has exactly one of the seven type names, and `std.isX` is the test for it -/
theorem type_is_partition (v : V) (hv : v ≠ .err) :
    (typeName v ∈ ["null", "boolean", "number", "string", "array", "object", "function"]) ∧
    (isType "string" v = true ↔ ∃ s, v = .str s) ∧ (isType "number" v = true ↔ ∃ n, v = .num n) ∧
    (isType "boolean" v = true ↔ ∃ b, v = .bool b) ∧ (isType "object" v = true ↔ ∃ o, v = .obj o) ∧
    (isType "array" v = true ↔ ∃ a, v = .arr a) ∧ (isType "function" v = true ↔ ∃ n, v = .func n) ∧
    (isType "null" v = true ↔ v = .null) := by
  cases v <;> simp_all [typeName, isType]

/-- truth tables -/
theorem xor_xnor_table :
    xor false false = false ∧ xor false true = true ∧ xor true false = true ∧ xor true true = false ∧
    xnor false false = true ∧ xnor false true = false ∧ xnor true false = false ∧ xnor true true = true ∧
    ∀ x y, xnor x y = !xor x y := by
  refine ⟨rfl, rfl, rfl, rfl, rfl, rfl, rfl, rfl, ?_⟩
  intro x y; cases x <;> cases y <;> rfl


/-! ## std.equals / primitiveEquals / assertEqual -/

/-- values of different types are unequal (no member is looked at) -/
theorem equals_type_mismatch (a b : V) (ha : a ≠ .err) (hb : b ≠ .err)
    (h : typeName a ≠ typeName b) : equals a b = some false := by
  cases a <;> cases b <;> simp_all [equals, primitiveEquals, typeName]

/-- on primitive values `equals` is `primitiveEquals`, which is `=` within one type -/
theorem equals_primitive (a b : V) (ha : ∀ xs, a ≠ .arr xs) (ho : ∀ fs, a ≠ .obj fs) :
    equals a b = primitiveEquals a b ∧
    (∀ x y, primitiveEquals (.num x) (.num y) = some (decide (x = y))) ∧
    (∀ x y, primitiveEquals (.str x) (.str y) = some (decide (x = y))) ∧
    (∀ x y, primitiveEquals (.bool x) (.bool y) = some (decide (x = y))) ∧
    primitiveEquals .null .null = some true ∧
    (∀ x y, primitiveEquals (.arr x) (.arr y) = none) ∧
    (∀ x y, primitiveEquals (.obj x) (.obj y) = none) ∧
    (∀ x y, primitiveEquals (.func x) (.func y) = none) := by
  refine ⟨equals_prim_left a b ha ho, ?_, ?_, ?_, rfl, fun _ _ => rfl, fun _ _ => rfl, fun _ _ => rfl⟩
  · intro x y; simp only [primitiveEquals]; rfl
  · intro x y; simp only [primitiveEquals]; rfl
  · intro x y; cases x <;> cases y <;> simp [primitiveEquals]

/-- symmetric on all values, failures included -/
theorem equals_symm (a b : V) : equals a b = equals b a := equals_symm_V a b

/-- whenever comparing a value with itself gives an answer, the answer is `true` -/
theorem equals_self_true (v : V) (b : Bool) (h : equals v v = some b) : b = true :=
  equals_self_V v b h

/-- reflexive on values without functions and failing thunks -/
theorem equals_refl (v : V) (h : clean v = true) : equals v v = some true := equals_refl_V v h

example : clean (.obj (.cons "a" false (.arr (.cons (.num 1) .nil)) (.cons "b" true .null .nil))) = true := by
  rfl

/-- hidden fields do not take part: an object equals itself plus any hidden field -/
example : equals (.obj (.cons "a" false (.num 1) .nil))
    (.obj (.cons "h" true .err (.cons "a" false (.num 1) .nil))) = some true := by rfl

/-- `assertEqual` succeeds (with `true`) exactly when `equals` says `true`, otherwise it fails -/
theorem assertEqual_spec (a b : V) :
    (assertEqual a b = some true ↔ equals a b = some true) ∧ assertEqual a b ≠ some false := by
  unfold assertEqual
  cases h : equals a b with
  | none => simp
  | some x => cases x <;> simp

/-- FULL statement for one shared value (`local a = v; std.equals(a, a)`): the native shortcut
    gives what the definition gives.  The current code violates it. -/
def EqualsSameStmt : Prop := ∀ v : V, equalsSame v = equals v v

/-- `local a = [error "x"]; std.equals(a, a)` : shortcut says `true`, the definition fails
    (replayed on the real code by the harness; known finding
    `c13_equals_shared_pointer_shortcut`) -/
theorem equalsSame_counterexample : ¬ EqualsSameStmt := by
  intro h
  have := h (.arr (.cons .err .nil))
  simp [equalsSame, equals, eqL, VL.length] at this

/-- the shortcut is right whenever the definition gives an answer at all -/
theorem equalsSame_partial (v : V) (h : equals v v ≠ none) : equalsSame v = equals v v := by
  cases hv : equals v v with
  | none => exact absurd hv h
  | some b =>
    have hb := equals_self_V v b hv
    subst hb
    cases v <;> simp_all [equalsSame]

example : equals (.arr (.cons (.num 1) .nil)) (.arr (.cons (.num 1) .nil)) ≠ none := by
  simp [equals, eqL, VL.length, primitiveEquals]

/-! ## std.mapWithKey -/

/-- one visible field per visible field, in ascending order; each value is the *deferred* call on
    the key and the field's thunk (nothing is evaluated by `mapWithKey` itself) -/
theorem mapWithKey_spec (f : String) (o : FL) :
    Model.mapWithKey f o = Spec.mapWithKey f o ∧
    ∃ r, Model.mapWithKey f o = .obj r ∧ r.names = fieldsEx o false := by
  refine ⟨rfl, _, rfl, ?_⟩
  generalize fieldsEx o false = ks
  induction ks with
  | nil => rfl
  | cons k ks ih => simpa [FL.ofList, FL.names] using ih

/-! ## std.mergePatch -/

/-- the native loop = the documented definition (std.jsonnet's comprehension over
    `objectFields`/`objectHas`, i.e. visible fields only), for all targets and patches, including
    hidden fields on either side, nulls, nested objects and failing thunks -/
theorem mergePatch_spec (t p : V) : Model.mergePatch t p = Spec.mergePatch t p :=
  mergePatch_spec_V p t

/-- RFC 7396: a patch that is not an object replaces the target -/
theorem mergePatch_nonobject_patch (t p : V) (hp : ∀ pf, p ≠ .obj pf) :
    Model.mergePatch t p = force p := by
  cases p <;> simp_all [Model.mergePatch, force]

/-- RFC 7396: a target that is not an object counts as `{}` -/
theorem mergePatch_nonobject_target (t : V) (pf : FL) (ht : ∀ tf, t ≠ .obj tf) :
    Model.mergePatch t (.obj pf) = Model.mergePatch (.obj .nil) (.obj pf) := by
  have : targetFields t = .nil := by cases t <;> simp_all [targetFields]
  simp only [Model.mergePatch]; rw [this]; rfl

/-- only visible fields matter: two targets with the same visible fields and two patches with the
    same visible fields give the same result (hidden fields on either side are never read) -/
theorem mergePatch_visible_only (tf tf' pf pf' : FL) (ht : ∀ k, visView tf k = visView tf' k)
    (hp : ∀ k, visView pf k = visView pf' k) :
    Model.mergePatch (.obj tf) (.obj pf) = Model.mergePatch (.obj tf') (.obj pf') :=
  mergePatch_visible_only_aux tf tf' pf pf' ht hp

/-- the instance that failed before the repair: `std.mergePatch({a:1},{a::2})` is `{a:1}` -/
example : Model.mergePatch (.obj (.cons "a" false (.num 1) .nil)) (.obj (.cons "a" true (.num 2) .nil))
    = some (.obj (.cons "a" false (.num 1) .nil)) := by rfl
example : ∀ k, visView (.cons "a" true (.num 2) .nil) k = visView .nil k := by
  intro k; simp [visView, has, FL.find?]

/-- field by field (RFC 7396 clauses): a visible `null` in the patch deletes; another visible patch
    value is merged into the target's visible field of that name (or into `null`); a field the patch
    does not show is the target's visible field, carried over unevaluated; nothing else exists; and
    all fields of the result are visible -/
theorem mergePatch_pointwise (t : V) (pf r : FL)
    (h : Model.mergePatch t (.obj pf) = some (.obj r)) (k : String) :
    r.find? k =
      if has pf k then
        (if isNull (getLazy pf k) then none
         else (mergedField (targetFields t) k (getLazy pf k)).map (fun v => (false, v)))
      else if has (targetFields t) k then some (false, getLazy (targetFields t) k)
      else none :=
  mergePatch_find t pf r h k

/-- the result lists its fields in ascending order, each once -/
theorem mergePatch_sorted (t : V) (pf r : FL) (h : Model.mergePatch t (.obj pf) = some (.obj r)) :
    r.names.Pairwise (· < ·) := mergePatch_names t pf r h

/-- untouched target fields stay lazy: a failing target field the patch does not mention neither
    fails the call nor is it evaluated — it is still the same thunk in the result -/
theorem mergePatch_untouched_lazy (t : V) (pf r : FL)
    (h : Model.mergePatch t (.obj pf) = some (.obj r)) (k : String)
    (hp : has pf k = false) (ht : has (targetFields t) k = true) :
    r.find? k = some (false, getLazy (targetFields t) k) := by
  rw [mergePatch_find t pf r h k]; simp [hp, ht]

example : Model.mergePatch (.obj (.cons "a" false .err (.cons "b" false (.num 1) .nil)))
    (.obj (.cons "b" false (.num 2) .nil))
    = some (.obj (.cons "a" false .err (.cons "b" false (.num 2) .nil))) := by rfl

/-! ## std.prune -/

/-- the native recursion = the documented comprehension definition -/
theorem prune_spec (v : V) : Model.prune v = Spec.prune v := prune_spec_V v

/-- the result contains no `null`, no empty array and no empty object as a member, at any depth,
    and objects of the result have only visible fields in ascending order -/
theorem prune_pruned (v r : V) (h : Model.prune v = some r) : Pruned r := prune_pruned_V v r h

/-- idempotent -/
theorem prune_idempotent (v r : V) (h : Model.prune v = some r) : Model.prune r = some r :=
  pruned_fix_V r (prune_pruned_V v r h)

/-- `std.prune({a:{b::1}, c:[null,[],{}], d:{e:null}, f:0})` is `{f:0}` -/
example : Model.prune (.obj (.cons "a" false (.obj (.cons "b" true (.num 1) .nil))
      (.cons "c" false (.arr (.cons .null (.cons (.arr .nil) (.cons (.obj .nil) .nil))))
      (.cons "d" false (.obj (.cons "e" false .null .nil)) (.cons "f" false (.num 0) .nil)))))
    = some (.obj (.cons "f" false (.num 0) .nil)) := by rfl

end JrsVerif.StdObj
