/- C13: property theorems (not yet built). -/
