/- C09: property theorems (not yet built). -/
