/- C09 — Numbers are IEEE-754 doubles with checked range and coherent comparison.
   Property theorems only (helper lemmas live in Proofs/Num.lean). -/
import JrsVerif.Proofs.Num
import JrsVerif.Proofs.NumCodec

set_option exponentiation.threshold 4096

namespace JrsVerif.Num

/-! ### 0. the value representation loses nothing -/

/-- C09.0a every finite 64-bit pattern decodes to a model value that encodes back to exactly that
    pattern: the exact-value model the other theorems speak about is a faithful image of `f64` -/
theorem bits_roundtrip (b : Nat) (hb : b < 2 ^ 64) (d : D) (h : decode b = some d) :
    encode d = some b := encode_decode b hb d h

/-- C09.0b `==` identifies two finite doubles exactly when they are the same bit pattern or both
    zeros: comparison is coherent with identity of values, not only with the order -/
theorem eq_on_bits (b₁ b₂ : Nat) (h₁ : b₁ < 2 ^ 64) (h₂ : b₂ < 2 ^ 64) (d₁ d₂ : D)
    (e₁ : decode b₁ = some d₁) (e₂ : decode b₂ = some d₂) :
    opEq d₁ d₂ = true ↔ (b₁ = b₂ ∨ (isZeroBits b₁ = true ∧ isZeroBits b₂ = true)) :=
  opEq_iff_bits b₁ b₂ h₁ h₂ d₁ d₂ e₁ e₂

/-- premises satisfiable: `+0` and `-0` are different patterns, equal numbers -/
example : (decode 0).isSome ∧ (decode (2 ^ 63)).isSome ∧ isZeroBits (2 ^ 63) = true := by decide

/-! ### 1. coherent comparison -/

/-- C09.1 on numbers exactly one of `a < b`, `a == b`, `a > b` holds (operators as coded:
    `<`/`>` through `Ord for NumValue`, `==` through `primitive_equals`) -/
theorem trichotomy (a b : D) :
    (opLt a b = true ∧ opEq a b = false ∧ opGt a b = false) ∨
    (opLt a b = false ∧ opEq a b = true ∧ opGt a b = false) ∨
    (opLt a b = false ∧ opEq a b = false ∧ opGt a b = true) := by
  unfold opLt opEq opGt eqImpl cmp
  simp only [Generated.NUM_EQ_EXACT, if_true]
  rcases Int.lt_trichotomy a.val b.val with h | h | h
  · left
    have : ¬ a.val = b.val := by omega
    simp [Int.compare_eq_lt.mpr h, this]
  · right; left
    simp [h]
  · right; right
    have : ¬ a.val = b.val := by omega
    simp [Int.compare_eq_gt.mpr h, this]

/-- C09.1 `<=`, `>=`, `!=` and the flipped operators agree with that trichotomy -/
theorem ops_agree (a b : D) :
    opLe a b = (opLt a b || opEq a b) ∧ opGe a b = (opGt a b || opEq a b) ∧
    opNe a b = !opEq a b ∧ opGt a b = opLt b a ∧ opEq a b = opEq b a := by
  unfold opLe opGe opNe opLt opEq opGt eqImpl cmp
  simp only [Generated.NUM_EQ_EXACT, if_true]
  rcases Int.lt_trichotomy a.val b.val with h | h | h
  · have e1 : (a.val == b.val) = false := beq_false_of_ne (by omega)
    have e2 : (b.val == a.val) = false := beq_false_of_ne (by omega)
    simp [Int.compare_eq_lt.mpr h, Int.compare_eq_gt.mpr h, e1, e2]
  · simp [h]
  · have e1 : (a.val == b.val) = false := beq_false_of_ne (by omega)
    have e2 : (b.val == a.val) = false := beq_false_of_ne (by omega)
    simp [Int.compare_eq_gt.mpr h, Int.compare_eq_lt.mpr h, e1, e2]

/-- the operators compute the order and equality of the exact values -/
theorem cmp_spec (a b : D) : opLt a b = Spec.lt a b ∧ opEq a b = Spec.eq a b := by
  refine ⟨cmp_lt_iff a b, ?_⟩
  unfold opEq eqImpl Spec.eq
  by_cases h : a.val = b.val <;> simp [Generated.NUM_EQ_EXACT, h]

/-- `std.sort` on numbers orders by the same comparison as `<` -/
theorem sort_uses_same_order (xs : List D) : sortImpl xs = Spec.sort xs := by
  unfold sortImpl Spec.sort
  congr 1
  funext x ys
  induction ys with
  | nil => rfl
  | cons y ys ih =>
    simp only [insertBy, Spec.insert, cmp_lt_iff, decide_eq_true_eq]
    split <;> simp [ih]

/-- `std.sort` returns a permutation of its input that is ascending for `<=` -/
theorem sort_sorted_perm (xs : List D) :
    (sortImpl xs).Pairwise (fun p q => opLe p q = true) ∧ (sortImpl xs).Perm xs := by
  rw [sort_uses_same_order]
  refine ⟨?_, sort_perm' xs⟩
  exact (sort_sorted' xs).imp (fun h => (opLe_iff _ _).mpr h)

/-- `std.set` (= uniq ∘ sort, with uniq driven by `==`) is strictly ascending for `<` and holds
    exactly the values of its input: `==` and `<` agree, so no two equal numbers survive and no
    value is lost -/
theorem set_strict_same_values (xs : List D) :
    (setImpl xs).Pairwise (fun p q => opLt p q = true) ∧
    ∀ v : D, (∃ y ∈ setImpl xs, opEq y v = true) ↔ (∃ y ∈ xs, opEq y v = true) := by
  unfold setImpl
  rw [sort_uses_same_order]
  have u := uniqImpl_spec (Spec.sort xs) (sort_sorted' xs)
  refine ⟨u.1.imp (fun h => (opLt_iff _ _).mpr h), ?_⟩
  intro v
  simp only [opEq_iff]
  rw [u.2 v.val]
  constructor
  · rintro ⟨y, hy, h⟩; exact ⟨y, (sort_perm' xs).mem_iff.mp hy, h⟩
  · rintro ⟨y, hy, h⟩; exact ⟨y, (sort_perm' xs).mem_iff.mpr hy, h⟩

/-- `std.setMember(x, std.set(xs))` (binary search driven by the same comparison) is true iff
    some element of `xs` is `==` to `x` -/
theorem setMember_iff_mem (x : D) (xs : List D) :
    setMemberImpl x (setImpl xs) = true ↔ ∃ y ∈ xs, opEq y x = true := by
  have s := set_strict_same_values xs
  rw [setMemberImpl_spec x (setImpl xs) (s.1.imp (fun h => (opLt_iff _ _).mp h))]
  rw [← s.2 x]
  simp only [opEq_iff]

/-- on any strictly ascending array the binary search of `std.setMember` finds exactly the
    elements that are `==` to the probe -/
theorem setMember_binsearch (x : D) (arr : List D)
    (h : arr.Pairwise (fun p q => opLt p q = true)) :
    setMemberImpl x arr = true ↔ ∃ y ∈ arr, opEq y x = true := by
  rw [setMemberImpl_spec x arr (h.imp (fun h => (opLt_iff _ _).mp h))]
  simp only [opEq_iff]

example : [(⟨false, 1⟩ : D), ⟨false, 2⟩].Pairwise (fun p q => opLt p q = true) := by decide

/-! ### 2. finite guard -/

/-- only finite bit patterns become number values -/
theorem finite_guard (b r : Nat) : tryNum b = .ok r ↔ (r = b ∧ isFiniteBits b = true) :=
  tryNum_ok b r

/-- a bit pattern decodes to a value iff it is finite -/
theorem decode_isSome_iff (b : Nat) : (decode b).isSome = isFiniteBits b := by
  unfold decode isFiniteBits
  by_cases h : b / 2 ^ 52 % 2048 = 2047 <;> simp [h]

/-- whatever the hardware computes for `+ - * / %`, the value handed on is finite and is the
    hardware result -/
theorem arith_result_finite (hw : AOp → Nat → Nat → Nat) (op : AOp) (a b r : Nat)
    (h : arith hw op a b = .ok r) : isFiniteBits r = true ∧ r = hw op a b :=
  arith_finite hw op a b r h

/-- an overflowing / invalid hardware result is an error, not a value -/
theorem arith_nonfinite_is_error (hw : AOp → Nat → Nat → Nat) (op : AOp) (a b : Nat)
    (h : isFiniteBits (hw op a b) = false) : ∃ e, arith hw op a b = .error e := by
  cases op
  case div => by_cases z : isZeroBits b = true <;> simp [arith, tryNum, h, z]
  case mod => by_cases z : isZeroBits b = true <;> simp [arith, tryNum, h, z]
  all_goals simp [arith, tryNum, h]

/-- division and modulo by either zero are `DivisionByZero` errors -/
theorem div_mod_by_zero (hw : AOp → Nat → Nat → Nat) (a b : Nat) (h : isZeroBits b = true) :
    arith hw .div a b = .error .div0 ∧ arith hw .mod a b = .error .div0 := by
  simp [arith, h]

/-- results of `f64`-returning builtins and of unary minus go through the same check -/
theorem builtin_result_finite (raw r : Nat) (hw : Nat → Nat) (a : Nat) :
    (builtinRet raw = .ok r → isFiniteBits r = true) ∧
    (negOp hw a = .ok r → isFiniteBits r = true) := by
  constructor
  · intro h; have := (tryNum_ok _ _).mp h; exact this.1 ▸ this.2
  · intro h; have := (tryNum_ok _ _).mp h; exact this.1 ▸ this.2

/-! ### 3. bitwise operators and shifts -/

/-- the operand guard of the bitwise operators is exactly the safe-integer range, and the operand
    value used is the integer part -/
theorem trunc_is_safe_range (a : D) : truncBitwise a = Spec.intOf a := truncBitwise_eq_spec a

/-- `& | ^` : on in-range operands the result is the integer whose 64-bit two's-complement pattern
    is the bitwise combination of the operands' patterns; it stays in the safe range (so the
    conversion back to a double is exact and finite); out-of-range operands are errors. -/
theorem bitwise_spec (op : BOp) (a b : D) :
    (∀ r, bitOp op a b = .ok r →
        ∃ x y, Spec.intOf a = .ok x ∧ Spec.intOf b = .ok y ∧
          bits64 r = op.onBits (bits64 x) (bits64 y) ∧
          (∀ i, (bits64 r).getLsbD i = op.onBool ((bits64 x).getLsbD i) ((bits64 y).getLsbD i)) ∧
          -(2 ^ 53) ≤ r ∧ r < 2 ^ 53) ∧
    ((∃ e, bitOp op a b = .error e) ↔
        (Spec.intOf a = .error .range ∨ Spec.intOf b = .error .range)) := by
  unfold bitOp
  rw [truncBitwise_eq_spec a, truncBitwise_eq_spec b]
  cases ha : Spec.intOf a with
  | error e =>
    have : e = .range := by
      unfold Spec.intOf at ha; split at ha <;> cases ha; rfl
    subst this
    simp [bind, Except.bind]
  | ok x =>
    cases hb : Spec.intOf b with
    | error e =>
      have : e = .range := by
        unfold Spec.intOf at hb; split at hb <;> cases hb; rfl
      subst this
      simp [bind, Except.bind]
    | ok y =>
      have rx := intOf_range a x ha
      have ry := intOf_range b y hb
      have rr := i64Bit_range op x y (by omega) (by omega) (by omega) (by omega)
      simp only [bind, Except.bind, pure, Except.pure]
      refine ⟨?_, by simp⟩
      intro r hr
      cases hr
      exact ⟨x, y, rfl, rfl, bits64_i64Bit op x y, bits64_getLsbD op x y, rr.1, rr.2⟩

/-- `<<` as coded equals its reference meaning: negative count → error; operand outside the safe
    range → error; count taken modulo 64; result `x · 2^n` when it fits `i64`, else an overflow
    error (in particular for negative bases). -/
theorem shl_spec (a b : D) : shlOp a b = Spec.shl a b := by
  unfold shlOp Spec.shl isNegative
  by_cases hb : b.val < 0
  · simp [hb]
  · simp only [hb, decide_false, if_false, Bool.false_eq_true]
    rw [truncBitwise_eq_spec a, truncBitwise_eq_spec b]
    cases ha : Spec.intOf a with
    | error e => simp [bind, Except.bind]
    | ok x =>
      cases hn : Spec.intOf b with
      | error e => simp [bind, Except.bind]
      | ok n =>
        have n0 := intOf_nonneg b n hb hn
        have rx := intOf_range a x ha
        simp only [bind, Except.bind, pure, Except.pure, Generated.SHIFT_MOD]
        have he : (Int.tmod n ((64 : Nat) : Int)).toNat = n.toNat % 64 := tmod64_toNat n n0
        simp only [he]
        have hlt : n.toNat % 64 < 64 := Nat.mod_lt _ (by decide)
        have g := shl_guard_iff x (n.toNat % 64) hlt rx.1 rx.2
        by_cases hg : (n.toNat % 64 ≥ 1 ∧ (x ≥ 2 ^ (63 - n.toNat % 64) ∨ x < -(2 ^ (63 - n.toNat % 64))))
        · have nf := g.mp hg
          have : Spec.fitsI64 (x * 2 ^ (n.toNat % 64)) = false := by
            unfold Spec.fitsI64; simpa using nf
          simp [hg, this]
        · have f : (-(2 ^ 63) ≤ x * 2 ^ (n.toNat % 64) ∧ x * 2 ^ (n.toNat % 64) < 2 ^ 63) := by
            by_cases c : (-(2 ^ 63) ≤ x * 2 ^ (n.toNat % 64) ∧ x * 2 ^ (n.toNat % 64) < 2 ^ 63)
            · exact c
            · exact absurd (g.mpr c) hg
          have : Spec.fitsI64 (x * 2 ^ (n.toNat % 64)) = true := by
            unfold Spec.fitsI64; simpa using f
          simp only [hg, this, if_false, if_true]
          rw [wrapI64_of_fits _ f.1 f.2]

/-- `<<` fails exactly for: negative count, an operand outside the safe range, or a product that
    does not fit `i64`; otherwise the result is the exact product -/
theorem shl_err_iff (a b : D) :
    (∃ e, shlOp a b = .error e) ↔
      (b.val < 0 ∨ Spec.intOf a = .error .range ∨ Spec.intOf b = .error .range ∨
        ∃ x n, Spec.intOf a = .ok x ∧ Spec.intOf b = .ok n ∧
          ¬ (-(2 ^ 63) ≤ x * 2 ^ (n.toNat % 64) ∧ x * 2 ^ (n.toNat % 64) < 2 ^ 63)) := by
  rw [shl_spec]
  unfold Spec.shl
  by_cases hb : b.val < 0
  · simp [hb]
  · simp only [hb, if_false, false_or]
    cases ha : Spec.intOf a with
    | error e =>
      have : e = .range := by
        unfold Spec.intOf at ha; split at ha <;> cases ha; rfl
      subst this; simp [bind, Except.bind]
    | ok x =>
      cases hn : Spec.intOf b with
      | error e =>
        have : e = .range := by
          unfold Spec.intOf at hn; split at hn <;> cases hn; rfl
        subst this; simp [bind, Except.bind]
      | ok n =>
        simp only [bind, Except.bind, pure, Except.pure]
        by_cases f : (-(2 ^ 63) ≤ x * 2 ^ (n.toNat % 64) ∧ x * 2 ^ (n.toNat % 64) < 2 ^ 63)
        · have : Spec.fitsI64 (x * 2 ^ (n.toNat % 64)) = true := by
            unfold Spec.fitsI64; simpa using f
          simp [this]; omega
        · have : Spec.fitsI64 (x * 2 ^ (n.toNat % 64)) = false := by
            unfold Spec.fitsI64; simpa using f
          simp [this]; omega

/-- `>>` as coded equals its reference meaning (arithmetic shift = floor division by `2^n`,
    count modulo 64, same operand guards) -/
theorem shr_spec (a b : D) : shrOp a b = Spec.shr a b := by
  unfold shrOp Spec.shr isNegative
  by_cases hb : b.val < 0
  · simp [hb]
  · simp only [hb, decide_false, if_false, Bool.false_eq_true]
    rw [truncBitwise_eq_spec a, truncBitwise_eq_spec b]
    cases ha : Spec.intOf a with
    | error e => simp [bind, Except.bind]
    | ok x =>
      cases hn : Spec.intOf b with
      | error e => simp [bind, Except.bind]
      | ok n =>
        have n0 := intOf_nonneg b n hb hn
        simp only [bind, Except.bind, pure, Except.pure, Generated.SHIFT_MOD]
        have he : (Int.tmod n ((64 : Nat) : Int)).toNat = n.toNat % 64 := tmod64_toNat n n0
        simp only [he, Int.shiftRight_eq_div_pow]
        simp

/-- unary `~` on an operand whose integer part fits `i64` is `-x - 1` (two's-complement not) -/
theorem bitnot_spec (a : D) (h1 : -(2 ^ 63) ≤ Int.tdiv a.val (U : Int))
    (h2 : Int.tdiv a.val (U : Int) ≤ 2 ^ 63 - 1) :
    bitNot a = -(Int.tdiv a.val (U : Int)) - 1 ∧
    bits64 (bitNot a) = ~~~ bits64 (Int.tdiv a.val (U : Int)) := by
  have e : bitNot a = -(Int.tdiv a.val (U : Int)) - 1 := by
    unfold bitNot satI64
    simp only
    split
    · omega
    · split
      · omega
      · rfl
  refine ⟨e, ?_⟩
  rw [e]
  apply BitVec.eq_of_toInt_eq
  simp only [bits64, BitVec.toInt_ofInt, BitVec.toInt_not, BitVec.toNat_ofInt]
  have : ((2 : Nat) ^ 64 : Nat) = 18446744073709551616 := by decide
  simp only [this, Int.bmod_def]
  omega

/-! ### non-vacuity -/

/-- 1.0, 2^53−1 and 2^53 decode as expected; 2^53 is outside the bitwise range, 2^53−1 inside -/
example :
    decode 0x3ff0000000000000 = some ⟨false, U⟩ ∧
    Spec.intOf ⟨false, (2 ^ 53 - 1) * U⟩ = .ok (2 ^ 53 - 1) ∧
    Spec.intOf ⟨false, 2 ^ 53 * U⟩ = .error .range := by
  refine ⟨by decide, ?_, ?_⟩ <;> simp [Spec.intOf, D.val, U] <;> decide

/-- the witnesses of the repaired defects, on the model -/
example : opEq ⟨false, 0⟩ ⟨false, 1⟩ = false ∧ opLt ⟨false, 0⟩ ⟨false, 1⟩ = true := by decide

example : shlOp ⟨true, (2 ^ 53 - 1) * U⟩ ⟨false, 12 * U⟩ = .error .overflow := by
  rw [shl_spec]; rfl

example : shlOp ⟨false, 1 * U⟩ ⟨false, 64 * U⟩ = .ok 1 := by
  rw [shl_spec]; rfl

example : bitOp .and ⟨true, 5 * U⟩ ⟨false, 3 * U⟩ = .ok 3 := by
  rw [bitOp, truncBitwise_eq_spec, truncBitwise_eq_spec]; rfl

end JrsVerif.Num
