/- C11: property theorems (not yet built). -/
