/- C11 — Stdlib string, encoding, parsing functions match their definitions.
   Property theorems only (helper lemmas live in Proofs/Str.lean). Strings are lists of code
   points, byte strings lists of naturals; `Model.*` is the code, `Spec.*` the definition. -/
import JrsVerif.Proofs.Str

namespace JrsVerif.Str

/-- C11.1  decoding the UTF-8 encoding of any string of scalar values gives the string back
    (`std.decodeUTF8(std.encodeUTF8(s)) == s`) -/
theorem utf8_roundtrip (s : List Nat) (hs : AllScalar s) : dec (enc s) = some s :=
  decF_enc s hs _ (length_le_enc s)

/-- C11.1  whatever the decoder accepts is the encoding of its result, and the result consists of
    scalar values only (`std.encodeUTF8(std.decodeUTF8(b)) == b` on the decoder's domain) -/
theorem utf8_decode_sound (bs s : List Nat) (h : dec bs = some s) : enc s = bs ∧ AllScalar s :=
  decF_sound _ bs s h

/-- C11.1  the strict decoder rejects exactly the byte strings that are not the encoding of a
    string of scalar values (overlong forms, surrogates, > U+10FFFF, stray/missing continuations) -/
theorem utf8_decode_rejects_invalid (bs : List Nat) :
    dec bs = none ↔ ¬ ∃ s, AllScalar s ∧ enc s = bs := by
  constructor
  · rintro h ⟨s, hs, rfl⟩
    rw [utf8_roundtrip s hs] at h; cases h
  · intro h
    cases hd : dec bs with
    | none => rfl
    | some s => exact absurd ⟨s, (utf8_decode_sound bs s hd).2, (utf8_decode_sound bs s hd).1⟩ h

example : AllScalar [97, 233, 0x2192, 0x1F600] ∧ enc [97, 233, 0x2192, 0x1F600] =
    [0x61, 0xC3, 0xA9, 0xE2, 0x86, 0x92, 0xF0, 0x9F, 0x98, 0x80] := by
  refine ⟨by intro c hc; simp at hc; rcases hc with rfl | rfl | rfl | rfl <;> decide, by decide⟩
example : dec [0xED, 0xA0, 0x80] = none ∧ dec [0xC0, 0xAF] = none ∧ dec [0xF4, 0x90, 0x80, 0x80] = none ∧
    dec [0xE2, 0x86] = none := by decide

/-- C11.2  the `char_indices` / byte-slice walk of `std.findSubstr` computes the reference
    definition: all code-point positions where the pattern occurs -/
theorem findSubstr_spec (pat s : List Nat) : Model.findSubstr pat s = Spec.findSubstr pat s :=
  findSubstr_model_eq_spec pat s

/-- C11.2  …which are exactly the (possibly overlapping) occurrences, as code-point indices -/
theorem findSubstr_mem (pat s : List Nat) (i : Nat) :
    i ∈ Model.findSubstr pat s ↔ pat ≠ [] ∧ i < s.length ∧ pat <+: s.drop i := by
  rw [findSubstr_spec]; unfold Spec.findSubstr
  by_cases hp : pat = []
  · simp [hp]
  · simp [hp, List.mem_filter, List.mem_range]

/-- C11.2  …listed once each in ascending order -/
theorem findSubstr_sorted (pat s : List Nat) : (Model.findSubstr pat s).Pairwise (· < ·) := by
  rw [findSubstr_spec]; unfold Spec.findSubstr
  split
  · exact List.Pairwise.nil
  · exact List.Pairwise.filter _ List.pairwise_lt_range

/-- overlapping occurrences and multi-byte text: "éaéaé" contains "éaé" at code points 0 and 2 -/
example : Model.findSubstr [233, 97, 233] [233, 97, 233, 97, 233] = [0, 2] := by decide

/-- C11.1  lossy decoding (`std.decodeUTF8(b)` with the default `lossy=true`) changes nothing on
    valid input -/
theorem utf8_lossy_valid (bs s : List Nat) (h : dec bs = some s) : decLossy bs = s :=
  decLossyF_of_decF _ bs s h

/-- C11.2  `std.startsWith(a, b)` on strings compares UTF-8 bytes; that is the code-point prefix
    test -/
theorem startsWith_spec (a b : List Nat) : Model.startsWith a b = Spec.startsWith a b := by
  unfold Model.startsWith Spec.startsWith
  rw [Bool.eq_iff_iff, List.isPrefixOf_iff_prefix, List.isPrefixOf_iff_prefix]
  exact enc_prefix_iff b a

/-- C11.3  `std.substr(s, from, len)` is the window of `len` code points starting at code point
    `from`, cut at the end of the string: element by element… -/
theorem substr_spec (s : List Nat) (from_ len i : Nat) :
    (Model.substr s from_ len)[i]? = if i < len then s[from_ + i]? else none := by
  unfold Model.substr
  rw [List.getElem?_take, List.getElem?_drop]

/-- C11.3  …and in length (offsets and counts beyond the end are not errors) -/
theorem substr_length (s : List Nat) (from_ len : Nat) :
    (Model.substr s from_ len).length = min len (s.length - from_) := by
  simp [Model.substr]

example : Model.substr [233, 0x1F600, 97] 1 5 = [0x1F600, 97] ∧ Model.substr [233, 97] 3 1 = [] := by
  decide

/-- C11.4  `std.lstripChars`: the code (with its `is_empty` early returns) is the reference
    definition, and the result is what remains after removing a prefix consisting of listed
    characters only, and does not itself start with a listed character (so the removed prefix is
    the maximal one) -/
theorem lstrip_spec (s cs : List Nat) :
    Model.lstrip s cs = Spec.lstrip s cs ∧
    ∃ pre, s = pre ++ Model.lstrip s cs ∧ (∀ x ∈ pre, x ∈ cs) ∧
      (∀ h, (Model.lstrip s cs).head? = some h → h ∉ cs) := by
  refine ⟨lstrip_model_eq_spec s cs, ?_⟩
  rw [lstrip_model_eq_spec]; unfold Spec.lstrip
  obtain ⟨pre, e, h1, h2⟩ := dropWhile_decomp (fun c => cs.contains c) s
  refine ⟨pre, e, ?_, ?_⟩
  · intro x hx; simpa using h1 x hx
  · intro h hh; simpa using h2 h hh

/-- C11.4  `std.rstripChars`, mirrored -/
theorem rstrip_spec (s cs : List Nat) :
    Model.rstrip s cs = Spec.rstrip s cs ∧
    ∃ suf, s = Model.rstrip s cs ++ suf ∧ (∀ x ∈ suf, x ∈ cs) ∧
      (∀ l, (Model.rstrip s cs).getLast? = some l → l ∉ cs) := by
  refine ⟨rstrip_model_eq_spec s cs, ?_⟩
  rw [rstrip_model_eq_spec]; unfold Spec.rstrip
  obtain ⟨pre, e, h1, h2⟩ := dropWhile_decomp (fun c => cs.contains c) s.reverse
  refine ⟨pre.reverse, ?_, ?_, ?_⟩
  · have := congrArg List.reverse e
    simpa using this
  · intro x hx; simpa using h1 x (by simpa using hx)
  · intro l hl
    rw [List.getLast?_reverse] at hl
    simpa using h2 l hl

/-- C11.4  `std.stripChars` removes a run of listed characters from both ends and leaves a
    string that neither starts nor ends with a listed character -/
theorem strip_spec (s cs : List Nat) :
    Model.strip s cs = Spec.strip s cs ∧
    ∃ pre suf, s = pre ++ Model.strip s cs ++ suf ∧ (∀ x ∈ pre, x ∈ cs) ∧ (∀ x ∈ suf, x ∈ cs) ∧
      (∀ h, (Model.strip s cs).head? = some h → h ∉ cs) ∧
      (∀ l, (Model.strip s cs).getLast? = some l → l ∉ cs) := by
  refine ⟨strip_model_eq_spec s cs, ?_⟩
  rw [strip_model_eq_spec]; unfold Spec.strip
  obtain ⟨_, pre, e1, hpre, hhead⟩ := lstrip_spec s cs
  obtain ⟨_, suf, e2, hsuf, hlast⟩ := rstrip_spec (Spec.lstrip s cs) cs
  rw [lstrip_model_eq_spec] at e1 hhead
  rw [rstrip_model_eq_spec] at e2 hlast
  refine ⟨pre, suf, ?_, hpre, hsuf, ?_, hlast⟩
  · rw [List.append_assoc, ← e2, ← e1]
  · intro h hh
    apply hhead h
    rw [e2]
    cases hr : Spec.rstrip (Spec.lstrip s cs) cs with
    | nil => rw [hr] at hh; simp at hh
    | cons a r => rw [hr] at hh; simpa using hh

/-- stripping "é" and "," from ",é a,b é," leaves " a,b " (inner occurrences stay) -/
example : Model.strip [44, 233, 32, 97, 44, 98, 32, 233, 44] [233, 44] = [32, 97, 44, 98, 32] := by decide

/-- C11.5  the `checked_sub` cascade of `parse_nat::<BASE>` accepts exactly the digits of the base
    and gives them their value -/
theorem digitOf_spec (base c : Nat) (hb : base = 8 ∨ base = 10 ∨ base = 16) :
    Spec.digitVal base c =
      if Model.digitOf base c < base then some (Model.digitOf base c) else none :=
  digitOf_eq base c hb

/-- C11.5  `std.parseOctal/parseInt/parseHex`: when every character is a digit of the base and the
    positional value Σ dᵢ·baseⁱ is below 2^53, the f64 fold returns exactly that value -/
theorem parseNat_spec (base : Nat) (hb : base = 8 ∨ base = 10 ∨ base = 16) (s : List Nat) (v : Nat)
    (h : Spec.parseNat base s = some v) (hv : v < 2 ^ 53) : Model.parseNat base s = some v := by
  unfold Spec.parseNat at h; unfold Model.parseNat
  split at h
  · simp at h
  · rename_i hne
    rw [if_neg hne]
    exact parseNatGo_exact base hb s 0 v h hv

/-- C11.5  …and it is an error exactly for the empty string and for strings containing a character
    that is not a digit of the base -/
theorem parseNat_reject_iff (base : Nat) (hb : base = 8 ∨ base = 10 ∨ base = 16) (s : List Nat) :
    Model.parseNat base s = none ↔ s = [] ∨ ∃ c ∈ s, Spec.digitVal base c = none := by
  unfold Model.parseNat
  by_cases hs : s = []
  · simp [hs]
  · simp [hs, parseNatGo_none_iff base hb]

/-- C11.5  no character outside ASCII — fullwidth or Arabic-Indic digits included — and none of
    `:;<=>?@` is a digit -/
theorem non_digit_rejected (base c : Nat) (hb : base = 8 ∨ base = 10 ∨ base = 16)
    (hc : 128 ≤ c ∨ (58 ≤ c ∧ c ≤ 64)) (s t : List Nat) : Model.parseNat base (s ++ c :: t) = none := by
  rw [parseNat_reject_iff base hb]
  refine Or.inr ⟨c, by simp, ?_⟩
  unfold Spec.digitVal
  rcases hb with rfl | rfl | rfl <;> (repeat' split) <;> first | rfl | (exfalso; omega)

/-- C11.5  `std.parseInt` with an optional leading minus sign -/
theorem parseInt_spec (s : List Nat) (v : Int) (h : Spec.parseInt s = some v) (hv : v.natAbs < 2 ^ 53) :
    Model.parseInt s = some v := by
  unfold Spec.parseInt at h; unfold Model.parseInt
  split at h
  · rename_i r
    cases hn : Spec.parseNat 10 r with
    | none => simp [hn, Spec.negOf] at h
    | some n =>
      simp only [hn, Spec.negOf, Option.some.injEq] at h
      subst h
      have hn' := parseNat_spec 10 (by simp) r n hn (by simpa using hv)
      unfold Model.parseNat at hn'
      split at hn'
      · simp at hn'
      · rename_i hne
        simp [hne, hn', Spec.negOf]
  · rename_i hnot
    cases hn : Spec.parseNat 10 s with
    | none => simp [hn, Spec.posOf] at h
    | some n =>
      simp only [hn, Spec.posOf, Option.some.injEq] at h
      subst h
      have hn' := parseNat_spec 10 (by simp) s n hn (by simpa using hv)
      unfold Model.parseNat at hn'
      split at hn'
      · simp at hn'
      · rename_i hne
        simp [hne, hn', Spec.posOf]

example : Spec.parseNat 16 [102, 70, 48, 57] = some 0xFF09 ∧ Model.parseNat 16 [102, 70, 48, 57] = some 0xFF09 := by
  decide
example : Model.parseNat 16 [58] = none ∧ Model.parseNat 10 [0xFF11] = none ∧ Model.parseNat 8 [56] = none := by
  decide

/-- C11.6  `std.codepoint(std.char(n)) == n` for every scalar value -/
theorem char_codepoint_inverse (n : Nat) (h : isScalar n = true) :
    (Model.char n).bind Model.codepoint = some n := by
  rw [char_scalar n h]; simp [Model.codepoint]

/-- C11.6  `std.char(std.codepoint(s)) == s` for every one-character string -/
theorem codepoint_char_inverse (c : Nat) (h : isScalar c = true) :
    Model.codepoint [c] = some c ∧ Model.char (Int.ofNat c) = some [c] :=
  ⟨rfl, char_scalar c h⟩

/-- C11.6  `std.char` fails exactly on negatives, surrogates and values above U+10FFFF -/
theorem char_err_iff (n : Int) :
    Model.char n = none ↔ n < 0 ∨ (0xD800 ≤ n ∧ n ≤ 0xDFFF) ∨ 0x10FFFF < n := by
  unfold Model.char isScalar
  by_cases h0 : 0 ≤ n ∧ n < 4294967296
  · simp only [h0, and_self, if_true]
    split
    · rename_i hs
      simp only [Bool.or_eq_true, Bool.and_eq_true, decide_eq_true_eq] at hs
      simp; omega
    · rename_i hs
      simp only [Bool.or_eq_true, Bool.and_eq_true, decide_eq_true_eq] at hs
      simp; omega
  · simp only [h0, if_false, true_iff]; omega

/-- C11.7  `std.asciiUpper` maps UTF-8 bytes; the result is the string with exactly the code
    points a..z replaced, everything else (in particular all non-ASCII text) untouched -/
theorem asciiUpper_spec (s : List Nat) (hs : AllScalar s) :
    dec (Model.asciiUpperBytes s) = some (Spec.asciiUpper s) := by
  unfold Model.asciiUpperBytes Spec.asciiUpper
  rw [map_upB_enc]
  apply utf8_roundtrip
  intro c hc
  simp only [List.mem_map] at hc
  obtain ⟨d, hd, rfl⟩ := hc
  exact upCp_scalar (hs d hd)

theorem asciiLower_spec (s : List Nat) (hs : AllScalar s) :
    dec (Model.asciiLowerBytes s) = some (Spec.asciiLower s) := by
  unfold Model.asciiLowerBytes Spec.asciiLower
  rw [map_lowB_enc]
  apply utf8_roundtrip
  intro c hc
  simp only [List.mem_map] at hc
  obtain ⟨d, hd, rfl⟩ := hc
  exact lowCp_scalar (hs d hd)

/-- C11.7  only ASCII letters are touched, and length in code points is preserved -/
theorem upper_lower_ascii_only (s : List Nat) (i : Nat) :
    (Spec.asciiUpper s).length = s.length ∧ (Spec.asciiLower s).length = s.length ∧
    (∀ c, s[i]? = some c → ¬ (97 ≤ c ∧ c ≤ 122) → (Spec.asciiUpper s)[i]? = some c) ∧
    (∀ c, s[i]? = some c → ¬ (65 ≤ c ∧ c ≤ 90) → (Spec.asciiLower s)[i]? = some c) := by
  refine ⟨by simp [Spec.asciiUpper], by simp [Spec.asciiLower], ?_, ?_⟩
  · intro c hc hn
    simp [Spec.asciiUpper, List.getElem?_map, hc, Spec.upCp, hn]
  · intro c hc hn
    simp [Spec.asciiLower, List.getElem?_map, hc, Spec.lowCp, hn]

/-- C11.7  `std.equalsIgnoreCase` (`eq_ignore_ascii_case` on bytes) is equality of the ASCII
    lower-cased code-point strings -/
theorem equalsIgnoreCase_spec (a b : List Nat) :
    Model.equalsIgnoreCase a b = Spec.equalsIgnoreCase a b := by
  unfold Model.equalsIgnoreCase Spec.equalsIgnoreCase Spec.asciiLower
  rw [map_lowB_enc, map_lowB_enc, Bool.eq_iff_iff, beq_iff_eq, beq_iff_eq]
  exact ⟨enc_injective, fun h => by rw [h]⟩

example : dec (Model.asciiUpperBytes [97, 233, 122, 0x17F]) = some [65, 233, 90, 0x17F] := by decide
example : Model.equalsIgnoreCase [107] [0x212A] = false ∧ Model.equalsIgnoreCase [75, 233] [107, 233] = true := by
  decide

/-- C11.8  `std.base64DecodeBytes(std.base64(b)) == b` for every byte array (RFC 4648 §4) -/
theorem base64_roundtrip (bs : List Nat) (h : ∀ b ∈ bs, b < 256) :
    Spec.b64Dec (Spec.b64Enc bs) = some bs :=
  b64_roundtrip bs h

/-- C11.8  `std.base64Decode(std.base64(s)) == s` for every string -/
theorem base64_string_roundtrip (s : List Nat) (hs : AllScalar s) (hb : ∀ b ∈ enc s, b < 256) :
    (Spec.b64Dec (Spec.b64Enc (enc s))).bind dec = some s := by
  rw [base64_roundtrip _ hb]; exact utf8_roundtrip s hs

example : Spec.b64Enc (enc [233]) = [119, 54, 107, 61] ∧ Spec.b64Dec [119, 54, 107, 61] = some [0xC3, 0xA9] ∧
    Spec.b64Dec [119, 54, 108, 61] = none := by decide

/-- C11.9  the debug format used by `std.trace` for non-string values leaves strings of at most
    256 bytes alone and otherwise keeps a prefix and a suffix of WHOLE characters of at most 128
    bytes each — it never cuts inside a multi-byte character -/
theorem debugTrunc_spec (s : List Nat) :
    ((enc s).length ≤ 256 ∧ Model.debugTrunc s = s) ∨
    ∃ pre suf, pre <+: s ∧ suf <:+ s ∧ (enc pre).length ≤ 128 ∧ (enc suf.reverse).length ≤ 128 ∧
      Model.debugTrunc s = pre ++ [46, 46] ++ suf := by
  unfold Model.debugTrunc
  split
  · refine Or.inr ⟨Model.takeBytes 128 s, (Model.takeBytes 128 s.reverse).reverse,
      takeBytes_prefix _ _, ?_, takeBytes_len _ _, ?_, rfl⟩
    · have := takeBytes_prefix 128 s.reverse
      simpa using List.reverse_suffix.mpr this
    · simpa using takeBytes_len 128 s.reverse
  · exact Or.inl ⟨by omega, rfl⟩

/-- C11.10 (reference definition of `std.split/splitLimit`)  joining the pieces with the separator
    gives the string back, for every non-empty separator and every limit -/
theorem split_join (s sep : List Nat) (lim : Option Nat) (hsep : sep ≠ []) :
    List.intercalate sep (Spec.splitLimit s sep lim) = s := by
  simpa [Spec.splitLimit] using splitGo_join sep hsep lim s []

/-- C11.10  `std.splitLimit(s, c, n)` yields at most n+1 pieces -/
theorem splitLimit_count (s sep : List Nat) (n : Nat) : (Spec.splitLimit s sep (some n)).length ≤ n + 1 :=
  splitGo_count sep n s []

/-- C11.10  `std.strReplace(s, from, from) == s` -/
theorem strReplace_self (s from_ : List Nat) (h : from_ ≠ []) : Spec.strReplace s from_ from_ = s :=
  split_join s from_ none h

example : List.intercalate [44] (Spec.splitLimit [97, 44, 44, 98] [44] (some 1)) = [97, 44, 44, 98] :=
  split_join _ _ _ (by simp)

end JrsVerif.Str
