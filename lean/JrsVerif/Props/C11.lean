/- C11 — Stdlib string, encoding, parsing functions match their definitions.
   Property theorems only (helper lemmas live in Proofs/Str.lean). Strings are lists of code
   points, byte strings lists of naturals; `Model.*` is the code, `Spec.*` the definition. -/
import JrsVerif.Proofs.Str
import JrsVerif.Proofs.StrBytes3
import JrsVerif.Proofs.StrLossy

namespace JrsVerif.Str

/-- C11.1  decoding the UTF-8 encoding of any string of scalar values gives the string back
    (`std.decodeUTF8(std.encodeUTF8(s)) == s`) -/
theorem utf8_roundtrip (s : List Nat) (hs : AllScalar s) : dec (enc s) = some s :=
  decF_enc s hs _ (length_le_enc s)

/-- C11.1  whatever the decoder accepts is the encoding of its result, and the result consists of
    scalar values only (`std.encodeUTF8(std.decodeUTF8(b)) == b` on the decoder's domain) -/
theorem utf8_decode_sound (bs s : List Nat) (h : dec bs = some s) : enc s = bs ∧ AllScalar s :=
  decF_sound _ bs s h

/-- C11.1  the strict decoder rejects exactly the byte strings that are not the encoding of a
    string of scalar values (overlong forms, surrogates, > U+10FFFF, stray/missing continuations) -/
theorem utf8_decode_rejects_invalid (bs : List Nat) :
    dec bs = none ↔ ¬ ∃ s, AllScalar s ∧ enc s = bs := by
  constructor
  · rintro h ⟨s, hs, rfl⟩
    rw [utf8_roundtrip s hs] at h; cases h
  · intro h
    cases hd : dec bs with
    | none => rfl
    | some s => exact absurd ⟨s, (utf8_decode_sound bs s hd).2, (utf8_decode_sound bs s hd).1⟩ h

example : AllScalar [97, 233, 0x2192, 0x1F600] ∧ enc [97, 233, 0x2192, 0x1F600] =
    [0x61, 0xC3, 0xA9, 0xE2, 0x86, 0x92, 0xF0, 0x9F, 0x98, 0x80] := by
  refine ⟨by intro c hc; simp at hc; rcases hc with rfl | rfl | rfl | rfl <;> decide, by decide⟩
example : dec [0xED, 0xA0, 0x80] = none ∧ dec [0xC0, 0xAF] = none ∧ dec [0xF4, 0x90, 0x80, 0x80] = none ∧
    dec [0xE2, 0x86] = none := by decide

/-- C11.2  the `char_indices` / byte-slice walk of `std.findSubstr` computes the reference
    definition: all code-point positions where the pattern occurs -/
theorem findSubstr_spec (pat s : List Nat) : Model.findSubstr pat s = Spec.findSubstr pat s :=
  findSubstr_model_eq_spec pat s

/-- C11.2  …which are exactly the (possibly overlapping) occurrences, as code-point indices -/
theorem findSubstr_mem (pat s : List Nat) (i : Nat) :
    i ∈ Model.findSubstr pat s ↔ pat ≠ [] ∧ i < s.length ∧ pat <+: s.drop i := by
  rw [findSubstr_spec]; unfold Spec.findSubstr
  by_cases hp : pat = []
  · simp [hp]
  · simp [hp, List.mem_filter, List.mem_range]

/-- C11.2  …listed once each in ascending order -/
theorem findSubstr_sorted (pat s : List Nat) : (Model.findSubstr pat s).Pairwise (· < ·) := by
  rw [findSubstr_spec]; unfold Spec.findSubstr
  split
  · exact List.Pairwise.nil
  · exact List.Pairwise.filter _ List.pairwise_lt_range

/-- overlapping occurrences and multi-byte text: "éaéaé" contains "éaé" at code points 0 and 2 -/
example : Model.findSubstr [233, 97, 233] [233, 97, 233, 97, 233] = [0, 2] := by decide

/-- C11.1  lossy decoding (`std.decodeUTF8(b)` with the default `lossy=true`) changes nothing on
    valid input -/
theorem utf8_lossy_valid (bs s : List Nat) (h : dec bs = some s) : decLossy bs = s :=
  decLossyF_of_decF _ bs s h

/-- C11.2  `std.startsWith(a, b)` on strings compares UTF-8 bytes; that is the code-point prefix
    test -/
theorem startsWith_spec (a b : List Nat) : Model.startsWith a b = Spec.startsWith a b := by
  unfold Model.startsWith Spec.startsWith
  rw [Bool.eq_iff_iff, List.isPrefixOf_iff_prefix, List.isPrefixOf_iff_prefix]
  exact enc_prefix_iff b a

/-- C11.3  `std.substr(s, from, len)` is the window of `len` code points starting at code point
    `from`, cut at the end of the string: element by element… -/
theorem substr_spec (s : List Nat) (from_ len i : Nat) :
    (Model.substr s from_ len)[i]? = if i < len then s[from_ + i]? else none := by
  unfold Model.substr
  rw [List.getElem?_take, List.getElem?_drop]

/-- C11.3  …and in length (offsets and counts beyond the end are not errors) -/
theorem substr_length (s : List Nat) (from_ len : Nat) :
    (Model.substr s from_ len).length = min len (s.length - from_) := by
  simp [Model.substr]

example : Model.substr [233, 0x1F600, 97] 1 5 = [0x1F600, 97] ∧ Model.substr [233, 97] 3 1 = [] := by
  decide

/-- C11.4  `std.lstripChars`: the code (with its `is_empty` early returns) is the reference
    definition, and the result is what remains after removing a prefix consisting of listed
    characters only, and does not itself start with a listed character (so the removed prefix is
    the maximal one) -/
theorem lstrip_spec (s cs : List Nat) :
    Model.lstrip s cs = Spec.lstrip s cs ∧
    ∃ pre, s = pre ++ Model.lstrip s cs ∧ (∀ x ∈ pre, x ∈ cs) ∧
      (∀ h, (Model.lstrip s cs).head? = some h → h ∉ cs) := by
  refine ⟨lstrip_model_eq_spec s cs, ?_⟩
  rw [lstrip_model_eq_spec]; unfold Spec.lstrip
  obtain ⟨pre, e, h1, h2⟩ := dropWhile_decomp (fun c => cs.contains c) s
  refine ⟨pre, e, ?_, ?_⟩
  · intro x hx; simpa using h1 x hx
  · intro h hh; simpa using h2 h hh

/-- C11.4  `std.rstripChars`, mirrored -/
theorem rstrip_spec (s cs : List Nat) :
    Model.rstrip s cs = Spec.rstrip s cs ∧
    ∃ suf, s = Model.rstrip s cs ++ suf ∧ (∀ x ∈ suf, x ∈ cs) ∧
      (∀ l, (Model.rstrip s cs).getLast? = some l → l ∉ cs) := by
  refine ⟨rstrip_model_eq_spec s cs, ?_⟩
  rw [rstrip_model_eq_spec]; unfold Spec.rstrip
  obtain ⟨pre, e, h1, h2⟩ := dropWhile_decomp (fun c => cs.contains c) s.reverse
  refine ⟨pre.reverse, ?_, ?_, ?_⟩
  · have := congrArg List.reverse e
    simpa using this
  · intro x hx; simpa using h1 x (by simpa using hx)
  · intro l hl
    rw [List.getLast?_reverse] at hl
    simpa using h2 l hl

/-- C11.4  `std.stripChars` removes a run of listed characters from both ends and leaves a
    string that neither starts nor ends with a listed character -/
theorem strip_spec (s cs : List Nat) :
    Model.strip s cs = Spec.strip s cs ∧
    ∃ pre suf, s = pre ++ Model.strip s cs ++ suf ∧ (∀ x ∈ pre, x ∈ cs) ∧ (∀ x ∈ suf, x ∈ cs) ∧
      (∀ h, (Model.strip s cs).head? = some h → h ∉ cs) ∧
      (∀ l, (Model.strip s cs).getLast? = some l → l ∉ cs) := by
  refine ⟨strip_model_eq_spec s cs, ?_⟩
  rw [strip_model_eq_spec]; unfold Spec.strip
  obtain ⟨_, pre, e1, hpre, hhead⟩ := lstrip_spec s cs
  obtain ⟨_, suf, e2, hsuf, hlast⟩ := rstrip_spec (Spec.lstrip s cs) cs
  rw [lstrip_model_eq_spec] at e1 hhead
  rw [rstrip_model_eq_spec] at e2 hlast
  refine ⟨pre, suf, ?_, hpre, hsuf, ?_, hlast⟩
  · rw [List.append_assoc, ← e2, ← e1]
  · intro h hh
    apply hhead h
    rw [e2]
    cases hr : Spec.rstrip (Spec.lstrip s cs) cs with
    | nil => rw [hr] at hh; simp at hh
    | cons a r => rw [hr] at hh; simpa using hh

/-- stripping "é" and "," from ",é a,b é," leaves " a,b " (inner occurrences stay) -/
example : Model.strip [44, 233, 32, 97, 44, 98, 32, 233, 44] [233, 44] = [32, 97, 44, 98, 32] := by decide

/-- C11.5  the `checked_sub` cascade of `parse_nat::<BASE>` accepts exactly the digits of the base
    and gives them their value -/
theorem digitOf_spec (base c : Nat) (hb : base = 8 ∨ base = 10 ∨ base = 16) :
    Spec.digitVal base c =
      if Model.digitOf base c < base then some (Model.digitOf base c) else none :=
  digitOf_eq base c hb

/-- C11.5  `std.parseOctal/parseInt/parseHex`: when every character is a digit of the base and the
    positional value Σ dᵢ·baseⁱ is below 2^53, the f64 fold returns exactly that value -/
theorem parseNat_spec (base : Nat) (hb : base = 8 ∨ base = 10 ∨ base = 16) (s : List Nat) (v : Nat)
    (h : Spec.parseNat base s = some v) (hv : v < 2 ^ 53) : Model.parseNat base s = some v := by
  unfold Spec.parseNat at h; unfold Model.parseNat
  split at h
  · simp at h
  · rename_i hne
    rw [if_neg hne]
    exact parseNatGo_exact base hb s 0 v h hv

/-- C11.5  …and it is an error exactly for the empty string and for strings containing a character
    that is not a digit of the base -/
theorem parseNat_reject_iff (base : Nat) (hb : base = 8 ∨ base = 10 ∨ base = 16) (s : List Nat) :
    Model.parseNat base s = none ↔ s = [] ∨ ∃ c ∈ s, Spec.digitVal base c = none := by
  unfold Model.parseNat
  by_cases hs : s = []
  · simp [hs]
  · simp [hs, parseNatGo_none_iff base hb]

/-- C11.5  no character outside ASCII — fullwidth or Arabic-Indic digits included — and none of
    `:;<=>?@` is a digit -/
theorem non_digit_rejected (base c : Nat) (hb : base = 8 ∨ base = 10 ∨ base = 16)
    (hc : 128 ≤ c ∨ (58 ≤ c ∧ c ≤ 64)) (s t : List Nat) : Model.parseNat base (s ++ c :: t) = none := by
  rw [parseNat_reject_iff base hb]
  refine Or.inr ⟨c, by simp, ?_⟩
  unfold Spec.digitVal
  rcases hb with rfl | rfl | rfl <;> (repeat' split) <;> first | rfl | (exfalso; omega)

/-- C11.5  `std.parseInt` with an optional leading minus sign -/
theorem parseInt_spec (s : List Nat) (v : Int) (h : Spec.parseInt s = some v) (hv : v.natAbs < 2 ^ 53) :
    Model.parseInt s = some v := by
  unfold Spec.parseInt at h; unfold Model.parseInt
  split at h
  · rename_i r
    cases hn : Spec.parseNat 10 r with
    | none => simp [hn, Spec.negOf] at h
    | some n =>
      simp only [hn, Spec.negOf, Option.some.injEq] at h
      subst h
      have hn' := parseNat_spec 10 (by simp) r n hn (by simpa using hv)
      unfold Model.parseNat at hn'
      split at hn'
      · simp at hn'
      · rename_i hne
        simp [hne, hn', Spec.negOf]
  · rename_i hnot
    cases hn : Spec.parseNat 10 s with
    | none => simp [hn, Spec.posOf] at h
    | some n =>
      simp only [hn, Spec.posOf, Option.some.injEq] at h
      subst h
      have hn' := parseNat_spec 10 (by simp) s n hn (by simpa using hv)
      unfold Model.parseNat at hn'
      split at hn'
      · simp at hn'
      · rename_i hne
        simp [hne, hn', Spec.posOf]

example : Spec.parseNat 16 [102, 70, 48, 57] = some 0xFF09 ∧ Model.parseNat 16 [102, 70, 48, 57] = some 0xFF09 := by
  decide
example : Model.parseNat 16 [58] = none ∧ Model.parseNat 10 [0xFF11] = none ∧ Model.parseNat 8 [56] = none := by
  decide

/-- C11.6  `std.codepoint(std.char(n)) == n` for every scalar value -/
theorem char_codepoint_inverse (n : Nat) (h : isScalar n = true) :
    (Model.char n).bind Model.codepoint = some n := by
  rw [char_scalar n h]; simp [Model.codepoint]

/-- C11.6  `std.char(std.codepoint(s)) == s` for every one-character string -/
theorem codepoint_char_inverse (c : Nat) (h : isScalar c = true) :
    Model.codepoint [c] = some c ∧ Model.char (Int.ofNat c) = some [c] :=
  ⟨rfl, char_scalar c h⟩

/-- C11.6  `std.char` fails exactly on negatives, surrogates and values above U+10FFFF -/
theorem char_err_iff (n : Int) :
    Model.char n = none ↔ n < 0 ∨ (0xD800 ≤ n ∧ n ≤ 0xDFFF) ∨ 0x10FFFF < n := by
  unfold Model.char isScalar
  by_cases h0 : 0 ≤ n ∧ n < 4294967296
  · simp only [h0, and_self, if_true]
    split
    · rename_i hs
      simp only [Bool.or_eq_true, Bool.and_eq_true, decide_eq_true_eq] at hs
      simp; omega
    · rename_i hs
      simp only [Bool.or_eq_true, Bool.and_eq_true, decide_eq_true_eq] at hs
      simp; omega
  · simp only [h0, if_false, true_iff]; omega

/-- C11.7  `std.asciiUpper` maps UTF-8 bytes; the result is the string with exactly the code
    points a..z replaced, everything else (in particular all non-ASCII text) untouched -/
theorem asciiUpper_spec (s : List Nat) (hs : AllScalar s) :
    dec (Model.asciiUpperBytes s) = some (Spec.asciiUpper s) := by
  unfold Model.asciiUpperBytes Spec.asciiUpper
  rw [map_upB_enc]
  apply utf8_roundtrip
  intro c hc
  simp only [List.mem_map] at hc
  obtain ⟨d, hd, rfl⟩ := hc
  exact upCp_scalar (hs d hd)

theorem asciiLower_spec (s : List Nat) (hs : AllScalar s) :
    dec (Model.asciiLowerBytes s) = some (Spec.asciiLower s) := by
  unfold Model.asciiLowerBytes Spec.asciiLower
  rw [map_lowB_enc]
  apply utf8_roundtrip
  intro c hc
  simp only [List.mem_map] at hc
  obtain ⟨d, hd, rfl⟩ := hc
  exact lowCp_scalar (hs d hd)

/-- C11.7  only ASCII letters are touched, and length in code points is preserved -/
theorem upper_lower_ascii_only (s : List Nat) (i : Nat) :
    (Spec.asciiUpper s).length = s.length ∧ (Spec.asciiLower s).length = s.length ∧
    (∀ c, s[i]? = some c → ¬ (97 ≤ c ∧ c ≤ 122) → (Spec.asciiUpper s)[i]? = some c) ∧
    (∀ c, s[i]? = some c → ¬ (65 ≤ c ∧ c ≤ 90) → (Spec.asciiLower s)[i]? = some c) := by
  refine ⟨by simp [Spec.asciiUpper], by simp [Spec.asciiLower], ?_, ?_⟩
  · intro c hc hn
    simp [Spec.asciiUpper, List.getElem?_map, hc, Spec.upCp, hn]
  · intro c hc hn
    simp [Spec.asciiLower, List.getElem?_map, hc, Spec.lowCp, hn]

/-- C11.7  `std.equalsIgnoreCase` (`eq_ignore_ascii_case` on bytes) is equality of the ASCII
    lower-cased code-point strings -/
theorem equalsIgnoreCase_spec (a b : List Nat) :
    Model.equalsIgnoreCase a b = Spec.equalsIgnoreCase a b := by
  unfold Model.equalsIgnoreCase Spec.equalsIgnoreCase Spec.asciiLower
  rw [map_lowB_enc, map_lowB_enc, Bool.eq_iff_iff, beq_iff_eq, beq_iff_eq]
  exact ⟨enc_injective, fun h => by rw [h]⟩

example : dec (Model.asciiUpperBytes [97, 233, 122, 0x17F]) = some [65, 233, 90, 0x17F] := by decide
example : Model.equalsIgnoreCase [107] [0x212A] = false ∧ Model.equalsIgnoreCase [75, 233] [107, 233] = true := by
  decide

/-- C11.8  `std.base64DecodeBytes(std.base64(b)) == b` for every byte array (RFC 4648 §4) -/
theorem base64_roundtrip (bs : List Nat) (h : ∀ b ∈ bs, b < 256) :
    Spec.b64Dec (Spec.b64Enc bs) = some bs :=
  b64_roundtrip bs h

/-- C11.8  `std.base64Decode(std.base64(s)) == s` for every string -/
theorem base64_string_roundtrip (s : List Nat) (hs : AllScalar s) (hb : ∀ b ∈ enc s, b < 256) :
    (Spec.b64Dec (Spec.b64Enc (enc s))).bind dec = some s := by
  rw [base64_roundtrip _ hb]; exact utf8_roundtrip s hs

example : Spec.b64Enc (enc [233]) = [119, 54, 107, 61] ∧ Spec.b64Dec [119, 54, 107, 61] = some [0xC3, 0xA9] ∧
    Spec.b64Dec [119, 54, 108, 61] = none := by decide

/-- C11.9  the debug format used by `std.trace` for non-string values leaves strings of at most
    256 bytes alone and otherwise keeps a prefix and a suffix of WHOLE characters of at most 128
    bytes each — it never cuts inside a multi-byte character -/
theorem debugTrunc_spec (s : List Nat) :
    ((enc s).length ≤ 256 ∧ Model.debugTrunc s = s) ∨
    ∃ pre suf, pre <+: s ∧ suf <:+ s ∧ (enc pre).length ≤ 128 ∧ (enc suf.reverse).length ≤ 128 ∧
      Model.debugTrunc s = pre ++ [46, 46] ++ suf := by
  unfold Model.debugTrunc
  split
  · refine Or.inr ⟨Model.takeBytes 128 s, (Model.takeBytes 128 s.reverse).reverse,
      takeBytes_prefix _ _, ?_, takeBytes_len _ _, ?_, rfl⟩
    · have := takeBytes_prefix 128 s.reverse
      simpa using List.reverse_suffix.mpr this
    · simpa using takeBytes_len 128 s.reverse
  · exact Or.inl ⟨by omega, rfl⟩

/-- C11.10 (reference definition of `std.split/splitLimit`)  joining the pieces with the separator
    gives the string back, for every non-empty separator and every limit -/
theorem split_join (s sep : List Nat) (lim : Option Nat) (hsep : sep ≠ []) :
    List.intercalate sep (Spec.splitLimit s sep lim) = s := by
  simpa [Spec.splitLimit] using splitGo_join sep hsep lim s []

/-- C11.10  `std.splitLimit(s, c, n)` yields at most n+1 pieces -/
theorem splitLimit_count (s sep : List Nat) (n : Nat) : (Spec.splitLimit s sep (some n)).length ≤ n + 1 :=
  splitGo_count sep n s []

/-- C11.10  `std.strReplace(s, from, from) == s` -/
theorem strReplace_self (s from_ : List Nat) (h : from_ ≠ []) : Spec.strReplace s from_ from_ = s :=
  split_join s from_ none h

example : List.intercalate [44] (Spec.splitLimit [97, 44, 44, 98] [44] (some 1)) = [97, 44, 44, 98] :=
  split_join _ _ _ (by simp)

/-- C11.1  lossy decoding of input that is NOT valid UTF-8: valid text in front of anything is
    passed through unchanged… -/
theorem utf8_lossy_valid_prefix (s : List Nat) (hs : AllScalar s) (rest : List Nat) :
    decLossy (enc s ++ rest) = s ++ decLossy rest :=
  decLossy_append_valid s hs rest

/-- C11.1  …at a position where no well-formed sequence starts, ONE U+FFFD replaces the maximal
    ill-formed prefix (`badLen`, 1 to 3 bytes: Unicode "maximal subpart" practice) and decoding
    resumes behind it… -/
theorem utf8_lossy_invalid_step (b : Nat) (t : List Nat) (h : dec1 (b :: t) = none) :
    decLossy (b :: t) = 0xFFFD :: decLossy ((b :: t).drop (badLen (b :: t))) ∧ 1 ≤ badLen (b :: t) :=
  ⟨decLossy_cons_invalid b t h, badLen_pos b t⟩

/-- C11.1  …so every input the strict decoder rejects shows at least one U+FFFD -/
theorem utf8_lossy_marks_invalid (bs : List Nat) (h : dec bs = none) : 0xFFFD ∈ decLossy bs :=
  decLossyF_marks bs.length bs (Nat.le_refl _) h

/-- "a", truncated "→" (E2 86), "b", overlong C0 AF, surrogate ED A0 80 -/
example : decLossy [0x61, 0xE2, 0x86, 0x62, 0xC0, 0xAF, 0xED, 0xA0, 0x80] =
    [0x61, 0xFFFD, 0x62, 0xFFFD, 0xFFFD, 0xFFFD, 0xFFFD, 0xFFFD] := by decide

/-! ## Round 3: the builtins that Rust runs on the UTF-8 bytes of a `str`

`Model.*Bytes` is the Rust call on `str.as_bytes()` (searcher over ALL byte offsets, slices by
byte offsets, byte tables); `Spec.*` is the definition by code point.  The pieces a byte-level
call returns are byte slices (`&str` without re-validation), so the statements say that these
slices are exactly the UTF-8 encodings of the code-point answer. -/

/-- C11.10  `std.splitLimit(s, c, n)` / `std.split(s, c)` (`n = none`): Rust's `splitn(n+1, c)` /
    `split(c)` over bytes cuts at exactly the leftmost non-overlapping code-point occurrences —
    a needle never matches in the middle of a multi-byte character -/
theorem splitLimit_spec (s sep : List Nat) (lim : Option Nat) (hsep : sep ≠ []) :
    Model.splitLimitBytes s sep lim = (Spec.splitLimit s sep lim).map enc :=
  splitLimitBytes_eq s sep lim hsep

theorem split_spec (s sep : List Nat) (hsep : sep ≠ []) :
    Model.splitLimitBytes s sep none = (Spec.splitLimit s sep none).map enc :=
  splitLimitBytes_eq s sep none hsep

/-- C11.10  `std.splitLimitR`: `rsplitn(n+1, c)` collected and reversed is the reference
    definition "reverse, split from the left, reverse back" on code points -/
theorem splitLimitR_spec (s sep : List Nat) (lim : Option Nat) (hsep : sep ≠ []) :
    Model.splitLimitRBytes s sep lim = (Spec.splitLimitR s sep lim).map enc :=
  splitLimitRBytes_eq s sep lim hsep

/-- "ßé" = C3 9F C3 A9 split at "é" = C3 A9 and "aaa" split from either end at "aa" -/
example : Model.splitLimitBytes [0xDF, 0xE9] [0xE9] none = [[0xC3, 0x9F], []] ∧
    Model.splitLimitBytes [97, 97, 97] [97, 97] (some 1) = [[], [97]] ∧
    Model.splitLimitRBytes [97, 97, 97] [97, 97] (some 1) = [[97], []] := by decide

/-- C11.10  `std.strReplace`: an empty `from` is an error; otherwise `str::replace` over bytes is
    the code-point definition (join of the split with `to`) -/
theorem strReplace_spec (s from_ to : List Nat) :
    Model.strReplaceBytes s from_ to =
      if from_ = [] then none else some (enc (Spec.strReplace s from_ to)) := by
  split
  · rename_i h; subst h; rfl
  · rename_i h; exact strReplaceBytes_eq s from_ to h

/-- C11.10  …which is the left-to-right scan that substitutes at an occurrence and continues
    AFTER it (overlapping occurrences are not replaced twice) -/
theorem strReplace_scan (s from_ to : List Nat) :
    Spec.strReplace s from_ to = Spec.replaceScan from_ to s := by
  unfold Spec.strReplace Spec.splitLimit
  simpa using intercalate_splitGo_scan from_ to s []

example : Model.strReplaceBytes [97, 97, 97] [97, 97] [98] = some [98, 97] ∧
    Model.strReplaceBytes [97] [] [98] = none := by decide
example : Spec.replaceScan [97, 97] [98] [97, 97, 97, 97, 97] = [98, 98, 97] := by
  simp [Spec.replaceScan]

/-- C11.2  `std.endsWith(a, b)` on strings (byte comparison of the tail) is the code-point suffix
    test -/
theorem endsWith_spec (a b : List Nat) : Model.endsWith a b = Spec.endsWith a b := endsWith_eq a b

/-- "é" = C3 A9 does not end with the character U+00A9 = C2 A9, and "a©" does not end with a lone
    continuation-byte look-alike -/
example : Model.endsWith [0xE9] [0xA9] = false ∧ Model.endsWith [97, 0xE9] [0xE9] = true := by decide

/-- C11.3  `std.length(s)`: counting the non-continuation bytes counts code points -/
theorem length_spec (s : List Nat) : Model.lengthBytes s = s.length := lengthBytes_eq s

/-- C11.3  `std.isEmpty(s)`: byte length zero iff no code points -/
theorem isEmpty_spec (s : List Nat) : Model.isEmptyBytes s = s.isEmpty := isEmptyBytes_eq s

/-- C11.3  `std.stringChars(s)`: one single-character string per code point, in order -/
theorem stringChars_spec (s : List Nat) (hs : AllScalar s) :
    Model.stringChars s = some (Spec.stringChars s) ∧ (Spec.stringChars s).length = s.length ∧
    ∀ i : Nat, (Spec.stringChars s)[i]? = Option.map (fun c => [c]) s[i]? := by
  refine ⟨by simp [Model.stringChars, utf8_roundtrip s hs, Spec.stringChars], by simp [Spec.stringChars], ?_⟩
  intro i; simp [Spec.stringChars, List.getElem?_map]

/-- C11.1  `std.encodeUTF8(s)` yields bytes (0..255) for every string of scalar values -/
theorem encodeUTF8_bytes (s : List Nat) (hs : AllScalar s) : ∀ b ∈ enc s, b < 256 := by
  induction s with
  | nil => simp [enc]
  | cons c t ih =>
    intro b hb
    simp only [enc, List.mem_append] at hb
    rcases hb with hb | hb
    · have hc := hs c (by simp)
      simp only [isScalar, Bool.or_eq_true, Bool.and_eq_true, decide_eq_true_eq] at hc
      unfold enc1 at hb
      repeat' split at hb
      all_goals (simp at hb; omega)
    · exact ih (fun d hd => hs d (by simp [hd])) b hb

/-- C11.4  `std.trim`: `trim_matches` with the closure of `builtin_trim` strips exactly the class
    {space, TAB, LF, FF, CR, U+0085, U+00A0} — not VT, not U+2003, not U+3000 — from both ends,
    maximally -/
theorem trim_spec (s : List Nat) :
    Model.trim s = Spec.strip s Spec.trimSet ∧
    (∀ v, Model.trimPred v = true ↔ v ∈ [0x20, 0x09, 0x0A, 0x0C, 0x0D, 0x85, 0xA0]) ∧
    ∃ pre suf, s = pre ++ Model.trim s ++ suf ∧
      (∀ x ∈ pre, Model.trimPred x = true) ∧ (∀ x ∈ suf, Model.trimPred x = true) ∧
      (∀ h, (Model.trim s).head? = some h → Model.trimPred h = false) ∧
      (∀ l, (Model.trim s).getLast? = some l → Model.trimPred l = false) := by
  refine ⟨trim_eq s, ?_, ?_⟩
  · intro v; rw [trimPred_eq]; simp [Spec.trimSet]
  · obtain ⟨_, pre, suf, e, h1, h2, h3, h4⟩ := strip_spec s Spec.trimSet
    rw [strip_model_eq_spec, ← trim_eq] at e h3 h4
    refine ⟨pre, suf, e, ?_, ?_, ?_, ?_⟩
    · intro x hx; rw [trimPred_eq]; simpa using h1 x hx
    · intro x hx; rw [trimPred_eq]; simpa using h2 x hx
    · intro h hh; rw [trimPred_eq]; simpa using h3 h hh
    · intro l hl; rw [trimPred_eq]; simpa using h4 l hl

example : Model.trim [0x0B, 0x20, 97, 0xA0, 0x85] = [0x0B, 0x20, 97] ∧ Model.trim [0x20, 0x3000, 9] = [0x3000] := by
  decide

/-- C11.11  `std.escapeStringJson` / `std.escapeStringPython` (the same function): the byte-table
    escaper (`ESCAPE[256]` as extracted from the source) is the per-code-point definition; bytes
    of multi-byte characters are never touched -/
theorem escapeStringJson_spec (s : List Nat) :
    Model.escapeJsonBytes s = enc (Spec.escapeStringJson s) := by
  unfold Model.escapeJsonBytes Spec.escapeStringJson
  rw [enc_append, enc_append, flatMap_enc Model.escJsonByte Spec.escJson1 escJsonByte_low
    escJsonByte_high escJson1_high]
  rfl

/-- C11.11  `std.escapeStringXML`: the five predefined entities, nothing else -/
theorem escapeStringXml_spec (s : List Nat) :
    Model.escapeXmlBytes s = enc (Spec.escapeStringXml s) := by
  unfold Model.escapeXmlBytes Spec.escapeStringXml
  apply flatMap_enc _ _ xmlEscByte_low
  · intro b hb
    have e : ∀ k, k < 128 → (b == k) = false := fun k hk => by simp; omega
    simp [Model.xmlEscByte, e]
  · intro c hc
    have e : ∀ k, k < 128 → (c == k) = false := fun k hk => by simp; omega
    simp [e]

/-- C11.11  `std.escapeStringBash`: `replace('\'', "'\"'\"'")` over bytes between two quotes -/
theorem escapeStringBash_spec (s : List Nat) :
    Model.escapeBashBytes s = enc (Spec.escapeStringBash s) := by
  unfold Model.escapeBashBytes Spec.escapeStringBash
  rw [replaceF_eq _ _ (by simp) _ _ (Nat.lt_succ_self _), intercalate_splitGo_scan, replaceScan_single,
    enc_append, enc_append]
  simp only [List.reverse_nil, List.nil_append]
  rw [flatMap_enc (fun x => if x == 39 then [39, 34, 39, 34, 39] else [x])
    (fun c => if c == 39 then [39, 34, 39, 34, 39] else [c])]
  · rfl
  · intro c _; split <;> simp [enc, enc1]
    omega
  · intro b hb; have : (b == 39) = false := by simp; omega
    simp [this]
  · intro c hc; have : (c == 39) = false := by simp; omega
    simp [this]

/-- C11.11  `std.escapeStringDollars`: `replace('$', "$$")` over bytes -/
theorem escapeStringDollars_spec (s : List Nat) :
    Model.escapeDollarsBytes s = enc (Spec.escapeStringDollars s) := by
  unfold Model.escapeDollarsBytes Spec.escapeStringDollars
  rw [replaceF_eq _ _ (by simp) _ _ (Nat.lt_succ_self _), intercalate_splitGo_scan, replaceScan_single]
  simp only [List.reverse_nil, List.nil_append]
  apply flatMap_enc
  · intro c _; split <;> simp [enc, enc1]
    omega
  · intro b hb; have : (b == 36) = false := by simp; omega
    simp [this]
  · intro c hc; have : (c == 36) = false := by simp; omega
    simp [this]

example : Model.escapeJsonBytes [0xE9, 34, 1, 0x2028] =
    [34, 0xC3, 0xA9, 92, 34, 92, 117, 48, 48, 48, 49, 0xE2, 0x80, 0xA8, 34] ∧
    Model.escapeBashBytes [39, 0xE9] = [39, 39, 34, 39, 34, 39, 0xC3, 0xA9, 39] := by decide +kernel

/-- C11.8  the base64 decoder is sound: whatever it accepts is the canonical RFC 4648 encoding of
    its result — missing/extra padding, non-alphabet characters (URL-safe `-_`, whitespace) and
    non-zero trailing bits are all rejected -/
theorem base64_decode_sound (t bs : List Nat) (h : Spec.b64Dec t = some bs) :
    Spec.b64Enc bs = t ∧ ∀ b ∈ bs, b < 256 :=
  b64Dec_sound t.length t (Nat.le_refl _) bs h

/-- C11.8  …so a text decodes iff it is the encoding of a byte string, and to that byte string -/
theorem base64_decode_accepts_iff (t bs : List Nat) :
    Spec.b64Dec t = some bs ↔ (∀ b ∈ bs, b < 256) ∧ Spec.b64Enc bs = t := by
  constructor
  · intro h; exact ⟨(base64_decode_sound t bs h).2, (base64_decode_sound t bs h).1⟩
  · rintro ⟨hb, rfl⟩; exact base64_roundtrip bs hb

example : Spec.b64Dec [81, 81, 61, 61] = some [65] ∧ Spec.b64Dec [81, 82, 61, 61] = none ∧
    Spec.b64Dec [81, 81, 61] = none ∧ Spec.b64Dec [81, 81] = none ∧ Spec.b64Dec [45, 95, 61, 61] = none := by
  decide

/-- C11.5  `parse_nat` with the f64 range (`Model.parseNatX`: +∞ once the fold overflows, which
    `Val::Num` refuses): exact below 2^53 -/
theorem parseNatX_spec (base : Nat) (hb : base = 8 ∨ base = 10 ∨ base = 16) (s : List Nat) (v : Nat)
    (h : Spec.parseNat base s = some v) (hv : v < 2 ^ 53) : Model.parseNatX base s = some v := by
  unfold Spec.parseNat at h; unfold Model.parseNatX
  split at h
  · simp at h
  · rename_i hne
    rw [if_neg hne, parseNatGoX_exact base hb s 0 v h hv]

/-- C11.5  …an error exactly for the empty string, a non-digit of the base, or overflow to +∞ -/
theorem parseNatX_reject_iff (base : Nat) (hb : base = 8 ∨ base = 10 ∨ base = 16) (s : List Nat) :
    Model.parseNatX base s = none ↔
      s = [] ∨ (∃ c ∈ s, Spec.digitVal base c = none) ∨ Model.parseNatGoX base s (some 0) = some none := by
  unfold Model.parseNatX
  by_cases hs : s = []
  · simp [hs]
  · simp only [List.isEmpty_iff, hs, if_false, false_or]
    rw [← parseNatGoX_none_iff base hb s (some 0)]
    cases Model.parseNatGoX base s (some 0) with
    | none => simp
    | some o => cases o <;> simp

/-- C11.5  …and wherever it returns a value, that value is the one of the fused fold without the
    range check (the model the earlier theorems are about) -/
theorem parseNatX_refines (base : Nat) (s : List Nat) (v : Nat) (h : Model.parseNatX base s = some v) :
    Model.parseNat base s = some v := by
  unfold Model.parseNatX at h; unfold Model.parseNat
  split at h
  · cases h
  · rename_i hne
    rw [if_neg hne]
    split at h
    · rename_i w hw
      cases h
      exact parseNatGoX_old base s 0 _ hw
    · cases h

/-- C11.5  every step of the fold beyond 2^53 returns a multiple of the unit in the last place at
    most half a unit from the exact `base·acc + digit`, the even one on a tie (IEEE
    round-to-nearest-even of the fused multiply-add) -/
theorem parseNat_step_rounding (n : Nat) (h : 2 ^ 53 ≤ n) :
    ∃ q, Model.roundF64 n = q * 2 ^ (n.log2 - 52) ∧
      2 * (Model.roundF64 n - n) ≤ 2 ^ (n.log2 - 52) ∧ 2 * (n - Model.roundF64 n) ≤ 2 ^ (n.log2 - 52) ∧
      ((2 * (Model.roundF64 n - n) = 2 ^ (n.log2 - 52) ∨ 2 * (n - Model.roundF64 n) = 2 ^ (n.log2 - 52)) →
        q % 2 = 0) :=
  roundF64_nearest n h

/-- C11.5  `std.parseInt`: one optional leading `-`, then `parse_nat::<10>` of the rest; `""`, `"-"`,
    `"+1"`, `"--1"`, `" 1"` are errors -/
theorem parseInt_sign :
    (∀ r, Model.parseIntX (45 :: r) = none ↔ Model.parseNatX 10 r = none) ∧
    (∀ s, (∀ r, s ≠ 45 :: r) → (Model.parseIntX s = none ↔ Model.parseNatX 10 s = none)) := by
  constructor
  · intro r
    simp only [Model.parseIntX]
    by_cases hr : r = []
    · subst hr; simp [Model.parseNatX]
    · simp only [List.isEmpty_iff, hr, if_false]
      cases Model.parseNatX 10 r <;> simp [Spec.negOf]
  · intro s hs
    unfold Model.parseIntX
    split
    · rename_i r; exact absurd rfl (hs r)
    · cases Model.parseNatX 10 s <;> simp [Spec.posOf]

example : Model.parseIntX [] = none ∧ Model.parseIntX [45] = none ∧ Model.parseIntX [43, 49] = none ∧
    Model.parseIntX [45, 45, 49] = none ∧ Model.parseIntX [32, 49] = none ∧
    Model.parseIntX [45, 49, 50] = some (-12) ∧ Model.parseIntX [45, 48] = some 0 := by decide +kernel

/-- 2^53+1 (odd, a tie) parses to 2^53; 2^53+3 to 2^53+4 -/
example : Model.parseNatX 10 ("9007199254740993".toList.map Char.toNat) = some 9007199254740992 ∧
    Model.parseNatX 10 ("9007199254740995".toList.map Char.toNat) = some 9007199254740996 := by
  decide +kernel

/-- C11.12  `std.parseJson` accepts a text iff, after leading whitespace, ONE value is read and
    everything after it is JSON whitespace (independent RFC 8259 reader of C05, `Json.read`) -/
theorem parseJson_accepts_iff (inp : List UInt8) :
    (JrsVerif.Json.read inp).isSome = true ↔
      ∃ v r, JrsVerif.Json.pVal (inp.length + 1) (JrsVerif.Json.skipWs inp) = some (v, r) ∧
        ∀ b ∈ r, JrsVerif.Json.isWs b = true := by
  unfold JrsVerif.Json.read
  cases h : JrsVerif.Json.pVal (inp.length + 1) (JrsVerif.Json.skipWs inp) with
  | none => simp
  | some vr =>
    obtain ⟨v, r⟩ := vr
    simp only [List.isEmpty_iff, skipWs_nil_iff]
    constructor
    · intro hh
      split at hh
      · rename_i hw; exact ⟨v, r, rfl, hw⟩
      · cases hh
    · rintro ⟨v', r', e, hw⟩
      cases e
      simpa using hw

/-- C11.12  …in particular trailing text after the first value is rejected -/
theorem parseJson_rejects_trailing (inp : List UInt8) (v : JrsVerif.Json.J) (r : List UInt8)
    (h : JrsVerif.Json.pVal (inp.length + 1) (JrsVerif.Json.skipWs inp) = some (v, r))
    (b : UInt8) (hb : b ∈ r) (hw : JrsVerif.Json.isWs b = false) : JrsVerif.Json.read inp = none := by
  cases hr : JrsVerif.Json.read inp with
  | none => rfl
  | some j =>
    have := (parseJson_accepts_iff inp).mp (by simp [hr])
    obtain ⟨v', r', e, hall⟩ := this
    rw [h] at e
    simp only [Option.some.injEq, Prod.mk.injEq] at e
    rw [← e.2] at hall
    rw [hall b hb] at hw; cases hw

example : JrsVerif.Json.read "[1] x".toUTF8.toList = none ∧ JrsVerif.Json.read "1 2".toUTF8.toList = none ∧
    (JrsVerif.Json.read " [1] \n".toUTF8.toList).isSome = true := by decide +kernel

end JrsVerif.Str
