/- C17 — Source text is never lost and reported positions are accurate.
   Property theorems only (helper lemmas live in Proofs/Loc.lean, Proofs/Tile.lean).

   Text is a `List Char`; an offset "on a character boundary inside the text" is given as a split
   `text = pre ++ post` with offset `byteLen pre` (UTF-8 bytes). -/
import JrsVerif.Proofs.Loc
import JrsVerif.Proofs.Tile
import JrsVerif.Proofs.LocTrace
import JrsVerif.Proofs.LocStrBlock

namespace JrsVerif.Loc
open Spec

/-- C17.0  for any list of requested offsets that are character boundaries (any order, repeats
    allowed), the walker's answer for each is the reference location: offset, line, column,
    start and end of the line. -/
theorem model_eq_spec (pre post : List Char) (offs : List Nat) (hv : Boundaries (pre ++ post) offs)
    (i : Nat) (hi : offs[i]? = some (byteLen pre)) :
    (offsetToLocation (pre ++ post) offs)[i]? = some (Spec.locate pre post) := by
  have hlt : i < offs.length := by
    rcases Nat.lt_or_ge i offs.length with h | h
    · exact h
    · rw [List.getElem?_eq_none h] at hi; cases hi
  simp [offsetToLocation, hlt, locFn_eq_spec pre post offs hv i hi]

/-- C17.1  line: for every text — ASCII or not, CRLF or not — and every character-boundary offset,
    the reported line is 1 + the number of newlines before the offset. -/
theorem line_spec (pre post : List Char) :
    (offsetToLocation (pre ++ post) [byteLen pre]).map (·.line) = [1 + pre.count '\n'] := by
  have hv : Boundaries (pre ++ post) [byteLen pre] := by
    intro o ho; simp at ho; subst ho; exact ⟨pre, post, rfl, by simp⟩
  have := locFn_eq_spec pre post [byteLen pre] hv 0 (by simp)
  simp [offsetToLocation, this, Spec.locate, Spec.line]

/-- same, inside any tuple of offsets -/
theorem line_spec_multi (pre post : List Char) (offs : List Nat) (hv : Boundaries (pre ++ post) offs)
    (i : Nat) (hi : offs[i]? = some (byteLen pre)) :
    ((offsetToLocation (pre ++ post) offs)[i]?).map (·.line) = some (1 + pre.count '\n') := by
  rw [model_eq_spec pre post offs hv i hi]; rfl

/-- the printed start column (`column - 1`, as `print_code_location` writes it) is the number of
    characters since the line start + 1, for every text -/
theorem column_chars (pre post : List Char) :
    (offsetToLocation (pre ++ post) [byteLen pre]).map (fun l => l.column - 1) =
      [(linePrefix pre).length + 1] := by
  have hv : Boundaries (pre ++ post) [byteLen pre] := by
    intro o ho; simp at ho; subst ho; exact ⟨pre, post, rfl, by simp⟩
  have := locFn_eq_spec pre post [byteLen pre] hv 0 (by simp)
  simp [offsetToLocation, this, Spec.locate, Spec.column]

theorem byteLen_ascii (cs : List Char) (h : ∀ c ∈ cs, c.toNat < 128) : byteLen cs = cs.length := by
  induction cs with
  | nil => rfl
  | cons c cs ih =>
    have h1 : c.utf8Size = 1 := by
      rw [Char.utf8Size_eq_one_iff]
      have := h c (List.mem_cons_self ..)
      simp only [Char.toNat, UInt32.le_iff_toNat_le] at this ⊢
      have e : (127 : UInt32).toNat = 127 := by decide
      omega
    simp [byteLen, h1, ih (fun d hd => h d (List.mem_cons_of_mem _ hd))]; omega

/-- C17.2  column: whenever the text between the last newline before the offset and the offset is
    ASCII — whatever precedes that line: multi-byte characters, comments, CRLF, blank lines — the
    printed start column is exactly (offset − byte offset of the line start) + 1, and the reported
    line start is the byte right after the last newline. -/
theorem column_exact_if_line_prefix_ascii (pre post : List Char)
    (hascii : ∀ c ∈ linePrefix pre, c.toNat < 128) :
    (offsetToLocation (pre ++ post) [byteLen pre]).map
        (fun l => (l.column - 1, l.lineStart + byteLen (linePrefix pre))) =
      [((byteLen pre - (byteLen pre - byteLen (linePrefix pre))) + 1, byteLen pre)] := by
  have hv : Boundaries (pre ++ post) [byteLen pre] := by
    intro o ho; simp at ho; subst ho; exact ⟨pre, post, rfl, by simp⟩
  have := locFn_eq_spec pre post [byteLen pre] hv 0 (by simp)
  have hle : byteLen (linePrefix pre) ≤ byteLen pre := by
    have h := byteLen_append (pre.reverse.dropWhile (fun c => !isNl c)).reverse (linePrefix pre)
    have e : (pre.reverse.dropWhile (fun c => !isNl c)).reverse ++ linePrefix pre = pre := by
      simp only [linePrefix, ← List.reverse_append, List.takeWhile_append_dropWhile, List.reverse_reverse]
    rw [e] at h; omega
  simp [offsetToLocation, this, Spec.locate, Spec.column, byteLen_ascii _ hascii] at hle ⊢
  omega

/-- C17.3  asking for several offsets at once gives, for each, the answer of asking for it alone
    (the sorted-stack bookkeeping neither drops nor mixes up requests; repeats are fine). -/
theorem multi_offsets_independent (text : List Char) (offs : List Nat) (hv : Boundaries text offs)
    (i : Nat) (hi : i < offs.length) :
    (offsetToLocation text offs)[i]? = (offsetToLocation text [offs[i]])[0]? := by
  obtain ⟨pre, post, rfl, ho⟩ := hv offs[i] (List.getElem_mem hi)
  simp only [Nat.zero_add] at ho
  have hv1 : Boundaries (pre ++ post) [offs[i]] := by
    intro o h; simp at h; subst h; exact ⟨pre, post, rfl, by simp [ho]⟩
  rw [model_eq_spec pre post offs hv i (by simp [hi, ho]),
      model_eq_spec pre post [offs[i]] hv1 0 (by simp [ho])]

/-- both ends of a span at once: what `CompactFormat` feeds to `print_code_location` -/
theorem span_locations (pre₁ post₁ pre₂ post₂ : List Char) (h : pre₁ ++ post₁ = pre₂ ++ post₂) :
    offsetToLocation (pre₁ ++ post₁) [byteLen pre₁, byteLen pre₂] =
      [Spec.locate pre₁ post₁, Spec.locate pre₂ post₂] := by
  have hv : Boundaries (pre₁ ++ post₁) [byteLen pre₁, byteLen pre₂] := by
    intro o ho; simp at ho
    rcases ho with rfl | rfl
    · exact ⟨pre₁, post₁, rfl, by simp⟩
    · exact ⟨pre₂, post₂, h, by simp⟩
  have h1 := locFn_eq_spec pre₁ post₁ _ hv 0 (by simp)
  have h2 := locFn_eq_spec pre₂ post₂ [byteLen pre₁, byteLen pre₂] (h ▸ hv) 1 (by simp)
  rw [← h] at h2
  simp [offsetToLocation, List.range, List.range.loop, h1, h2]

/-- C17.4  whatever branch `print_code_location` takes, the line and column it prints first are
    the reference line and column of the span's start -/
theorem print_start (pre₁ post₁ pre₂ post₂ : List Char) :
    (printCodeLocation (Spec.locate pre₁ post₁) (Spec.locate pre₂ post₂)).startLine = Spec.line pre₁ ∧
    (printCodeLocation (Spec.locate pre₁ post₁) (Spec.locate pre₂ post₂)).startCol = Spec.column pre₁ := by
  unfold printCodeLocation
  split
  · split
    · rename_i h; simp [Spec.locate] at h ⊢; simp [Printed.startLine, Printed.startCol, ← h]
    · simp [Printed.startLine, Printed.startCol, Spec.locate]
  · simp [Printed.startLine, Printed.startCol, Spec.locate]

/-- span on one line: `line:startcol-endcol`, the end column being that of the span's exclusive
    end plus one (the convention of the existing golden files) -/
theorem print_single_line (pre₁ post₁ pre₂ post₂ : List Char)
    (hl : Spec.line pre₁ = Spec.line pre₂) (hc : Spec.column pre₁ ≠ Spec.column pre₂) :
    printCodeLocation (Spec.locate pre₁ post₁) (Spec.locate pre₂ post₂) =
      .sameLine (Spec.line pre₁) (Spec.column pre₁) (Spec.column pre₂ + 1) := by
  simp [printCodeLocation, Spec.locate, hl, hc]

/-- span over several lines: start line:start column - END line:end column (the start's own line
    and column for the start, the end's own for the end) -/
theorem print_multi_line (pre₁ post₁ pre₂ post₂ : List Char) (hl : Spec.line pre₁ ≠ Spec.line pre₂) :
    printCodeLocation (Spec.locate pre₁ post₁) (Spec.locate pre₂ post₂) =
      .multi (Spec.line pre₁) (Spec.column pre₁) (Spec.line pre₂) (Spec.column pre₂ + 1) := by
  simp [printCodeLocation, Spec.locate, hl]

/-- non-vacuity: the text `"éé" +⏎ error` with the offset of `error` (byte 10, after two 2-byte
    characters): hypotheses of C17.2 hold, reference says line 2, column 2 -/
example :
    let pre := "\"éé\" +\n ".toList
    byteLen pre = 10 ∧ (∀ c ∈ linePrefix pre, c.toNat < 128) ∧ Spec.line pre = 2 ∧ Spec.column pre = 2 := by
  decide

/-- non-vacuity of `Boundaries` with repeats, disorder and multi-byte characters -/
example : Boundaries "é\nx".toList [3, 0, 3, 2, 4] := by
  intro o ho
  simp at ho
  rcases ho with rfl | rfl | rfl | rfl | rfl
  · exact ⟨"é\n".toList, "x".toList, by decide, by decide⟩
  · exact ⟨[], "é\nx".toList, by decide, by decide⟩
  · exact ⟨"é\n".toList, "x".toList, by decide, by decide⟩
  · exact ⟨"é".toList, "\nx".toList, by decide, by decide⟩
  · exact ⟨"é\nx".toList, [], by decide, by decide⟩

/-! ### traces whose frames live in different files (`CompactFormat::write_trace`) -/

/-- C17.6  every frame's printed position is a function of ITS OWN file text and span only: the
    position printed for element `i` of a trace is `frameLoc` of that element's text and span,
    whatever the other elements are (other files, equal byte offsets in other files, …). -/
theorem frames_independent (fs : List (Option Frame × String)) (i : Nat) :
    (framePositions fs)[i]? = (fs[i]?).map (fun p => p.1.map (fun f => frameLoc f.text f.a f.b)) := by
  simp [framePositions]

/-- the same frame (same file text, same span) is printed at the same position in any two traces,
    at any depth, next to any other frames -/
theorem frames_independent_of_trace (fs gs : List (Option Frame × String)) (i j : Nat) (f g : Frame)
    (d d' : String) (hi : fs[i]? = some (some f, d)) (hj : gs[j]? = some (some g, d'))
    (ht : f.text = g.text) (ha : f.a = g.a) (hb : f.b = g.b) :
    (framePositions fs)[i]? = (framePositions gs)[j]? := by
  simp [framePositions, hi, hj, ht, ha, hb]

/-- C17.7  a located frame whose span is `[|pre₁|, |pre₂|)` of its own file `pre₁ ++ post₁` is printed
    with the reference line and column of `pre₁` IN THAT FILE, wherever it stands in the trace -/
theorem frame_start_spec (fs : List (Option Frame × String)) (i : Nat) (path d : String)
    (pre₁ post₁ pre₂ post₂ : List Char) (h : pre₁ ++ post₁ = pre₂ ++ post₂)
    (hi : fs[i]? = some (some ⟨path, pre₁ ++ post₁, byteLen pre₁, byteLen pre₂⟩, d)) :
    ∃ p, (framePositions fs)[i]? = some (some p) ∧
      p.startLine = Spec.line pre₁ ∧ p.startCol = Spec.column pre₁ := by
  refine ⟨printCodeLocation (Spec.locate pre₁ post₁) (Spec.locate pre₂ post₂), ?_, print_start ..⟩
  simp [frames_independent, hi, frameLoc_eq_spec pre₁ post₁ pre₂ post₂ h]

/-- two frames with the SAME byte offsets in two different files are printed at their own, different
    positions (the situation a position cache keyed by offsets alone gets wrong) -/
example :
    framePositions [(some ⟨"lib", "\n\n  error 1".toList, 4, 9⟩, "error statement"),
                    (some ⟨"main", "f = (1,2)".toList, 4, 9⟩, "function <f> call")] =
      [some (.sameLine 3 3 9), some (.sameLine 1 5 11)] := by
  have h1 := frameLoc_eq_spec "\n\n  ".toList "error 1".toList "\n\n  error".toList " 1".toList (by decide)
  have h2 := frameLoc_eq_spec "f = ".toList "(1,2)".toList "f = (1,2)".toList [] (by decide)
  have t1 : "\n\n  ".toList ++ "error 1".toList = "\n\n  error 1".toList := by decide
  have t2 : "f = ".toList ++ "(1,2)".toList = "f = (1,2)".toList := by decide
  have b1 : byteLen "\n\n  ".toList = 4 := by decide
  have b2 : byteLen "\n\n  error".toList = 9 := by decide
  have b3 : byteLen "f = ".toList = 4 := by decide
  have b4 : byteLen "f = (1,2)".toList = 9 := by decide
  rw [t1, b1, b2] at h1
  rw [t2, b3, b4] at h2
  simp only [framePositions, List.map, Option.map, h1, h2]
  decide

/-- one line per trace element below the message -/
theorem writeTrace_length (p : Nat) (msg : String) (fs : List (Option Frame × String)) :
    (writeTrace p msg fs).length = fs.length + 1 := by
  simp [writeTrace, fileNames]

/-- C17.8  the text of line `i + 1`: padding, the frame's own `path:position:` padded to the common
    width, a blank, the description -/
theorem writeTrace_line (p : Nat) (msg : String) (fs : List (Option Frame × String)) (i : Nat)
    (f : Frame) (d : String) (hi : fs[i]? = some (some f, d)) :
    (writeTrace p msg fs)[i + 1]? =
      some (spaces p ++ padRight (f.path ++ ":" ++ (frameLoc f.text f.a f.b).render ++ ":")
              (alignOf (fileNames fs)) ++ " " ++ d) := by
  simp only [writeTrace, fileNames, List.getElem?_cons_succ, List.getElem?_map,
    List.getElem?_zip_eq_some, Option.map_eq_some_iff]
  exact ⟨((some f, d), some (frameName f)), ⟨hi, by simp [hi]⟩, by simp [traceLine, frameName]⟩

/-- C17.9  a syntax error inside the text (`ImportSyntaxError` branch of `write_trace`) is printed at
    the reference line and column of its offset -/
theorem syntax_error_inside (pre post : List Char) (hpost : post ≠ []) :
    syntaxErrorLoc (pre ++ post) (byteLen pre) = .point (Spec.line pre) (Spec.column pre) := by
  have hlt : ¬ byteLen pre ≥ byteLen (pre ++ post) := by
    have := byteLen_pos_of_ne_nil post hpost
    rw [byteLen_append]; omega
  simp [syntaxErrorLoc, hlt, locFn_single, printCodeLocation, Spec.locate]

/-- a syntax error at (or past) the end of a text that ends in a one-byte character other than a
    newline is printed at the reference position of the END of the text (the code maps the last
    byte and adds one to the column) -/
theorem syntax_error_eof (pre : List Char) (c : Char) (hc : c.utf8Size = 1) (hnl : c ≠ '\n')
    (o : Nat) (ho : o ≥ byteLen (pre ++ [c])) :
    syntaxErrorLoc (pre ++ [c]) o =
      .point (Spec.line (pre ++ [c])) (Spec.column (pre ++ [c])) := by
  have hl : byteLen (pre ++ [c]) - 1 = byteLen pre := by
    rw [byteLen_append]; simp [byteLen, hc]
  simp only [syntaxErrorLoc, ho, decide_true, if_true, hl, locFn_single, printCodeLocation,
    line_snoc pre c hnl, column_snoc pre c hnl]
  simp [Spec.locate]

example : syntaxErrorLoc "local x = \"é\"".toList 14 = .point 1 14 := by
  have h := syntax_error_eof "local x = \"é".toList '"' (by decide) (by decide) 14 (by decide)
  have t : "local x = \"é".toList ++ ['"'] = "local x = \"é\"".toList := by decide
  rw [t] at h; rw [h]; decide

/-! ### JsFormat (`at desc (path:line:column)`) -/

/-- C17.10  `JsFormat` prints the line and the 1-based column of the span's start (repaired: it used
    to print the record's raw column, one too large) -/
theorem jsColumn_spec (pre₁ post₁ pre₂ post₂ : List Char) (h : pre₁ ++ post₁ = pre₂ ++ post₂) :
    jsFrameLoc (pre₁ ++ post₁) (byteLen pre₁) (byteLen pre₂) = (Spec.line pre₁, Spec.column pre₁) := by
  have hv : Boundaries (pre₁ ++ post₁) [byteLen pre₁, byteLen pre₂] := by
    intro o ho; simp at ho
    rcases ho with rfl | rfl
    · exact ⟨pre₁, post₁, rfl, by simp⟩
    · exact ⟨pre₂, post₂, h, by simp⟩
  have h1 := locFn_eq_spec pre₁ post₁ _ hv 0 (by simp)
  simp [jsFrameLoc, h1, Spec.locate]

end JrsVerif.Loc

namespace JrsVerif.Tile

/-- C17.5  token ranges that tile `[0, len)` (each starts where the previous ended, none reversed,
    last ends at `len`) lose nothing: the token texts concatenated are the input, for every input.
    (`tilesB` is the statement the check evaluates on the real lexer's ranges.) -/
theorem tiling_lossless {α : Type} (xs : List α) (rs : List (Nat × Nat))
    (h : tilesB 0 xs.length rs = true) : (rs.map (slice xs)).flatten = xs := by
  simpa using tiles_concat_from xs rs 0 h

example : tilesB 0 5 [(0, 2), (2, 2), (2, 5)] = true ∧ tilesB 0 5 [(0, 2), (3, 5)] = false := by decide

end JrsVerif.Tile

namespace JrsVerif.StrBlock
open Spec JrsVerif.Loc

/-- C17.11  the text-block scanner never slices inside a UTF-8 sequence and never bumps the lexer
    past the end, for EVERY input (well-formed block or not, any mix of tabs, spaces, CR, blank
    lines, multi-byte characters): the model has no panic outcome, and the number of bytes the
    token is extended by is the byte length of a prefix of the remaining input. -/
theorem strBlock_never_panics (src : List Char) :
    ∃ o used rest, scan src = some o ∧ src = used ++ rest ∧ o.bump = byteLen used := by
  obtain ⟨o, dash, s0, k, ho, hsrc, _, hb, hp, _⟩ := scanRaw_spec src
  have hpre : Pre src o.bump := by rw [hb]; exact Pre.of_eq hsrc hp
  obtain ⟨used, rest, h1, h2⟩ := hpre
  have hd : (dropB src o.bump).isSome = true := Pre.dropB ⟨used, rest, h1, h2⟩
  exact ⟨o, used, rest, by simp [scan, ho, hd], h1, h2⟩

/-- C17.12  when the scanner accepts, it has consumed EXACTLY a text block of the reference grammar:
    optional `-` (iff `truncate`), header whitespace, newline, content items written with a
    non-empty indent `W` of spaces/tabs (`"\n"` for a blank line, `W ++ text ++ "\n"` otherwise),
    spaces/tabs that do not continue the indent, `|||` — the bump is the byte length of exactly
    that text and the collected lines are the items' texts. -/
theorem strBlock_consumes_exactly (src : List Char) (o : Out) (h : scan src = some o) (hok : o.res = none) :
    ∃ dash s0 k, src = dash ++ s0 ∧
      (dash = ['-'] ∧ o.truncate = true ∨ dash = [] ∧ o.truncate = false ∧ ∀ t, src ≠ '-' :: t) ∧
      o.bump = byteLen dash + k ∧ Block s0 k o.lines := by
  obtain ⟨o', dash, s0, k, ho, hsrc, hd, hb, _, hg⟩ := scanRaw_spec src
  have : o = o' := by
    simp only [scan, ho] at h
    split at h
    · cases h; rfl
    · cases h
  subst this
  exact ⟨dash, s0, k, hsrc, hd, hb, hg hok⟩

/-- C17.13  the string the parser builds from the collected lines (`join("\n")`, plus a final newline
    unless `|||-`) is the reference contents of the block: every item's text followed by a
    newline, the last newline stripped for `|||-`. -/
theorem strBlock_value (items : List Item) (tr : Bool) (h : items ≠ []) :
    value (items.map Item.text) tr = Spec.contents items tr := by
  cases items with
  | nil => exact absurd rfl h
  | cons i is =>
    have hj := foldl_join (is.map Item.text) i.text
    have e : ((i.text ++ ['\n']) :: List.map (fun i => i.text ++ ['\n']) is).flatten =
        List.foldl (fun acc x => acc ++ ['\n'] ++ x) i.text (is.map Item.text) ++ ['\n'] := by
      rw [hj]; simp [List.map_map, Function.comp_def]
    cases tr
    · simp only [value, Spec.contents, List.map_cons, Bool.false_eq_true, if_false]
      exact e.symm
    · simp only [value, Spec.contents, List.map_cons, if_true]
      rw [e, List.dropLast_concat]

/-- non-vacuity: `|||-⏎␉é⏎⏎␉␉x⏎ |||;` is accepted with bump 15 (`;` is left), lines "é", "", "␉x" -/
example : scan "-\n\té\n\n\t\tx\n |||;".toList =
    some ⟨none, 15, true, ["é".toList, [], "\tx".toList]⟩ := by decide

example : value ["é".toList, [], "\tx".toList] true = "é\n\n\tx".toList := by decide

end JrsVerif.StrBlock
