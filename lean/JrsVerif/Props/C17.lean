/- C17: property theorems (not yet built). -/
