/- C17 — Source text is never lost and reported positions are accurate.
   Property theorems only (helper lemmas live in Proofs/Loc.lean, Proofs/Tile.lean).

   Text is a `List Char`; an offset "on a character boundary inside the text" is given as a split
   `text = pre ++ post` with offset `byteLen pre` (UTF-8 bytes). -/
import JrsVerif.Proofs.Loc
import JrsVerif.Proofs.Tile

namespace JrsVerif.Loc
open Spec

/-- C17.0  for any list of requested offsets that are character boundaries (any order, repeats
    allowed), the walker's answer for each is the reference location: offset, line, column,
    start and end of the line. -/
theorem model_eq_spec (pre post : List Char) (offs : List Nat) (hv : Boundaries (pre ++ post) offs)
    (i : Nat) (hi : offs[i]? = some (byteLen pre)) :
    (offsetToLocation (pre ++ post) offs)[i]? = some (Spec.locate pre post) := by
  have hlt : i < offs.length := by
    rcases Nat.lt_or_ge i offs.length with h | h
    · exact h
    · rw [List.getElem?_eq_none h] at hi; cases hi
  simp [offsetToLocation, hlt, locFn_eq_spec pre post offs hv i hi]

/-- C17.1  line: for every text — ASCII or not, CRLF or not — and every character-boundary offset,
    the reported line is 1 + the number of newlines before the offset. -/
theorem line_spec (pre post : List Char) :
    (offsetToLocation (pre ++ post) [byteLen pre]).map (·.line) = [1 + pre.count '\n'] := by
  have hv : Boundaries (pre ++ post) [byteLen pre] := by
    intro o ho; simp at ho; subst ho; exact ⟨pre, post, rfl, by simp⟩
  have := locFn_eq_spec pre post [byteLen pre] hv 0 (by simp)
  simp [offsetToLocation, this, Spec.locate, Spec.line]

/-- same, inside any tuple of offsets -/
theorem line_spec_multi (pre post : List Char) (offs : List Nat) (hv : Boundaries (pre ++ post) offs)
    (i : Nat) (hi : offs[i]? = some (byteLen pre)) :
    ((offsetToLocation (pre ++ post) offs)[i]?).map (·.line) = some (1 + pre.count '\n') := by
  rw [model_eq_spec pre post offs hv i hi]; rfl

/-- the printed start column (`column - 1`, as `print_code_location` writes it) is the number of
    characters since the line start + 1, for every text -/
theorem column_chars (pre post : List Char) :
    (offsetToLocation (pre ++ post) [byteLen pre]).map (fun l => l.column - 1) =
      [(linePrefix pre).length + 1] := by
  have hv : Boundaries (pre ++ post) [byteLen pre] := by
    intro o ho; simp at ho; subst ho; exact ⟨pre, post, rfl, by simp⟩
  have := locFn_eq_spec pre post [byteLen pre] hv 0 (by simp)
  simp [offsetToLocation, this, Spec.locate, Spec.column]

theorem byteLen_ascii (cs : List Char) (h : ∀ c ∈ cs, c.toNat < 128) : byteLen cs = cs.length := by
  induction cs with
  | nil => rfl
  | cons c cs ih =>
    have h1 : c.utf8Size = 1 := by
      rw [Char.utf8Size_eq_one_iff]
      have := h c (List.mem_cons_self ..)
      simp only [Char.toNat, UInt32.le_iff_toNat_le] at this ⊢
      have e : (127 : UInt32).toNat = 127 := by decide
      omega
    simp [byteLen, h1, ih (fun d hd => h d (List.mem_cons_of_mem _ hd))]; omega

/-- C17.2  column: whenever the text between the last newline before the offset and the offset is
    ASCII — whatever precedes that line: multi-byte characters, comments, CRLF, blank lines — the
    printed start column is exactly (offset − byte offset of the line start) + 1, and the reported
    line start is the byte right after the last newline. -/
theorem column_exact_if_line_prefix_ascii (pre post : List Char)
    (hascii : ∀ c ∈ linePrefix pre, c.toNat < 128) :
    (offsetToLocation (pre ++ post) [byteLen pre]).map
        (fun l => (l.column - 1, l.lineStart + byteLen (linePrefix pre))) =
      [((byteLen pre - (byteLen pre - byteLen (linePrefix pre))) + 1, byteLen pre)] := by
  have hv : Boundaries (pre ++ post) [byteLen pre] := by
    intro o ho; simp at ho; subst ho; exact ⟨pre, post, rfl, by simp⟩
  have := locFn_eq_spec pre post [byteLen pre] hv 0 (by simp)
  have hle : byteLen (linePrefix pre) ≤ byteLen pre := by
    have h := byteLen_append (pre.reverse.dropWhile (fun c => !isNl c)).reverse (linePrefix pre)
    have e : (pre.reverse.dropWhile (fun c => !isNl c)).reverse ++ linePrefix pre = pre := by
      simp only [linePrefix, ← List.reverse_append, List.takeWhile_append_dropWhile, List.reverse_reverse]
    rw [e] at h; omega
  simp [offsetToLocation, this, Spec.locate, Spec.column, byteLen_ascii _ hascii] at hle ⊢
  omega

/-- C17.3  asking for several offsets at once gives, for each, the answer of asking for it alone
    (the sorted-stack bookkeeping neither drops nor mixes up requests; repeats are fine). -/
theorem multi_offsets_independent (text : List Char) (offs : List Nat) (hv : Boundaries text offs)
    (i : Nat) (hi : i < offs.length) :
    (offsetToLocation text offs)[i]? = (offsetToLocation text [offs[i]])[0]? := by
  obtain ⟨pre, post, rfl, ho⟩ := hv offs[i] (List.getElem_mem hi)
  simp only [Nat.zero_add] at ho
  have hv1 : Boundaries (pre ++ post) [offs[i]] := by
    intro o h; simp at h; subst h; exact ⟨pre, post, rfl, by simp [ho]⟩
  rw [model_eq_spec pre post offs hv i (by simp [hi, ho]),
      model_eq_spec pre post [offs[i]] hv1 0 (by simp [ho])]

/-- both ends of a span at once: what `CompactFormat` feeds to `print_code_location` -/
theorem span_locations (pre₁ post₁ pre₂ post₂ : List Char) (h : pre₁ ++ post₁ = pre₂ ++ post₂) :
    offsetToLocation (pre₁ ++ post₁) [byteLen pre₁, byteLen pre₂] =
      [Spec.locate pre₁ post₁, Spec.locate pre₂ post₂] := by
  have hv : Boundaries (pre₁ ++ post₁) [byteLen pre₁, byteLen pre₂] := by
    intro o ho; simp at ho
    rcases ho with rfl | rfl
    · exact ⟨pre₁, post₁, rfl, by simp⟩
    · exact ⟨pre₂, post₂, h, by simp⟩
  have h1 := locFn_eq_spec pre₁ post₁ _ hv 0 (by simp)
  have h2 := locFn_eq_spec pre₂ post₂ [byteLen pre₁, byteLen pre₂] (h ▸ hv) 1 (by simp)
  rw [← h] at h2
  simp [offsetToLocation, List.range, List.range.loop, h1, h2]

/-- C17.4  whatever branch `print_code_location` takes, the line and column it prints first are
    the reference line and column of the span's start -/
theorem print_start (pre₁ post₁ pre₂ post₂ : List Char) :
    (printCodeLocation (Spec.locate pre₁ post₁) (Spec.locate pre₂ post₂)).startLine = Spec.line pre₁ ∧
    (printCodeLocation (Spec.locate pre₁ post₁) (Spec.locate pre₂ post₂)).startCol = Spec.column pre₁ := by
  unfold printCodeLocation
  split
  · split
    · rename_i h; simp [Spec.locate] at h ⊢; simp [Printed.startLine, Printed.startCol, ← h]
    · simp [Printed.startLine, Printed.startCol, Spec.locate]
  · simp [Printed.startLine, Printed.startCol, Spec.locate]

/-- span on one line: `line:startcol-endcol`, the end column being that of the span's exclusive
    end plus one (the convention of the existing golden files) -/
theorem print_single_line (pre₁ post₁ pre₂ post₂ : List Char)
    (hl : Spec.line pre₁ = Spec.line pre₂) (hc : Spec.column pre₁ ≠ Spec.column pre₂) :
    printCodeLocation (Spec.locate pre₁ post₁) (Spec.locate pre₂ post₂) =
      .sameLine (Spec.line pre₁) (Spec.column pre₁) (Spec.column pre₂ + 1) := by
  simp [printCodeLocation, Spec.locate, hl, hc]

/-- span over several lines: start line:start column - END line:end column (the start's own line
    and column for the start, the end's own for the end) -/
theorem print_multi_line (pre₁ post₁ pre₂ post₂ : List Char) (hl : Spec.line pre₁ ≠ Spec.line pre₂) :
    printCodeLocation (Spec.locate pre₁ post₁) (Spec.locate pre₂ post₂) =
      .multi (Spec.line pre₁) (Spec.column pre₁) (Spec.line pre₂) (Spec.column pre₂ + 1) := by
  simp [printCodeLocation, Spec.locate, hl]

/-- non-vacuity: the text `"éé" +⏎ error` with the offset of `error` (byte 10, after two 2-byte
    characters): hypotheses of C17.2 hold, reference says line 2, column 2 -/
example :
    let pre := "\"éé\" +\n ".toList
    byteLen pre = 10 ∧ (∀ c ∈ linePrefix pre, c.toNat < 128) ∧ Spec.line pre = 2 ∧ Spec.column pre = 2 := by
  decide

/-- non-vacuity of `Boundaries` with repeats, disorder and multi-byte characters -/
example : Boundaries "é\nx".toList [3, 0, 3, 2, 4] := by
  intro o ho
  simp at ho
  rcases ho with rfl | rfl | rfl | rfl | rfl
  · exact ⟨"é\n".toList, "x".toList, by decide, by decide⟩
  · exact ⟨[], "é\nx".toList, by decide, by decide⟩
  · exact ⟨"é\n".toList, "x".toList, by decide, by decide⟩
  · exact ⟨"é".toList, "\nx".toList, by decide, by decide⟩
  · exact ⟨"é\nx".toList, [], by decide, by decide⟩

end JrsVerif.Loc

namespace JrsVerif.Tile

/-- C17.5  token ranges that tile `[0, len)` (each starts where the previous ended, none reversed,
    last ends at `len`) lose nothing: the token texts concatenated are the input, for every input.
    (`tilesB` is the statement the check evaluates on the real lexer's ranges.) -/
theorem tiling_lossless {α : Type} (xs : List α) (rs : List (Nat × Nat))
    (h : tilesB 0 xs.length rs = true) : (rs.map (slice xs)).flatten = xs := by
  simpa using tiles_concat_from xs rs 0 h

example : tilesB 0 5 [(0, 2), (2, 2), (2, 5)] = true ∧ tilesB 0 5 [(0, 2), (3, 5)] = false := by decide

end JrsVerif.Tile
