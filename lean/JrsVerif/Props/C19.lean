/- C19: property theorems (not yet built). -/
