/-
  C19 — Formatting preserves the program (translation validation with a proved-sound validator).

  The formatter is not modelled.  Every output the check sees is accepted only if `Fmt.accept`
  holds for it (evaluated by the driver on the ASTs serialised from the REAL parser and on the token
  streams of the REAL lexer).  The theorems below say what acceptance implies.

  Semantics.  `validate_sound` is stated for an arbitrary compositional semantics (`Fmt.Alg`: the
  meaning of a node is a function of its label and of the meanings of its children) that gives the
  two members of each documented sugar pair the same meaning (`Fmt.SugarLaws`).  It is NOT a
  theorem about `Model/Eval.run` as a whole: that interpreter stores syntax in closures, so it is not
  literally a fold.  What is proved about it is that the only two places where it consumes a bind /
  a method (`bindLocals`, `wrapParams`) treat both sugar forms identically, and that evaluating a
  `local` is the same computation for both forms (`eval_local_sugar`, for every fuel, context and
  store).  The real evaluator's corresponding call sites are shape-checked by `extract/ex_c19.py`,
  and every case is also evaluated by the real evaluator before and after formatting.
-/
import JrsVerif.Proofs.Fmt
import JrsVerif.Proofs.FmtEval
import JrsVerif.Proofs.FmtWfNorm
import JrsVerif.Proofs.FmtEvalCongr

namespace JrsVerif.Props.C19
open JrsVerif.Fmt

/-! ### 1. the validator is sound -/

/-- a semantics that respects the sugar cannot distinguish a tree from its normal form -/
theorem norm_sound {α : Type} (A : Alg α) (h : SugarLaws A) (t : Tree) : fold A (norm t) = fold A t :=
  fold_norm A h t

/-- "the same abstract syntax tree up to the documented sugar equivalences, HENCE the same
    evaluation result": equal normal forms have equal meaning in every compositional semantics that
    treats `local f = function(ps) e` like `local f(ps) = e` and `f: function(ps) e` like `f(ps): e` -/
theorem validate_sound {α : Type} (A : Alg α) (h : SugarLaws A) (a b : Tree) (v : validate a b) :
    fold A a = fold A b := by
  rw [← fold_norm A h a, ← fold_norm A h b]
  exact congrArg (fold A) v

/-- the two rewrites taken one at a time -/
theorem sugar_local_sound {α : Type} (A : Alg α) (h : SugarLaws A) (n body : Tree) (ps : List Tree) :
    fold A (.node "bind" [.node "dfull" [n], .node "func" [.node "params" ps, body]])
      = fold A (.node "fn" [.node "dfull" [n], .node "params" ps, body]) := by
  simp only [fold, foldList]; exact h.local_fn _ _ _

theorem sugar_field_sound {α : Type} (A : Alg α) (h : SugarLaws A) (nm vis body : Tree) (ps : List Tree) :
    fold A (.node "field" [nm, .atom "false", .node "none" [], vis, .node "func" [.node "params" ps, body]])
      = fold A (.node "field" [nm, .atom "false", .node "params" ps, vis, body]) := by
  simp only [fold, foldList]; exact h.field_fn _ _ _ _

/-- validation is an equivalence relation containing `t ~ norm t` -/
theorem validate_refl (t : Tree) : validate t t := rfl
theorem validate_symm {a b : Tree} (h : validate a b) : validate b a := Eq.symm h
theorem validate_trans {a b c : Tree} (h1 : validate a b) (h2 : validate b c) : validate a c :=
  Eq.trans h1 h2

/-! ### 2. the normal form -/

/-- a second pass has no sugar left to rewrite -/
theorem norm_idempotent (t : Tree) : norm (norm t) = norm t := norm_idem t

theorem validate_norm (t : Tree) : validate t (norm t) := (norm_idem t).symm

/-- the validator is exact on normal forms: two normal trees validate iff they are equal -/
theorem validate_normal_iff (a b : Tree) (ha : norm a = a) (hb : norm b = b) : validate a b ↔ a = b := by
  unfold validate; rw [ha, hb]

/-- ★ the normal form of a tree of the shape grammar is a tree of the shape grammar, in every
    syntactic category (`wfS`: the table-driven, structurally recursive form of the grammar the
    driver checks on every serialised tree; `Model/FmtWfS.lean`) -/
theorem norm_preserves_wellformed_cat (s : Srt) (t : Tree) (h : wfS s t = true) : wfS s (norm t) = true :=
  wfS_norm t s h

/-- ★ `norm_preserves_wellformed`: normalising a serialised program yields a serialised program -/
theorem norm_preserves_wellformed (t : Tree) (h : wfProg t = true) : wfProg (norm t) = true :=
  wfS_norm t .expr h

/-- one rewrite step stays inside its category too (a `bind` becomes a `bind`, a `field` a `field`) -/
theorem sugarHead_preserves_wellformed (s : Srt) (t : Tree) (h : wfS s t = true) :
    wfS s (sugarHead t) = true := wfS_sugarHead s t h

/-- whatever validates against a well-formed program has a well-formed normal form -/
theorem validate_wellformed (a b : Tree) (v : validate a b) (h : wfProg a = true) : wfProg (norm b) = true := by
  unfold validate at v; rw [← v]; exact norm_preserves_wellformed a h

/-! ### 3. the interpreter model treats the sugar pairs alike -/

open JrsVerif.Eval in
/-- the interpreter allocates the same thunks and builds the same environment for
    `local f(ps) = e` and `local f = function(ps) e` -/
theorem eval_bindLocals_sugar (c : Ctx) (bs : List Bind) (t : Option (ObjId × Nat)) (d : Option ObjId) :
    bindLocals c (bs.map unsugarBind) t d = bindLocals c bs t d := bindLocals_sugar c bs t d

open JrsVerif.Eval in
/-- evaluating a `local` whose binds are written in either form is the same computation
    (same result, same store, same trace) for every fuel and context -/
theorem eval_local_sugar (fuel : Nat) (c : Ctx) (bs : List Bind) (body : Expr) :
    run fuel (.eval c (.localE (bs.map unsugarBind) body)) = run fuel (.eval c (.localE bs body)) :=
  run_local_sugar fuel c bs body

open JrsVerif.Eval in
/-- the interpreter stores the same field body for `f(ps): e` and `f: function(ps) e` -/
theorem eval_field_sugar (f : Field) : fieldBody (unsugarField f) = fieldBody f := fieldBody_sugar f

open JrsVerif.Eval in
/-- ★ congruence: the `local` sugar may be rewritten (in either direction, any number of times)
    anywhere below the *strict* constructors of an expression — operand of a unary operator or of
    `error`, operands of a binary operator other than `in`, condition and branches of `if`,
    condition / message / continuation of `assert`, body of a `local`, callee of an application —
    and evaluation stays the same computation: same result, same store, same trace, for every fuel
    and every context.  (Positions that are stored in thunks or closures — array elements, call
    arguments, function bodies, object members, bound values — are NOT covered: there the two stores
    differ syntactically and a store bisimulation would be needed.) -/
theorem eval_strict_congruence {e e' : Expr} (h : StrictEq e e') (fuel : Nat) (c : Ctx) :
    run fuel (.eval c e) = run fuel (.eval c e') := strictEq_sameRun h fuel c

open JrsVerif.Eval in
/-- the single-constructor congruence steps `eval_strict_congruence` is made of -/
theorem eval_congr_if {cd cd' t t' e e' : Expr} (hc : SameRun cd cd') (ht : SameRun t t') (he : SameRun e e') :
    SameRun (.ifE cd t (some e)) (.ifE cd' t' (some e')) := sameRun_ifSome hc ht he

open JrsVerif.Eval in
theorem eval_congr_binary (op : BOp) (hop : op ≠ .in_) {a a' b b' : Expr} (ha : SameRun a a') (hb : SameRun b b') :
    SameRun (.binary op a b) (.binary op a' b') := sameRun_binary op hop ha hb

open JrsVerif.Eval in
theorem eval_congr_local_body (bs : List Bind) {b b' : Expr} (h : SameRun b b') :
    SameRun (.localE bs b) (.localE bs b') := sameRun_localBody bs h

open JrsVerif.Eval in
/-- non-vacuity: `if !(local f(x) = x; true) then 1 else 2` and the same program with
    `local f = function(x) x` are related, hence evaluate identically -/
example : StrictEq
    (.ifE (.unary .not (.localE [.val "f" (.func [.mk "x" none] (.var "x"))] .tru)) (.num 1) (some (.num 2)))
    (.ifE (.unary .not (.localE [.fn "f" [.mk "x" none] (.var "x")] .tru)) (.num 1) (some (.num 2))) :=
  .ifSome (.unary .not (.sugar [.fn "f" [.mk "x" none] (.var "x")] (.refl _))) (.refl _) (.refl _)

/-! ### 4. comments -/

/-- the comment sequence depends only on the comment tokens, in order: everything else
    (white space, and every significant token) can be deleted without changing it -/
theorem comments_of_strip_invariant (ts : List Tok) : comments (ts.filter isComment) = comments ts := by
  induction ts with
  | nil => rfl
  | cons t ts ih =>
    unfold comments at ih ⊢
    by_cases h : isComment t = true
    · simp only [List.filter_cons, h, if_true, List.filterMap_cons]; rw [ih]
    · simp only [List.filter_cons, h, List.filterMap_cons]; exact ih

/-- hence two token streams with the same comment tokens have the same comment sequence … -/
theorem comments_eq_of_same_comment_tokens (a b : List Tok)
    (h : a.filter isComment = b.filter isComment) : comments a = comments b := by
  rw [← comments_of_strip_invariant a, ← comments_of_strip_invariant b, h]

/-- … inserting or deleting a non-comment token anywhere does not change it … -/
theorem comments_insert_other (a b : List Tok) (t : Tok) (h : isComment t = false) :
    comments (a ++ t :: b) = comments (a ++ b) := by
  unfold comments
  simp only [List.filterMap_append, List.filterMap_cons, h]
  rfl

/-- … and it is a homomorphism (order is preserved) -/
theorem comments_append (a b : List Tok) : comments (a ++ b) = comments a ++ comments b := by
  unfold comments; exact List.filterMap_append ..

/-- every comment token contributes exactly one entry: nothing is merged or dropped by the projection -/
theorem comments_length (ts : List Tok) : (comments ts).length = (ts.filter isComment).length := by
  induction ts with
  | nil => rfl
  | cons t ts ih =>
    unfold comments at ih ⊢
    by_cases h : isComment t = true
    · simp only [List.filter_cons, h, if_true, List.filterMap_cons, List.length_cons]; rw [ih]
    · simp only [List.filter_cons, h, List.filterMap_cons]; exact ih

/-! ### 5. what acceptance of a case means -/

/-- if the driver accepts a case, the formatter did not crash and either declined or produced text
    that the evaluator's parser accepted, whose tree has the same meaning as the input's in every
    sugar-respecting compositional semantics, and whose comment sequence equals the input's -/
theorem accept_sound (c : Case) (h : accept c = true) :
    c.panicked = false ∧
    (c.declined = true ∨
      ∃ o, c.outAst = some o ∧ validate c.inAst o
        ∧ (∀ (α : Type) (A : Alg α), SugarLaws A → fold A c.inAst = fold A o)
        ∧ comments c.inToks = comments c.outToks) := by
  unfold accept at h
  simp only [Bool.and_eq_true, Bool.not_eq_true', Bool.or_eq_true] at h
  refine ⟨h.1, ?_⟩
  rcases h.2 with hd | ⟨⟨⟨ha, hc⟩, _⟩, _⟩
  · exact .inl hd
  · right
    unfold Case.astOk at ha
    cases ho : c.outAst with
    | none => rw [ho] at ha; exact absurd ha (by simp)
    | some o =>
      rw [ho] at ha
      have hv : validate c.inAst o := of_decide_eq_true ha
      refine ⟨o, rfl, hv, fun α A hl => validate_sound A hl _ _ hv, ?_⟩
      unfold Case.commentsOk at hc
      exact eq_of_beq hc

/-! ### non-vacuity -/

/-- there is a sugar-respecting semantics that is not constant: expanding the sugar -/
example : SugarLaws expandAlg := ⟨fun _ _ _ => rfl, fun _ _ _ _ => rfl⟩

private def tF : Tree := .node "func" [.node "params" [.node "param" [.node "dfull" [.atom "x"], .node "none" []]], .node "var" [.atom "x"]]
private def tLocalExplicit : Tree := .node "local" [.node "binds" [.node "bind" [.node "dfull" [.atom "f"], tF]], .node "var" [.atom "f"]]
private def tLocalSugar : Tree :=
  .node "local" [.node "binds" [.node "fn" [.node "dfull" [.atom "f"],
    .node "params" [.node "param" [.node "dfull" [.atom "x"], .node "none" []]], .node "var" [.atom "x"]]], .node "var" [.atom "f"]]

/-- `local f = function(x) x; f` validates against `local f(x) = x; f` … -/
example : validate tLocalExplicit tLocalSugar := by decide
/-- … but not against a program with another body, nor when `tailstrict` is dropped -/
example : ¬ validate tLocalExplicit (.node "local" [.node "binds" [], .node "var" [.atom "f"]]) := by decide
example : ¬ validate
    (.node "apply" [.node "var" [.atom "f"], .node "args" [], .node "named" [], .atom "true"])
    (.node "apply" [.node "var" [.atom "f"], .node "args" [], .node "named" [], .atom "false"]) := by decide
/-- `f+: function(x) x` is NOT identified with a method (the method form has no `+`) -/
example : sugarHead (.node "field" [.node "fixed" [.atom "f"], .atom "true", .node "none" [], .atom ":", tF])
    = .node "field" [.node "fixed" [.atom "f"], .atom "true", .node "none" [], .atom ":", tF] := by decide
/-- the table-driven grammar reduces: both sample programs are well-formed, a `bind` with a missing
    value or a `tailstrict` flag that is not an atom is not -/
example : wfProg tLocalExplicit = true ∧ wfProg tLocalSugar = true ∧ wfProg (norm tLocalExplicit) = true := by decide
example : wfProg (.node "local" [.node "binds" [.node "bind" [.node "dfull" [.atom "f"]]], .node "var" [.atom "f"]]) = false := by decide
example : wfProg (.node "apply" [.node "var" [.atom "f"], .node "args" [], .node "named" [], .node "x" []]) = false := by decide
example : comments [⟨"WHITESPACE", " "⟩, ⟨"SINGLE_LINE_HASH_COMMENT", "#  a  b"⟩, ⟨"IDENT", "x"⟩,
      ⟨"MULTI_LINE_COMMENT", "/* c\n   d */"⟩]
    = [("SINGLE_LINE_HASH_COMMENT", ["a", "b"]), ("MULTI_LINE_COMMENT", ["c", "d"])] := by decide
/-- one marker is removed, the one of the comment's kind: what the formatter prints for `#//x`,
    `/*#x*/`, `////x` and the comments without text `/**/`, `/***/` has the same words -/
example : commentWords "#//x" = commentWords "# //x" ∧ commentWords "/*#x*/" = commentWords "/* #x */"
    ∧ commentWords "////x" = commentWords "// //x" ∧ commentWords "/**/" = commentWords "/* */"
    ∧ commentWords "/***/" = commentWords "/** */" ∧ commentWords "#//x" ≠ commentWords "# x" := by decide

end JrsVerif.Props.C19
