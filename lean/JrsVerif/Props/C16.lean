/-
  C16 — results are deterministic and independent of history: property theorems.

  Hash-map iteration order is an explicit, arbitrary input of the model (`Model/Det.lean`): a layer
  lists its names in the order its `FxHashMap`/`FxHashSet` yields them, the map built by
  `fields_visibility` is iterated through an arbitrary permutation `iter`, `iter_keys` yields each
  scope's names in arbitrary order, `apply_tla` receives its arguments in arbitrary order.
  Every theorem says: the answer is the same for every such order.
-/
import JrsVerif.Proofs.Det

namespace JrsVerif.Props.C16
open JrsVerif.Det List

/-- an iteration order of a map: yields exactly the entries, in some order -/
def IsIter (iter : Map → Map) : Prop := ∀ m, (iter m).Perm m

theorem fieldsVisibility_perm {cs cs' : List Core} (h : Rel2 CorePerm cs cs')
    (wf : ∀ c ∈ cs, CoreWF c) : (fieldsVisibility cs).Perm (fieldsVisibility cs') := by
  have nd : ∀ cs : List Core, (visFold cs.reverse 0 []).Nodup := fun cs =>
    (pairwise_map.mp (keysNodup_visFold cs.reverse 0 [] (by simp [KeysNodup]))).imp
      (fun hne e => hne (by rw [e]))
  rw [fieldsVisibility, fieldsVisibility,
    perm_ext_iff_of_nodup ((nd cs).sublist filter_sublist) ((nd cs').sublist filter_sublist)]
  rintro ⟨k, d⟩
  simp only [mem_filter]
  rw [mem_iff_mlookup _ (keysNodup_visFold cs.reverse 0 [] (by simp [KeysNodup])),
    mem_iff_mlookup _ (keysNodup_visFold cs'.reverse 0 [] (by simp [KeysNodup])),
    mlookup_visFold, mlookup_visFold,
    dataGo_perm h.reverse (fun c hc => wf c (mem_reverse.mp hc))]

/-- **Field enumeration never depends on hash-table iteration order.**  Whatever order each layer's
    map yields its names in (`CorePerm`), and whatever order the collected map is iterated in
    (`iter`, `iter'`), `fields_ex` returns the same list. -/
theorem fieldsEx_perm_invariant {cs cs' : List Core} (h : Rel2 CorePerm cs cs')
    (wf : ∀ c ∈ cs, CoreWF c) {iter iter' : Map → Map} (hi : IsIter iter) (hi' : IsIter iter')
    (includeHidden : Bool) :
    fieldsEx iter cs includeHidden = fieldsEx iter' cs' includeHidden := by
  unfold fieldsEx
  apply mergeSort_eq_of_perm nameLe nameLe_trans nameLe_total
  · intro a b _ _; exact nameLe_antisymm a b
  · exact (((hi _).trans ((fieldsVisibility_perm h wf).trans (hi' _).symm)).filter _).map _

/-- the enumeration is in ascending byte order of the names -/
theorem fieldsEx_sorted (iter : Map → Map) (cs : List Core) (b : Bool) :
    (fieldsEx iter cs b).Pairwise (fun x y => nameLe x y = true) :=
  pairwise_mergeSort nameLe_trans nameLe_total _

/-- `ObjValue::len` (number of visible fields) does not depend on iteration order either -/
theorem objLen_perm_invariant {cs cs' : List Core} (h : Rel2 CorePerm cs cs')
    (wf : ∀ c ∈ cs, CoreWF c) {iter iter' : Map → Map} (hi : IsIter iter) (hi' : IsIter iter') :
    objLen iter cs = objLen iter' cs' :=
  (((hi _).trans ((fieldsVisibility_perm h wf).trans (hi' _).symm)).filter _).length_eq

/-- non-vacuity: a three-layer object (hidden/unhide members, a removal) whose layers and result map
    are enumerated in two different orders: the hypotheses hold and the answer is the sorted list -/
example :
    let cs := [Core.oop [([98], .normal), ([97], .hidden), ([99], .normal)], Core.omitC [[99]] 1,
               Core.oop [([97], .unhide), ([100], .normal)]]
    let cs' := [Core.oop [([99], .normal), ([98], .normal), ([97], .hidden)], Core.omitC [[99]] 1,
                Core.oop [([100], .normal), ([97], .unhide)]]
    Rel2 CorePerm cs cs' ∧ (∀ c ∈ cs, CoreWF c) ∧ IsIter id ∧ IsIter List.reverse ∧
    fieldsEx List.reverse cs' false = [[97], [98], [100]] := by
  refine ⟨?_, ?_, fun _ => .refl _, fun m => reverse_perm m, ?_⟩
  · exact .cons (.oop (by decide)) (.cons (.omitC (by decide)) (.cons (.oop (by decide)) .nil))
  · intro c hc
    simp only [mem_cons, not_mem_nil, or_false] at hc
    rcases hc with rfl | rfl | rfl <;> simp [CoreWF]
  · unfold fieldsEx
    exact mergeSort_eq_of_sorted_perm nameLe nameLe_trans nameLe_total
      (fun a b _ _ => nameLe_antisymm a b) (by decide) (by decide)

/-- **"did you mean" for fields** (`suggest_object_fields`): a stable sort by score of the
    enumeration above, hence independent of iteration order as well. -/
theorem suggestFields_perm_invariant {cs cs' : List Core} (h : Rel2 CorePerm cs cs')
    (wf : ∀ c ∈ cs, CoreWF c) {iter iter' : Map → Map} (hi : IsIter iter) (hi' : IsIter iter')
    (score : Name → Nat) :
    suggestFields iter cs score = suggestFields iter' cs' score := by
  unfold suggestFields
  rw [fieldsEx_perm_invariant h wf hi hi' true]

/-- **"did you mean" for locals** (`Context::binding`, repaired): the ranking is a function of the
    multiset of (score, name) pairs, not of the order `iter_keys` produced them in. -/
theorem suggestLocals_perm_invariant {keys keys' : List Cand} (h : keys.Perm keys') :
    suggestLocals keys = suggestLocals keys' := by
  unfold suggestLocals
  rw [mergeSort_eq_of_perm candLe candLe_trans candLe_total
    (fun a b _ _ => candLe_antisymm a b) (h.filter _)]

/-- the same, phrased on scopes: each scope's map may yield its names in any order -/
theorem suggestLocals_scopes_perm_invariant {scopes scopes' : List (List Cand)}
    (h : Rel2 List.Perm scopes scopes') :
    suggestLocals scopes.flatten = suggestLocals scopes'.flatten :=
  suggestLocals_perm_invariant h.flatten_perm

/-- the full statement for the comparator as it was before the repair (ties between equal scores
    left to the stable sort, i.e. to the iteration order) -/
def SuggestLocalsOldStmt : Prop :=
  ∀ keys keys' : List Cand, keys.Perm keys' → suggestLocalsOld keys = suggestLocalsOld keys'

/-- … is false: `local abc1 = 1, abc2 = 2; abc` — two names with the same score -/
theorem suggestLocalsOld_counterexample : ¬ SuggestLocalsOldStmt := by
  intro h
  have := h [⟨thr, [97, 98, 99, 49]⟩, ⟨thr, [97, 98, 99, 50]⟩]
            [⟨thr, [97, 98, 99, 50]⟩, ⟨thr, [97, 98, 99, 49]⟩] (Perm.swap _ _ _)
  simp only [suggestLocalsOld] at this
  have f1 : ([⟨thr, [97, 98, 99, 49]⟩, ⟨thr, [97, 98, 99, 50]⟩] : List Cand).filter
      (fun c => decide (thr ≤ c.score)) = [⟨thr, [97, 98, 99, 49]⟩, ⟨thr, [97, 98, 99, 50]⟩] := by decide
  have f2 : ([⟨thr, [97, 98, 99, 50]⟩, ⟨thr, [97, 98, 99, 49]⟩] : List Cand).filter
      (fun c => decide (thr ≤ c.score)) = [⟨thr, [97, 98, 99, 50]⟩, ⟨thr, [97, 98, 99, 49]⟩] := by decide
  rw [f1, f2, mergeSort_of_pairwise (by decide), mergeSort_of_pairwise (by decide)] at this
  exact absurd this (by decide)

/-- without score ties the old comparator was already order-independent: the repair changes
    nothing but the order among equal scores -/
theorem suggestLocalsOld_partial {keys keys' : List Cand} (h : keys.Perm keys')
    (noTies : ∀ a ∈ keys, ∀ b ∈ keys, a.score = b.score → a = b) :
    suggestLocalsOld keys = suggestLocalsOld keys' := by
  unfold suggestLocalsOld
  rw [mergeSort_eq_of_perm candLeOld
    (by intro a b c; simp only [candLeOld, decide_eq_true_eq]; omega)
    (by intro a b; simp only [candLeOld, Bool.or_eq_true, decide_eq_true_eq]; omega)
    (by
      intro a b ha hb h1 h2
      simp only [candLeOld, decide_eq_true_eq] at h1 h2
      exact noTies a (mem_filter.mp ha).1 b (mem_filter.mp hb).1 (by omega))
    (h.filter _)]

example : suggestLocals [⟨thr + 5, [98]⟩, ⟨thr, [97, 50]⟩, ⟨0, [122]⟩, ⟨thr, [97, 49]⟩]
    = [[98], [97, 49], [97, 50]] := by
  unfold suggestLocals
  rw [mergeSort_eq_of_sorted_perm candLe candLe_trans candLe_total (fun a b _ _ => candLe_antisymm a b)
    (s := [⟨thr + 5, [98]⟩, ⟨thr, [97, 49]⟩, ⟨thr, [97, 50]⟩]) (by decide) (by decide)]
  rfl

/-- **Which of several possible errors is reported** (`apply_tla`, repaired): the outcome — the
    argument whose import does not resolve, the unknown parameter name, the unbound parameter — is
    the same for every iteration order of the argument map (whose keys are distinct). -/
theorem applyTla_perm_invariant {args args' : List (Name × ArgKind)} (h : args.Perm args')
    (keys : (args.map (·.1)).Nodup) (params : List Param) :
    applyTla args params = applyTla args' params := by
  unfold applyTla
  rw [mergeSort_eq_of_perm (fun a b : Name × ArgKind => nameLe a.1 b.1)
    (fun a b c => nameLe_trans a.1 b.1 c.1) (fun a b => nameLe_total a.1 b.1)
    (fun a b ha hb h1 h2 => eq_of_mem_of_nodup_fst keys a ha b hb (nameLe_antisymm _ _ h1 h2)) h]

def ApplyTlaOldStmt : Prop :=
  ∀ (args args' : List (Name × ArgKind)) (params : List Param), args.Perm args' →
    (args.map (·.1)).Nodup → applyTlaOld args params = applyTlaOld args' params

/-- before the repair: `function(x, y) x` with arguments `a`, `b` reports either name -/
theorem applyTlaOld_counterexample : ¬ ApplyTlaOldStmt := by
  intro h
  have := h [([97], .ok), ([98], .ok)] [([98], .ok), ([97], .ok)]
    [⟨[120], false⟩, ⟨[121], false⟩] (Perm.swap _ _ _) (by decide)
  exact absurd this (by decide)

example : applyTla [([98], .unresolvable), ([97], .unresolvable)] [⟨[97], false⟩, ⟨[98], false⟩]
    = .importNotFound [97] := by
  unfold applyTla
  rw [mergeSort_eq_of_sorted_perm (fun a b : Name × ArgKind => nameLe a.1 b.1)
    (fun a b c => nameLe_trans a.1 b.1 c.1) (fun a b => nameLe_total a.1 b.1)
    (s := [([97], .unresolvable), ([98], .unresolvable)])
    (fun a b ha hb h1 h2 => eq_of_mem_of_nodup_fst (by decide) a ha b hb (nameLe_antisymm _ _ h1 h2))
    (by decide) (by decide)]
  rfl

/-- **The depth counter is restored** by every evaluation, successful, failing or stopped by the
    limit (`StackDepthGuard`). -/
theorem stack_depth_restored (limit : Nat) (p : Ev2) (d : Nat) : (run limit p d).2 = d :=
  run_depth limit p d

/-- **History independence of the stack limit**: on a long-lived thread, after any sequence of
    earlier evaluations, a program meets the limit exactly where it meets it on a fresh thread. -/
theorem stack_history_independent (limit : Nat) (hist : List Ev2) (p : Ev2) (d : Nat) :
    afterHistory limit hist p d = run limit p d := by
  unfold afterHistory
  have : ∀ (hist : List Ev2) (d : Nat), hist.foldl (fun d h => (run limit h d).2) d = d := by
    intro hist
    induction hist with
    | nil => intro d; rfl
    | cons a r ih => intro d; rw [foldl_cons, run_depth]; exact ih d
  rw [this]

/-- non-vacuity: a history containing an evaluation stopped by the limit and a failing one -/
example : afterHistory 2 [.frame [.frame [.frame [.ret]]], .frame [.fail, .ret]] (.frame [.frame [.ret]]) 0
    = (true, 0) ∧ run 2 (.frame [.frame [.frame [.ret]]]) 0 = (false, 0) := by
  constructor <;> rfl

end JrsVerif.Props.C16
