/- C16: property theorems (not yet built). -/
