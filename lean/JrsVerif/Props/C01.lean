/- C01: property theorems (not yet built). -/
